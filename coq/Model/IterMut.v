(* src/iter/iter_mut.rs at the level of pointer values: the two state machines IterVectorsMut (outer: yields the
   row / column iterators) and IterNthVectorMut (inner: yields &mut T), both arms (zero-sized elements: the "pointers" are
   plain counters built with without_provenance_mut and never dereferenced; other elements: NonNull::add / sub inside the
   buffer).  Statement for statement; every primitive that is `unsafe` in Rust returns UB when its precondition fails:
     NonNull::add / sub     the result must stay inside the allocation [base, base + bytes]   (ptr::add contract)
     NonNull::new_unchecked the address must not be null
   and every usize addition / subtraction / multiplication goes through the machine arithmetic of Base/Machine.v. *)
From Matreex Require Export Base.Machine Model.Kernel.

Section IterMut.
Variable c : cfg.
Variable es : Z.            (* size_of::<T>() *)
Variable al : Z.            (* align_of::<T>() = NonNull::dangling().addr() *)
Variables base bytes : Z.   (* the allocation behind matrix.data (for size_of::<T>() > 0) *)

Definition nn_add (p n : Z) : res Z :=
  let a := p + n * es in if (base <=? a) && (a <=? base + bytes) then Val a else UB UBPtr.
Definition nn_sub (p n : Z) : res Z :=
  let a := p - n * es in if (base <=? a) && (a <=? base + bytes) then Val a else UB UBPtr.
Definition nn_new_unchecked (a : Z) : res Z := if a =? 0 then UB UBNull else Val a.

(* self.lower = if size_of::<T>() == 0 { new_unchecked(without_provenance_mut(lower.addr() + n)) } else { lower.add(n) } *)
Definition step_fwd (p n : Z) : res Z :=
  if es =? 0 then let* a := uadd c p n in nn_new_unchecked a else nn_add p n.
Definition step_back (p n : Z) : res Z :=
  if es =? 0 then let* a := usub c p n in nn_new_unchecked a else nn_sub p n.

(* ---------- IterNthVectorMut ---------- *)
Record IterNth := mkNth { n_lower : Z; n_upper : Z; n_stride : option Z }.

Definition Nth_assemble (lower stride length : Z) : res IterNth :=        (* iter_mut.rs assemble *)
  let* t := usub c length 1 in
  let* offset := umul c t stride in
  let* upper := step_fwd lower offset in
  Val (mkNth lower upper (Some stride)).

(* the reference handed out: NonNull::dangling() for zero-sized elements, the lower / upper pointer otherwise;
   the second component identifies the position the reference stands for (the counter, resp. the address) *)
Definition Nth_next (s : IterNth) : res (IterNth * option (Z * Z)) :=
  match n_stride s with
  | None => Val (s, None)
  | Some stride =>
    let result := (if es =? 0 then al else n_lower s, n_lower s) in
    if n_lower s =? n_upper s then Val (mkNth (n_lower s) (n_upper s) None, Some result)
    else let* lo := step_fwd (n_lower s) stride in Val (mkNth lo (n_upper s) (Some stride), Some result)
  end.
Definition Nth_next_back (s : IterNth) : res (IterNth * option (Z * Z)) :=
  match n_stride s with
  | None => Val (s, None)
  | Some stride =>
    let result := (if es =? 0 then al else n_upper s, n_upper s) in
    if n_lower s =? n_upper s then Val (mkNth (n_lower s) (n_upper s) None, Some result)
    else let* up := step_back (n_upper s) stride in Val (mkNth (n_lower s) up (Some stride), Some result)
  end.
Definition Nth_len (s : IterNth) : res Z :=                              (* size_hint().0 *)
  match n_stride s with
  | None => Val 0
  | Some stride =>
    let* d := usub c (n_upper s) (n_lower s) in
    let* m := umul c stride (if es =? 0 then 1 else es) in
    let* q := udiv d m in
    uadd c 1 q
  end.

(* ---------- IterVectorsMut ---------- *)
Record Layout := mkLayout { axis_stride : Z; vector_stride : Z; vector_length : Z }.
Record IterVecs := mkVecs { v_lower : Z; v_upper : Z; v_layout : option Layout }.

Definition Vecs_empty : IterVecs := mkVecs al al None.
Definition Vecs_assemble (buffer axis_str axis_len vec_str vec_len : Z) : res IterVecs :=
  let* lower := (if es =? 0 then nn_new_unchecked 1 else Val buffer) in
  let* t := usub c axis_len 1 in
  let* offset := umul c axis_str t in
  let* upper := step_fwd lower offset in
  Val (mkVecs lower upper (Some (mkLayout axis_str vec_str vec_len))).

Definition Vecs_next (s : IterVecs) : res (IterVecs * option IterNth) :=
  match v_layout s with
  | None => Val (s, None)
  | Some l =>
    let* result := Nth_assemble (v_lower s) (vector_stride l) (vector_length l) in
    if v_lower s =? v_upper s then Val (mkVecs (v_lower s) (v_upper s) None, Some result)
    else let* lo := step_fwd (v_lower s) (axis_stride l) in Val (mkVecs lo (v_upper s) (Some l), Some result)
  end.
Definition Vecs_next_back (s : IterVecs) : res (IterVecs * option IterNth) :=
  match v_layout s with
  | None => Val (s, None)
  | Some l =>
    let* result := Nth_assemble (v_upper s) (vector_stride l) (vector_length l) in
    if v_lower s =? v_upper s then Val (mkVecs (v_lower s) (v_upper s) None, Some result)
    else let* up := step_back (v_upper s) (axis_stride l) in Val (mkVecs (v_lower s) up (Some l), Some result)
  end.
Definition Vecs_len (s : IterVecs) : res Z :=
  match v_layout s with
  | None => Val 0
  | Some l =>
    let* d := usub c (v_upper s) (v_lower s) in
    let* m := umul c (axis_stride l) (if es =? 0 then 1 else es) in
    let* q := udiv d m in
    uadd c 1 q
  end.

(* NonZero::new_unchecked *)
Definition nz_new_unchecked (a : Z) : res Z := if a =? 0 then UB UBNonZero else Val a.

(* IterVectorsMut::over_major_axis / over_minor_axis on a matrix with `len` stored elements and axis shape `sh`;
   `base` is matrix.data.as_mut_ptr().  Statement for statement: the emptiness test, the unchecked NonNull / NonZero
   conversions (UB on 0), then assemble. *)
Definition Vecs_over_major_axis (len : Z) (sh : AxisShape) : res IterVecs :=
  if len =? 0 then Val Vecs_empty else
  let* buffer := nn_new_unchecked base in
  let* axis_str := nz_new_unchecked (AxisShape_major_stride sh) in
  let* axis_len := nz_new_unchecked (major sh) in
  let* vec_str := nz_new_unchecked (AxisShape_minor_stride sh) in
  let* vec_len := nz_new_unchecked (minor sh) in
  Vecs_assemble buffer axis_str axis_len vec_str vec_len.
Definition Vecs_over_minor_axis (len : Z) (sh : AxisShape) : res IterVecs :=
  if len =? 0 then Val Vecs_empty else
  let* buffer := nn_new_unchecked base in
  let* axis_str := nz_new_unchecked (AxisShape_minor_stride sh) in
  let* axis_len := nz_new_unchecked (minor sh) in
  let* vec_str := nz_new_unchecked (AxisShape_major_stride sh) in
  let* vec_len := nz_new_unchecked (major sh) in
  Vecs_assemble buffer axis_str axis_len vec_str vec_len.
(* iter.rs: Matrix::iter_rows_mut / iter_cols_mut select the constructor by the storage order *)
Definition Matrix_iter_rows_mut (o : order) (len : Z) (sh : AxisShape) : res IterVecs :=
  match o with RowMajor => Vecs_over_major_axis len sh | ColMajor => Vecs_over_minor_axis len sh end.
Definition Matrix_iter_cols_mut (o : order) (len : Z) (sh : AxisShape) : res IterVecs :=
  match o with RowMajor => Vecs_over_minor_axis len sh | ColMajor => Vecs_over_major_axis len sh end.
End IterMut.

(* ---------- the machines driven by a script, as the harness drives the real iterators ----------
   (who, what) pairs: who = -1 outer, else the index of an inner iterator; what = 0 next, 1 next_back, 2 len.
   Results: Some(k) = the k-th inner iterator was produced / Some(()) = an element reference was produced / None / a length. *)
From Matreex Require Import Model.Obs.

Section Script.
Variable c : cfg.
Variables es al base bytes : Z.

Definition set_nth_z {X} (l : list X) (k : Z) (x : X) : list X :=
  if k <? 0 then l else
  let n := Z.to_nat k in firstn n l ++ match skipn n l with [] => [] | _ :: t => x :: t end.

(* Iterator::nth / DoubleEndedIterator::nth_back as the default methods run them on these iterators (they are not
   overridden): k calls of next / next_back whose items are discarded, then one more whose item is the result *)
Fixpoint times_vecs (back : bool) (n : nat) (o : IterVecs) : res (IterVecs * option IterNth) :=
  let step := if back then Vecs_next_back c es base bytes else Vecs_next c es base bytes in
  match n with
  | O => step o
  | S n' => let* r := step o in match snd r with None => Val (fst r, None) | Some _ => times_vecs back n' (fst r) end
  end.
Fixpoint times_nth (back : bool) (n : nat) (i : IterNth) : res (IterNth * option (Z * Z)) :=
  let step := if back then Nth_next_back c es al base bytes else Nth_next c es al base bytes in
  match n with
  | O => step i
  | S n' => let* r := step i in match snd r with None => Val (fst r, None) | Some _ => times_nth back n' (fst r) end
  end.
(* what -> (backwards?, number of discarded items), for the commands that yield an item *)
Definition item_cmd (what : Z) : option (bool * nat) :=
  if what =? 0 then Some (false, O) else if what =? 1 then Some (true, O)
  else if (10 <=? what) && (what <? 90) then Some (false, Z.to_nat (what - 10))
  else if (100 <=? what) && (what <? 180) then Some (true, Z.to_nat (what - 100))
  else None.

Fixpoint mscript (o : IterVecs) (inners : list IterNth) (script : list Z) : list obs :=
  match script with
  | who :: what :: t =>
    if who <? 0 then
      if what =? 2 then
        match Vecs_len c es o with Val k => OZ k :: mscript o inners t | Panic w => [OPanic w] | UB w => [OUB w] end
      else
        match item_cmd what with
        | None => [OInvalid]
        | Some (back, n) =>
          match times_vecs back n o with
          | Val (o', Some i) => OSome (OZ (zlen inners)) :: mscript o' (inners ++ [i]) t
          | Val (o', None) => ONone :: mscript o' inners t
          | Panic w => [OPanic w]
          | UB w => [OUB w]
          end
        end
    else
      match znth_opt who inners with
      | None => [OInvalid]
      | Some i =>
        if what =? 2 then
          match Nth_len c es i with Val k => OZ k :: mscript o inners t | Panic w => [OPanic w] | UB w => [OUB w] end
        else
          match item_cmd what with
          | None => [OInvalid]
          | Some (back, n) =>
            match times_nth back n i with
            | Val (i', Some _) => OSome OUnit :: mscript o (set_nth_z inners who i') t
            | Val (i', None) => ONone :: mscript o (set_nth_z inners who i') t
            | Panic w => [OPanic w]
            | UB w => [OUB w]
            end
          end
      end
  | _ => []
  end.

(* iter_rows_mut (axis 0) / iter_cols_mut (axis 1) of an nrows x ncols matrix stored in `order` (0 row-major) *)
Definition mscript_matrix (nrows ncols order axis : Z) (script : list Z) : obs :=
  let o := if order =? 0 then RowMajor else ColMajor in
  let sh := if order =? 0 then mkAxisShape nrows ncols else mkAxisShape ncols nrows in
  let len := nrows * ncols in
  match (if axis =? 0 then Matrix_iter_rows_mut c es al base bytes o len sh
         else Matrix_iter_cols_mut c es al base bytes o len sh) with
  | Val o => OList (mscript o [] script)
  | Panic w => OPanic w
  | UB w => OUB w
  end.
End Script.

(* the outer constructor as it was before the repair of finding F4: the counters of zero-sized elements started at the
   (aligned) dangling address instead of 1 *)
Definition Vecs_assemble_pinned (c : cfg) (es al base bytes : Z) (axis_str axis_len vec_str vec_len : Z) : res IterVecs :=
  let lower := if es =? 0 then al else base in
  let* t := usub c axis_len 1 in
  let* offset := umul c axis_str t in
  let* upper := step_fwd c es base bytes lower offset in
  Val (mkVecs lower upper (Some (mkLayout axis_str vec_str vec_len))).
