(* The wire format of histories: every operation is (code, integer arguments,
   integer rows).  `decode` is the single place where the numbering is fixed;
   the generator (Python), the harness (Rust, by name) and the extracted driver
   (OCaml, by code) all follow /verif/lib/ops.py which mirrors this table. *)
From Matreex Require Export Model.Step.

Definition dec_ix (kind r cl : Z) (rows : list (list Z)) : option (ix * list (list Z)) :=
  if kind <? 3 then Some (IxPlain kind r cl, rows)
  else if kind =? 3 then Some (IxWrap r cl, rows)
  else match rows with
       | rs :: cs :: rest => Some (IxScript rs cs, rest)
       | _ => None
       end.

Definition script_of (rows : list (list Z)) : list Z := match rows with s :: _ => s | [] => [] end.

Definition decode (code : Z) (a : list Z) (rows : list (list Z)) : option op :=
  match code, a with
  | 1, [d] => Some (New d)
  | 2, [d; n] => Some (WithCapacity d n)
  | 3, [d; r; cl] => Some (WithDefault d r cl)
  | 4, [d; r; cl; v] => Some (WithValue d r cl v)
  | 5, [d; r; cl; f] => Some (WithInit d r cl f)
  | 6, [d] => Some (FromRow d (script_of rows))
  | 7, [d] => Some (FromCol d (script_of rows))
  | 8, [d; kind; nc] => Some (FromArrays d kind nc rows)
  | 9, [d; kind] => Some (TryFromRows d kind rows)
  | 10, [d] => Some (FromIter d rows)
  (* rows given as iterators that report the exact size_hint (h, Some h) whatever they yield (h < 0: (0, None)):
     size hints are advisory, the outcome is that of from_iter *)
  | 13, [d; _] => Some (FromIter d rows)
  | 11, [d; arm; x; y] => Some (MacroOp d arm x y rows)
  | 12, [d] => Some (DefaultM d)
  | 20, [s] => Some (GetOrder s)
  | 21, [s] => Some (GetShape s)
  | 22, [s] => Some (Nrows s)
  | 23, [s] => Some (Ncols s)
  | 24, [s] => Some (Size s)
  | 25, [s] => Some (IsEmpty s)
  | 26, [s] => Some (CapacityGe s)
  | 27, [s; k; r; cl] => match dec_ix k r cl rows with Some (i, _) => Some (Get s i) | None => None end
  | 29, [s; k; r; cl] => match dec_ix k r cl rows with Some (i, _) => Some (IndexOp s i) | None => None end
  | 31, [s; r; cl] => Some (GetUncheckedW s r cl)
  | 32, [s; v] => Some (Contains s v)
  | 33, [s] => Some (IsSquare s)
  | 34, [s; t] => Some (ConformEw s t)
  | 35, [s; t] => Some (ConformMul s t)
  | 36, [s] => Some (EnsureSquare s)
  | 37, [s; t] => Some (EnsureEw s t)
  | 38, [s; t] => Some (EnsureMul s t)
  | 39, [s; t] => Some (EqOp s t)
  | 40, [s] => Some (Display s)
  | 41, [s] => Some (DebugOp s)
  | 50, [s] => Some (Transpose s)
  | 51, [s] => Some (SwitchOrder s)
  | 52, [s] => Some (SwitchOrderWr s)
  | 53, [s; o] => Some (SetOrder s o)
  | 54, [s; o] => Some (SetOrderWr s o)
  | 55, [s; r; cl] => Some (Reshape s r cl)
  | 56, [s; r; cl] => Some (Resize s r cl)
  | 57, [s] => Some (ShrinkToFit s)
  | 58, [s; n] => Some (ShrinkTo s n)
  | 59, [s] => Some (Clear s)
  | 60, [s; k; r; cl; v] => match dec_ix k r cl rows with Some (i, _) => Some (SetAt s i v) | None => None end
  | 61, [s; k; r; cl; v] => match dec_ix k r cl rows with Some (i, _) => Some (SetIndexMut s i v) | None => None end
  | 62, [s; k1; r1; c1; k2; r2; c2] =>
    match dec_ix k1 r1 c1 rows with
    | Some (i, rest) => match dec_ix k2 r2 c2 rest with Some (j, _) => Some (Swap s i j) | None => None end
    | None => None
    end
  | 63, [s; x; y] => Some (SwapRows s x y)
  | 64, [s; x; y] => Some (SwapCols s x y)
  | 65, [d; s] => Some (Overwrite d s)
  | 70, [s; f] => Some (Apply s f)
  | 71, [d; s; f] => Some (MapOp d s f)
  | 72, [d; s; f] => Some (MapRef d s f)
  | 73, [d; s] => Some (CloneOp d s)
  | 76, [d; s] => Some (CloneFrom d s)
  | 74, [d; s] => Some (NegOp d s)
  | 75, [d; s] => Some (NegRef d s)
  | 80, [d; x; y; f] => Some (Ew d x y f)
  | 81, [d; x; y; f] => Some (EwConsume d x y f)
  | 82, [x; y; f] => Some (EwAssign x y f)
  | 83, [opk; variant; d; x; y] => Some (EwNamed opk variant d x y)
  | 84, [opk; form; d; x; y] => Some (OpEw opk form d x y)
  | 85, [opk; form; x; y] => Some (OpEwAssign opk form x y)
  | 90, [d; x; v; f] => Some (Sc d x v f)
  | 91, [d; x; v; f] => Some (ScConsume d x v f)
  | 92, [x; v; f] => Some (ScAssign x v f)
  | 95, [d; x; y] => Some (Multiply d x y)
  | 96, [form; d; x; y] => Some (OpMul form d x y)
  | 97, [d; x; y; f] => Some (MulLike d x y f)
  | 100, [s] => Some (IterRows s (script_of rows))
  | 101, [s] => Some (IterCols s (script_of rows))
  | 102, [s; f] => Some (IterRowsMut s f (script_of rows))
  | 103, [s; f] => Some (IterColsMut s f (script_of rows))
  | 104, [s; n] => Some (IterNthRow s n (script_of rows))
  | 105, [s; n] => Some (IterNthCol s n (script_of rows))
  | 106, [s; n; f] => Some (IterNthRowMut s n f (script_of rows))
  | 107, [s; n; f] => Some (IterNthColMut s n f (script_of rows))
  | 108, [s] => Some (IterElements s (script_of rows))
  | 109, [s; f] => Some (IterElementsMut s f (script_of rows))
  | 110, [s] => Some (IntoIterElements s (script_of rows))
  | 111, [s] => Some (IterElementsIdx s (script_of rows))
  | 112, [s; f] => Some (IterElementsMutIdx s f (script_of rows))
  | 113, [s] => Some (IntoIterElementsIdx s (script_of rows))
  | 120, [s; f] => Some (ParApply s f)
  | 121, [d; s; f] => Some (ParMap d s f)
  | 122, [d; s; f] => Some (ParMapRef d s f)
  | 123, [s] => Some (ParIterElements s)
  | 124, [s; f] => Some (ParIterElementsMut s f)
  | 125, [s] => Some (IntoParIterElements s)
  | 126, [s] => Some (ParIterElementsIdx s)
  | 127, [s; f] => Some (ParIterElementsMutIdx s f)
  | 128, [s] => Some (IntoParIterElementsIdx s)
  | 130, [s] => Some (DropOp s)
  | 140, [s; n; f; axis] => Some (ThreadedVectorsMut s n f axis)
  | 141, [s; front; adaptor; axis] => Some (ThreadedScan s front adaptor axis)
  | _, _ => None
  end.

Definition empty_pool : pool := [None; None; None; None].

(* one wire operation; an undecodable line is reported as OInvalid *)
Definition step_wire (c : cfg) (es : Z) (p : pool) (code : Z) (a : list Z) (rows : list (list Z)) : pool * obs :=
  match decode code a rows with
  | Some o => step c es p o
  | None => (p, OInvalid)
  end.

Definition run_ops (c : cfg) (es : Z) (ops : list op) (p : pool) : pool * list obs :=
  fold_left (fun st o => let '(p', ob) := step c es (fst st) o in (p', snd st ++ [ob])) ops (p, []).
