(* Observations: what one operation of a history shows to the outside. *)
From Matreex Require Export Model.Expr Model.Kernel.

(* ---------- observations ---------- *)
Inductive obs :=
  | OUnit
  | OBool (b : bool)
  | OZ (z : Z)
  | OOrd (o : order)
  | OElem (e : expr)
  | OErr (e : error)
  | OPanic (w : why)
  | OUB (w : why)
  | OInvalid                       (* the history refers to an empty slot or aliases a &mut operand: generator error *)
  | OSome (o : obs)
  | ONone
  | OList (l : list obs)
  | OStr (s : list Z).             (* text as code points *)

Definition OPair (a b : obs) : obs := OList [a; b].

