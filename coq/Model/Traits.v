(* C17: the auto-trait status (Send / Sync) of the two mutable vector iterators of
   src/iter/iter_mut.rs, computed from their field types and explicit `unsafe impl`s by
   the rules rustc applies (modelled, not verified): an explicit impl decides, with its
   bound; otherwise a struct has the auto trait iff all its fields have it. *)
From Matreex Require Export Model.Obs.

Inductive ty :=
  | TNonNull                 (* NonNull<T>: neither Send nor Sync, whatever T is *)
  | TPhantomMutRef           (* PhantomData<&'a mut T>: Send iff T: Send, Sync iff T: Sync *)
  | TPlain                   (* Option<Layout>, Option<NonZero<usize>>: plain data, always both *)
  | TStdIterMut.             (* std::slice::IterMut<'a, T> (and adaptors over it): Send iff T: Send, Sync iff T: Sync *)

Inductive tr := Send | Sync.
Definition tr_eqb (a b : tr) : bool := match a, b with Send, Send | Sync, Sync => true | _, _ => false end.

(* an explicit `unsafe impl<T: bound> Trait for S<T>`; bound None = unconditional *)
Record eimpl := mkImpl { i_trait : tr; i_bound : option tr }.
Record sdef := mkS { s_fields : list ty; s_impls : list eimpl }.

(* element type classified by membership: (T: Send, T: Sync) *)
Definition elem_has (send sync : bool) (t : tr) : bool := match t with Send => send | Sync => sync end.

Definition field_has (send sync : bool) (t : tr) (f : ty) : bool :=
  match f with
  | TNonNull => false
  | TPhantomMutRef => elem_has send sync t
  | TPlain => true
  | TStdIterMut => elem_has send sync t
  end.

Definition auto_trait (send sync : bool) (t : tr) (s : sdef) : bool :=
  match find (fun i => tr_eqb (i_trait i) t) (s_impls s) with
  | Some i => match i_bound i with None => true | Some b => elem_has send sync b end
  | None => forallb (field_has send sync t) (s_fields s)
  end.

(* src/iter/iter_mut.rs:7-24 and 232-241, mirrored *)
Definition IterVectorsMut_def : sdef :=
  mkS [TNonNull; TNonNull; TPlain; TPhantomMutRef] [mkImpl Send (Some Send); mkImpl Sync (Some Sync)].
Definition IterNthVectorMut_def : sdef :=
  mkS [TNonNull; TNonNull; TPlain; TPhantomMutRef] [mkImpl Send (Some Send); mkImpl Sync (Some Sync)].
(* controls: the std iterators the element / nth-vector variants are built from *)
Definition StdIterMut_def : sdef := mkS [TStdIterMut] [].

(* the observation of the harness probe: for each element class, Send/Sync flags of
   iter_rows_mut, iter_cols_mut, a yielded row, a yielded column, iter_elements_mut, iter_nth_row_mut *)
Definition flags (send sync : bool) (s : sdef) : list Z :=
  [ (if auto_trait send sync Send s then 83 else 45); (if auto_trait send sync Sync s then 89 else 45) ].
Definition class_text (send sync : bool) : list Z :=
  flags send sync IterVectorsMut_def ++ flags send sync IterVectorsMut_def ++
  flags send sync IterNthVectorMut_def ++ flags send sync IterNthVectorMut_def ++
  flags send sync StdIterMut_def ++ flags send sync StdIterMut_def.
Definition autotraits_text : list Z :=
  [91] ++ class_text true true ++ [44] ++ class_text true false ++ [44] ++ class_text false true ++ [44] ++ class_text false false ++ [93].
