(* `K` cases: single decisions / kernel calls with extreme arguments, evaluated by the
   extracted model side by side with the crate (no element data is materialised). *)
From Matreex Require Export Model.Obs Model.Ops Model.Traits Model.Scalar Model.IterMut.

Definition obs_res {X} (r : res X) (k : X -> obs) : obs :=
  match r with Val x => k x | Panic w => OPanic w | UB w => OUB w end.
Definition obs_shape_size (o : order) (d : result (AxisShape * Z)) : obs :=
  match d with
  | Err e => OErr e
  | Ok (sh, sz) => OSome (OList [OZ (AxisShape_nrows sh o); OZ (AxisShape_ncols sh o); OZ sz])
  end.
Definition ord_of (o : Z) : order := if o =? 0 then RowMajor else ColMajor.
Definition empty_of (o : order) (r cl : Z) : matrix unit :=
  mkMatrix o (Shape_to_axis_shape_unchecked (mkShape r cl) o) [].

Definition kcase (c : cfg) (name : Z) (a : list Z) : obs :=
  match name, a with
  | 1, [es; sz] =>                                   (* check_size *)
    match check_size c es sz with Ok n => OSome (OZ n) | Err e => OErr e end
  | 2, [r; cl; o] =>                                 (* try_to_axis_shape *)
    match Shape_try_to_axis_shape c (mkShape r cl) (ord_of o) with
    | Ok sh => OSome (OList [OZ (major sh); OZ (minor sh)]) | Err e => OErr e end
  | 3, [which; es; r; cl] =>                         (* constructors / resize / TryFrom on uniform rows *)
    let o := if which =? 4 then ColMajor else RowMajor in
    (* TryFrom (which = 5, 6) takes the column count from the first row: no rows, no columns *)
    let cl := if ((which =? 5) || (which =? 6)) && (r =? 0) then 0 else cl in
    obs_res (decide_shape c es o r cl) (obs_shape_size o)
  | 4, [es; r0; c0; o; r; cl] =>                     (* reshape of an r0 x c0 matrix *)
    obs_res (reshape_decision c (ord_of o) (r0 * c0) r cl)
            (fun d => match d with
                      | Ok sh => OSome (OList [OZ (AxisShape_nrows sh (ord_of o)); OZ (AxisShape_ncols sh (ord_of o)); OZ (r0 * c0)])
                      | Err e => OErr e end)
  | 5, [which; es_src; es_dst; sz] =>                (* map family: only the output byte size matters *)
    match check_size c es_dst sz with Ok n => OSome (OList [OZ 1; OZ sz; OZ n]) | Err e => OErr e end
  | 6, [es; n; m; o1; o2] =>                         (* multiply / multiplication_like_operation of n x 0 by 0 x m *)
    obs_res (mul_decision c es (empty_of (ord_of o1) n 0) (empty_of (ord_of o2) 0 m)) (obs_shape_size (ord_of o1))
  | 7, [row; col; o; mj; mn] =>                      (* AxisIndex::from_wrapping_index *)
    obs_res (AxisIndex_from_wrapping_index c row col (ord_of o) (mkAxisShape mj mn))
            (fun i => OList [OZ (ai_major i); OZ (ai_minor i)])
  | 8, [i; o; mj; mn] =>                             (* Index::from_flattened *)
    obs_res (Index_from_flattened i (ord_of o) (mkAxisShape mj mn)) (fun ix => OList [OZ (ix_row ix); OZ (ix_col ix)])
  | 9, [r; cl; o; mj; mn] =>                         (* Index::to_flattened *)
    obs_res (Index_to_flattened c (mkIndex r cl) (ord_of o) (mkAxisShape mj mn)) OZ
  | 13, [esL; esU; n; m; o1; o2] =>                  (* multiply with operand and output element types of different sizes *)
    obs_res (mul_decision c esU (empty_of (ord_of o1) n 0) (empty_of (ord_of o2) 0 m)) (obs_shape_size (ord_of o1))
  | 10, [] => OStr autotraits_text                   (* Send / Sync status of the mutable vector iterators *)
  | 11, ty :: opk :: _ => OStr (scalar_forms_text opk)     (* the 18 scalar operator forms of one primitive type *)
  | 12, [ty] => OStr scalar_neg_text                 (* -matrix, -&matrix *)
  | _, _ => OInvalid
  end.

(* the mutable vector iterators of a matrix of zero-sized elements (alignment al), driven by a script, at pointer level *)
Definition kcase_itermut_zst (c : cfg) (a : list Z) : obs :=
  match a with
  | al :: nrows :: ncols :: order :: axis :: script => mscript_matrix c 0 al al 0 nrows ncols order axis script
  | _ => OInvalid
  end.
