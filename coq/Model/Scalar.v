(* C18: the macro-generated scalar operator impls of src/arithmetic/{add,sub,mul,div,rem}.rs.
   After expansion every impl is one call of scalar_operation / _consume_self / _assign with a
   closure; what distinguishes the impls is (a) which side the matrix is on and (b) whether
   matrix, element and scalar are owned or borrowed.  The 18 forms per (type, operator), in the
   order the harness exercises them:
     0  Matrix<t> op s      1  &Matrix<t> op s      2  s op Matrix<t>      3  s op &Matrix<t>
     4  Matrix<t> op &s     5  &Matrix<t> op &s     6  &s op Matrix<t>     7  &s op &Matrix<t>
     8..15  the same eight with Matrix<&t>
     16 Matrix<t> op= s     17 Matrix<t> op= &s                                                  *)
From Matreex Require Export Model.Obs Model.Ops.

Inductive side := MatrixLeft | ScalarLeft.

(* read off the impl headers: `impl Op<$s> for Matrix<$t>` / `for &Matrix<$t>` have the matrix on the left,
   `impl Op<Matrix<$t>> for $s` / `Op<&Matrix<$t>> for $s` have the scalar on the left *)
Definition form_side (f : Z) : side :=
  if f >=? 16 then MatrixLeft
  else if (f mod 4) <? 2 then MatrixLeft else ScalarLeft.

(* the closure body of a form: the matrix-left impls compute `element op scalar`, the scalar-left ones `scalar op element` *)
Definition form_closure {T} (op : T -> T -> T) (f : Z) : T -> T -> T :=
  match form_side f with
  | MatrixLeft => fun e s => op e s
  | ScalarLeft => fun e s => op s e
  end.

(* every form is scalar_operation (or its consuming / assigning sibling, which compute the same data) with that closure *)
Definition form_apply {T} (c : cfg) (es : Z) (op : T -> T -> T) (f : Z) (m : matrix T) (s : T) : result (matrix T) :=
  scalar_operation c es (form_closure op f) m s.

(* what the harness classifies: L = result matches element op scalar only, R = scalar op element only,
   B = both (the witnesses cannot tell: + and * on primitive numbers commute) *)
Definition commutes (opk : Z) : bool := (opk =? 0) || (opk =? 2).
Definition form_letter (opk f : Z) : Z :=
  if commutes opk then 66 else match form_side f with MatrixLeft => 76 | ScalarLeft => 82 end.
Definition scalar_forms_text (opk : Z) : list Z := map (form_letter opk) (zseq 18).
Definition scalar_neg_text : list Z := [76; 76].
