(* src/fmt.rs: Display and Debug for Matrix<T>, statement by statement.  Text is a
   list of code points.  Modelled std behaviour (stated, validated by the
   correspondence check): str::lines, `{:w$}` padding by chars().count(),
   usize decimal printing. *)
From Matreex Require Export Model.Obs Model.Ops.

Notation text := (list Z) (only parsing).
Definition ch_nl : Z := 10.
Definition ch_cr : Z := 13.
Definition ch_sp : Z := 32.
Definition ch_lb : Z := 91.   (* [ *)
Definition ch_rb : Z := 93.   (* ] *)

Definition TAB_SIZE : Z := 4.
Definition OUTER_GAP : Z := 2.
Definition INTER_GAP : Z := 2.
Definition INNER_GAP : Z := 1.

(* ---------- decimal printing of a non-negative number ---------- *)
Fixpoint dec_aux (fuel : nat) (n : Z) (acc : text) : text :=
  match fuel with
  | O => acc
  | S f => let acc' := (48 + n mod 10) :: acc in
           if n / 10 =? 0 then acc' else dec_aux f (n / 10) acc'
  end.
Definition dec (n : Z) : text := if n <? 0 then 45 :: dec_aux 40 (- n) [] else dec_aux 40 n [].

(* ---------- str::lines ---------- *)
(* split_inclusive('\n') *)
Fixpoint split_incl (s : text) (cur : text) : list text :=
  match s with
  | [] => match cur with [] => [] | _ => [rev cur] end
  | ch :: t => if ch =? ch_nl then rev (ch :: cur) :: split_incl t [] else split_incl t (ch :: cur)
  end.
(* strip one trailing "\n", and then one trailing "\r" only if a "\n" was stripped *)
Definition strip_eol (l : text) : text :=
  match rev l with
  | a :: r1 => if a =? ch_nl then
                 match r1 with
                 | b :: r2 => if b =? ch_cr then rev r2 else rev r1
                 | [] => []
                 end
               else l
  | [] => []
  end.
Definition lines_of (s : text) : list text := map strip_eol (split_incl s []).

Definition width_of (ls : list text) : Z := fold_left Z.max (map (fun l => zlen l) ls) 0.
Definition height_of (ls : list text) : Z := zlen ls.

(* write!(f, "{SPACE:w$}"): a one-character string padded to width w *)
Definition pad_space (w : Z) : text := zrepeat ch_sp (Z.max w 1).
(* write!(f, "{line:<w$}") *)
Definition pad_right (l : text) (w : Z) : text := l ++ zrepeat ch_sp (w - zlen l).
(* write!(f, "{n:>w$}") *)
Definition pad_left_dec (n w : Z) : text := let d := dec n in zrepeat ch_sp (w - zlen d) ++ d.

Section Fmt.
Context {A : Type}.
Variable c : cfg.
Variable render : A -> text.

Definition build_cache (m : matrix A) : list (list text) := map (fun e => lines_of (render e)) (m_data m).
Definition max_width (cache : list (list text)) : Z := fold_left Z.max (map width_of cache) 0.
Definition max_height (cache : list (list text)) : Z := fold_left Z.max (map height_of cache) 0.

(* cache[index].next(): a checked index (panics when out of range), then pop_front *)
Definition cache_next (cache : list (list text)) (index : Z) : res (option text * list (list text)) :=
  match znth_opt index cache with
  | None => Panic PanicStd
  | Some [] => Val (None, cache)
  | Some (l :: t) => Val (Some l, zupd cache index t)
  end.

Definition cell (cache : list (list text)) (index ew : Z) : res (text * list (list text)) :=
  let* r := cache_next cache index in
  match fst r with
  | None => Val (pad_space ew, snd r)
  | Some line => Val (pad_right line ew, snd r)
  end.

(* one text line of a row: `lead` is what precedes the cells, `label` what precedes each cell *)
Definition row_cells (m : matrix A) (row ew : Z) (label : Z -> text) (acc : text * list (list text))
  : res (text * list (list text)) :=
  for_res (zseq (ncols m)) acc (fun col st =>
    let '(out, cache) := st in
    let sep := if col =? 0 then [] else pad_space INTER_GAP in
    let* index := Index_to_flattened c (mkIndex row col) (m_order m) (m_shape m) in
    let* r := cell cache index ew in
    Val (out ++ sep ++ label index ++ fst r, snd r)).

Definition fmt_display_gen (m : matrix A) : res text :=
  if is_empty m then Val [ch_lb; ch_rb] else
  let cache := build_cache m in
  let ew := max_width cache in
  let eh := max_height cache in
  let* st := for_res (zseq (nrows m)) ([ch_lb; ch_nl], cache) (fun row st =>
    let '(out, cache) := st in
    (* first line of the element representation *)
    let* st1 := row_cells m row ew (fun _ => []) (out ++ pad_space TAB_SIZE ++ [ch_lb], cache) in
    let st1 := (fst st1 ++ [ch_rb; ch_nl], snd st1) in
    (* remaining lines *)
    for_res (zseq (eh - 1)) st1 (fun _ st =>
      let '(out, cache) := st in
      let* st2 := row_cells m row ew (fun _ => []) (out ++ pad_space TAB_SIZE ++ [ch_sp], cache) in
      Val (fst st2 ++ [ch_nl], snd st2))) in
  Val (fst st ++ [ch_rb]).

Definition fmt_debug_gen (m : matrix A) : res text :=
  if is_empty m then Val [ch_lb; ch_rb] else
  let cache := build_cache m in
  let ew := max_width cache in
  let eh := max_height cache in
  let iw := zlen (dec (size m)) in
  (* header with the column numbers *)
  let header := fold_left (fun out col =>
      out ++ (if col =? 0 then [] else pad_space INTER_GAP) ++ pad_left_dec col iw ++ pad_space INNER_GAP ++ pad_space ew)
      (zseq (ncols m)) ([ch_lb; ch_nl] ++ pad_space TAB_SIZE ++ pad_space iw ++ pad_space OUTER_GAP ++ [ch_sp]) in
  let* st := for_res (zseq (nrows m)) (header ++ [ch_nl], cache) (fun row st =>
    let '(out, cache) := st in
    let* st1 := row_cells m row ew (fun index => pad_left_dec index iw ++ pad_space INNER_GAP)
                  (out ++ pad_space TAB_SIZE ++ pad_left_dec row iw ++ pad_space OUTER_GAP ++ [ch_lb], cache) in
    let st1 := (fst st1 ++ [ch_rb; ch_nl], snd st1) in
    for_res (zseq (eh - 1)) st1 (fun _ st =>
      let '(out, cache) := st in
      let* st2 := row_cells m row ew (fun _ => pad_space iw ++ pad_space INNER_GAP)
                    (out ++ pad_space TAB_SIZE ++ pad_space iw ++ pad_space OUTER_GAP ++ [ch_sp], cache) in
      Val (fst st2 ++ [ch_nl], snd st2))) in
  Val (fst st ++ [ch_rb]).
End Fmt.

(* ---------- the renderings of the instrumented element type ---------- *)
(* Atoms 1000.. render as entries of a fixed table (empty, multi-byte, multi-line, CRLF ...);
   other atoms as their decimal value; compound expressions as s-expressions. *)
Definition render_table : list text :=
  [ [];                                   (* 1000: "" *)
    [120];                                (* 1001: "x" *)
    [97; 98; 10; 99; 100];                (* 1002: "ab\ncd" *)
    [233];                                (* 1003: "é" *)
    [26085; 26412];                       (* 1004: "日本" *)
    [97; 10];                             (* 1005: "a\n" *)
    [10];                                 (* 1006: "\n" *)
    [97; 13; 10; 98];                     (* 1007: "a\r\nb" *)
    [119; 105; 100; 101; 45; 119; 105; 100; 101; 45; 119; 105; 100; 101];   (* 1008: "wide-wide-wide" *)
    [32; 32; 115];                        (* 1009: "  s" *)
    [10; 10; 113];                        (* 1010: "\n\nq" *)
    [97; 13];                             (* 1011: "a\r" *)
    [113; 10; 119; 119; 119; 10; 101];    (* 1012: "q\nwww\ne" *)
    [128512]                              (* 1013: one emoji code point *)
  ].

Fixpoint render (e : expr) : text :=
  match e with
  | Atom v => if (1000 <=? v) && (v <? 1000 + zlen render_table)
              then match znth_opt (v - 1000) render_table with Some t => t | None => [] end
              else dec v
  | Dflt => [68]                                            (* D *)
  | Bin o l r => [40; 66] ++ dec o ++ [32] ++ render l ++ [32] ++ render r ++ [41]      (* (B<o> l r) *)
  | Un f x => [40; 85] ++ dec f ++ [32] ++ render x ++ [41]                            (* (U<f> x) *)
  end.
(* Debug of the instrumented type: '#' followed by the Display text *)
Definition render_dbg (e : expr) : text := 35 :: render e.

Definition fmt_display (c : cfg) (m : matrix expr) : res text := fmt_display_gen c render m.
Definition fmt_debug (c : cfg) (m : matrix expr) : res text := fmt_debug_gen c render_dbg m.
