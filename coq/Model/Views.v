(* Iterator consumption scripts: the row / column / element iterators of
   src/iter.rs driven by words over next / next_back / len, on one iterator or
   on an outer iterator together with all the inner iterators it has produced. *)
From Matreex Require Export Model.Obs Model.Ops.

Definition pop_front {X} (l : list X) : option X * list X :=
  match l with [] => (None, []) | x :: t => (Some x, t) end.
Definition pop_back {X} (l : list X) : option X * list X :=
  match rev l with [] => (None, []) | x :: t => (Some x, rev t) end.

Inductive cmdres (X : Type) := Popped (x : option X) | Len (n : Z) | BadCmd.
Arguments Popped {X} x. Arguments Len {X} n. Arguments BadCmd {X}.

(* 0 = next, 1 = next_back, 2 = len (ExactSizeIterator), 10 + k = nth(k), 100 + k = nth_back(k) (k < 80):
   nth(k) discards k items from the front and yields the next one; when fewer than k + 1 remain everything is consumed *)
Definition nth_front {X} (l : list X) (k : Z) : option X * list X := pop_front (zskipn k l).
Definition nth_back {X} (l : list X) (k : Z) : option X * list X := pop_back (zfirstn (zlen l - k) l).
Definition deque_cmd {X} (l : list X) (what : Z) : list X * cmdres X :=
  if what =? 0 then let '(x, t) := pop_front l in (t, Popped x)
  else if what =? 1 then let '(x, t) := pop_back l in (t, Popped x)
  else if what =? 2 then (l, Len (zlen l))
  else if (10 <=? what) && (what <? 90) then let '(x, t) := nth_front l (what - 10) in (t, Popped x)
  else if (100 <=? what) && (what <? 180) then let '(x, t) := nth_back l (what - 100) in (t, Popped x)
  else (l, BadCmd).

Definition wrap_rr {X} (r : res (result X)) (k : X -> obs) : obs :=
  match r with Val (Ok x) => k x | Val (Err e) => OErr e | Panic w => OPanic w | UB w => OUB w end.
Definition wrap_r {X} (r : res X) (k : X -> obs) : obs :=
  match r with Val x => k x | Panic w => OPanic w | UB w => OUB w end.

Definition obs_idx_item (ie : Index * expr) : obs := OList [OZ (ix_row (fst ie)); OZ (ix_col (fst ie)); OElem (snd ie)].
Definition obs_idx_items (r : res (list (Index * expr))) : obs := wrap_r r (fun l => OList (map obs_idx_item l)).

(* ---------- one read-only iterator ---------- *)
(* 3 = the rest through Iterator::fold (for_each, sum, ...), 4 = through rfold (rev().for_each ...): the iterator is consumed
   by value, every remaining item is seen once, front to back resp. back to front; the script ends there *)
Fixpoint single_ro {X} (show : X -> obs) (l : list X) (script : list Z) : list obs :=
  match script with
  | [] => []
  | w :: t =>
    if w =? 3 then map (fun e => OSome (show e)) l else
    if w =? 4 then map (fun e => OSome (show e)) (rev l) else
    let '(l', r) := deque_cmd l w in
    match r with
    | Popped (Some e) => OSome (show e) :: single_ro show l' t
    | Popped None => ONone :: single_ro show l' t
    | Len n => OZ n :: single_ro show l' t
    | BadCmd => [OInvalid]
    end
  end.
Definition run_single_ro (r : res (result (list expr))) (script : list Z) : obs :=
  wrap_rr r (fun l => OList (single_ro OElem l script)).
Definition run_single_idx (r : res (list (Index * expr))) (script : list Z) : obs :=
  wrap_r r (fun l => OList (single_ro obs_idx_item l script)).

(* ---------- outer iterator + the inner iterators it has produced, read-only ----------
   iter_rows / iter_cols are `(0..n).map(|k| view k)`: lazy, so the outer iterator is a
   range [lo, hi) and a view is only built when it is handed out. *)
Fixpoint nested_ro (mk : Z -> res (list expr)) (lo hi : Z) (inners : list (list expr)) (script : list Z) : list obs :=
  match script with
  | who :: what :: t =>
    if who <? 0 then
      if what =? 2 then OZ (hi - lo) :: nested_ro mk lo hi inners t
      else if (10 <=? what) && (what <? 90) then
        (* (lo..hi).map(view).nth(k): the range skips k indices *)
        let k := what - 10 in
        if lo + k <? hi then
          match mk (lo + k) with
          | Val v => OSome (OZ (zlen inners)) :: nested_ro mk (lo + k + 1) hi (inners ++ [v]) t
          | Panic w => [OPanic w]
          | UB w => [OUB w]
          end
        else ONone :: nested_ro mk hi hi inners t
      else if (100 <=? what) && (what <? 180) then
        let k := what - 100 in
        if lo <? hi - k then
          match mk (hi - 1 - k) with
          | Val v => OSome (OZ (zlen inners)) :: nested_ro mk lo (hi - 1 - k) (inners ++ [v]) t
          | Panic w => [OPanic w]
          | UB w => [OUB w]
          end
        else ONone :: nested_ro mk lo lo inners t
      else if (what =? 0) || (what =? 1) then
        if lo <? hi then
          match mk (if what =? 0 then lo else hi - 1) with
          | Val v => OSome (OZ (zlen inners)) ::
                     nested_ro mk (if what =? 0 then lo + 1 else lo) (if what =? 0 then hi else hi - 1) (inners ++ [v]) t
          | Panic w => [OPanic w]
          | UB w => [OUB w]
          end
        else ONone :: nested_ro mk lo hi inners t
      else [OInvalid]
    else
      match znth_opt who inners with
      | None => [OInvalid]
      | Some l =>
        let '(l', r) := deque_cmd l what in
        match r with
        | Popped (Some e) => OSome (OElem e) :: nested_ro mk lo hi (zupd inners who l') t
        | Popped None => ONone :: nested_ro mk lo hi (zupd inners who l') t
        | Len n => OZ n :: nested_ro mk lo hi inners t
        | BadCmd => [OInvalid]
        end
      end
  | _ => []
  end.
Definition run_nested_ro (mk : Z -> res (list expr)) (n : Z) (script : list Z) : obs :=
  OList (nested_ro mk 0 n [] script).

(* ---------- mutable iterators: items are positions in the element store; every element
              handed out is replaced by f(element) ---------- *)
Section Mut.
Variable c : cfg.
Variable f : expr -> expr.

(* every remaining item in the given order: its element is replaced by f(element) *)
Fixpoint drain_mut {X} (posof : X -> Z) (show : X -> expr -> obs) (data : list expr) (items : list X) : list expr * list obs :=
  match items with
  | [] => (data, [])
  | x :: t =>
    match znth_opt (posof x) data with
    | Some e => let '(d', os) := drain_mut posof show (zupd data (posof x) (f e)) t in (d', OSome (show x e) :: os)
    | None => (data, [OUB UBPtr])
    end
  end.

Fixpoint single_mut {X} (posof : X -> Z) (show : X -> expr -> obs) (data : list expr) (items : list X) (script : list Z)
  : list expr * list obs :=
  match script with
  | [] => (data, [])
  | w :: t =>
    if w =? 3 then drain_mut posof show data items else
    if w =? 4 then drain_mut posof show data (rev items) else
    let '(items', r) := deque_cmd items w in
    match r with
    | Popped (Some x) =>
      match znth_opt (posof x) data with
      | Some e => let '(d', os) := single_mut posof show (zupd data (posof x) (f e)) items' t in (d', OSome (show x e) :: os)
      | None => (data, [OUB UBPtr])
      end
    | Popped None => let '(d', os) := single_mut posof show data items' t in (d', ONone :: os)
    | Len n => let '(d', os) := single_mut posof show data items' t in (d', OZ n :: os)
    | BadCmd => (data, [OInvalid])
    end
  end.

Definition run_single_mut (m : matrix expr) (r : res (result (list Z))) (script : list Z) : matrix expr * obs :=
  match r with
  | Val (Ok pos) => let '(d, os) := single_mut (fun q => q) (fun _ e => OElem e) (m_data m) pos script in (set_data m d, OList os)
  | Val (Err e) => (m, OErr e)
  | Panic w => (m, OPanic w)
  | UB w => (m, OUB w)
  end.

(* iter_elements_mut_with_index *)
Definition run_single_mut_idx (m : matrix expr) (script : list Z) : matrix expr * obs :=
  match map_res (fun i => let* ix := Index_from_flattened i (m_order m) (m_shape m) in Val (ix, i)) (zseq (size m)) with
  | Val items =>
    let '(d, os) := single_mut (fun x : Index * Z => snd x) (fun x e => obs_idx_item (fst x, e)) (m_data m) items script in
    (set_data m d, OList os)
  | Panic w => (m, OPanic w)
  | UB w => (m, OUB w)
  end.

(* positions of the n-th row / column as iter_nth_*_mut builds them: the same
   skip/step_by/take chain as the read-only views, over the element positions *)
Definition positions_matrix (m : matrix expr) : matrix Z := mkMatrix (m_order m) (m_shape m) (zseq (size m)).
Definition nth_row_positions (m : matrix expr) (n : Z) : res (result (list Z)) := iter_nth_row c (positions_matrix m) n.
Definition nth_col_positions (m : matrix expr) (n : Z) : res (result (list Z)) := iter_nth_col c (positions_matrix m) n.

(* iter_mut.rs at the level of element offsets: vector k of the axis starts at
   k * axis_stride and has vector_length elements vector_stride apart; an
   element-less matrix gives the empty iterator (IterVectorsMut::empty).  The
   pointer-level state machines are Model/IterMut.v. *)
Definition vectors_mut (axis_stride axis_length vector_stride vector_length : Z) : list (list Z) :=
  map (fun k => map (fun j => k * axis_stride + j * vector_stride) (zseq vector_length)) (zseq axis_length).
Definition over_major_axis (m : matrix expr) : list (list Z) :=
  if is_empty m then []
  else vectors_mut (AxisShape_major_stride (m_shape m)) (mmajor m) (AxisShape_minor_stride (m_shape m)) (mminor m).
Definition over_minor_axis (m : matrix expr) : list (list Z) :=
  if is_empty m then []
  else vectors_mut (AxisShape_minor_stride (m_shape m)) (mminor m) (AxisShape_major_stride (m_shape m)) (mmajor m).
Definition rows_mut_positions (m : matrix expr) : list (list Z) :=
  match m_order m with RowMajor => over_major_axis m | ColMajor => over_minor_axis m end.
Definition cols_mut_positions (m : matrix expr) : list (list Z) :=
  match m_order m with RowMajor => over_minor_axis m | ColMajor => over_major_axis m end.

Fixpoint nested_mut (data : list expr) (outer : list (list Z)) (inners : list (list Z)) (script : list Z)
  : list expr * list obs :=
  match script with
  | who :: what :: t =>
    if who <? 0 then
      let '(outer', r) := deque_cmd outer what in
      match r with
      | Popped (Some v) => let '(d', os) := nested_mut data outer' (inners ++ [v]) t in (d', OSome (OZ (zlen inners)) :: os)
      | Popped None => let '(d', os) := nested_mut data outer' inners t in (d', ONone :: os)
      | Len n => let '(d', os) := nested_mut data outer' inners t in (d', OZ n :: os)
      | BadCmd => (data, [OInvalid])
      end
    else
      match znth_opt who inners with
      | None => (data, [OInvalid])
      | Some l =>
        let '(l', r) := deque_cmd l what in
        match r with
        | Popped (Some q) =>
          match znth_opt q data with
          | Some e => let '(d', os) := nested_mut (zupd data q (f e)) outer (zupd inners who l') t in (d', OSome (OElem e) :: os)
          | None => (data, [OUB UBPtr])
          end
        | Popped None => let '(d', os) := nested_mut data outer (zupd inners who l') t in (d', ONone :: os)
        | Len n => let '(d', os) := nested_mut data outer inners t in (d', OZ n :: os)
        | BadCmd => (data, [OInvalid])
        end
      end
  | _ => (data, [])
  end.

Definition run_nested_mut (m : matrix expr) (rows : bool) (script : list Z) : matrix expr * obs :=
  let vs := if rows then rows_mut_positions m else cols_mut_positions m in
  let '(d, os) := nested_mut (m_data m) vs [] script in
  (set_data m d, OList os).
End Mut.
