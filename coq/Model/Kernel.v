(* Layer K: the loop-free integer / decision code of the crate, written
   function by function in the form a translator emits (A-normal, one
   definition per source function, machine arithmetic explicit).
   Each definition names the source lines it mirrors. *)
From Matreex Require Export Base.Machine.

(* ---------- src/order.rs ---------- *)
Inductive order := RowMajor | ColMajor.
Definition order_eqb (a b : order) : bool :=
  match a, b with RowMajor, RowMajor | ColMajor, ColMajor => true | _, _ => false end.
Definition Order_switch (o : order) : order :=                      (* order.rs:30 *)
  match o with RowMajor => ColMajor | ColMajor => RowMajor end.

(* ---------- src/shape.rs ---------- *)
Record Shape := mkShape { sh_nrows : Z; sh_ncols : Z }.
Record AxisShape := mkAxisShape { major : Z; minor : Z }.

Definition Shape_size (c : cfg) (s : Shape) : result Z :=            (* shape.rs:80 *)
  match checked_mul c (sh_nrows s) (sh_ncols s) with
  | Some n => Ok n
  | None => Err SizeOverflow
  end.
Definition Shape_transpose (s : Shape) : Shape := mkShape (sh_ncols s) (sh_nrows s).   (* shape.rs:97 *)
Definition Shape_to_axis_shape_unchecked (s : Shape) (o : order) : AxisShape :=        (* shape.rs:107 *)
  match o with
  | RowMajor => mkAxisShape (sh_nrows s) (sh_ncols s)
  | ColMajor => mkAxisShape (sh_ncols s) (sh_nrows s)
  end.
Definition Shape_try_to_axis_shape (c : cfg) (s : Shape) (o : order) : result AxisShape :=   (* shape.rs:102 *)
  match Shape_size c s with
  | Err e => Err e
  | Ok _ => Ok (Shape_to_axis_shape_unchecked s o)
  end.

Definition AxisShape_major_stride (s : AxisShape) : Z := minor s.    (* shape.rs:148 *)
Definition AxisShape_minor_stride (s : AxisShape) : Z := 1.          (* shape.rs:152 *)
Definition AxisShape_size (c : cfg) (s : AxisShape) : res Z := umul c (major s) (minor s).   (* shape.rs:156 *)
Definition AxisShape_transpose (s : AxisShape) : AxisShape := mkAxisShape (minor s) (major s).
Definition AxisShape_nrows (s : AxisShape) (o : order) : Z :=
  match o with RowMajor => major s | ColMajor => minor s end.
Definition AxisShape_ncols (s : AxisShape) (o : order) : Z :=
  match o with RowMajor => minor s | ColMajor => major s end.
Definition AxisShape_to_shape (s : AxisShape) (o : order) : Shape :=
  match o with
  | RowMajor => mkShape (major s) (minor s)
  | ColMajor => mkShape (minor s) (major s)
  end.
Definition AxisShape_eqb (a b : AxisShape) : bool := (major a =? major b) && (minor a =? minor b).

(* ---------- src/lib.rs:742 check_size ---------- *)
Definition check_size (c : cfg) (es size : Z) : result Z :=
  if saturating_mul c es size >? imax c then Err CapacityOverflow else Ok size.

(* ---------- src/index.rs: AxisIndex ---------- *)
Record AxisIndex := mkAxisIndex { ai_major : Z; ai_minor : Z }.
Record Index := mkIndex { ix_row : Z; ix_col : Z }.

Definition AxisIndex_swap (i : AxisIndex) : AxisIndex := mkAxisIndex (ai_minor i) (ai_major i).
Definition AxisIndex_from_rc (row col : Z) (o : order) : AxisIndex :=       (* from_index with the two accessor values *)
  match o with RowMajor => mkAxisIndex row col | ColMajor => mkAxisIndex col row end.
Definition AxisIndex_to_index (i : AxisIndex) (o : order) : Index :=
  match o with RowMajor => mkIndex (ai_major i) (ai_minor i) | ColMajor => mkIndex (ai_minor i) (ai_major i) end.

(* one axis of from_wrapping_index, index.rs:572-581 *)
Definition wrap_axis (c : cfg) (i m : Z) : res Z :=
  if i <? 0 then
    let* t1 := urem (unsigned_abs i) m in
    let* t2 := usub c m t1 in
    urem t2 m
  else urem i m.
Definition AxisIndex_from_wrapping_index (c : cfg) (row col : Z) (o : order) (s : AxisShape) : res AxisIndex :=
  let '(mj, mn) := match o with RowMajor => (row, col) | ColMajor => (col, row) end in
  let* mj' := wrap_axis c mj (major s) in
  let* mn' := wrap_axis c mn (minor s) in
  Val (mkAxisIndex mj' mn').

Definition AxisIndex_from_flattened (index : Z) (s : AxisShape) : res AxisIndex :=     (* index.rs:588 *)
  let* mj := udiv index (AxisShape_major_stride s) in
  let* t := urem index (AxisShape_major_stride s) in
  let* mn := udiv t (AxisShape_minor_stride s) in
  Val (mkAxisIndex mj mn).
Definition AxisIndex_to_flattened (c : cfg) (i : AxisIndex) (s : AxisShape) : res Z :=  (* index.rs:594 *)
  let* a := umul c (ai_major i) (AxisShape_major_stride s) in
  let* b := umul c (ai_minor i) (AxisShape_minor_stride s) in
  uadd c a b.
Definition AxisIndex_is_out_of_bounds (i : AxisIndex) (s : AxisShape) : bool :=        (* index.rs:603 *)
  (ai_major i >=? major s) || (ai_minor i >=? minor s).

Definition Index_from_flattened (index : Z) (o : order) (s : AxisShape) : res Index :=
  let* a := AxisIndex_from_flattened index s in Val (AxisIndex_to_index a o).
Definition Index_to_flattened (c : cfg) (i : Index) (o : order) (s : AxisShape) : res Z :=
  AxisIndex_to_flattened c (AxisIndex_from_rc (ix_row i) (ix_col i) o) s.

(* the cross-order remap used by eq.rs:16, arithmetic.rs:203/237/268 and, with
   old/new shapes, by transpose (lib.rs:289):
   from_flattened(index, s1).swap().to_flattened(s2) *)
Definition remap (c : cfg) (index : Z) (s1 s2 : AxisShape) : res Z :=
  let* a := AxisIndex_from_flattened index s1 in
  AxisIndex_to_flattened c (AxisIndex_swap a) s2.

(* ---------- src/arithmetic.rs conformability ---------- *)
Definition is_elementwise_conformable (o1 : order) (s1 : AxisShape) (o2 : order) (s2 : AxisShape) : bool :=
  if order_eqb o1 o2 then AxisShape_eqb s1 s2
  else (major s1 =? minor s2) && (minor s1 =? major s2).
Definition is_multiplication_conformable (o1 : order) (s1 : AxisShape) (o2 : order) (s2 : AxisShape) : bool :=
  AxisShape_ncols s1 o1 =? AxisShape_nrows s2 o2.
