(* The operation-history machine: a pool of matrix slots and one `op` per public
   safe operation of the crate.  `step` is what the correspondence harness runs
   against the real crate, operation by operation, on the same histories; every
   property file talks about the model functions `step` dispatches to. *)
From Matreex Require Export Model.Expr Model.Ops Model.Obs Model.Views Model.Fmt.

Definition mat := matrix expr.
Definition pool := list (option mat).

(* ---------- index arguments ---------- *)
Inductive ix :=
  | IxPlain (kind : Z) (r cl : Z)              (* kind 0 (usize,usize) | 1 [usize;2] | 2 Index *)
  | IxWrap (r cl : Z)                          (* WrappingIndex *)
  | IxScript (rows cols : list Z).             (* caller-defined AsIndex whose accessors return these values in turn *)

Inductive op :=
  (* construct *)
  | New (d : Z) | WithCapacity (d n : Z) | WithDefault (d r cl : Z) | WithValue (d r cl v : Z)
  | WithInit (d r cl f : Z) | FromRow (d : Z) (l : list Z) | FromCol (d : Z) (l : list Z)
  | FromArrays (d kind nc : Z) (rows : list (list Z)) | TryFromRows (d kind : Z) (rows : list (list Z))
  | FromIter (d : Z) (rows : list (list Z)) | MacroOp (d arm a b : Z) (rows : list (list Z)) | DefaultM (d : Z)
  (* observe *)
  | GetOrder (s : Z) | GetShape (s : Z) | Nrows (s : Z) | Ncols (s : Z) | Size (s : Z) | IsEmpty (s : Z) | CapacityGe (s : Z)
  | Get (s : Z) (i : ix) | IndexOp (s : Z) (i : ix) | GetUncheckedW (s r cl : Z)
  | Contains (s v : Z) | IsSquare (s : Z) | ConformEw (s t : Z) | ConformMul (s t : Z)
  | EnsureSquare (s : Z) | EnsureEw (s t : Z) | EnsureMul (s t : Z) | EqOp (s t : Z)
  | Display (s : Z) | DebugOp (s : Z)
  (* order / shape *)
  | Transpose (s : Z) | SwitchOrder (s : Z) | SwitchOrderWr (s : Z) | SetOrder (s o : Z) | SetOrderWr (s o : Z)
  | Reshape (s r cl : Z) | Resize (s r cl : Z) | ShrinkToFit (s : Z) | ShrinkTo (s n : Z) | Clear (s : Z)
  (* element moves *)
  | SetAt (s : Z) (i : ix) (v : Z) | SetIndexMut (s : Z) (i : ix) (v : Z)
  | Swap (s : Z) (i j : ix) | SwapRows (s a b : Z) | SwapCols (s a b : Z) | Overwrite (d s : Z)
  (* maps *)
  | Apply (s f : Z) | MapOp (d s f : Z) | MapRef (d s f : Z) | CloneOp (d s : Z) | CloneFrom (d s : Z) | NegOp (d s : Z) | NegRef (d s : Z)
  (* elementwise *)
  | Ew (d a b f : Z) | EwConsume (d a b f : Z) | EwAssign (a b f : Z)
  | EwNamed (opk variant d a b : Z) | OpEw (opk form d a b : Z) | OpEwAssign (opk form a b : Z)
  (* scalar *)
  | Sc (d a v f : Z) | ScConsume (d a v f : Z) | ScAssign (a v f : Z)
  (* product *)
  | Multiply (d a b : Z) | OpMul (form d a b : Z) | MulLike (d a b f : Z)
  (* iterate; scripts are words over 0 = next, 1 = next_back, 2 = len; nested scripts are (who, what) pairs, who = -1 for the outer iterator *)
  | IterRows (s : Z) (script : list Z) | IterCols (s : Z) (script : list Z)
  | IterRowsMut (s f : Z) (script : list Z) | IterColsMut (s f : Z) (script : list Z)
  | IterNthRow (s n : Z) (script : list Z) | IterNthCol (s n : Z) (script : list Z)
  | IterNthRowMut (s n f : Z) (script : list Z) | IterNthColMut (s n f : Z) (script : list Z)
  | IterElements (s : Z) (script : list Z) | IterElementsMut (s f : Z) (script : list Z) | IntoIterElements (s : Z) (script : list Z)
  | IterElementsIdx (s : Z) (script : list Z) | IterElementsMutIdx (s f : Z) (script : list Z) | IntoIterElementsIdx (s : Z) (script : list Z)
  (* parallel (the model is the sequential meaning; item sets are compared sorted) *)
  | ParApply (s f : Z) | ParMap (d s f : Z) | ParMapRef (d s f : Z)
  | ParIterElements (s : Z) | ParIterElementsMut (s f : Z) | IntoParIterElements (s : Z)
  | ParIterElementsIdx (s : Z) | ParIterElementsMutIdx (s f : Z) | IntoParIterElementsIdx (s : Z)
  (* rows (axis 0) or columns (axis 1) of iter_rows_mut / iter_cols_mut dealt to nthreads threads, every element mutated by f *)
  | ThreadedVectorsMut (s nthreads f axis : Z)
  (* rows / columns split between two threads through adaptors on the outer iterator; nothing is mutated, the observation
     says that no element was reachable twice *)
  | ThreadedScan (s front adaptor axis : Z)
  (* lifetime *)
  | DropOp (s : Z).

(* ---------- pool access ---------- *)
Definition slot (p : pool) (s : Z) : option mat :=
  match znth_opt s p with Some (Some m) => Some m | _ => None end.
Definition put (p : pool) (s : Z) (m : option mat) : pool := zupd p s m.
Definition in_pool (p : pool) (s : Z) : bool := (0 <=? s) && (s <? zlen p).

Section Step.
Variable c : cfg.
Variable es : Z.

Definition atoms (l : list Z) : list expr := map Atom l.
Definition fn1 (f : Z) (e : expr) : expr := Un (10 + f) e.
Definition fn2 (f : Z) (l r : expr) : expr := Bin (10 + f) l r.
Definition initf (f : Z) (i : Index) : expr := Bin (20 + f) (Atom (ix_row i)) (Atom (ix_col i)).
Definition chain (l : list expr) : expr := fold_right (Bin 30) (Atom 0) l.

Definition order_of_z (o : Z) : order := if o =? 0 then RowMajor else ColMajor.
Definition obs_of_shape (m : mat) : obs := OPair (OZ (nrows m)) (OZ (ncols m)).

(* outcome of a matrix-producing fallible operation written into slot d *)
Definition store (p : pool) (d : Z) (r : res (result mat)) : pool * obs :=
  match r with
  | Val (Ok m) => (put p d (Some m), OUnit)
  | Val (Err e) => (p, OErr e)
  | Panic w => (p, OPanic w)
  | UB w => (p, OUB w)
  end.
Definition store_val (p : pool) (d : Z) (r : res mat) : pool * obs :=
  store p d (let* m := r in Val (Ok m)).
(* operators: Err becomes panic!("{error}") *)
Definition store_op (p : pool) (d : Z) (r : res (result mat)) : pool * obs :=
  match r with
  | Val (Err e) => (p, OPanic (PanicErr e))
  | _ => store p d r
  end.

(* ---------- indexing ---------- *)
(* returns the position in the element store (what get_mut resolves to), with accessor call counts *)
Definition locate (m : mat) (i : ix) : res (result Z) * obs :=
  match i with
  | IxPlain _ r cl => (fst (AsIndex_locate c m (acc_const r cl)), OUnit)
  | IxWrap r cl => (Wrapping_locate c m r cl, OUnit)
  | IxScript rows cols =>
    let '(r, a) := AsIndex_locate c m (mkAcc rows cols 0 0) in
    (r, OPair (OZ (acc_nrow a)) (OZ (acc_ncol a)))
  end.

Definition obs_of_locate (m : mat) (r : res (result Z)) (as_panic : bool) : obs :=
  match r with
  | Val (Ok p) => match znth_opt p (m_data m) with Some e => OElem e | None => OUB UBIndex end
  | Val (Err e) => if as_panic then OPanic (PanicErr e) else OErr e
  | Panic w => OPanic w
  | UB w => OUB w
  end.

(* ---------- elementwise helpers ---------- *)
Definition binop (k : Z) (l r : expr) : expr := Bin k l r.

Definition step (p : pool) (o : op) : pool * obs :=
  let need1 (s : Z) (k : mat -> pool * obs) : pool * obs :=
    match slot p s with Some m => k m | None => (p, OInvalid) end in
  let need2 (s t : Z) (k : mat -> mat -> pool * obs) : pool * obs :=
    match slot p s, slot p t with Some m, Some n => k m n | _, _ => (p, OInvalid) end in
  let dest (d : Z) (k : pool * obs) : pool * obs := if in_pool p d then k else (p, OInvalid) in
  match o with
  (* ----- construct ----- *)
  | New d | DefaultM d => dest d (put p d (Some new_matrix), OUnit)
  | WithCapacity d _ => dest d (put p d (Some new_matrix), OUnit)
  | WithDefault d r cl => dest d (store p d (with_default c es Dflt r cl))
  | WithValue d r cl v => dest d (store p d (with_value c es r cl (Atom v)))
  | WithInit d r cl f => dest d (store p d (with_initializer c es (initf f) r cl))
  | FromRow d l => dest d (put p d (Some (from_row (atoms l))), OUnit)
  | FromCol d l => dest d (put p d (Some (from_col (atoms l))), OUnit)
  | FromArrays d _ nc rows => dest d (put p d (Some (from_arrays nc (map atoms rows))), OUnit)
  | TryFromRows d _ rows => dest d (store p d (try_from_rows c es (map atoms rows)))
  | FromIter d rows => dest d (store_val p d (from_iter c (map atoms rows)))
  | MacroOp d arm a b rows =>
    dest d
    (match arm with
     | 0 => (put p d (Some new_matrix), OUnit)                                      (* matrix![] *)
     | 1 => store_op p d (with_value c es a b (Atom 7))                              (* matrix![[7; b]; a] *)
     | 2 => match rows with                                                         (* matrix![[e..]; a] *)
            | r :: _ => (put p d (Some (from_arrays (zlen r) (zrepeat (atoms r) a))), OUnit)
            | [] => (p, OInvalid) end
     | 3 => match rows with                                                         (* matrix![[..], [..]] *)
            | r :: _ => (put p d (Some (from_arrays (zlen r) (map atoms rows))), OUnit)
            | [] => (p, OInvalid) end
     | 4 => (put p d (Some (from_row [])), OUnit)                                   (* row_vec![] *)
     | 5 => (put p d (Some (from_row (zrepeat (Atom 7) a))), OUnit)                 (* row_vec![7; a] *)
     | 6 => match rows with r :: _ => (put p d (Some (from_row (atoms r))), OUnit) | [] => (p, OInvalid) end
     | 7 => (put p d (Some (from_col [])), OUnit)
     | 8 => (put p d (Some (from_col (zrepeat (Atom 7) a))), OUnit)
     | 9 => match rows with r :: _ => (put p d (Some (from_col (atoms r))), OUnit) | [] => (p, OInvalid) end
     | _ => (p, OInvalid)
     end)
  (* ----- observe ----- *)
  | GetOrder s => need1 s (fun m => (p, OOrd (m_order m)))
  | GetShape s => need1 s (fun m => (p, obs_of_shape m))
  | Nrows s => need1 s (fun m => (p, OZ (nrows m)))
  | Ncols s => need1 s (fun m => (p, OZ (ncols m)))
  | Size s => need1 s (fun m => (p, OZ (size m)))
  | IsEmpty s => need1 s (fun m => (p, OBool (is_empty m)))
  | CapacityGe s => need1 s (fun m => (p, OBool true))
  | Get s i => need1 s (fun m => let '(r, calls) := locate m i in (p, OPair (obs_of_locate m r false) calls))
  | IndexOp s i => need1 s (fun m => let '(r, calls) := locate m i in (p, OPair (obs_of_locate m r true) calls))
  | GetUncheckedW s r cl =>
    need1 s (fun m => (p, match Wrapping_get_unchecked c m r cl with
                          | Val e => OElem e | Panic w => OPanic w | UB w => OUB w end))
  | Contains s v => need1 s (fun m => (p, OBool (contains expr_eqb m (Atom v))))
  | IsSquare s => need1 s (fun m => (p, OBool (nrows m =? ncols m)))
  | ConformEw s t => need2 s t (fun m n => (p, OBool (is_ew_conformable m n)))
  | ConformMul s t => need2 s t (fun m n => (p, OBool (is_mul_conformable m n)))
  | EnsureSquare s => need1 s (fun m => (p, if nrows m =? ncols m then OUnit else OErr SquareMatrixRequired))
  | EnsureEw s t => need2 s t (fun m n => (p, if is_ew_conformable m n then OUnit else OErr ShapeNotConformable))
  | EnsureMul s t => need2 s t (fun m n => (p, if is_mul_conformable m n then OUnit else OErr ShapeNotConformable))
  | EqOp s t =>
    need2 s t (fun m n => (p, match matrix_eqb c expr_eqb m n with
                              | Val b => OBool b | Panic w => OPanic w | UB w => OUB w end))
  | Display s => need1 s (fun m => (p, match fmt_display c m with Val t => OStr t | Panic w => OPanic w | UB w => OUB w end))
  | DebugOp s => need1 s (fun m => (p, match fmt_debug c m with Val t => OStr t | Panic w => OPanic w | UB w => OUB w end))
  (* ----- order / shape ----- *)
  | Transpose s => need1 s (fun m => store_val p s (transpose c es m))
  | SwitchOrder s => need1 s (fun m => store_val p s (switch_order c es m))
  | SwitchOrderWr s => need1 s (fun m => (put p s (Some (switch_order_wr m)), OUnit))
  | SetOrder s o => need1 s (fun m => store_val p s (set_order c es m (order_of_z o)))
  | SetOrderWr s o => need1 s (fun m => (put p s (Some (set_order_wr m (order_of_z o))), OUnit))
  | Reshape s r cl => need1 s (fun m => store p s (reshape c m r cl))
  | Resize s r cl => need1 s (fun m => store p s (resize c es Dflt m r cl))
  | ShrinkToFit s => need1 s (fun m => (p, OUnit))
  | ShrinkTo s _ => need1 s (fun m => (p, OUnit))
  | Clear s => need1 s (fun m => (put p s (Some (clear m)), OUnit))
  (* ----- element moves ----- *)
  | SetAt s i v =>
    need1 s (fun m =>
      let '(r, calls) := locate m i in
      match r with
      | Val (Ok q) => (put p s (Some (set_data m (zupd (m_data m) q (Atom v)))), OPair OUnit calls)
      | Val (Err e) => (p, OPair (OErr e) calls)
      | Panic w => (p, OPair (OPanic w) calls)
      | UB w => (p, OPair (OUB w) calls)
      end)
  | SetIndexMut s i v =>
    need1 s (fun m =>
      let '(r, calls) := locate m i in
      match r with
      | Val (Ok q) => (put p s (Some (set_data m (zupd (m_data m) q (Atom v)))), OPair OUnit calls)
      | Val (Err e) => (p, OPair (OPanic (PanicErr e)) calls)
      | Panic w => (p, OPair (OPanic w) calls)
      | UB w => (p, OPair (OUB w) calls)
      end)
  | Swap s i j =>
    need1 s (fun m =>
      let '(ri, ci) := locate m i in
      match ri with
      | Val (Ok q1) =>
        let '(rj, cj) := locate m j in
        match rj with
        | Val (Ok q2) =>
          match swap_at m q1 q2 with
          | Val m' => (put p s (Some m'), OList [OUnit; ci; cj])
          | Panic w => (p, OPanic w) | UB w => (p, OUB w)
          end
        | Val (Err e) => (p, OList [OErr e; ci; cj])
        | Panic w => (p, OPanic w) | UB w => (p, OUB w)
        end
      | Val (Err e) => (p, OList [OErr e; ci])
      | Panic w => (p, OPanic w) | UB w => (p, OUB w)
      end)
  | SwapRows s a b => need1 s (fun m => store p s (swap_rows c m a b))
  | SwapCols s a b => need1 s (fun m => store p s (swap_cols c m a b))
  | Overwrite d s => if d =? s then (p, OInvalid) else need2 d s (fun md ms => store_val p d (overwrite c (fun x => x) md ms))
  (* ----- maps ----- *)
  | Apply s f => need1 s (fun m => (put p s (Some (apply (fn1 f) m)), OUnit))
  | MapOp d s f => dest d (need1 s (fun m => store (put p s None) d (Val (map_matrix c es (fn1 f) m))))
  | MapRef d s f => dest d (need1 s (fun m => store p d (Val (map_matrix c es (fn1 f) m))))
  | CloneOp d s => dest d (need1 s (fun m => (put p d (Some m), OUnit)))
  (* Clone::clone_from: the receiver (which must exist) becomes a copy of the source *)
  | CloneFrom d s => if d =? s then (p, OInvalid) else need2 d s (fun md ms => (put p d (Some ms), OUnit))
  | NegOp d s => dest d (need1 s (fun m => store_op (put p s None) d (Val (map_matrix c es (Un 0) m))))
  | NegRef d s => dest d (need1 s (fun m => store_op p d (Val (map_matrix c es (Un 0) m))))
  (* ----- elementwise ----- *)
  | Ew d a b f => dest d (need2 a b (fun m n => store p d (elementwise_operation c es (fn2 f) m n)))
  | EwConsume d a b f =>
    if a =? b then (p, OInvalid) else
    dest d (need2 a b (fun m n => store (put p a None) d (elementwise_operation c es (fn2 f) m n)))
  | EwAssign a b f =>
    if a =? b then (p, OInvalid) else
    need2 a b (fun m n => store p a (elementwise_operation_assign c (fn2 f) m n))
  | EwNamed opk variant d a b =>
    if (variant =? 0) then dest d (need2 a b (fun m n => store p d (elementwise_operation c es (binop opk) m n)))
    else if a =? b then (p, OInvalid)
    else if (variant =? 1) then dest d (need2 a b (fun m n => store (put p a None) d (elementwise_operation c es (binop opk) m n)))
    else need2 a b (fun m n => store p a (elementwise_operation_assign c (binop opk) m n))
  | OpEw opk form d a b =>
    (* form 0: a op b | 1: a op &b | 2: &a op b | 3: &a op &b; owned operands are consumed *)
    if (negb (form =? 3)) && (a =? b) then (p, OInvalid) else
    dest d (need2 a b (fun m n =>
      let p1 := if (form =? 0) || (form =? 1) then put p a None else p in
      let p2 := if (form =? 0) || (form =? 2) then put p1 b None else p1 in
      store_op p2 d (elementwise_operation c es (binop opk) m n)))
  | OpEwAssign opk form a b =>
    if a =? b then (p, OInvalid) else
    need2 a b (fun m n =>
      let p1 := if form =? 0 then put p b None else p in
      store_op p1 a (elementwise_operation_assign c (binop opk) m n))
  (* ----- scalar ----- *)
  | Sc d a v f => dest d (need1 a (fun m => store p d (Val (scalar_operation c es (fn2 f) m (Atom v)))))
  | ScConsume d a v f => dest d (need1 a (fun m => store (put p a None) d (Val (scalar_operation c es (fn2 f) m (Atom v)))))
  | ScAssign a v f => need1 a (fun m => (put p a (Some (scalar_operation_assign (fn2 f) m (Atom v))), OUnit))
  (* ----- product ----- *)
  | Multiply d a b =>
    if a =? b then (p, OInvalid) else
    dest d (need2 a b (fun m n => store (put (put p a None) b None) d (multiply c es es es Dflt (Bin 2) (Bin 0) m n)))
  | OpMul form d a b =>
    if (negb (form =? 3)) && (a =? b) then (p, OInvalid) else
    dest d (need2 a b (fun m n =>
      let p1 := if (form =? 0) || (form =? 1) then put p a None else p in
      let p2 := if (form =? 0) || (form =? 2) then put p1 b None else p1 in
      store_op p2 d (multiply c es es es Dflt (Bin 2) (Bin 0) m n)))
  | MulLike d a b f =>
    if a =? b then (p, OInvalid) else
    dest d (need2 a b (fun m n =>
      store (put (put p a None) b None) d
            (multiplication_like_operation c es es es Dflt (fun l r => Val (fn2 f (chain l) (chain r))) m n)))
  (* ----- iterate ----- *)
  | IterRows s script => need1 s (fun m => (p, run_nested_ro (row_view c m) (nrows m) script))
  | IterCols s script => need1 s (fun m => (p, run_nested_ro (col_view c m) (ncols m) script))
  | IterRowsMut s f script => need1 s (fun m => let '(m', o) := run_nested_mut (fn1 f) m true script in (put p s (Some m'), o))
  | IterColsMut s f script => need1 s (fun m => let '(m', o) := run_nested_mut (fn1 f) m false script in (put p s (Some m'), o))
  | IterNthRow s n script => need1 s (fun m => (p, run_single_ro (iter_nth_row c m n) script))
  | IterNthCol s n script => need1 s (fun m => (p, run_single_ro (iter_nth_col c m n) script))
  | IterNthRowMut s n f script => need1 s (fun m => let '(m', o) := run_single_mut (fn1 f) m (nth_row_positions c m n) script in (put p s (Some m'), o))
  | IterNthColMut s n f script => need1 s (fun m => let '(m', o) := run_single_mut (fn1 f) m (nth_col_positions c m n) script in (put p s (Some m'), o))
  | IterElements s script => need1 s (fun m => (p, run_single_ro (Val (Ok (m_data m))) script))
  | IterElementsMut s f script =>
    need1 s (fun m => let '(m', o) := run_single_mut (fn1 f) m (Val (Ok (zseq (size m)))) script in (put p s (Some m'), o))
  | IntoIterElements s script => need1 s (fun m => (put p s None, run_single_ro (Val (Ok (m_data m))) script))
  | IterElementsIdx s script => need1 s (fun m => (p, run_single_idx (iter_elements_with_index m) script))
  | IterElementsMutIdx s f script =>
    need1 s (fun m => let '(m', o) := run_single_mut_idx (fn1 f) m script in (put p s (Some m'), o))
  | IntoIterElementsIdx s script => need1 s (fun m => (put p s None, run_single_idx (iter_elements_with_index m) script))
  (* ----- parallel ----- *)
  | ParApply s f => need1 s (fun m => (put p s (Some (apply (fn1 f) m)), OUnit))
  | ParMap d s f => dest d (need1 s (fun m => store (put p s None) d (Val (map_matrix c es (fn1 f) m))))
  | ParMapRef d s f => dest d (need1 s (fun m => store p d (Val (map_matrix c es (fn1 f) m))))
  | ParIterElements s => need1 s (fun m => (p, OList (map OElem (m_data m))))
  | ParIterElementsMut s f => need1 s (fun m => (put p s (Some (apply (fn1 f) m)), OList (map OElem (m_data m))))
  | IntoParIterElements s => need1 s (fun m => (put p s None, OList (map OElem (m_data m))))
  | ParIterElementsIdx s => need1 s (fun m => (p, obs_idx_items (iter_elements_with_index m)))
  | ParIterElementsMutIdx s f => need1 s (fun m => (put p s (Some (apply (fn1 f) m)), obs_idx_items (iter_elements_with_index m)))
  | IntoParIterElementsIdx s => need1 s (fun m => (put p s None, obs_idx_items (iter_elements_with_index m)))
  (* every element belongs to exactly one yielded vector, every vector to exactly one thread: the outcome is `apply` *)
  | ThreadedVectorsMut s _ f _ => need1 s (fun m => (put p s (Some (apply (fn1 f) m)), OUnit))
  | ThreadedScan s _ _ _ => need1 s (fun m => (p, OUnit))
  (* ----- lifetime ----- *)
  | DropOp s => need1 s (fun m => (put p s None, OUnit))
  end.

End Step.
