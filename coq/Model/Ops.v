(* Layer M: the operations of the crate that contain loops, closures, iterator
   chains or Vec growth, written statement for statement on `list A` with the
   unchecked primitives made explicit (`UB` when their precondition fails).
   Caller code (closures, Clone, Default, PartialEq) is passed as functions; the
   fault/unwind behaviour of the same operations lives in Model/Fault.v.
   Every piece of index arithmetic goes through Model/Kernel.v. *)
From Matreex Require Export Base.ListLayout Model.Matrix.

(* ---------- list primitives with Z indices ---------- *)
Definition zfirstn {A} (n : Z) (l : list A) : list A := firstn (Z.to_nat n) l.
Definition zskipn {A} (n : Z) (l : list A) : list A := skipn (Z.to_nat n) l.
Definition zrepeat {A} (x : A) (n : Z) : list A := repeat x (Z.to_nat n).

Definition zupd {A} (l : list A) (i : Z) (x : A) : list A :=
  if i <? 0 then l else
  let n := Z.to_nat i in
  firstn n l ++ match skipn n l with [] => [] | _ :: t => x :: t end.

(* ptr::swap(base.add(i), base.add(j)): both offsets must address elements of the buffer *)
Definition ptr_swap {A} (l : list A) (i j : Z) : res (list A) :=
  match znth_opt i l, znth_opt j l with
  | Some x, Some y => Val (zupd (zupd l i y) j x)
  | _, _ => UB UBPtr
  end.

(* <[T]>::get_unchecked(lo..hi) *)
Definition slice_unchecked {A} (l : list A) (lo hi : Z) : res (list A) :=
  if (0 <=? lo) && (lo <=? hi) && (hi <=? zlen l) then Val (zfirstn (hi - lo) (zskipn lo l)) else UB UBIndex.
(* writing xs over l starting at lo (the write-back of a mutable sub-slice) *)
Definition splice {A} (l : list A) (lo : Z) (xs : list A) : list A :=
  zfirstn lo l ++ xs ++ zskipn (lo + zlen xs) l.

(* iter().skip(a).step_by(s).take(n) as the std adaptors execute it; step_by(0) panics *)
(* Parameters beyond the length of the slice behave like the length itself (skip past the
   end, a step that leaves the slice after the first item, take more than there is); they
   are clamped so that the model never builds a unary number of the size of a usize. *)
Definition zview {A} (a s n : Z) (l : list A) : res (list A) :=
  if s =? 0 then Panic PanicStd
  else Val (view A (Z.to_nat (Z.min a (zlen l))) (Z.to_nat (Z.min s (zlen l + 1))) (Z.to_nat (Z.min n (zlen l))) l).

(* for i in l { s = body i s } in the outcome monad *)
Fixpoint for_res {S} (l : list Z) (s : S) (body : Z -> S -> res S) : res S :=
  match l with
  | [] => Val s
  | i :: t => let* s' := body i s in for_res t s' body
  end.

(* map with an effectful body, left to right *)
Fixpoint map_res {X Y} (f : X -> res Y) (l : list X) : res (list Y) :=
  match l with
  | [] => Val []
  | x :: t => let* y := f x in let* ys := map_res f t in Val (y :: ys)
  end.

Definition res_of_result {X} (r : result X) (k : X -> res (result X)) : res (result X) :=
  match r with Ok x => k x | Err e => Val (Err e) end.

(* ---------- size / capacity decisions (no element data involved) ---------- *)
(* shape.into().try_to_axis_shape(order)? ; check_size(shape.size())? — the prologue of with_default, with_value,
   with_initializer, resize, the TryFrom impls and (with the result shape) multiply *)
Definition decide_shape (c : cfg) (es : Z) (o : order) (r cl : Z) : res (result (AxisShape * Z)) :=
  match Shape_try_to_axis_shape c (mkShape r cl) o with
  | Err e => Val (Err e)
  | Ok sh =>
    let* sz0 := AxisShape_size c sh in
    match check_size c es sz0 with
    | Err e => Val (Err e)
    | Ok sz => Val (Ok (sh, sz))
    end
  end.
(* reshape: any overflow and any size different from the current one is SizeMismatch *)
Definition reshape_decision (c : cfg) (o : order) (len : Z) (r cl : Z) : res (result AxisShape) :=
  match Shape_try_to_axis_shape c (mkShape r cl) o with
  | Err _ => Val (Err SizeMismatch)
  | Ok sh =>
    let* sz := AxisShape_size c sh in
    if negb (len =? sz) then Val (Err SizeMismatch) else Val (Ok sh)
  end.

Section Ops.
Context {A : Type}.
Variable c : cfg.
Variable es : Z.                 (* size_of::<A>() *)
Implicit Types m : matrix A.

Definition set_data m (d : list A) : matrix A := mkMatrix (m_order m) (m_shape m) d.

(* ---------- lib.rs: transpose (cycle following) ---------- *)
Fixpoint tr_inner (fuel : nat) (old new : AxisShape) (index current : Z) (vis : list bool) (a : list A)
  : res (list bool * list A) :=
  match fuel with
  | O => Panic OutOfFuel
  | S f =>
    match znth_opt current vis with
    | None => UB UBIndex                              (* visited.get_unchecked_mut(current) *)
    | Some true => Val (vis, a)
    | Some false =>
      let vis' := zupd vis current true in
      let* next := remap c current old new in
      let* a' := ptr_swap a index next in
      tr_inner f old new index next vis' a'
    end
  end.

Definition transpose m : res (matrix A) :=
  if es =? 0 then Val (mkMatrix (m_order m) (AxisShape_transpose (m_shape m)) (m_data m)) else
  let old := m_shape m in
  let new := AxisShape_transpose old in
  let n := length (m_data m) in
  let* va := for_res (zseq (size m)) (repeat false n, m_data m)
               (fun index va => tr_inner (S n) old new index index (fst va) (snd va)) in
  Val (mkMatrix (m_order m) new (snd va)).

Definition switch_order m : res (matrix A) :=
  let* m' := transpose m in Val (mkMatrix (Order_switch (m_order m')) (m_shape m') (m_data m')).
Definition switch_order_wr m : matrix A := mkMatrix (Order_switch (m_order m)) (m_shape m) (m_data m).
Definition set_order m (o : order) : res (matrix A) :=
  if order_eqb o (m_order m) then Val m else switch_order m.
Definition set_order_wr m (o : order) : matrix A :=
  if order_eqb o (m_order m) then m else switch_order_wr m.

(* ---------- lib.rs: reshape / resize / clear ---------- *)
Definition reshape m (r cl : Z) : res (result (matrix A)) :=
  let* d := reshape_decision c (m_order m) (size m) r cl in
  match d with
  | Err e => Val (Err e)
  | Ok sh => Val (Ok (mkMatrix (m_order m) sh (m_data m)))
  end.

Definition resize (dflt : A) m (r cl : Z) : res (result (matrix A)) :=
  let* d := decide_shape c es (m_order m) r cl in
  match d with
  | Err e => Val (Err e)
  | Ok (sh, sz) =>
    if sz <=? size m then Val (Ok (mkMatrix (m_order m) sh (zfirstn sz (m_data m))))
    else Val (Ok (mkMatrix (m_order m) sh (m_data m ++ zrepeat dflt (sz - size m))))
  end.

Definition clear m : matrix A := mkMatrix (m_order m) (mkAxisShape 0 0) [].

(* ---------- lib.rs: overwrite ---------- *)
Definition overwrite (clone : A -> A) (d s : matrix A) : res (matrix A) :=
  if order_eqb (m_order d) (m_order s) then
    let mj := Z.min (mmajor d) (mmajor s) in
    let mn := Z.min (mminor d) (mminor s) in
    let* data := for_res (zseq mj) (m_data d) (fun i data =>
      let* self_lower := umul c i (AxisShape_major_stride (m_shape d)) in
      let* t := umul c mn (AxisShape_minor_stride (m_shape d)) in
      let* self_upper := uadd c self_lower t in
      let* source_lower := umul c i (AxisShape_major_stride (m_shape s)) in
      let* source_upper := uadd c source_lower t in
      let* dst := slice_unchecked data self_lower self_upper in
      let* src := slice_unchecked (m_data s) source_lower source_upper in
      if negb (zlen dst =? zlen src) then Panic PanicStd              (* clone_from_slice length check *)
      else Val (splice data self_lower (map clone src))) in
    Val (set_data d data)
  else
    let mj := Z.min (mmajor d) (mminor s) in
    let mn := Z.min (mminor d) (mmajor s) in
    let* data := for_res (zseq mj) (m_data d) (fun i data =>
      let* self_lower := umul c i (AxisShape_major_stride (m_shape d)) in
      let* t := umul c mn (AxisShape_minor_stride (m_shape d)) in
      let* self_upper := uadd c self_lower t in
      let* dst := slice_unchecked data self_lower self_upper in
      let* src := zview i (AxisShape_major_stride (m_shape s)) (zlen (m_data s)) (m_data s) in
      (* zip stops at the shorter side *)
      let k := Z.min (zlen dst) (zlen src) in
      Val (splice data self_lower (map clone (zfirstn k src)))) in
    Val (set_data d data).

(* ---------- swap.rs ---------- *)
Definition swap_major_axis_vectors m (a b : Z) : res (result (matrix A)) :=
  if (a >=? mmajor m) || (b >=? mmajor m) then Val (Err IndexOutOfBounds) else
  if a =? b then Val (Ok m) else
  let* index := umul c a (AxisShape_major_stride (m_shape m)) in
  let* jndex := umul c b (AxisShape_major_stride (m_shape m)) in
  let count := mminor m in
  (* ptr::swap_nonoverlapping(x, y, count): both ranges inside the buffer and disjoint *)
  if negb ((index + count <=? size m) && (jndex + count <=? size m)) then UB UBPtr else
  if negb ((index + count <=? jndex) || (jndex + count <=? index)) then UB UBOverlap else
  let x := zfirstn count (zskipn index (m_data m)) in
  let y := zfirstn count (zskipn jndex (m_data m)) in
  Val (Ok (set_data m (splice (splice (m_data m) index y) jndex x))).

Definition swap_minor_axis_vectors m (a b : Z) : res (result (matrix A)) :=
  if (a >=? mminor m) || (b >=? mminor m) then Val (Err IndexOutOfBounds) else
  let* index := umul c a (AxisShape_minor_stride (m_shape m)) in
  let* jndex := umul c b (AxisShape_minor_stride (m_shape m)) in
  let* data := for_res (zseq (mmajor m)) (m_data m) (fun i data =>
    let* offset := umul c i (AxisShape_major_stride (m_shape m)) in
    let* x := uadd c index offset in
    let* y := uadd c jndex offset in
    ptr_swap data x y) in
  Val (Ok (set_data m data)).

(* the loop as it was before the repair of finding F5 (offsets accumulated, advanced once more after the last vector) *)
Definition swap_minor_axis_vectors_pinned m (a b : Z) : res (result (matrix A)) :=
  if (a >=? mminor m) || (b >=? mminor m) then Val (Err IndexOutOfBounds) else
  let* index0 := umul c a (AxisShape_minor_stride (m_shape m)) in
  let* jndex0 := umul c b (AxisShape_minor_stride (m_shape m)) in
  let* st := for_res (zseq (mmajor m)) (m_data m, index0, jndex0) (fun _ st =>
    let '(data, index, jndex) := st in
    let* data' := ptr_swap data index jndex in
    let* index' := uadd c index (AxisShape_major_stride (m_shape m)) in
    let* jndex' := uadd c jndex (AxisShape_major_stride (m_shape m)) in
    Val (data', index', jndex')) in
  Val (Ok (set_data m (fst (fst st)))).

Definition swap_rows m (a b : Z) : res (result (matrix A)) :=
  match m_order m with RowMajor => swap_major_axis_vectors m a b | ColMajor => swap_minor_axis_vectors m a b end.
Definition swap_cols m (a b : Z) : res (result (matrix A)) :=
  match m_order m with RowMajor => swap_minor_axis_vectors m a b | ColMajor => swap_major_axis_vectors m a b end.

(* Matrix::swap(i, j): the two get_mut calls have produced positions p, q *)
Definition swap_at m (p q : Z) : res (matrix A) :=
  let* d := ptr_swap (m_data m) p q in Val (set_data m d).

(* ---------- apply / map / map_ref (es' = size_of of the output element) ---------- *)
Definition apply (f : A -> A) m : matrix A := set_data m (map f (m_data m)).

Section Out.
Context {B : Type}.
Variable es' : Z.
Definition retype m (d : list B) : matrix B := mkMatrix (m_order m) (m_shape m) d.

Definition map_matrix (f : A -> B) m : result (matrix B) :=
  match check_size c es' (size m) with
  | Err e => Err e
  | Ok _ => Ok (retype m (map f (m_data m)))
  end.

(* ---------- arithmetic.rs: scalar operations ---------- *)
Definition scalar_operation {S} (op : A -> S -> B) m (s : S) : result (matrix B) :=
  map_matrix (fun e => op e s) m.
End Out.
Definition scalar_operation_assign {S} (op : A -> S -> A) m (s : S) : matrix A :=
  set_data m (map (fun e => op e s) (m_data m)).

(* ---------- iter.rs: row / column views and element iterators ---------- *)
Definition iter_nth_major_axis_vector_unchecked m (n : Z) : res (list A) :=
  let* skip := umul c n (AxisShape_major_stride (m_shape m)) in
  zview skip (AxisShape_minor_stride (m_shape m)) (mminor m) (m_data m).
Definition iter_nth_minor_axis_vector_unchecked m (n : Z) : res (list A) :=
  let* skip := umul c n (AxisShape_minor_stride (m_shape m)) in
  zview skip (AxisShape_major_stride (m_shape m)) (mmajor m) (m_data m).
Definition iter_nth_major_axis_vector m (n : Z) : res (result (list A)) :=
  if n >=? mmajor m then Val (Err IndexOutOfBounds)
  else let* v := iter_nth_major_axis_vector_unchecked m n in Val (Ok v).
Definition iter_nth_minor_axis_vector m (n : Z) : res (result (list A)) :=
  if n >=? mminor m then Val (Err IndexOutOfBounds)
  else let* v := iter_nth_minor_axis_vector_unchecked m n in Val (Ok v).
Definition iter_nth_row m n := match m_order m with RowMajor => iter_nth_major_axis_vector m n | ColMajor => iter_nth_minor_axis_vector m n end.
Definition iter_nth_col m n := match m_order m with RowMajor => iter_nth_minor_axis_vector m n | ColMajor => iter_nth_major_axis_vector m n end.
(* the closures of iter_rows / iter_cols: (0..nrows).map(row_view), (0..ncols).map(col_view) *)
Definition row_view m (n : Z) : res (list A) :=
  match m_order m with
  | RowMajor => iter_nth_major_axis_vector_unchecked m n
  | ColMajor => iter_nth_minor_axis_vector_unchecked m n
  end.
Definition col_view m (n : Z) : res (list A) :=
  match m_order m with
  | RowMajor => iter_nth_minor_axis_vector_unchecked m n
  | ColMajor => iter_nth_major_axis_vector_unchecked m n
  end.
Definition iter_rows m : res (list (list A)) := map_res (row_view m) (zseq (nrows m)).
Definition iter_cols m : res (list (list A)) := map_res (col_view m) (zseq (ncols m)).

(* iter_elements_with_index: data.iter().enumerate().map(Index::from_flattened) *)
Definition iter_elements_with_index m : res (list (Index * A)) :=
  map_res (fun ia => let* ix := Index_from_flattened (fst ia) (m_order m) (m_shape m) in Val (ix, snd ia))
          (combine (zseq (size m)) (m_data m)).

(* ---------- eq.rs ---------- *)
Definition matrix_eqb (eqb : A -> A -> bool) (a b : matrix A) : res bool :=
  if order_eqb (m_order a) (m_order b) then
    Val (AxisShape_eqb (m_shape a) (m_shape b) &&
         ((zlen (m_data a) =? zlen (m_data b)) && forallb (fun p => eqb (fst p) (snd p)) (combine (m_data a) (m_data b))))
  else if (mmajor a =? mminor b) && (mminor a =? mmajor b) then
    (* Iterator::all short-circuits at the first unequal pair *)
    (fix all (l : list (Z * A)) : res bool :=
       match l with
       | [] => Val true
       | (index, lft) :: t =>
         let* j := remap c index (m_shape a) (m_shape b) in
         let* rgt := get_unchecked (m_data b) j in
         if eqb lft rgt then all t else Val false
       end) (combine (zseq (size a)) (m_data a))
  else Val false.

Definition contains (eqb : A -> A -> bool) m (v : A) : bool := existsb (fun x => eqb x v) (m_data m).

(* ---------- construct.rs / convert.rs ---------- *)
Definition new_matrix : matrix A := mkMatrix RowMajor (mkAxisShape 0 0) [].

Definition decide_ctor (r cl : Z) : res (result (AxisShape * Z)) := decide_shape c es RowMajor r cl.

Definition with_value (r cl : Z) (v : A) : res (result (matrix A)) :=
  let* d := decide_ctor r cl in
  match d with
  | Err e => Val (Err e)
  | Ok (sh, sz) => Val (Ok (mkMatrix RowMajor sh (zrepeat v sz)))
  end.
Definition with_default (dflt : A) (r cl : Z) : res (result (matrix A)) := with_value r cl dflt.
Definition with_initializer (f : Index -> A) (r cl : Z) : res (result (matrix A)) :=
  let* d := decide_ctor r cl in
  match d with
  | Err e => Val (Err e)
  | Ok (sh, sz) =>
    let* data := map_res (fun i => let* ix := Index_from_flattened i RowMajor sh in Val (f ix)) (zseq sz) in
    Val (Ok (mkMatrix RowMajor sh data))
  end.

Definition from_row (l : list A) : matrix A := mkMatrix RowMajor (Shape_to_axis_shape_unchecked (mkShape 1 (zlen l)) RowMajor) l.
Definition from_col (l : list A) : matrix A := mkMatrix RowMajor (Shape_to_axis_shape_unchecked (mkShape (zlen l) 1) RowMajor) l.
(* From<[[T; C]; R]> and its Vec / slice siblings: rows are uniform by typing (length ncols) *)
Definition from_arrays (ncols : Z) (rows : list (list A)) : matrix A :=
  mkMatrix RowMajor (Shape_to_axis_shape_unchecked (mkShape (zlen rows) ncols) RowMajor) (concat rows).
(* the three TryFrom impls *)
Definition try_from_rows (rows : list (list A)) : res (result (matrix A)) :=
  let nr := zlen rows in
  let nc := match rows with [] => 0 | r :: _ => zlen r end in
  let* d := decide_ctor nr nc in
  match d with
  | Err e => Val (Err e)
  | Ok (sh, _) =>
    (fix go (rs : list (list A)) (data : list A) : res (result (matrix A)) :=
       match rs with
       | [] => Val (Ok (mkMatrix RowMajor sh data))
       | r :: t => if negb (zlen r =? nc) then Val (Err LengthInconsistent) else go t (data ++ r)
       end) rows []
  end.
(* FromIterator *)
Definition from_iter (rows : list (list A)) : res (matrix A) :=
  match rows with
  | [] => Val new_matrix
  | row :: rest =>
    let nc := zlen row in
    (fix go (rs : list (list A)) (data : list A) (nr sz : Z) : res (matrix A) :=
       match rs with
       | [] => Val (mkMatrix RowMajor (Shape_to_axis_shape_unchecked (mkShape nr nc) RowMajor) data)
       | r :: t =>
         let data' := data ++ r in
         let* dlt := usub c (zlen data') sz in
         if negb (dlt =? nc) then Panic (PanicErr LengthInconsistent)
         else let* nr' := uadd c nr 1 in go t data' nr' (zlen data')
       end) rest row 1 nc
  end.

End Ops.

(* ---------- arithmetic.rs: elementwise and multiplication-like operations ---------- *)
Section Binary.
Context {L R U : Type}.
Variable c : cfg.
Variable esU : Z.                (* size_of::<U>() *)

(* the right-hand element paired with position `index` of lhs *)
Definition rhs_at (a : matrix L) (b : matrix R) (index : Z) : res R :=
  let* j := remap c index (m_shape a) (m_shape b) in get_unchecked (m_data b) j.

Definition zip_data (op : L -> R -> U) (a : matrix L) (b : matrix R) : res (list U) :=
  if order_eqb (m_order a) (m_order b) then
    Val (map (fun p => op (fst p) (snd p)) (combine (m_data a) (m_data b)))
  else
    map_res (fun il => let* rgt := rhs_at a b (fst il) in Val (op (snd il) rgt))
            (combine (zseq (size a)) (m_data a)).

Definition is_ew_conformable (a : matrix L) (b : matrix R) : bool :=
  is_elementwise_conformable (m_order a) (m_shape a) (m_order b) (m_shape b).

(* elementwise_operation and elementwise_operation_consume_self (same control flow) *)
Definition elementwise_operation (op : L -> R -> U) (a : matrix L) (b : matrix R) : res (result (matrix U)) :=
  if negb (is_ew_conformable a b) then Val (Err ShapeNotConformable) else
  match check_size c esU (size a) with
  | Err e => Val (Err e)
  | Ok _ => let* d := zip_data op a b in Val (Ok (mkMatrix (m_order a) (m_shape a) d))
  end.

Definition is_mul_conformable (a : matrix L) (b : matrix R) : bool :=
  is_multiplication_conformable (m_order a) (m_shape a) (m_order b) (m_shape b).
End Binary.

Section Assign.
Context {L R : Type}.
Variable c : cfg.
Definition elementwise_operation_assign (op : L -> R -> L) (a : matrix L) (b : matrix R) : res (result (matrix L)) :=
  if negb (is_ew_conformable a b) then Val (Err ShapeNotConformable) else
  let* d := zip_data c op a b in Val (Ok (mkMatrix (m_order a) (m_shape a) d)).
End Assign.

Section Multiply.
Context {L R U : Type}.
Variable c : cfg.
Variables esL esR esU : Z.
Variable dflt : U.

(* arithmetic.rs get_nth_major_axis_vector *)
Definition get_nth_major_axis_vector {X} (m : matrix X) (n : Z) : res (list X) :=
  let* lower := umul c n (AxisShape_major_stride (m_shape m)) in
  let* upper := uadd c lower (AxisShape_major_stride (m_shape m)) in
  slice_unchecked (m_data m) lower upper.

(* conformability, then the size / capacity decision on nrows(lhs) x ncols(rhs) in lhs's order, for the output element size *)
Definition mul_decision (a : matrix L) (b : matrix R) : res (result (AxisShape * Z)) :=
  if negb (is_mul_conformable a b) then Val (Err ShapeNotConformable)
  else decide_shape c esU (m_order a) (nrows a) (ncols b).

(* multiplication_like_operation; `op` sees row i of lhs and column j of rhs *)
Definition multiplication_like_operation (op : list L -> list R -> res U) (a : matrix L) (b : matrix R)
  : res (result (matrix U)) :=
  let nr := nrows a in
  let nc := ncols b in
  let order := m_order a in
  let* d := mul_decision a b in
  match d with
  | Err e => Val (Err e)
  | Ok (sh, sz) =>
      if ncols a =? 0 then Val (Ok (mkMatrix order sh (zrepeat dflt sz))) else
      let* a' := set_order c esL a RowMajor in
      let* b' := set_order c esR b ColMajor in
      let cell (row col : Z) : res U :=
        let* l := get_nth_major_axis_vector a' row in
        let* r := get_nth_major_axis_vector b' col in
        op l r in
      let* data :=
        match order with
        | RowMajor => let* rows := map_res (fun row => map_res (fun col => cell row col) (zseq nc)) (zseq nr) in Val (concat rows)
        | ColMajor => let* cols := map_res (fun col => map_res (fun row => cell row col) (zseq nr)) (zseq nc) in Val (concat cols)
        end in
      Val (Ok (mkMatrix order sh data))
  end.

(* mul.rs dot_product(..).unwrap_unchecked() *)
Variable mul : L -> R -> U.
Variable add : U -> U -> U.
Definition dot_product (l : list L) (r : list R) : res U :=
  match map (fun p => mul (fst p) (snd p)) (combine l r) with
  | [] => UB UBUnwrapNone
  | x :: t => Val (fold_left add t x)
  end.
Definition multiply (a : matrix L) (b : matrix R) : res (result (matrix U)) :=
  multiplication_like_operation dot_product a b.
End Multiply.
