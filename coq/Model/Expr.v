(* Symbolic element values.  The correspondence harness uses an instrumented
   element type whose operators build these trees, so that operand order and
   association are observable. *)
From Matreex Require Export Base.Machine.

Inductive expr :=
  | Atom (z : Z)                        (* a plain value *)
  | Dflt                                (* T::default() *)
  | Bin (o : Z) (l r : expr)            (* 0 + | 1 - | 2 * | 3 / | 4 % | 10+f : closure f applied to two elements | 20+f : initializer f applied to (row, col) *)
  | Un (f : Z) (e : expr).              (* 0 neg | 10+f : closure f applied to one element *)

Fixpoint expr_eqb (a b : expr) : bool :=
  match a, b with
  | Atom x, Atom y => x =? y
  | Dflt, Dflt => true
  | Bin o l r, Bin o' l' r' => (o =? o') && expr_eqb l l' && expr_eqb r r'
  | Un f e, Un f' e' => (f =? f') && expr_eqb e e'
  | _, _ => false
  end.

Lemma expr_eqb_refl a : expr_eqb a a = true.
Proof.
  induction a as [z| |o l IHl r IHr|f e IHe]; cbn; auto.
  - apply Z.eqb_refl.
  - now rewrite Z.eqb_refl, IHl, IHr.
  - now rewrite Z.eqb_refl, IHe.
Qed.

Lemma expr_eqb_eq a b : expr_eqb a b = true <-> a = b.
Proof.
  split; [|intros ->; apply expr_eqb_refl].
  revert b; induction a as [z| |o l IHl r IHr|f e IHe]; intros [z'| |o' l' r'|f' e']; cbn; try discriminate; auto.
  - intros H; apply Z.eqb_eq in H; now subst.
  - intros H. apply andb_prop in H as [H H3]. apply andb_prop in H as [H1 H2].
    apply Z.eqb_eq in H1. apply IHl in H2. apply IHr in H3. now subst.
  - intros H. apply andb_prop in H as [H1 H2]. apply Z.eqb_eq in H1. apply IHe in H2. now subst.
Qed.
