(* The matrix state, coherence, the logical view, and the indexing entry
   points of src/index.rs (Layer K on top of Kernel.v). *)
From Matreex Require Export Model.Kernel.

Record matrix (A : Type) := mkMatrix { m_order : order; m_shape : AxisShape; m_data : list A }.
Arguments mkMatrix {A}. Arguments m_order {A}. Arguments m_shape {A}. Arguments m_data {A}.

Section Mat.
Context {A : Type}.
Implicit Types m : matrix A.

Definition nrows m : Z := AxisShape_nrows (m_shape m) (m_order m).       (* lib.rs nrows *)
Definition ncols m : Z := AxisShape_ncols (m_shape m) (m_order m).
Definition size m : Z := zlen (m_data m).                               (* lib.rs size = data.len() *)
Definition is_empty m : bool := size m =? 0.
Definition mmajor m := major (m_shape m).
Definition mminor m := minor (m_shape m).

(* Coherence.  The extents are usize fields; the last two conjuncts are Vec's own invariants (len <= usize::MAX,
   byte size <= isize::MAX), trusted of std; es is size_of::<T>(). *)
Definition Coh (c : cfg) (es : Z) m : Prop :=
  0 <= mmajor m <= umax c /\ 0 <= mminor m <= umax c /\ mmajor m * mminor m = size m /\
  size m <= umax c /\ es * size m <= imax c.

(* position of logical (r, c) in the element store *)
Definition flat m (r cl : Z) : Z :=
  match m_order m with
  | RowMajor => r * mminor m + cl
  | ColMajor => cl * mminor m + r
  end.
(* logical view: element at (r, c) *)
Definition at_ m (r cl : Z) : option A := znth_opt (flat m r cl) (m_data m).
(* executable row-of-rows presentation *)
Definition rows_of m : list (list (option A)) :=
  map (fun r => map (fun cl => at_ m r cl) (zseq (ncols m))) (zseq (nrows m)).

(* ---------- MatrixIndex for AxisIndex (index.rs:600-617) ---------- *)
Definition AxisIndex_locate_unchecked (c : cfg) m (i : AxisIndex) : res Z :=
  AxisIndex_to_flattened c i (m_shape m).
Definition AxisIndex_get_unchecked (c : cfg) m (i : AxisIndex) : res A :=
  let* p := AxisIndex_locate_unchecked c m i in get_unchecked (m_data m) p.
(* trait default get: ensure_in_bounds, then get_unchecked.  `locate` is the
   same with the final read left out (what get_mut hands to swap). *)
Definition AxisIndex_locate (c : cfg) m (i : AxisIndex) : res (result Z) :=
  if AxisIndex_is_out_of_bounds i (m_shape m) then Val (Err IndexOutOfBounds)
  else let* p := AxisIndex_locate_unchecked c m i in
       let* _ := get_unchecked (m_data m) p in Val (Ok p).
Definition AxisIndex_get (c : cfg) m (i : AxisIndex) : res (result A) :=
  if AxisIndex_is_out_of_bounds i (m_shape m) then Val (Err IndexOutOfBounds)
  else let* a := AxisIndex_get_unchecked c m i in Val (Ok a).

(* ---------- blanket impl for I: AsIndex (index.rs:376-411) ---------- *)
(* An accessor object: the values successive row() / col() calls return (the
   last one repeats), plus call counters.  Arbitrary caller code. *)
Record accessor := mkAcc { acc_rows : list Z; acc_cols : list Z; acc_nrow : Z; acc_ncol : Z }.
Definition pop (l : list Z) : Z * list Z :=
  match l with [] => (0, []) | [x] => (x, [x]) | x :: t => (x, t) end.
Definition acc_row (a : accessor) : Z * accessor :=
  let '(x, t) := pop (acc_rows a) in (x, mkAcc t (acc_cols a) (acc_nrow a + 1) (acc_ncol a)).
Definition acc_col (a : accessor) : Z * accessor :=
  let '(x, t) := pop (acc_cols a) in (x, mkAcc (acc_rows a) t (acc_nrow a) (acc_ncol a + 1)).
Definition acc_const (r cl : Z) : accessor := mkAcc [r] [cl] 0 0.

(* AxisIndex::from_index (index.rs:543): one row() and one col() call, in the
   order the match arm evaluates them *)
Definition AxisIndex_from_index (a : accessor) (o : order) : AxisIndex * accessor :=
  match o with
  | RowMajor => let '(r, a1) := acc_row a in let '(cl, a2) := acc_col a1 in (mkAxisIndex r cl, a2)
  | ColMajor => let '(cl, a1) := acc_col a in let '(r, a2) := acc_row a1 in (mkAxisIndex cl r, a2)
  end.
Definition AsIndex_get (c : cfg) m (a : accessor) : res (result A) * accessor :=        (* index.rs:387 *)
  let '(i, a') := AxisIndex_from_index a (m_order m) in (AxisIndex_get c m i, a').
Definition AsIndex_locate (c : cfg) m (a : accessor) : res (result Z) * accessor :=     (* get_mut, index.rs:393 *)
  let '(i, a') := AxisIndex_from_index a (m_order m) in (AxisIndex_locate c m i, a').
Definition AsIndex_index (c : cfg) m (a : accessor) : res A * accessor :=               (* trait default index, index.rs:236 *)
  let '(r, a') := AsIndex_get c m a in
  (match r with
   | Val (Ok x) => Val x
   | Val (Err e) => Panic (PanicErr e)
   | Panic w => Panic w
   | UB w => UB w
   end, a').

(* ---------- WrappingIndex (index.rs:497-519); get/index are the trait defaults ---------- *)
Definition Wrapping_locate_unchecked (c : cfg) m (row col : Z) : res Z :=
  let* i := AxisIndex_from_wrapping_index c row col (m_order m) (m_shape m) in
  AxisIndex_locate_unchecked c m i.
Definition Wrapping_get_unchecked (c : cfg) m (row col : Z) : res A :=
  let* p := Wrapping_locate_unchecked c m row col in get_unchecked (m_data m) p.
Definition Wrapping_get (c : cfg) m (row col : Z) : res (result A) :=
  if is_empty m then Val (Err IndexOutOfBounds)
  else let* a := Wrapping_get_unchecked c m row col in Val (Ok a).
Definition Wrapping_locate (c : cfg) m (row col : Z) : res (result Z) :=
  if is_empty m then Val (Err IndexOutOfBounds)
  else let* p := Wrapping_locate_unchecked c m row col in
       let* _ := get_unchecked (m_data m) p in Val (Ok p).
Definition Wrapping_index (c : cfg) m (row col : Z) : res A :=
  let* r := Wrapping_get c m row col in
  match r with Ok x => Val x | Err e => Panic (PanicErr e) end.

End Mat.

(* The matrix with logical content f, laid out in the given order. *)
Definition mat_of_fun {A} (o : order) (nr nc : Z) (f : Z -> Z -> A) : matrix A :=
  match o with
  | RowMajor => mkMatrix RowMajor (mkAxisShape nr nc)
                  (flat_map (fun r => map (fun cl => f r cl) (zseq nc)) (zseq nr))
  | ColMajor => mkMatrix ColMajor (mkAxisShape nc nr)
                  (flat_map (fun cl => map (fun r => f r cl) (zseq nr)) (zseq nc))
  end.
