(* C10 — swaps exchange exactly the named elements, rows or columns for every index pair.
   Only statements; proofs in Proofs/Swap.v.  `sw a b i` is the transposition of a and b (the identity when a = b). *)
From Coq Require Import Permutation.
From Matreex Require Import Model.Ops Proofs.Layout Proofs.Swap Proofs.SwapPerm.

Example C10_instances :
  let m := mat_of_fun ColMajor 2 3 (fun r c => r * 10 + c) in
  Coh (cfg64 true) 8 m /\
  swap_rows (cfg64 true) m 0 1 = Val (Ok (mat_of_fun ColMajor 2 3 (fun r c => (1 - r) * 10 + c))) /\
  swap_cols (cfg64 true) m 2 2 = Val (Ok m) /\
  swap_cols (cfg64 true) m 1 3 = Val (Err IndexOutOfBounds).
Proof. repeat split; vm_compute; congruence. Qed.

(* rows: for every pair of usize values — both in range (equal ones included): exactly the two rows exchanged, nothing else
   moves, shape and order unchanged, never UB; otherwise IndexOutOfBounds and (no new state is returned) nothing changes *)
Theorem C10_swap_rows : forall (A : Type) (c : cfg) (es : Z) (m : matrix A) (a b : Z),
  Coh c es m -> 0 <= a -> 0 <= b ->
  if (a <? nrows m) && (b <? nrows m) then
    exists m', swap_rows c m a b = Val (Ok m') /\ Coh c es m' /\ m_order m' = m_order m /\ m_shape m' = m_shape m /\
      forall r cl, 0 <= r < nrows m -> 0 <= cl < ncols m -> at_ m' r cl = at_ m (sw a b r) cl
  else swap_rows c m a b = Val (Err IndexOutOfBounds).
Proof. intros A c es m a b. exact (swap_rows_logical c es m a b). Qed.
Print Assumptions C10_swap_rows.

Theorem C10_swap_cols : forall (A : Type) (c : cfg) (es : Z) (m : matrix A) (a b : Z),
  Coh c es m -> 0 <= a -> 0 <= b ->
  if (a <? ncols m) && (b <? ncols m) then
    exists m', swap_cols c m a b = Val (Ok m') /\ Coh c es m' /\ m_order m' = m_order m /\ m_shape m' = m_shape m /\
      forall r cl, 0 <= r < nrows m -> 0 <= cl < ncols m -> at_ m' r cl = at_ m r (sw a b cl)
  else swap_cols c m a b = Val (Err IndexOutOfBounds).
Proof. intros A c es m a b. exact (swap_cols_logical c es m a b). Qed.
Print Assumptions C10_swap_cols.

(* the vector swaps move elements (ptr::swap / swap_nonoverlapping): the element store afterwards is a permutation of the
   one before - nothing is cloned, nothing is dropped - for every index pair, shape and order *)
Theorem C10_swaps_move_only : forall (A : Type) (c : cfg) (es : Z) (m m' : matrix A) (a b : Z),
  Coh c es m -> 0 <= a -> 0 <= b ->
  (swap_rows c m a b = Val (Ok m') \/ swap_cols c m a b = Val (Ok m')) -> Permutation (m_data m) (m_data m').
Proof.
  intros A c es m m' a b HC Ha Hb [E|E]; [exact (swap_rows_moves_only c es m a b m' HC Ha Hb E)|exact (swap_cols_moves_only c es m a b m' HC Ha Hb E)].
Qed.
Print Assumptions C10_swaps_move_only.

(* swap(i, j) once both indices have resolved to positions p, q of the element store (C04 / C13 say which):
   the two elements exchanged, everything else in place; p = q is a no-op *)
Theorem C10_swap_elements : forall (A : Type) (m : matrix A) (p q : Z),
  0 <= p < size m -> 0 <= q < size m ->
  exists d, swap_at m p q = Val (set_data m d) /\ zlen d = size m /\
    forall k, znth_opt k d = if k =? q then znth_opt p (m_data m) else if k =? p then znth_opt q (m_data m) else znth_opt k (m_data m).
Proof. intros A m p q. exact (swap_at_spec m p q). Qed.
Print Assumptions C10_swap_elements.

(* finding F5 (repaired in /repo by a `fix:` commit): the strided loop as it was advanced its offsets once more after the
   last vector.  None of the C10 theorems depends on the pointer width, so the smallest instance shows it: with an 8-bit
   usize a 1 x 255 matrix of zero-sized elements makes the old loop panic on overflow, exactly as `swap_cols(0, 1)` on a
   1 x usize::MAX matrix of () did on the real crate in builds with overflow checks; the repaired loop succeeds. *)
Definition cfg8 : cfg := {| umax := 255; imax := 127; debug := true |}.
Theorem C10_pinned_strided_swap_refuted :
  Coh cfg8 0 (mkMatrix RowMajor (mkAxisShape 1 255) (zrepeat tt 255)) /\
  swap_minor_axis_vectors_pinned cfg8 (mkMatrix RowMajor (mkAxisShape 1 255) (zrepeat tt 255)) 0 1 = Panic AddOverflow /\
  exists d, swap_minor_axis_vectors cfg8 (mkMatrix RowMajor (mkAxisShape 1 255) (zrepeat tt 255)) 0 1 =
            Val (Ok (mkMatrix RowMajor (mkAxisShape 1 255) d)).
Proof.
  split; [vm_compute; repeat split; congruence|].
  split; [vm_compute; reflexivity|]. eexists. vm_compute. reflexivity.
Qed.
Print Assumptions C10_pinned_strided_swap_refuted.
