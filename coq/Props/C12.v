(* C12 — elementwise operations combine equal positions, once each, iff shapes agree.
   Only statements; proofs in Proofs/Elementwise.v.  `op` is the caller's closure (or the primitive operator of the
   named methods: elementwise_add is `op l r = l + r` with lhs as the left operand, etc. — Model/Step.v `binop`). *)
From Matreex Require Import Model.Ops Proofs.Layout Proofs.Elementwise.

Example C12_instance :
  let a := mat_of_fun RowMajor 2 3 (fun r c => r * 10 + c) in
  let b := mat_of_fun ColMajor 2 3 (fun r c => 100 * (r * 10 + c)) in
  is_ew_conformable a b = true /\
  elementwise_operation (cfg64 true) 8 Z.sub a b = Val (Ok (mat_of_fun RowMajor 2 3 (fun r c => (r * 10 + c) - 100 * (r * 10 + c)))).
Proof. split; vm_compute; reflexivity. Qed.

(* conformable exactly when the logical shapes are equal, regardless of storage orders *)
Theorem C12_conformable_iff : forall (L R : Type) (a : matrix L) (b : matrix R),
  is_ew_conformable a b = true <-> (nrows a = nrows b /\ ncols a = ncols b).
Proof. intros L R a b. exact (ew_conformable_iff a b). Qed.
Print Assumptions C12_conformable_iff.

(* elementwise_operation / elementwise_operation_consume_self: ShapeNotConformable iff not conformable; otherwise (capacity
   permitting) a matrix of lhs's shape and order whose (r, c) element is op(lhs[r][c], rhs[r][c]); the result list has one
   entry per lhs position, each produced by one closure call; the cross-order unchecked read is in range (Val, never UB) *)
Theorem C12_elementwise_operation : forall (L R U : Type) (c : cfg) (esL esR esU : Z) (op : L -> R -> U) (a : matrix L) (b : matrix R),
  Coh c esL a -> Coh c esR b -> wf c -> 0 <= esU ->
  if negb (is_ew_conformable a b) then elementwise_operation c esU op a b = Val (Err ShapeNotConformable)
  else if esU * size a >? imax c then elementwise_operation c esU op a b = Val (Err CapacityOverflow)
  else exists d, elementwise_operation c esU op a b = Val (Ok (mkMatrix (m_order a) (m_shape a) d)) /\ zlen d = size a /\
    forall r cl, 0 <= r < nrows a -> 0 <= cl < ncols a ->
      exists x y, at_ a r cl = Some x /\ at_ b r cl = Some y /\ at_ (mkMatrix (m_order a) (m_shape a) d) r cl = Some (op x y).
Proof. intros L R U c esL esR esU op a b. exact (elementwise_operation_spec c esL esR op esU a b). Qed.
Print Assumptions C12_elementwise_operation.

(* the assigning variant: the same values left in place in lhs; on ShapeNotConformable no new state exists (unchanged) *)
Theorem C12_elementwise_assign : forall (L R : Type) (c : cfg) (esL esR : Z) (op : L -> R -> L) (a : matrix L) (b : matrix R),
  Coh c esL a -> Coh c esR b ->
  if negb (is_ew_conformable a b) then elementwise_operation_assign c op a b = Val (Err ShapeNotConformable)
  else exists d, elementwise_operation_assign c op a b = Val (Ok (mkMatrix (m_order a) (m_shape a) d)) /\ zlen d = size a /\
    forall r cl, 0 <= r < nrows a -> 0 <= cl < ncols a ->
      exists x y, at_ a r cl = Some x /\ at_ b r cl = Some y /\ at_ (mkMatrix (m_order a) (m_shape a) d) r cl = Some (op x y).
Proof. intros L R c esL esR op a b. exact (elementwise_assign_spec c esL esR op a b). Qed.
Print Assumptions C12_elementwise_assign.
