(* C19 — constructors, conversions and macros build exactly the described matrix or fail.
   Only statements; proofs in Proofs/Construct.v and Proofs/ShapeOps.v.  The macros expand to these entry points
   (Model/Step.v MacroOp): matrix![] = new, matrix![[e; c]; r] = with_value, the bracketed forms = From<arrays>,
   row_vec!/col_vec! = from_row/from_col.  `uniform nc rows` says every row has length nc. *)
From Matreex Require Import Model.Ops Proofs.Layout Proofs.Construct Proofs.ShapeOps.

Example C19_instances :
  try_from_rows (cfg64 true) 8 [[1; 2; 3]; [4; 5]; [6; 7; 8; 9]] = Val (Err LengthInconsistent) /\
  try_from_rows (cfg64 true) 8 [[1; 2]; [3; 4]; [5; 6]] = Val (Ok (mat_of_fun RowMajor 3 2 (fun r c => 1 + r * 2 + c))) /\
  from_iter (cfg64 true) [[1; 2]; [3]; [4; 5; 6]] = Panic (PanicErr LengthInconsistent).
Proof. repeat split; vm_compute; reflexivity. Qed.

(* TryFrom for arrays / vectors / slices of vectors: size and capacity errors first, then LengthInconsistent exactly when
   some row differs in length from the first one (at any position, shorter or longer, even if the total length coincides);
   otherwise the rows in order *)
Theorem C19_try_from : forall (A : Type) (c : cfg) (es : Z) (rows : list (list A)),
  wf c -> 0 <= es -> zlen rows <= umax c -> first_len rows <= umax c ->
  try_from_rows c es rows =
  Val (if zlen rows * first_len rows >? umax c then Err SizeOverflow
       else if es * (zlen rows * first_len rows) >? imax c then Err CapacityOverflow
       else if uniform (first_len rows) rows then Ok (mkMatrix RowMajor (mkAxisShape (zlen rows) (first_len rows)) (concat rows))
       else Err LengthInconsistent).
Proof. intros A c es rows Hwf Hes. exact (try_from_rows_spec c Hwf es Hes rows). Qed.
Print Assumptions C19_try_from.

(* FromIterator: the same comparison with the first row, failing by the LengthInconsistent panic *)
Theorem C19_from_iter : forall (A : Type) (c : cfg) (rows : list (list A)),
  zlen rows <= umax c ->
  from_iter c rows =
  match rows with
  | [] => Val new_matrix
  | row :: rest =>
    if uniform (zlen row) rest then Val (mkMatrix RowMajor (mkAxisShape (zlen rows) (zlen row)) (concat rows))
    else Panic (PanicErr LengthInconsistent)
  end.
Proof. intros A c rows. exact (from_iter_spec c rows). Qed.
Print Assumptions C19_from_iter.

(* a matrix built from uniform rows (all conversions incl. From<[[T; C]; R]> and friends): logical row i is the i-th given row *)
Theorem C19_rows_in_order : forall (A : Type) (rows : list (list A)) (nc : Z),
  0 <= nc -> uniform nc rows = true ->
  let m := mkMatrix RowMajor (mkAxisShape (zlen rows) nc) (concat rows) in
  nrows m = zlen rows /\ ncols m = nc /\ size m = zlen rows * nc /\
  forall i j, 0 <= i < zlen rows -> 0 <= j < nc -> exists r, znth_opt i rows = Some r /\ at_ m i j = znth_opt j r.
Proof. intros A rows nc. exact (rows_layout rows nc). Qed.
Print Assumptions C19_rows_in_order.

(* with_value / with_default fill the requested shape *)
Theorem C19_with_value : forall (A : Type) (c : cfg) (es : Z) (r cl : Z) (v : A),
  wf c -> 0 <= es -> is_usize c r -> is_usize c cl ->
  with_value c es r cl v =
  Val (if r * cl >? umax c then Err SizeOverflow
       else if es * (r * cl) >? imax c then Err CapacityOverflow
       else Ok (mkMatrix RowMajor (mkAxisShape r cl) (zrepeat v (r * cl)))).
Proof. intros A c es r cl v Hwf Hes. exact (with_value_spec c Hwf es Hes r cl v). Qed.
Print Assumptions C19_with_value.

(* with_initializer: one closure call per position, and the value returned for (i, j) is stored at (i, j) *)
Theorem C19_with_initializer : forall (A : Type) (c : cfg) (es : Z) (f : Index -> A) (r cl : Z),
  wf c -> 0 <= es -> is_usize c r -> is_usize c cl ->
  if r * cl >? umax c then with_initializer c es f r cl = Val (Err SizeOverflow)
  else if es * (r * cl) >? imax c then with_initializer c es f r cl = Val (Err CapacityOverflow)
  else exists data, with_initializer c es f r cl = Val (Ok (mkMatrix RowMajor (mkAxisShape r cl) data)) /\ zlen data = r * cl /\
    forall i j, 0 <= i < r -> 0 <= j < cl -> znth_opt (i * cl + j) data = Some (f (mkIndex i j)).
Proof. intros A c es f r cl Hwf Hes. exact (with_initializer_spec c Hwf es Hes f r cl). Qed.
Print Assumptions C19_with_initializer.

(* from_row / from_col *)
Theorem C19_from_row_col : forall (A : Type) (l : list A),
  from_row l = mkMatrix RowMajor (mkAxisShape 1 (zlen l)) l /\ from_col l = mkMatrix RowMajor (mkAxisShape (zlen l) 1) l.
Proof. intros A l. split; reflexivity. Qed.
Print Assumptions C19_from_row_col.
