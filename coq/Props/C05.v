(* C05 — transpose is the exact transpose; order changes preserve logical contents.
   Only statements; proofs in Proofs/CycleFollowing.v (the cycle-following algorithm is correct for every bijection),
   Proofs/TransposePerm.v (the successor map of transpose is such a bijection for every shape),
   Proofs/Transpose.v (the list model of src/lib.rs transpose simulates it, within its fuel, never leaving the buffer)
   and Proofs/OrderOps.v.  `es` is size_of::<T>(); es = 0 is the zero-sized branch (only the shape is swapped). *)
From Matreex Require Import Model.Ops Proofs.Layout Proofs.Transpose Proofs.OrderOps.
From Coq Require Import Permutation.

Example C05_instance :
  transpose (cfg64 true) 8 (mat_of_fun ColMajor 2 3 (fun r c => r * 10 + c)) = Val (mat_of_fun ColMajor 3 2 (fun r c => c * 10 + r)) /\
  Coh (cfg64 true) 8 (mat_of_fun ColMajor 2 3 (fun r c => r * 10 + c)).
Proof. split; [vm_compute; reflexivity | vm_compute; repeat split; congruence]. Qed.

(* r x c becomes c x r with result[j][i] = original[i][j]; terminates, never UB, order unchanged, result coherent *)
Theorem C05_transpose_exact : forall (A : Type) (c : cfg) (es : Z) (m : matrix A),
  Coh c es m -> 0 < es ->
  exists m', transpose c es m = Val m' /\ Coh c es m' /\
    m_order m' = m_order m /\ nrows m' = ncols m /\ ncols m' = nrows m /\ size m' = size m /\
    forall r cl, 0 <= r < nrows m' -> 0 <= cl < ncols m' -> at_ m' r cl = at_ m cl r.
Proof. intros A c es m. exact (transpose_logical c es m). Qed.
Print Assumptions C05_transpose_exact.

(* zero-sized element types: the shape is swapped, nothing else happens *)
Theorem C05_transpose_zst : forall (A : Type) (c : cfg) (m : matrix A),
  transpose c 0 m = Val (mkMatrix (m_order m) (AxisShape_transpose (m_shape m)) (m_data m)).
Proof. intros A c m. exact (transpose_zst c 0 m eq_refl). Qed.
Print Assumptions C05_transpose_zst.

(* elements are moved, never cloned or dropped *)
Theorem C05_moves_only : forall (A : Type) (c : cfg) (es : Z) (m m' : matrix A),
  transpose c es m = Val m' -> Permutation (m_data m) (m_data m').
Proof. intros A c es m m'. exact (transpose_moves_only c es m m'). Qed.
Print Assumptions C05_moves_only.

(* applied twice it restores the original: shape, order and the whole memory-order sequence *)
Theorem C05_involutive : forall (A : Type) (c : cfg) (es : Z) (m : matrix A),
  Coh c es m -> 0 <= es -> exists m', transpose c es m = Val m' /\ transpose c es m' = Val m.
Proof. intros A c es m. exact (transpose_involutive c es m). Qed.
Print Assumptions C05_involutive.

(* switch_order / set_order: reported order changes, shape and every logical element stay *)
Theorem C05_switch_order : forall (A : Type) (c : cfg) (es : Z) (m : matrix A),
  Coh c es m -> 0 < es ->
  exists m', switch_order c es m = Val m' /\ Coh c es m' /\
    m_order m' = Order_switch (m_order m) /\ nrows m' = nrows m /\ ncols m' = ncols m /\
    forall r cl, 0 <= r < nrows m -> 0 <= cl < ncols m -> at_ m' r cl = at_ m r cl.
Proof. intros A c es m. exact (switch_order_logical c es m). Qed.
Print Assumptions C05_switch_order.

Theorem C05_set_order : forall (A : Type) (c : cfg) (es : Z) (m : matrix A) (o : order),
  Coh c es m -> 0 < es ->
  exists m', set_order c es m o = Val m' /\ Coh c es m' /\ m_order m' = o /\ nrows m' = nrows m /\ ncols m' = ncols m /\
    forall r cl, 0 <= r < nrows m -> 0 <= cl < ncols m -> at_ m' r cl = at_ m r cl.
Proof. intros A c es m o. exact (set_order_logical c es m o). Qed.
Print Assumptions C05_set_order.

(* the variants without rearrangement leave the memory-order sequence alone and present the transposed matrix *)
Theorem C05_without_rearrangement : forall (A : Type) (c : cfg) (es : Z) (m : matrix A),
  m_data (switch_order_wr m) = m_data m /\ m_order (switch_order_wr m) = Order_switch (m_order m) /\
  nrows (switch_order_wr m) = ncols m /\ ncols (switch_order_wr m) = nrows m /\
  (Coh c es m -> Coh c es (switch_order_wr m)) /\
  forall r cl, at_ (switch_order_wr m) r cl = at_ m cl r.
Proof. intros A c es m. exact (switch_order_wr_spec c es m). Qed.
Print Assumptions C05_without_rearrangement.

Theorem C05_set_order_without_rearrangement : forall (A : Type) (c : cfg) (es : Z) (m : matrix A) (o : order),
  m_data (set_order_wr m o) = m_data m /\ m_order (set_order_wr m o) = o /\
  (forall r cl, at_ (set_order_wr m o) r cl = if order_eqb o (m_order m) then at_ m r cl else at_ m cl r).
Proof. intros A c es m o. exact (set_order_wr_spec c es m o). Qed.
Print Assumptions C05_set_order_without_rearrangement.
