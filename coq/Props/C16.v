(* C16 — parallel helpers equal their sequential counterparts on every schedule (PARTIAL: relative to the documented
   indexed-producer contract of rayon, which is modelled, not verified).
   A schedule is an arbitrary binary split tree of the index range: each leaf is processed sequentially knowing its global
   offset (enumerate), results are concatenated in index order (collect); leaves may run in any order (`par_args` lists the
   closure invocations with the right halves first).  Only statements; proofs in Proofs/Schedules.v. *)
From Matreex Require Import Model.Step Proofs.Schedules Proofs.ShapeOps.
From Coq Require Import Permutation.

Example C16_schedule_instance :
  par_enum_map Z (nat * Z) (Node 2 (Node 1 Leaf Leaf) Leaf) (fun k x => (k, x * 10)) 0 [1; 2; 3; 4; 5]
  = [(0%nat, 10); (1%nat, 20); (2%nat, 30); (3%nat, 40); (4%nat, 50)].
Proof. vm_compute. reflexivity. Qed.

(* par_map / par_map_ref / par_apply: data.par_iter().map(f).collect() under ANY schedule is map f data *)
Theorem C16_par_map : forall (A B : Type) (t : split) (f : A -> B) (data : list A),
  par_enum_map A B t (fun _ x => f x) 0 data = map f data.
Proof.
  intros A B t f data. rewrite par_enum_map_any_schedule. unfold seq_enum_map.
  generalize 0%nat. induction data as [|x l IH]; intros off; cbn; [reflexivity|]. f_equal. apply IH.
Qed.
Print Assumptions C16_par_map.

(* the *_with_index parallel iterators: under any schedule the items are exactly (position, element) for every position *)
Theorem C16_with_index : forall (A : Type) (t : split) (data : list A),
  par_enum_map A (nat * A) t (fun k x => (k, x)) 0 data = combine (seq 0 (length data)) data.
Proof.
  intros A t data. rewrite par_enum_map_any_schedule. unfold seq_enum_map.
  generalize 0%nat. induction data as [|x l IH]; intros off; cbn; [reflexivity|]. f_equal. apply IH.
Qed.
Print Assumptions C16_with_index.

(* the closure is invoked exactly once per element whatever the order in which the pieces run *)
Theorem C16_once : forall (A : Type) (t : split) (data : list A),
  Permutation (par_args A t 0 data) (combine (seq 0 (length data)) data).
Proof. intros A t data. exact (par_args_perm A t 0 data). Qed.
Print Assumptions C16_once.

(* hence the history machine gives the parallel helpers the meaning of their sequential counterparts, including the same
   CapacityOverflow decision (the same check_size on the same output element size) *)
Theorem C16_same_as_sequential : forall (c : cfg) (es : Z) (p : pool) (d s f : Z),
  Model.Step.step c es p (ParMap d s f) = Model.Step.step c es p (MapOp d s f) /\
  Model.Step.step c es p (ParMapRef d s f) = Model.Step.step c es p (MapRef d s f) /\
  Model.Step.step c es p (ParApply s f) = Model.Step.step c es p (Apply s f).
Proof. intros. repeat split; reflexivity. Qed.
Print Assumptions C16_same_as_sequential.
