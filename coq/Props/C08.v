(* C08 — size and capacity overflow are reported as errors, never acted upon.
   Only statements; proofs in Proofs/Decisions.v, Proofs/ShapeOps.v.
   `decide_shape` is the prologue shared by with_default, with_value, with_initializer, resize, the three
   TryFrom impls and (on nrows(lhs) x ncols(rhs), with the output element size) both products; `es` is
   size_of::<T>().  All statements hold for every pointer width (wf c) and both build profiles. *)
From Matreex Require Import Model.Ops Proofs.Decisions Proofs.ShapeOps.

Example C08_boundary_instances :
  decide_shape (cfg64 true) 8 RowMajor 4294967296 4294967296 = Val (Err SizeOverflow) /\
  decide_shape (cfg64 true) 8 ColMajor 4294967296 268435456 = Val (Err CapacityOverflow) /\
  decide_shape (cfg64 false) 0 ColMajor 4294967296 4294967295 = Val (Ok (mkAxisShape 4294967295 4294967296, 18446744069414584320)).
Proof. repeat split; vm_compute; reflexivity. Qed.

Theorem C08_ctor_decision : forall (c : cfg) (es : Z) (o : order) (r cl : Z),
  wf c -> is_usize c r -> is_usize c cl -> 0 <= es ->
  decide_shape c es o r cl =
  Val (if r * cl >? umax c then Err SizeOverflow
       else if es * (r * cl) >? imax c then Err CapacityOverflow
       else Ok (Shape_to_axis_shape_unchecked (mkShape r cl) o, r * cl)).
Proof. intros c es o r cl Hc. exact (decide_shape_spec c Hc es o r cl). Qed.
Print Assumptions C08_ctor_decision.

Theorem C08_reshape_decision : forall (c : cfg) (o : order) (len r cl : Z),
  is_usize c r -> is_usize c cl ->
  reshape_decision c o len r cl =
  Val (if (r * cl >? umax c) || negb (len =? r * cl) then Err SizeMismatch
       else Ok (Shape_to_axis_shape_unchecked (mkShape r cl) o)).
Proof. intros c o len r cl. exact (reshape_decision_spec c o len r cl). Qed.
Print Assumptions C08_reshape_decision.

(* mapping-style operations (map, map_ref, the scalar_operation, elementwise_operation and par_map families): only the OUTPUT byte size matters *)
Theorem C08_map_decision : forall (A B : Type) (c : cfg) (es' : Z) (f : A -> B) (m : matrix A),
  wf c -> 0 <= es' ->
  map_matrix c es' f m =
  if es' * size m >? imax c then Err CapacityOverflow else Ok (mkMatrix (m_order m) (m_shape m) (map f (m_data m))).
Proof. intros A B c es' f m Hc. exact (map_matrix_spec c Hc es' f m). Qed.
Print Assumptions C08_map_decision.

(* products: ShapeNotConformable first, then the constructor decision on nrows(lhs) x ncols(rhs) with the output element size *)
Theorem C08_multiply_decision : forall (L R : Type) (c : cfg) (esU : Z) (a : matrix L) (b : matrix R),
  wf c -> is_usize c (nrows a) -> is_usize c (ncols b) -> 0 <= esU ->
  mul_decision c esU a b =
  Val (if negb (ncols a =? nrows b) then Err ShapeNotConformable
       else if nrows a * ncols b >? umax c then Err SizeOverflow
       else if esU * (nrows a * ncols b) >? imax c then Err CapacityOverflow
       else Ok (Shape_to_axis_shape_unchecked (mkShape (nrows a) (ncols b)) (m_order a), nrows a * ncols b)).
Proof.
  intros L R c esU a b Hc Hr Hcl He. unfold mul_decision, is_mul_conformable, is_multiplication_conformable.
  change (AxisShape_ncols (m_shape a) (m_order a)) with (ncols a). change (AxisShape_nrows (m_shape b) (m_order b)) with (nrows b).
  destruct (ncols a =? nrows b); cbn [negb]; [|reflexivity].
  exact (decide_shape_spec c Hc esU (m_order a) (nrows a) (ncols b) Hr Hcl He).
Qed.
Print Assumptions C08_multiply_decision.

(* no product on a path that is taken overflows: debug (panic on overflow) and release (wrap) builds decide alike *)
Theorem C08_no_internal_overflow : forall (c c' : cfg) (es : Z) (o : order) (len r cl : Z),
  wf c -> is_usize c r -> is_usize c cl -> 0 <= es -> umax c' = umax c -> imax c' = imax c ->
  decide_shape c' es o r cl = decide_shape c es o r cl /\ reshape_decision c' o len r cl = reshape_decision c o len r cl.
Proof. exact decisions_profile_independent. Qed.
Print Assumptions C08_no_internal_overflow.

(* a successful resize is coherent and has exactly the requested shape *)
Theorem C08_ok_coherent : forall (A : Type) (c : cfg) (es : Z) (dflt : A) (m m' : matrix A) (r cl : Z),
  wf c -> 0 <= es -> Coh c es m -> is_usize c r -> is_usize c cl ->
  resize c es dflt m r cl = Val (Ok m') ->
  Coh c es m' /\ nrows m' = r /\ ncols m' = cl /\ size m' = r * cl /\ m_order m' = m_order m.
Proof. intros A c es dflt m m' r cl Hc Hes. exact (resize_coh c Hc es Hes dflt m r cl m'). Qed.
Print Assumptions C08_ok_coherent.
