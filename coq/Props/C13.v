(* C13 — wrapping indices address the Euclidean remainder position for every isize pair.
   Only statements; the proofs are in Proofs/IndexProofs.v. *)
From Matreex Require Import Model.Matrix Proofs.Layout Proofs.IndexProofs.

(* non-vacuity: a coherent, non-empty 2 x 3 matrix exists in either order *)
Example C13_hypotheses_satisfiable :
  Coh (cfg64 true) 8 (mat_of_fun ColMajor 2 3 (fun r c => r * 10 + c)) /\
  size (mat_of_fun ColMajor 2 3 (fun r c => r * 10 + c)) > 0 /\
  Wrapping_get (cfg64 true) (mat_of_fun ColMajor 2 3 (fun r c => r * 10 + c)) (-9223372036854775808) 9223372036854775807
    = Val (Ok 1).
Proof. repeat split; vm_compute; congruence. Qed.

(* every form of wrapping access (get, get_unchecked, [], get_mut position) on a non-empty matrix
   yields the element at (row mod nrows, col mod ncols), Z.modulo being the non-negative remainder,
   for every isize pair including isize::MIN; no arithmetic overflows in either build profile *)
Theorem C13_wrap : forall (A : Type) (c : cfg) (es : Z) (m : matrix A) (row col : Z),
  wf c -> Coh c es m -> is_isize c row -> is_isize c col -> size m > 0 ->
  exists x, at_ m (row mod nrows m) (col mod ncols m) = Some x /\
            Wrapping_get c m row col = Val (Ok x) /\
            Wrapping_get_unchecked c m row col = Val x /\
            Wrapping_index c m row col = Val x /\
            Wrapping_locate c m row col = Val (Ok (flat m (row mod nrows m) (col mod ncols m))).
Proof. intros A c es m row col Hc. exact (Wrapping_get_spec c es m row col). Qed.
Print Assumptions C13_wrap.

Theorem C13_remainder_in_range : forall (A : Type) (c : cfg) (es : Z) (m : matrix A) (row col : Z),
  Coh c es m -> is_isize c row -> is_isize c col -> size m > 0 ->
  0 <= row mod nrows m < nrows m /\ 0 <= col mod ncols m < ncols m.
Proof. intros A c es m row col HC Hr Hcl Hs. exact (proj2 (from_wrapping_spec c es m row col HC Hr Hcl Hs)). Qed.
Print Assumptions C13_remainder_in_range.

(* on a matrix with no elements the checked forms fail without touching the element store ... *)
Theorem C13_empty_checked : forall (A : Type) (c : cfg) (m : matrix A) (row col : Z), size m = 0 ->
  Wrapping_get c m row col = Val (Err IndexOutOfBounds) /\
  Wrapping_locate c m row col = Val (Err IndexOutOfBounds) /\
  Wrapping_index c m row col = Panic (PanicErr IndexOutOfBounds).
Proof. intros A c m row col. exact (Wrapping_empty_checked c m row col). Qed.
Print Assumptions C13_empty_checked.

(* ... and the unchecked form panics (remainder by zero) before any access *)
Theorem C13_empty_unchecked : forall (A : Type) (c : cfg) (es : Z) (m : matrix A) (row col : Z),
  Coh c es m -> is_isize c row -> is_isize c col -> size m = 0 ->
  Wrapping_get_unchecked c m row col = Panic RemByZero.
Proof. intros A c es m row col. exact (Wrapping_empty_unchecked c es m row col). Qed.
Print Assumptions C13_empty_unchecked.
