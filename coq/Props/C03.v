(* C03 — mutable row/column iterators hand out every element exactly once, in bounds.
   Only statements; proofs in Proofs/IterMutProofs.v (step specifications of the two pointer-level state machines of
   Model/IterMut.v, both arms) and Proofs/InterleavingWorld.v (every program of calls on the outer iterator and on all
   inner iterators it has produced, all kept alive).
   Parameters: es = size_of::<T>() (0 allowed), al = align_of::<T>(), the buffer of cnt elements at `base` (Vec's allocation
   invariants for es > 0), and a layout: N vectors of n elements, vector v starting at element v * ast, stride vst inside a
   vector.  iter_rows_mut / iter_cols_mut use the two layouts of `C03_layouts` (over the major / the minor axis).
   A world is the outer iterator, the inner iterators produced so far and the identities of the positions handed out
   (the address of the element; for zero-sized elements the counter value, the reference itself being dangling()).
   PARTIAL in one respect: provenance and aliasing are represented by addresses and allocation bounds only. *)
From Matreex Require Import Model.IterMut Proofs.InterleavingWorld Proofs.IterMutProofs.

(* the two layouts of an M x m buffer satisfy the layout hypotheses used below *)
Theorem C03_layouts : forall M m : Z, 0 < M -> 0 < m ->
  (* over the major axis: M vectors of m elements, axis stride m, vector stride 1 *)
  ((M - 1) * m + (m - 1) * 1 < M * m /\
   forall v j v' j', 0 <= v < M -> 0 <= j < m -> 0 <= v' < M -> 0 <= j' < m -> v * m + j * 1 = v' * m + j' * 1 -> v = v' /\ j = j') /\
  (* over the minor axis: m vectors of M elements, axis stride 1, vector stride m *)
  ((m - 1) * 1 + (M - 1) * m < M * m /\
   forall v j v' j', 0 <= v < m -> 0 <= j < M -> 0 <= v' < m -> 0 <= j' < M -> v * 1 + j * m = v' * 1 + j' * m -> v = v' /\ j = j').
Proof.
  intros M m HM Hm. split; split; try nia.
  - intros v j v' j' H1 H2 H3 H4 E. assert (v = v') by nia. subst. lia.
  - intros v j v' j' H1 H2 H3 H4 E. assert (j = j') by nia. subst. lia.
Qed.
Print Assumptions C03_layouts.

Section C03.
Variable c : cfg.
Hypothesis Hwf : wf c.
Variables es al base bytes cnt : Z.
Hypothesis Hes : 0 <= es.
Hypothesis Hal : 0 < al.
Hypothesis Hcnt : 0 < cnt <= umax c.
Hypothesis Halloc : 0 < es -> bytes = cnt * es /\ 0 < base /\ base + bytes <= umax c /\ bytes <= imax c.
Variables N n ast vst : Z.
Hypothesis HN : 0 < N.
Hypothesis Hn : 0 < n.
Hypothesis Hast : 0 < ast.
Hypothesis Hvst : 0 < vst.
Hypothesis Hfit : (N - 1) * ast + (n - 1) * vst < cnt.
Hypothesis Hvstc : vst <= cnt.
Hypothesis Hastc : ast <= cnt.
Hypothesis Hlay : forall v j v' j', 0 <= v < N -> 0 <= j < n -> 0 <= v' < N -> 0 <= j' < n ->
  v * ast + j * vst = v' * ast + j' * vst -> v = v' /\ j = j'.

Notation world := (InterleavingWorld.world IterVecs IterNth).
Notation inv := (WInv es base N n ast vst).
Notation run := (wrun c es al base bytes).
Notation pos := (pos_id es base ast vst).

(* the iterator exists (assemble neither overflows nor forms a null / out-of-buffer pointer) and starts in the invariant *)
Theorem C03_init : exists o0, Vecs_assemble c es base bytes base ast N vst n = Val o0 /\
  inv {| outer := o0; inners := []; yielded := [] |} {| go := Some (0, N - 1); gis := []; ypos := [] |}.
Proof. eapply world_init; eassumption. Qed.

(* under EVERY interleaving of next / next_back on the outer iterator and on any inner iterators: no UB, no panic *)
Theorem C03_no_ub_no_panic : forall (cs : list cmd) (w : world) (gw : gworld),
  inv w gw -> exists w' gw', run cs w = Val w' /\ inv w' gw'.
Proof. intros cs w gw. eapply world_run; eassumption. Qed.

(* each element is handed out as &mut at most once *)
Theorem C03_at_most_once : forall (w : world) (gw : gworld), inv w gw -> NoDup (yielded IterVecs IterNth w).
Proof. intros w gw. eapply world_nodup; eassumption. Qed.

(* and exactly once when all iterators are exhausted *)
Theorem C03_exactly_once : forall (w : world) (gw : gworld),
  inv w gw -> go gw = None -> (forall v g, In (v, g) (gis gw) -> g = None) ->
  forall v j, 0 <= v < N -> 0 <= j < n -> In (pos v j) (yielded IterVecs IterNth w).
Proof. intros w gw. eapply world_exhausted. Qed.

(* len() equals the number of items still to come, for the outer iterator and every inner one, at every step *)
Theorem C03_len : forall (w : world) (gw : gworld), inv w gw ->
  Vecs_len c es (outer IterVecs IterNth w) = Val (match go gw with Some (A, B) => B - A + 1 | None => 0 end) /\
  Forall2 (fun vg i => Nth_len c es i = Val (match snd vg with Some (a, b) => b - a + 1 | None => 0 end)) (gis gw) (inners IterVecs IterNth w).
Proof. intros w gw. eapply world_len; eassumption. Qed.

(* every position handed out is the element at the logical position it stands for: element v*ast + j*vst of the buffer,
   i.e. address base + index * size inside the buffer; for zero-sized elements a counter in 1..=cnt: never null, never wrapped *)
Theorem C03_address : forall v j, 0 <= v < N -> 0 <= j < n ->
  exists idx, 0 <= idx < cnt /\ pos v j = addr_of es base idx /\
    (es = 0 -> pos v j = 1 + idx /\ 1 <= pos v j <= umax c) /\
    (0 < es -> pos v j = base + idx * es /\ base <= pos v j /\ pos v j + es <= base + bytes).
Proof. intros v j. eapply pos_id_on_element; eassumption. Qed.
End C03.
Print Assumptions C03_init.
Print Assumptions C03_no_ub_no_panic.
Print Assumptions C03_at_most_once.
Print Assumptions C03_exactly_once.
Print Assumptions C03_len.
Print Assumptions C03_address.

(* The public entry points build exactly that machine.  For a matrix whose axis shape is M x m (major M, minor m) with
   M * m stored elements (coherent, C01), whose buffer pointer is non-null (Vec::as_mut_ptr) and, for sized elements, whose
   allocation is Vec's: iter_rows_mut / iter_cols_mut - through IterVectorsMut::over_major_axis / over_minor_axis, the
   unchecked NonNull / NonZero conversions and assemble, as translated from the source by rs2v - return without UB or panic
   an iterator that starts in the invariant of the theorems above, in the layout that belongs to the storage order:
   over the major axis M vectors of m elements (axis stride m, vector stride 1), over the minor axis m vectors of M elements
   (axis stride 1, vector stride m); C03_layouts shows both satisfy the layout hypotheses. *)
Section C03_entry.
Variable c : cfg.
Hypothesis Hwf : wf c.
Variables es al base bytes : Z.
Hypothesis Hes : 0 <= es.
Hypothesis Hal : 0 < al.
Variables M m : Z.
Hypothesis HM : 0 < M.
Hypothesis Hm : 0 < m.
Hypothesis Hcnt : M * m <= umax c.
Hypothesis Hbase : 0 < base.
Hypothesis Halloc : 0 < es -> bytes = (M * m) * es /\ 0 < base /\ base + bytes <= umax c /\ bytes <= imax c.
Notation world0 o0 := {| outer := o0; inners := []; yielded := [] |}.
Notation gworld0 k := {| go := Some (0, k - 1); gis := []; ypos := [] |}.

Theorem C03_entry_rows_mut : forall o : order,
  exists o0, Matrix_iter_rows_mut c es al base bytes o (M * m) (mkAxisShape M m) = Val o0 /\
    match o with
    | RowMajor => WInv es base M m m 1 (world0 o0) (gworld0 M)        (* rows are the major-axis vectors *)
    | ColMajor => WInv es base m M 1 m (world0 o0) (gworld0 m)        (* rows are the minor-axis vectors *)
    end.
Proof. intros [|]; [eapply entry_major_init|eapply entry_minor_init]; eassumption. Qed.

Theorem C03_entry_cols_mut : forall o : order,
  exists o0, Matrix_iter_cols_mut c es al base bytes o (M * m) (mkAxisShape M m) = Val o0 /\
    match o with
    | RowMajor => WInv es base m M 1 m (world0 o0) (gworld0 m)
    | ColMajor => WInv es base M m m 1 (world0 o0) (gworld0 M)
    end.
Proof. intros [|]; [eapply entry_minor_init|eapply entry_major_init]; eassumption. Qed.
End C03_entry.
Print Assumptions C03_entry_rows_mut.
Print Assumptions C03_entry_cols_mut.

(* a matrix without elements gets the detached empty iterator: every call returns None, len() is 0, nothing is handed out
   (that this differs from the immutable views when one extent is non-zero is finding F2, see Props/C06.v) *)
Theorem C03_entry_elementless : forall c es al base bytes o sh,
  Matrix_iter_rows_mut c es al base bytes o 0 sh = Val (Vecs_empty al) /\
  Matrix_iter_cols_mut c es al base bytes o 0 sh = Val (Vecs_empty al) /\
  Vecs_next c es base bytes (Vecs_empty al) = Val (Vecs_empty al, None) /\
  Vecs_next_back c es base bytes (Vecs_empty al) = Val (Vecs_empty al, None) /\
  Vecs_len c es (Vecs_empty al) = Val 0.
Proof.
  intros c es al base bytes o sh. destruct (entry_elementless c es al base bytes sh) as (H1 & H2 & H3 & H4 & H5).
  destruct o; repeat split; assumption.
Qed.
Print Assumptions C03_entry_elementless.
Example C03_entry_nonvacuous : (* a 3 x 2 buffer of 8-byte elements at address 4096 on a 64-bit target *)
  let c := {| umax := 2^64 - 1; imax := 2^63 - 1; debug := true |} in
  exists o0, Matrix_iter_rows_mut c 8 8 4096 48 RowMajor 6 (mkAxisShape 3 2) = Val o0.
Proof. eexists. vm_compute. reflexivity. Qed.

(* finding F4 (repaired in /repo by a `fix:` commit): with the counters of zero-sized elements starting at the aligned
   dangling address, the constructor itself overflowed for nearly usize::MAX elements of alignment >= 2.  None of the
   theorems above depends on the pointer width; the 8-bit instance shows it: 255 zero-sized elements of alignment 2. *)
Definition cfg8 : cfg := {| umax := 255; imax := 127; debug := true |}.
Theorem C03_pinned_zst_counters_refuted :
  Vecs_assemble_pinned cfg8 0 2 2 0 1 255 1 1 = Panic AddOverflow /\
  exists o, Vecs_assemble cfg8 0 2 0 2 1 255 1 1 = Val o.
Proof. split; [vm_compute; reflexivity|]. eexists. vm_compute. reflexivity. Qed.
Print Assumptions C03_pinned_zst_counters_refuted.
