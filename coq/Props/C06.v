(* C06 — all row and column views agree with each other and with the logical matrix.
   Only statements; proofs in Proofs/ViewsProofs.v (on top of Base/ListLayout.v: the adaptor chain
   iter().skip(a).step_by(s).take(n), as executed, is the strided index list).
   A view is the list of elements it yields front to back; consuming it from either end with exact lengths is the
   deque semantics of Model/Views.v (`deque_cmd`), which the correspondence check exercises. *)
From Matreex Require Import Model.Ops Model.Views Proofs.Layout Proofs.ViewsProofs.

Example C06_instance :
  let m := mat_of_fun ColMajor 2 3 (fun r c => r * 10 + c) in
  Coh (cfg64 true) 8 m /\ row_view (cfg64 true) m 1 = Val [10; 11; 12] /\ col_view (cfg64 true) m 2 = Val [2; 12] /\
  iter_nth_row (cfg64 true) m 2 = Val (Err IndexOutOfBounds).
Proof. repeat split; vm_compute; congruence. Qed.

(* the k-th row (column) view yields exactly the elements (k, 0..ncols) (resp. (0..nrows, k)) in order, with exact length;
   Val: no arithmetic overflow and no step_by(0) panic for any coherent shape *)
Theorem C06_row_view : forall (A : Type) (c : cfg) (es : Z) (m : matrix A) (k : Z),
  Coh c es m -> 0 <= k < nrows m ->
  exists v, row_view c m k = Val v /\ zlen v = ncols m /\ forall cl, 0 <= cl < ncols m -> znth_opt cl v = at_ m k cl.
Proof. intros A c es m k. exact (row_view_spec c es m k). Qed.
Print Assumptions C06_row_view.

Theorem C06_col_view : forall (A : Type) (c : cfg) (es : Z) (m : matrix A) (k : Z),
  Coh c es m -> 0 <= k < ncols m ->
  exists v, col_view c m k = Val v /\ zlen v = nrows m /\ forall r, 0 <= r < nrows m -> znth_opt r v = at_ m r k.
Proof. intros A c es m k. exact (col_view_spec c es m k). Qed.
Print Assumptions C06_col_view.

(* iter_nth_row / iter_nth_col (and their _mut siblings, which run the same adaptor chain over the positions):
   IndexOutOfBounds exactly when n is not a valid row / column number, for every usize n *)
Theorem C06_nth_row : forall (A : Type) (c : cfg) (es : Z) (m : matrix A) (n : Z),
  Coh c es m -> 0 <= n ->
  if n <? nrows m then exists v, iter_nth_row c m n = Val (Ok v) /\ zlen v = ncols m /\ forall cl, 0 <= cl < ncols m -> znth_opt cl v = at_ m n cl
  else iter_nth_row c m n = Val (Err IndexOutOfBounds).
Proof. intros A c es m n. exact (iter_nth_row_spec c es m n). Qed.
Print Assumptions C06_nth_row.

Theorem C06_nth_col : forall (A : Type) (c : cfg) (es : Z) (m : matrix A) (n : Z),
  Coh c es m -> 0 <= n ->
  if n <? ncols m then exists v, iter_nth_col c m n = Val (Ok v) /\ zlen v = nrows m /\ forall r, 0 <= r < nrows m -> znth_opt r v = at_ m r n
  else iter_nth_col c m n = Val (Err IndexOutOfBounds).
Proof. intros A c es m n. exact (iter_nth_col_spec c es m n). Qed.
Print Assumptions C06_nth_col.

(* the mutable outer iterators, for matrices that have elements: nrows (ncols) vectors, the cl-th item of the k-th vector
   is the position of logical (k, cl) — the same positions the immutable views read *)
Theorem C06_rows_mut : forall (c : cfg) (es : Z) (m : matrix expr),
  Coh c es m -> size m > 0 ->
  zlen (rows_mut_positions m) = nrows m /\
  forall k cl, 0 <= k < nrows m -> 0 <= cl < ncols m ->
    exists v, znth_opt k (rows_mut_positions m) = Some v /\ zlen v = ncols m /\ znth_opt cl v = Some (flat m k cl).
Proof. intros c es m. exact (rows_mut_spec c es m). Qed.
Print Assumptions C06_rows_mut.

Theorem C06_cols_mut : forall (c : cfg) (es : Z) (m : matrix expr),
  Coh c es m -> size m > 0 ->
  zlen (cols_mut_positions m) = ncols m /\
  forall k r, 0 <= k < ncols m -> 0 <= r < nrows m ->
    exists v, znth_opt k (cols_mut_positions m) = Some v /\ zlen v = nrows m /\ znth_opt r v = Some (flat m r k).
Proof. intros c es m. exact (cols_mut_spec c es m). Qed.
Print Assumptions C06_cols_mut.

(* KNOWN FINDING F2 (key mut-vector-iter-elementless): without the hypothesis `size m > 0` the two theorems above are false
   of the faithful model, as they are of the crate: a 3 x 0 matrix has three (empty) rows, iter_rows() yields three views,
   iter_rows_mut() yields none. *)
Theorem C06_mut_elementless_refuted :
  let m := mkMatrix RowMajor (mkAxisShape 3 0) (@nil expr) in
  Coh (cfg64 true) 8 m /\ nrows m = 3 /\ zlen (rows_mut_positions m) = 0 /\
  (exists v, row_view (cfg64 true) m 2 = Val v).
Proof. repeat split; try (vm_compute; congruence). eexists; vm_compute; reflexivity. Qed.
Print Assumptions C06_mut_elementless_refuted.
