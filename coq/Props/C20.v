(* C20 — Display and Debug never panic and print "[]" for a matrix without elements.
   Only statements; the proofs are in Proofs/FmtProofs.v.  The row structure of the output (one bracketed line per
   logical row, equal widths, storage-order transparency, labels) is decided by the correspondence check and its
   direct oracles, see DESIGN.md. *)
From Matreex Require Import Model.Fmt Proofs.FmtProofs.

(* non-vacuity: a coherent 2 x 3 column-major matrix whose renderings have different widths and heights *)
Example C20_hypotheses_satisfiable :
  let m := mat_of_fun ColMajor 2 3 (fun r c => Atom (1000 + r * 3 + c)) in
  Coh (cfg64 true) 8 m /\ size m > 0 /\
  (exists t, fmt_display (cfg64 true) m = Val t /\ zlen t = 69) /\
  (exists t, fmt_debug (cfg64 true) m = Val t /\ zlen t = 145).
Proof. cbv zeta. split; [|split; [|split]]; try (vm_compute; repeat split; congruence); eexists; split; vm_compute; reflexivity. Qed.

(* the per-element line cache is only ever indexed inside its bounds: formatting returns a text for every coherent matrix,
   every shape (degenerate ones included), both orders, every element rendering (any width, any number of lines) *)
Theorem C20_display_no_panic : forall (A : Type) (c : cfg) (es : Z) (render : A -> text) (m : matrix A),
  Coh c es m -> exists t, fmt_display_gen c render m = Val t.
Proof. intros A c es render m. exact (display_no_panic c es render m). Qed.
Print Assumptions C20_display_no_panic.

Theorem C20_debug_no_panic : forall (A : Type) (c : cfg) (es : Z) (render : A -> text) (m : matrix A),
  Coh c es m -> exists t, fmt_debug_gen c render m = Val t.
Proof. intros A c es render m. exact (debug_no_panic c es render m). Qed.
Print Assumptions C20_debug_no_panic.

(* a matrix without elements (0 x n, n x 0, any order) prints "[]" with either trait, never touching the cache *)
Theorem C20_elementless : forall (A : Type) (c : cfg) (render : A -> text) (m : matrix A), size m = 0 ->
  fmt_display_gen c render m = Val [ch_lb; ch_rb] /\ fmt_debug_gen c render m = Val [ch_lb; ch_rb].
Proof. intros A c render m H. split; [exact (display_elementless c render m H)|exact (debug_elementless c render m H)]. Qed.
Print Assumptions C20_elementless.
