(* C20 — Display and Debug never panic, print "[]" for a matrix without elements, and otherwise print a text that is a
   pure function of the logical grid: rows in order, the lines of each row, the cells of each line in column order
   (display_text / debug_text in Proofs/FmtSpec.v); Display is therefore identical for equal matrices stored in different
   orders, and for single-line renderings it is one bracketed line per logical row, all equally wide.
   Only statements; the proofs are in Proofs/FmtProofs.v and Proofs/FmtSpec.v. *)
From Matreex Require Import Model.Fmt Proofs.FmtProofs Proofs.FmtSpec.

(* non-vacuity: a coherent 2 x 3 column-major matrix whose renderings have different widths and heights *)
Example C20_hypotheses_satisfiable :
  let m := mat_of_fun ColMajor 2 3 (fun r c => Atom (1000 + r * 3 + c)) in
  Coh (cfg64 true) 8 m /\ size m > 0 /\
  (exists t, fmt_display (cfg64 true) m = Val t /\ zlen t = 69) /\
  (exists t, fmt_debug (cfg64 true) m = Val t /\ zlen t = 145).
Proof. cbv zeta. split; [|split; [|split]]; try (vm_compute; repeat split; congruence); eexists; split; vm_compute; reflexivity. Qed.

(* the per-element line cache is only ever indexed inside its bounds: formatting returns a text for every coherent matrix,
   every shape (degenerate ones included), both orders, every element rendering (any width, any number of lines) *)
Theorem C20_display_no_panic : forall (A : Type) (c : cfg) (es : Z) (render : A -> text) (m : matrix A),
  Coh c es m -> exists t, fmt_display_gen c render m = Val t.
Proof. intros A c es render m. exact (display_no_panic c es render m). Qed.
Print Assumptions C20_display_no_panic.

Theorem C20_debug_no_panic : forall (A : Type) (c : cfg) (es : Z) (render : A -> text) (m : matrix A),
  Coh c es m -> exists t, fmt_debug_gen c render m = Val t.
Proof. intros A c es render m. exact (debug_no_panic c es render m). Qed.
Print Assumptions C20_debug_no_panic.

(* a matrix without elements (0 x n, n x 0, any order) prints "[]" with either trait, never touching the cache *)
Theorem C20_elementless : forall (A : Type) (c : cfg) (render : A -> text) (m : matrix A), size m = 0 ->
  fmt_display_gen c render m = Val [ch_lb; ch_rb] /\ fmt_debug_gen c render m = Val [ch_lb; ch_rb].
Proof. intros A c render m H. split; [exact (display_elementless c render m H)|exact (debug_elementless c render m H)]. Qed.
Print Assumptions C20_elementless.

(* what is printed for a matrix with elements: the text is determined by nrows, ncols, the lines of the element at each
   logical (row, col) and the common element width / height; nothing else of the storage (order, flat positions) enters *)
Theorem C20_display_spec : forall (A : Type) (c : cfg) (es : Z) (render : A -> text) (m : matrix A),
  Coh c es m -> is_empty m = false ->
  fmt_display_gen c render m =
    Val (display_text (nrows m) (ncols m) (lines_at render m) (max_width (build_cache render m)) (max_height (build_cache render m))).
Proof. intros A c es render m. exact (display_spec c es render m). Qed.
Print Assumptions C20_display_spec.

(* Debug prints the same grid; the label in front of each cell is flat m row col, the position of the element in the
   element store (at_ m row col = znth_opt (flat m row col) (m_data m) by definition), rows and columns are numbered *)
Theorem C20_debug_spec : forall (A : Type) (c : cfg) (es : Z) (render : A -> text) (m : matrix A),
  Coh c es m -> is_empty m = false ->
  fmt_debug_gen c render m =
    Val (debug_text (nrows m) (ncols m) (lines_at render m) (flat m) (max_width (build_cache render m)) (max_height (build_cache render m))
           (zlen (dec (size m)))).
Proof. intros A c es render m. exact (debug_spec c es render m). Qed.
Print Assumptions C20_debug_spec.

(* equal matrices stored in different orders (same shape, same element at every logical position) print identically *)
Theorem C20_display_order_transparent : forall (A : Type) (c : cfg) (es : Z) (render : A -> text) (m1 m2 : matrix A),
  Coh c es m1 -> Coh c es m2 ->
  nrows m1 = nrows m2 /\ ncols m1 = ncols m2 /\ (forall r cl, 0 <= r < nrows m1 -> 0 <= cl < ncols m1 -> at_ m1 r cl = at_ m2 r cl) ->
  fmt_display_gen c render m1 = fmt_display_gen c render m2.
Proof. intros A c es render m1 m2. exact (display_order_transparent c es render m1 m2). Qed.
Print Assumptions C20_display_order_transparent.

(* single-line renderings: "[", then one line "    [" cells "]" per logical row in row order, the cells being the renderings
   of that row's elements in column order, each padded to the common width and separated by two spaces, then "]";
   all row lines have the same number of characters *)
Theorem C20_display_single_line : forall (A : Type) (c : cfg) (es : Z) (render : A -> text) (m : matrix A),
  Coh c es m -> is_empty m = false ->
  (forall r cl, 0 <= r < nrows m -> 0 <= cl < ncols m -> exists x, lines_at render m r cl = [x]) ->
  let ew := max_width (build_cache render m) in
  fmt_display_gen c render m =
    Val ([ch_lb; ch_nl] ++
         concat (map (fun row => pad_space TAB_SIZE ++ [ch_lb] ++ row_cells_text render m row ew ++ [ch_rb; ch_nl]) (zseq (nrows m))) ++
         [ch_rb]) /\ forall row, 0 <= row < nrows m -> zlen (row_cells_text render m row ew) = ncols m * ew + INTER_GAP * (ncols m - 1).
Proof. intros A c es render m. exact (display_single_line c es render m). Qed.
Print Assumptions C20_display_single_line.

(* single-line renderings, Debug: the header line with the column numbers, then per logical row (in order): the row number,
   "[", and for each column in order the position flat(row, col) of the element in the element store, a space, and its
   rendering padded to the common width; "]" *)
Theorem C20_debug_single_line : forall (A : Type) (c : cfg) (es : Z) (render : A -> text) (m : matrix A),
  Coh c es m -> is_empty m = false ->
  (forall r cl, 0 <= r < nrows m -> 0 <= cl < ncols m -> exists x, lines_at render m r cl = [x]) ->
  let ew := max_width (build_cache render m) in
  let iw := zlen (dec (size m)) in
  fmt_debug_gen c render m =
    Val ((debug_header (ncols m) ew iw ++ [ch_nl]) ++
         concat (map (fun row => (pad_space TAB_SIZE ++ pad_left_dec row iw ++ pad_space OUTER_GAP ++ [ch_lb]) ++
                                 debug_cells_text render m row ew iw ++ [ch_rb; ch_nl]) (zseq (nrows m))) ++
         [ch_rb]).
Proof. intros A c es render m. exact (debug_single_line c es render m). Qed.
Print Assumptions C20_debug_single_line.

(* ... and all of those row lines are equally wide: the row number is padded to the label width iw, every cell is
   iw + 1 + ew characters (label, one space, rendering padded to the common width), cells are separated by two spaces *)
Theorem C20_debug_single_line_widths : forall (A : Type) (c : cfg) (es : Z) (render : A -> text) (m : matrix A),
  Coh c es m -> is_empty m = false ->
  (forall r cl, 0 <= r < nrows m -> 0 <= cl < ncols m -> exists x, lines_at render m r cl = [x]) ->
  let ew := max_width (build_cache render m) in
  let iw := zlen (dec (size m)) in
  forall row, 0 <= row < nrows m ->
    zlen (pad_left_dec row iw) = iw /\
    zlen (debug_cells_text render m row ew iw) = ncols m * (iw + Z.max INNER_GAP 1 + ew) + INTER_GAP * (ncols m - 1).
Proof. intros A c es render m. exact (debug_single_line_widths c es render m). Qed.
Print Assumptions C20_debug_single_line_widths.
