(* C04 — checked indexing is exact and total for every index value and index type.
   Only statements; the proofs are in Proofs/IndexProofs.v.  An index value is an accessor
   object whose row()/col() return arbitrary streams of values (caller code); `first_row`,
   `first_col` are the values of the first calls. *)
From Matreex Require Import Model.Matrix Proofs.Layout Proofs.IndexProofs.

Example C04_hypotheses_satisfiable :
  Coh (cfg64 false) 4 (mat_of_fun RowMajor 2 3 (fun r c => r * 10 + c)) /\
  fst (AsIndex_get (cfg64 false) (mat_of_fun RowMajor 2 3 (fun r c => r * 10 + c)) (mkAcc [1; 18446744073709551615] [2; 7] 0 0))
    = Val (Ok 12).
Proof. split; vm_compute; repeat split; congruence. Qed.

(* in bounds: get returns the element at logical (row, col); get_mut resolves to its position *)
Theorem C04_get_in_bounds : forall (A : Type) (c : cfg) (es : Z) (m : matrix A) (a : accessor),
  Coh c es m -> 0 <= first_row a < nrows m -> 0 <= first_col a < ncols m ->
  exists x, at_ m (first_row a) (first_col a) = Some x /\ fst (AsIndex_get c m a) = Val (Ok x) /\
            fst (AsIndex_locate c m a) = Val (Ok (flat m (first_row a) (first_col a))).
Proof. intros A c es m a. exact (AsIndex_get_in c es m a). Qed.
Print Assumptions C04_get_in_bounds.

(* out of bounds (any usize values): IndexOutOfBounds, and the result does not depend on the element store *)
Theorem C04_get_out_of_bounds : forall (A : Type) (c : cfg) (m : matrix A) (a : accessor),
  (first_row a <? nrows m) && (first_col a <? ncols m) = false ->
  fst (AsIndex_get c m a) = Val (Err IndexOutOfBounds) /\ fst (AsIndex_locate c m a) = Val (Err IndexOutOfBounds).
Proof. intros A c m a. exact (AsIndex_get_out c m a). Qed.
Print Assumptions C04_get_out_of_bounds.

(* each accessor is called exactly once by get, get_mut and [] — a stateful index cannot pass the
   bounds test with one value and be used with another *)
Theorem C04_single_snapshot : forall (A : Type) (c : cfg) (m : matrix A) (a : accessor),
  acc_nrow (snd (AsIndex_get c m a)) = acc_nrow a + 1 /\ acc_ncol (snd (AsIndex_get c m a)) = acc_ncol a + 1 /\
  acc_nrow (snd (AsIndex_locate c m a)) = acc_nrow a + 1 /\ acc_ncol (snd (AsIndex_locate c m a)) = acc_ncol a + 1 /\
  acc_nrow (snd (AsIndex_index c m a)) = acc_nrow a + 1 /\ acc_ncol (snd (AsIndex_index c m a)) = acc_ncol a + 1.
Proof. intros A c m a. exact (AsIndex_single_snapshot c m a). Qed.
Print Assumptions C04_single_snapshot.

(* the [] operator: the element when in bounds, the IndexOutOfBounds panic otherwise *)
Theorem C04_index_operator : forall (A : Type) (c : cfg) (es : Z) (m : matrix A) (a : accessor),
  Coh c es m -> 0 <= first_row a -> 0 <= first_col a ->
  (if (first_row a <? nrows m) && (first_col a <? ncols m)
   then exists x, at_ m (first_row a) (first_col a) = Some x /\ fst (AsIndex_index c m a) = Val x
   else fst (AsIndex_index c m a) = Panic (PanicErr IndexOutOfBounds)).
Proof. intros A c es m a. exact (AsIndex_index_spec c es m a). Qed.
Print Assumptions C04_index_operator.

(* "its own distinct element": the position function is injective on in-bounds coordinates and stays inside the store *)
Theorem C04_positions_distinct : forall (A : Type) (c : cfg) (es : Z) (m : matrix A) (r1 c1 r2 c2 : Z),
  Coh c es m -> 0 <= r1 < nrows m -> 0 <= c1 < ncols m -> 0 <= r2 < nrows m -> 0 <= c2 < ncols m ->
  (0 <= flat m r1 c1 < size m) /\ (flat m r1 c1 = flat m r2 c2 -> r1 = r2 /\ c1 = c2).
Proof.
  intros A c es m r1 c1 r2 c2 HC H1 H2 H3 H4. split.
  - exact (flat_in_range c es m r1 c1 HC H1 H2).
  - exact (flat_injective c es m r1 c1 r2 c2 HC H1 H2 H3 H4).
Qed.
Print Assumptions C04_positions_distinct.
