(* C07 — storage order is transparent: equality and results do not depend on it.
   Only statements; proofs in Proofs/Elementwise.v, Proofs/OrderOps.v, Proofs/Overwrite.v, Proofs/Swap.v.
   Transparency of the individual operations is the content of the theorems of C05, C06, C10, C11, C12, C14: each of them
   characterises the result through the logical accessor `at_` only, for either storage order of each operand, and pins
   the result order to the left operand's (`m_order` of the result in C11/C12).  This file states equality. *)
From Matreex Require Import Model.Ops Proofs.Layout Proofs.Elementwise Proofs.OrderOps Proofs.OrderTransparency.

Example C07_instance :
  matrix_eqb (cfg64 true) Z.eqb (mat_of_fun RowMajor 2 3 (fun r c => r * 10 + c)) (mat_of_fun ColMajor 2 3 (fun r c => r * 10 + c)) = Val true /\
  matrix_eqb (cfg64 true) Z.eqb (mat_of_fun RowMajor 2 3 (fun r c => r * 10 + c)) (mat_of_fun ColMajor 3 2 (fun r c => c * 10 + r)) = Val false.
Proof. split; vm_compute; reflexivity. Qed.

(* == is true exactly when the logical shapes agree and the elements at equal logical positions are pairwise equal,
   whatever the two storage orders; it never reads outside `other` (Val, never UB) *)
Theorem C07_eq_iff : forall (A : Type) (c : cfg) (es : Z) (eqb : A -> A -> bool) (a b : matrix A),
  Coh c es a -> Coh c es b ->
  exists r, matrix_eqb c eqb a b = Val r /\
    (r = true <-> (nrows a = nrows b /\ ncols a = ncols b /\
                   forall i j x y, 0 <= i < nrows a -> 0 <= j < ncols a -> at_ a i j = Some x -> at_ b i j = Some y -> eqb x y = true)).
Proof. intros A c es eqb a b. exact (matrix_eqb_spec c es eqb a b). Qed.
Print Assumptions C07_eq_iff.

(* consequence: re-storing an operand in the other order (switch_order) cannot change the outcome of ==, because it leaves
   nrows, ncols and every at_ unchanged — stated here for the right operand *)
Theorem C07_eq_order_transparent : forall (A : Type) (c : cfg) (es : Z) (eqb : A -> A -> bool) (a b : matrix A),
  Coh c es a -> Coh c es b -> 0 < es ->
  exists b' r r', switch_order c es b = Val b' /\ matrix_eqb c eqb a b = Val r /\ matrix_eqb c eqb a b' = Val r' /\ r = r'.
Proof.
  intros A c es eqb a b HA HB Hes.
  destruct (switch_order_logical c es b HB Hes) as (b' & E & HB' & _ & Hr & Hc & Hat).
  destruct (matrix_eqb_spec c es eqb a b HA HB) as (r & Er & Hr1).
  destruct (matrix_eqb_spec c es eqb a b' HA HB') as (r' & Er' & Hr2).
  exists b', r, r'. repeat split; auto.
  destruct r, r'; auto.
  - symmetry. apply Hr2. destruct (proj1 Hr1 eq_refl) as (H1 & H2 & H3). rewrite Hr, Hc. repeat split; auto.
    intros i j x y Hi Hj Hx Hy. apply (H3 i j x y Hi Hj Hx). rewrite <- Hat by lia. exact Hy.
  - apply Hr1. destruct (proj1 Hr2 eq_refl) as (H1 & H2 & H3). rewrite Hr in H1. rewrite Hc in H2. repeat split; auto.
    intros i j x y Hi Hj Hx Hy. apply (H3 i j x y Hi Hj Hx). rewrite Hat by lia. exact Hy.
Qed.
Print Assumptions C07_eq_order_transparent.

(* ---------- the other operations: equal logical grids in, equal logical grids out ----------
   grid_eq m1 m2: the same logical shape and the same element at every logical position, whatever the two storage orders.
   Each theorem is a corollary of the operation's specification (C05, C10, C11, C12, C14), which is stated through the
   logical accessor only. *)
Theorem C07_transpose_transparent : forall (A : Type) (c : cfg) (es : Z) (m1 m2 : matrix A),
  Coh c es m1 -> Coh c es m2 -> 0 < es -> grid_eq m1 m2 ->
  exists t1 t2, transpose c es m1 = Val t1 /\ transpose c es m2 = Val t2 /\ grid_eq t1 t2.
Proof. intros A c es m1 m2. exact (transpose_transparent c es m1 m2). Qed.
Print Assumptions C07_transpose_transparent.

(* switching the order of one operand is itself invisible: grid_eq m (switch_order m) *)
Theorem C07_switch_order_transparent : forall (A : Type) (c : cfg) (es : Z) (m1 m2 : matrix A),
  Coh c es m1 -> Coh c es m2 -> 0 < es -> grid_eq m1 m2 ->
  exists t1 t2, switch_order c es m1 = Val t1 /\ switch_order c es m2 = Val t2 /\ grid_eq t1 t2 /\ grid_eq m1 t1.
Proof. intros A c es m1 m2. exact (switch_order_transparent c es m1 m2). Qed.
Print Assumptions C07_switch_order_transparent.

Theorem C07_swaps_transparent : forall (A : Type) (c : cfg) (es : Z) (m1 m2 : matrix A) (a b : Z),
  Coh c es m1 -> Coh c es m2 -> grid_eq m1 m2 ->
  (0 <= a < nrows m1 -> 0 <= b < nrows m1 ->
     exists t1 t2, swap_rows c m1 a b = Val (Ok t1) /\ swap_rows c m2 a b = Val (Ok t2) /\ grid_eq t1 t2) /\
  (0 <= a < ncols m1 -> 0 <= b < ncols m1 ->
     exists t1 t2, swap_cols c m1 a b = Val (Ok t1) /\ swap_cols c m2 a b = Val (Ok t2) /\ grid_eq t1 t2).
Proof.
  intros A c es m1 m2 a b H1 H2 G. split; intros Ha Hb.
  - exact (swap_rows_transparent c es m1 m2 a b H1 H2 Ha Hb G).
  - exact (swap_cols_transparent c es m1 m2 a b H1 H2 Ha Hb G).
Qed.
Print Assumptions C07_swaps_transparent.

Theorem C07_overwrite_transparent : forall (A : Type) (c : cfg) (es : Z) (clone : A -> A) (d1 d2 s1 s2 : matrix A),
  Coh c es d1 -> Coh c es d2 -> Coh c es s1 -> Coh c es s2 -> grid_eq d1 d2 -> grid_eq s1 s2 ->
  exists t1 t2, overwrite c clone d1 s1 = Val t1 /\ overwrite c clone d2 s2 = Val t2 /\ grid_eq t1 t2.
Proof. intros A c es clone d1 d2 s1 s2. exact (overwrite_transparent c es clone d1 d2 s1 s2). Qed.
Print Assumptions C07_overwrite_transparent.

(* elementwise operations and the matrix product: the same error, or results with the same logical grid *)
Theorem C07_elementwise_transparent : forall (L R U : Type) (c : cfg) (esL esR esU : Z) (op : L -> R -> U)
    (a1 a2 : matrix L) (b1 b2 : matrix R),
  wf c -> 0 <= esU -> Coh c esL a1 -> Coh c esL a2 -> Coh c esR b1 -> Coh c esR b2 -> grid_eq a1 a2 -> grid_eq b1 b2 ->
  match elementwise_operation c esU op a1 b1, elementwise_operation c esU op a2 b2 with
  | Val (Ok p1), Val (Ok p2) => grid_eq p1 p2
  | Val (Err e1), Val (Err e2) => e1 = e2
  | _, _ => False
  end.
Proof. intros L R U c esL esR esU op a1 a2 b1 b2 Hwf HU. exact (elementwise_transparent c Hwf esL esR esU HU op a1 a2 b1 b2). Qed.
Print Assumptions C07_elementwise_transparent.

Theorem C07_product_transparent : forall (L R U : Type) (c : cfg) (esL esR esU : Z) (dflt : U) (mul : L -> R -> U) (add : U -> U -> U)
    (a1 a2 : matrix L) (b1 b2 : matrix R),
  wf c -> 0 <= esU -> 0 < esL -> 0 < esR -> Coh c esL a1 -> Coh c esL a2 -> Coh c esR b1 -> Coh c esR b2 ->
  grid_eq a1 a2 -> grid_eq b1 b2 ->
  match multiply c esL esR esU dflt mul add a1 b1, multiply c esL esR esU dflt mul add a2 b2 with
  | Val (Ok p1), Val (Ok p2) => grid_eq p1 p2
  | Val (Err e1), Val (Err e2) => e1 = e2
  | _, _ => False
  end.
Proof.
  intros L R U c esL esR esU dflt mul add a1 a2 b1 b2 Hwf HU HL HR.
  exact (multiply_transparent c Hwf esL esR esU HU HL HR dflt mul add a1 a2 b1 b2).
Qed.
Print Assumptions C07_product_transparent.
