(* C07 — storage order is transparent: equality and results do not depend on it.
   Only statements; proofs in Proofs/Elementwise.v, Proofs/OrderOps.v, Proofs/Overwrite.v, Proofs/Swap.v.
   Transparency of the individual operations is the content of the theorems of C05, C06, C10, C11, C12, C14: each of them
   characterises the result through the logical accessor `at_` only, for either storage order of each operand, and pins
   the result order to the left operand's (`m_order` of the result in C11/C12).  This file states equality. *)
From Matreex Require Import Model.Ops Proofs.Layout Proofs.Elementwise Proofs.OrderOps.

Example C07_instance :
  matrix_eqb (cfg64 true) Z.eqb (mat_of_fun RowMajor 2 3 (fun r c => r * 10 + c)) (mat_of_fun ColMajor 2 3 (fun r c => r * 10 + c)) = Val true /\
  matrix_eqb (cfg64 true) Z.eqb (mat_of_fun RowMajor 2 3 (fun r c => r * 10 + c)) (mat_of_fun ColMajor 3 2 (fun r c => c * 10 + r)) = Val false.
Proof. split; vm_compute; reflexivity. Qed.

(* == is true exactly when the logical shapes agree and the elements at equal logical positions are pairwise equal,
   whatever the two storage orders; it never reads outside `other` (Val, never UB) *)
Theorem C07_eq_iff : forall (A : Type) (c : cfg) (es : Z) (eqb : A -> A -> bool) (a b : matrix A),
  Coh c es a -> Coh c es b ->
  exists r, matrix_eqb c eqb a b = Val r /\
    (r = true <-> (nrows a = nrows b /\ ncols a = ncols b /\
                   forall i j x y, 0 <= i < nrows a -> 0 <= j < ncols a -> at_ a i j = Some x -> at_ b i j = Some y -> eqb x y = true)).
Proof. intros A c es eqb a b. exact (matrix_eqb_spec c es eqb a b). Qed.
Print Assumptions C07_eq_iff.

(* consequence: re-storing an operand in the other order (switch_order) cannot change the outcome of ==, because it leaves
   nrows, ncols and every at_ unchanged — stated here for the right operand *)
Theorem C07_eq_order_transparent : forall (A : Type) (c : cfg) (es : Z) (eqb : A -> A -> bool) (a b : matrix A),
  Coh c es a -> Coh c es b -> 0 < es ->
  exists b' r r', switch_order c es b = Val b' /\ matrix_eqb c eqb a b = Val r /\ matrix_eqb c eqb a b' = Val r' /\ r = r'.
Proof.
  intros A c es eqb a b HA HB Hes.
  destruct (switch_order_logical c es b HB Hes) as (b' & E & HB' & _ & Hr & Hc & Hat).
  destruct (matrix_eqb_spec c es eqb a b HA HB) as (r & Er & Hr1).
  destruct (matrix_eqb_spec c es eqb a b' HA HB') as (r' & Er' & Hr2).
  exists b', r, r'. repeat split; auto.
  destruct r, r'; auto.
  - symmetry. apply Hr2. destruct (proj1 Hr1 eq_refl) as (H1 & H2 & H3). rewrite Hr, Hc. repeat split; auto.
    intros i j x y Hi Hj Hx Hy. apply (H3 i j x y Hi Hj Hx). rewrite <- Hat by lia. exact Hy.
  - apply Hr1. destruct (proj1 Hr2 eq_refl) as (H1 & H2 & H3). rewrite Hr in H1. rewrite Hc in H2. repeat split; auto.
    intros i j x y Hi Hj Hx Hy. apply (H3 i j x y Hi Hj Hx). rewrite Hat by lia. exact Hy.
Qed.
Print Assumptions C07_eq_order_transparent.
