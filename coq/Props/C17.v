(* C17 — row/column iterators cross threads only when that is sound, and never race (PARTIAL: rustc's trait solver and the
   hardware memory model are outside the model; the auto-trait rules are modelled in Model/Traits.v and compared with what
   rustc decides for the current tree on every run).  Only statements; proofs in Proofs/Schedules.v, Proofs/IndexProofs.v. *)
From Matreex Require Import Model.Ops Model.Traits Model.Views Proofs.Schedules Proofs.IndexProofs.

(* the iterators are Send exactly when the element type is Send, and Sync exactly when it is Sync *)
Theorem C17_send_iff : forall send sync : bool,
  auto_trait send sync Send IterVectorsMut_def = send /\ auto_trait send sync Send IterNthVectorMut_def = send.
Proof. intros [|] [|]; split; reflexivity. Qed.
Print Assumptions C17_send_iff.

Theorem C17_sync_iff : forall send sync : bool,
  auto_trait send sync Sync IterVectorsMut_def = sync /\ auto_trait send sync Sync IterNthVectorMut_def = sync.
Proof. intros [|] [|]; split; reflexivity. Qed.
Print Assumptions C17_sync_iff.

(* this rests on the explicit bounded impls: the raw fields alone (NonNull) would make them neither, for any element type;
   an unbounded `unsafe impl<T> Send` would make them Send for every element type *)
Theorem C17_impls_decide : forall send sync : bool,
  auto_trait send sync Send (mkS (s_fields IterVectorsMut_def) []) = false /\
  auto_trait send sync Send (mkS (s_fields IterVectorsMut_def) [mkImpl Send None]) = true.
Proof. intros [|] [|]; split; reflexivity. Qed.
Print Assumptions C17_impls_decide.

(* distinct rows (columns) obtained from iter_rows_mut (iter_cols_mut) cover disjoint sets of elements: positions of
   different logical coordinates never coincide *)
Theorem C17_vectors_disjoint : forall (A : Type) (c : cfg) (es : Z) (m : matrix A) (r1 c1 r2 c2 : Z),
  Coh c es m -> 0 <= r1 < nrows m -> 0 <= c1 < ncols m -> 0 <= r2 < nrows m -> 0 <= c2 < ncols m ->
  (r1 <> r2 \/ c1 <> c2) -> flat m r1 c1 <> flat m r2 c2.
Proof.
  intros A c es m r1 c1 r2 c2 HC H1 H2 H3 H4 Hne Heq.
  destruct (flat_injective c es m r1 c1 r2 c2 HC H1 H2 H3 H4 Heq). lia.
Qed.
Print Assumptions C17_vectors_disjoint.

(* any number of threads, each applying its updates to its own addresses: every global order of execution produces the
   store that running the threads one after the other produces *)
Theorem C17_interleaving : forall (V : Type) (threads : list (list (step V))) (order : list (step V)),
  interleaveN V threads order -> pairwise_disjoint V threads ->
  forall (s : store V) (x : nat), apply_steps V s order x = apply_steps V s (concat threads) x.
Proof. exact any_interleaving_of_threads. Qed.
Print Assumptions C17_interleaving.
