(* C15 — element iteration order and reported indices match the storage order.
   Only statements; proofs in Proofs/ElementIter.v.  iter_elements / iter_elements_mut / into_iter_elements are the
   element store itself in the model (`m_data`, consumed as a deque from either end); the parallel with_index variants
   yield the same items as a multiset (C16). *)
From Matreex Require Import Model.Ops Proofs.Layout Proofs.ElementIter Proofs.IndexProofs.

Example C15_instance :
  iter_elements_with_index (mat_of_fun ColMajor 2 3 (fun r c => r * 10 + c)) =
  Val [(mkIndex 0 0, 0); (mkIndex 1 0, 10); (mkIndex 0 1, 1); (mkIndex 1 1, 11); (mkIndex 0 2, 2); (mkIndex 1 2, 12)].
Proof. vm_compute. reflexivity. Qed.

(* memory order is row by row for a row-major and column by column for a column-major matrix *)
Theorem C15_memory_order : forall (A : Type) (m : matrix A) (r cl : Z),
  at_ m r cl = znth_opt (match m_order m with RowMajor => r * ncols m + cl | ColMajor => cl * nrows m + r end) (m_data m).
Proof. intros A m r cl. exact (memory_order m r cl). Qed.
Print Assumptions C15_memory_order.

(* the index reported for memory position i is in bounds, addresses exactly position i, and converts back to i;
   no division by zero, no overflow, for every coherent shape *)
Theorem C15_index_inverse : forall (A : Type) (c : cfg) (es : Z) (m : matrix A) (i : Z),
  Coh c es m -> 0 <= i < size m ->
  exists ix, Index_from_flattened i (m_order m) (m_shape m) = Val ix /\
    0 <= ix_row ix < nrows m /\ 0 <= ix_col ix < ncols m /\ flat m (ix_row ix) (ix_col ix) = i /\
    Index_to_flattened c ix (m_order m) (m_shape m) = Val i.
Proof. intros A c es m i. exact (from_flattened_spec c es m i). Qed.
Print Assumptions C15_index_inverse.

(* that index is the unique one: no other in-bounds (row, col) resolves to the same element *)
Theorem C15_index_unique : forall (A : Type) (c : cfg) (es : Z) (m : matrix A) (r1 c1 r2 c2 : Z),
  Coh c es m -> 0 <= r1 < nrows m -> 0 <= c1 < ncols m -> 0 <= r2 < nrows m -> 0 <= c2 < ncols m ->
  flat m r1 c1 = flat m r2 c2 -> r1 = r2 /\ c1 = c2.
Proof. intros A c es m r1 c1 r2 c2. exact (flat_injective c es m r1 c1 r2 c2). Qed.
Print Assumptions C15_index_unique.

(* every *_with_index iterator: item k, in memory order, pairs element k with an index for which get returns that very element *)
Theorem C15_with_index : forall (A : Type) (c : cfg) (es : Z) (m : matrix A),
  Coh c es m ->
  exists items, iter_elements_with_index m = Val items /\ zlen items = size m /\
    forall k x, znth_opt k (m_data m) = Some x ->
      exists ix, znth_opt k items = Some (ix, x) /\ 0 <= ix_row ix < nrows m /\ 0 <= ix_col ix < ncols m /\
                 at_ m (ix_row ix) (ix_col ix) = Some x.
Proof. intros A c es m. exact (iter_elements_with_index_spec c es m). Qed.
Print Assumptions C15_with_index.
