(* C11 — matrix product is the textbook product for all shapes, orders and element types.
   Only statements; proofs in Proofs/Multiply.v (on top of C05's set_order, C08's decision and the slice lemmas).
   `mul : L -> R -> U` and `add : U -> U -> U` are arbitrary (no commutativity or associativity is assumed): the result is
   pinned as  textbook ls rs = ((l0*r0 + l1*r1) + l2*r2) + ...  with ls = row i of lhs and rs = column j of rhs.
   esL, esR > 0: element types that occupy memory (for zero-sized element types all values coincide). *)
From Matreex Require Import Model.Ops Proofs.Layout Proofs.Multiply.

Example C11_instance :
  multiply (cfg64 true) 8 8 8 0 Z.mul Z.add (mat_of_fun ColMajor 2 3 (fun r c => r * 10 + c)) (mat_of_fun RowMajor 3 2 (fun r c => r - c))
  = Val (Ok (mat_of_fun ColMajor 2 2 (fun r c => (r * 10 + 0) * (0 - c) + (r * 10 + 1) * (1 - c) + (r * 10 + 2) * (2 - c)))).
Proof. vm_compute. reflexivity. Qed.

(* multiplication_like_operation: ShapeNotConformable / SizeOverflow / CapacityOverflow decisions in that order; otherwise
   an nrows(lhs) x ncols(rhs) matrix in lhs's order; for each (i, j) the closure is applied to row i of lhs and column j of
   rhs — two equal-length slices, non-empty on this path — and its value is stored at (i, j); with a zero inner dimension
   every element is U::default().  Val: the unchecked slices are in range and nothing overflows. *)
Theorem C11_multiplication_like : forall (L R U : Type) (c : cfg) (esL esR esU : Z) (dflt : U)
    (op : list L -> list R -> res U) (a : matrix L) (b : matrix R),
  wf c -> 0 < esL -> 0 < esR -> 0 <= esU -> Coh c esL a -> Coh c esR b ->
  (ncols a = nrows b -> 0 < ncols a -> forall i j ls rs, is_row a i ls -> is_col b j rs -> exists u, op ls rs = Val u) ->
  if negb (ncols a =? nrows b) then multiplication_like_operation c esL esR esU dflt op a b = Val (Err ShapeNotConformable)
  else if nrows a * ncols b >? umax c then multiplication_like_operation c esL esR esU dflt op a b = Val (Err SizeOverflow)
  else if esU * (nrows a * ncols b) >? imax c then multiplication_like_operation c esL esR esU dflt op a b = Val (Err CapacityOverflow)
  else exists p, multiplication_like_operation c esL esR esU dflt op a b = Val (Ok p) /\
    m_order p = m_order a /\ nrows p = nrows a /\ ncols p = ncols b /\ size p = nrows a * ncols b /\
    forall i j, 0 <= i < nrows a -> 0 <= j < ncols b ->
      if ncols a =? 0 then at_ p i j = Some dflt
      else exists ls rs u, is_row a i ls /\ is_col b j rs /\ op ls rs = Val u /\ at_ p i j = Some u.
Proof. intros L R U c esL esR esU dflt op a b Hwf HL HR HU. exact (multiplication_like_spec c Hwf esL esR esU HL HR HU dflt op a b). Qed.
Print Assumptions C11_multiplication_like.

(* multiply and the * operators: the (i, j) element is the textbook sum; `unwrap_unchecked` never meets None *)
Theorem C11_product : forall (L R U : Type) (c : cfg) (esL esR esU : Z) (dflt : U) (mul : L -> R -> U) (add : U -> U -> U)
    (a : matrix L) (b : matrix R),
  wf c -> 0 < esL -> 0 < esR -> 0 <= esU -> Coh c esL a -> Coh c esR b ->
  if negb (ncols a =? nrows b) then multiply c esL esR esU dflt mul add a b = Val (Err ShapeNotConformable)
  else if nrows a * ncols b >? umax c then multiply c esL esR esU dflt mul add a b = Val (Err SizeOverflow)
  else if esU * (nrows a * ncols b) >? imax c then multiply c esL esR esU dflt mul add a b = Val (Err CapacityOverflow)
  else exists p, multiply c esL esR esU dflt mul add a b = Val (Ok p) /\
    m_order p = m_order a /\ nrows p = nrows a /\ ncols p = ncols b /\ size p = nrows a * ncols b /\
    forall i j, 0 <= i < nrows a -> 0 <= j < ncols b ->
      if ncols a =? 0 then at_ p i j = Some dflt
      else exists ls rs u, is_row a i ls /\ is_col b j rs /\ textbook mul add ls rs = Some u /\ at_ p i j = Some u.
Proof. intros L R U c esL esR esU dflt mul add a b Hwf HL HR HU. exact (multiply_spec c Hwf esL esR esU HL HR HU dflt mul add a b). Qed.
Print Assumptions C11_product.
