(* C18 — scalar operators apply the primitive op elementwise with correct operand order.
   Only statements about Model/Scalar.v and the scalar_operation family of Model/Ops.v.  The 18 operand forms per
   (primitive type, operator) are one impl each after macro expansion; the table `form_side` mirrors the impl headers and is
   compared on every run with what each of the 1260 compiled impls actually computes. *)
From Matreex Require Import Model.Ops Model.Scalar Proofs.Layout Proofs.ShapeOps.

Example C18_instance :
  form_apply (cfg64 true) 8 Z.sub 2 (mat_of_fun ColMajor 2 2 (fun r c => r * 10 + c)) 100
  = Ok (mat_of_fun ColMajor 2 2 (fun r c => 100 - (r * 10 + c))).
Proof. vm_compute. reflexivity. Qed.

(* the generic family: same shape and order, the closure applied once per element with the scalar as second argument *)
Theorem C18_scalar_operation : forall (T S U : Type) (c : cfg) (es' : Z) (op : T -> S -> U) (m : matrix T) (s : S),
  wf c -> 0 <= es' ->
  scalar_operation c es' op m s =
  if es' * size m >? imax c then Err CapacityOverflow
  else Ok (mkMatrix (m_order m) (m_shape m) (map (fun e => op e s) (m_data m))).
Proof. intros T S U c es' op m s Hc He. unfold scalar_operation. exact (map_matrix_spec c Hc es' (fun e => op e s) m He). Qed.
Print Assumptions C18_scalar_operation.

Theorem C18_scalar_operation_assign : forall (T S : Type) (op : T -> S -> T) (m : matrix T) (s : S),
  scalar_operation_assign op m s = mkMatrix (m_order m) (m_shape m) (map (fun e => op e s) (m_data m)).
Proof. reflexivity. Qed.
Print Assumptions C18_scalar_operation_assign.

(* operator forms: (element op scalar) when the matrix is on the left, (scalar op element) when it is on the right *)
Theorem C18_forms : forall (T : Type) (c : cfg) (es : Z) (op : T -> T -> T) (f : Z) (m : matrix T) (s : T),
  wf c -> 0 <= es -> es * size m <= imax c ->
  form_apply c es op f m s =
  Ok (mkMatrix (m_order m) (m_shape m)
        (map (fun e => match form_side f with MatrixLeft => op e s | ScalarLeft => op s e end) (m_data m))).
Proof.
  intros T c es op f m s Hc He Hfit. unfold form_apply, scalar_operation. rewrite (map_matrix_spec c Hc es _ m He).
  assert (es * size m >? imax c = false) as -> by lia. unfold form_closure. destruct (form_side f); reflexivity.
Qed.
Print Assumptions C18_forms.

(* the side table: forms 0,1,4,5,8,9,12,13 and the two compound-assignment forms have the matrix on the left *)
Theorem C18_side_table :
  map form_side (zseq 18) =
  [MatrixLeft; MatrixLeft; ScalarLeft; ScalarLeft; MatrixLeft; MatrixLeft; ScalarLeft; ScalarLeft;
   MatrixLeft; MatrixLeft; ScalarLeft; ScalarLeft; MatrixLeft; MatrixLeft; ScalarLeft; ScalarLeft; MatrixLeft; MatrixLeft].
Proof. vm_compute. reflexivity. Qed.
Print Assumptions C18_side_table.
