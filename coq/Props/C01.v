(* C01 — shape and element store stay coherent over every operation history.
   Only statements; proofs in Proofs/Coherence.v (on top of the per-operation theorems of C05, C08-C12, C14, C19).
   `pool_coh` says every matrix of the pool satisfies Coh: 0 <= major, minor <= usize::MAX, major * minor = number of stored
   elements <= usize::MAX, byte size <= isize::MAX.  `wf_op` says the arguments of an operation are values of their Rust
   types (usize extents, vectors that exist).  es >= 0: every element size, zero-sized types included (for those the
   model's elements stay distinguishable, which a zero-sized type's are not; coherence does not depend on that).
   PARTIAL with respect to the property text: (a) drop/clone accounting ("dropped exactly once, never duplicated") is not
   part of the functional model — it is observed by the harness ledger on every operation; Permutation is proved where
   elements only move (C05, C10); (b) "contents equal the row-of-rows reference model" is the sum of the refinement theorems of the other properties. *)
From Matreex Require Import Model.Step Model.Decode Proofs.IndexProofs Proofs.Coherence.

(* a history whose operations all satisfy wf_op, with a non-trivial final pool *)
Example C01_history_instance :
  let ops := [FromArrays 0 0 3 [[1; 2; 3]; [4; 5; 6]]; SwitchOrder 0; CloneOp 1 0; Transpose 1; Multiply 2 0 1; Resize 2 3 1; SwapRows 2 0 2] in
  Forall (wf_op (cfg64 true) 40) ops /\
  fst (run_ops (cfg64 true) 40 ops empty_pool) =
    [None; None; Some (mkMatrix ColMajor (mkAxisShape 1 3)
       [Bin 0 (Bin 0 (Bin 2 (Atom 1) (Atom 4)) (Bin 2 (Atom 2) (Atom 5))) (Bin 2 (Atom 3) (Atom 6));
        Bin 0 (Bin 0 (Bin 2 (Atom 4) (Atom 1)) (Bin 2 (Atom 5) (Atom 2))) (Bin 2 (Atom 6) (Atom 3));
        Bin 0 (Bin 0 (Bin 2 (Atom 1) (Atom 1)) (Bin 2 (Atom 2) (Atom 2))) (Bin 2 (Atom 3) (Atom 3))]); None].
Proof.
  split.
  - repeat constructor; cbn; unfold is_usize, rows_ok; cbn; try lia.
    repeat split; try lia. intros r [<-|[<-|[]]]; cbn; lia.
  - vm_compute. reflexivity.
Qed.

(* the same for a zero-sized element type (es = 0): transpose only swaps the shape, products still have the right extent *)
Example C01_history_instance_zst :
  let ops := [MacroOp 0 2 2 0 [[7; 8; 9]]; CloneOp 1 0; Transpose 1; SwitchOrder 1; Multiply 2 0 1; Resize 2 1 5; MacroOp 3 8 4 0 []] in
  Forall (wf_op (cfg64 false) 0) ops /\
  option_map (fun m => (nrows m, ncols m, size m)) (slot (fst (run_ops (cfg64 false) 0 ops empty_pool)) 2) = Some (1, 5, 5).
Proof.
  split.
  - repeat constructor.
    all: try (intros r H; cbv [zrepeat hd Z.to_nat Pos.to_nat Pos.iter_op Nat.add repeat In] in H; destruct H as [<-|[<-|[]]]).
    all: vm_compute; discriminate.
  - vm_compute. reflexivity.
Qed.

(* one step: every operation keeps every matrix of the pool coherent *)
Theorem C01_step_coh : forall (c : cfg) (es : Z) (p : pool) (o : op),
  wf c -> 0 <= es -> pool_coh c es p -> wf_op c es o -> pool_coh c es (fst (step c es p o)).
Proof. intros c es p o Hwf Hes. exact (step_coh c Hwf es Hes p o). Qed.
Print Assumptions C01_step_coh.

(* every reachable state: after any sequence of operations from the empty pool *)
Theorem C01_history_coh : forall (c : cfg) (es : Z) (ops : list op),
  wf c -> 0 <= es -> Forall (wf_op c es) ops -> pool_coh c es (fst (run_ops c es ops empty_pool)).
Proof. intros c es ops Hwf Hes. exact (history_coh c Hwf es Hes ops). Qed.
Print Assumptions C01_history_coh.

(* in a coherent matrix nrows * ncols = size (no overflow: all three are usize values) and every in-bounds (row, col)
   resolves to its own distinct live element *)
Theorem C01_own_distinct_element : forall (A : Type) (c : cfg) (es : Z) (m : matrix A) (r1 c1 r2 c2 : Z),
  Coh c es m -> 0 <= r1 < nrows m -> 0 <= c1 < ncols m -> 0 <= r2 < nrows m -> 0 <= c2 < ncols m ->
  nrows m * ncols m = size m /\ size m <= umax c /\
  (exists x, at_ m r1 c1 = Some x) /\ (flat m r1 c1 = flat m r2 c2 -> r1 = r2 /\ c1 = c2).
Proof.
  intros A c es m r1 c1 r2 c2 HC H1 H2 H3 H4.
  destruct (nrows_ncols_size c es m HC) as (Hs & _ & _). pose proof HC as (_ & _ & _ & Hu & _).
  repeat split; auto.
  - exact (at_in_range c es m r1 c1 HC H1 H2).
  - exact (proj1 (flat_injective c es m r1 c1 r2 c2 HC H1 H2 H3 H4 H)).
  - exact (proj2 (flat_injective c es m r1 c1 r2 c2 HC H1 H2 H3 H4 H)).
Qed.
Print Assumptions C01_own_distinct_element.
