(* C02 — a panic in user-supplied code never leaves a matrix in an unsafe state (PARTIAL).
   Only statements; proofs in Proofs/Faults.v.  An operation is a program whose every call to caller code carries the state
   a catch_unwind would find behind the &mut receiver; `fault_at k p = Some s` says: the k-th call panicked and s is what
   survives.  Proved here: the in-place operations whose receiver is reachable after the unwind — resize (the repaired code
   for every k and every pair of shapes; the code before the repair is refuted by a witness), clear, and the whole class of
   element-by-element in-place updates (apply, elementwise / scalar *_assign, overwrite's clone_from_slice).  For every other
   operation that calls caller code the result is assembled in a local vector after the last call (constructors, conversions,
   map family, products, clone) or nothing is written (eq, contains, Display, Debug, accessors before the access): there the
   surviving matrices are the untouched operands.  That classification, the std unwinding behaviour and "no element dropped
   twice, at worst leaked" are validated by the fault enumeration of the harness for every k, not proved. *)
From Matreex Require Import Proofs.Faults.
From Coq Require Import List Lia.
Import ListNotations.

Example C02_instance :
  fault_at nat 0 (fun x => x) 2 (resize_fixed nat {| major := 1; minor := 2; data := [7; 8] |} 3 3)
  = Some {| major := 1; minor := 2; data := [7; 8] |}.
Proof. vm_compute. reflexivity. Qed.

(* resize, for every pair of shapes and every fault position: the surviving matrix is coherent
   (growing: shape and data as before the call; shrinking with a panicking Drop: the new shape over the kept prefix) *)
Theorem C02_resize_unwind_coh : forall (A : Type) (dflt : A) (closure : A -> A) (m : matrix A) (mj mn k : nat) (s : matrix A),
  Coh A m -> fault_at A dflt closure k (resize_fixed A m mj mn) = Some s -> Coh A s.
Proof. intros A dflt closure m mj mn k s. exact (resize_fixed_unwind_coh A dflt closure m mj mn k s). Qed.
Print Assumptions C02_resize_unwind_coh.

(* finding F1 (repaired in /repo by a `fix:` commit): with the shape assigned before the fill, a 1 x 2 matrix resized to
   3 x 3 with the third T::default() panicking is left with shape 3 x 3 over 4 elements *)
Theorem C02_resize_pinned_refuted :
  exists s, fault_at nat 0 (fun x => x) 2 (resize_pinned nat {| major := 1; minor := 2; data := [7; 8] |} 3 3) = Some s /\ ~ Coh nat s.
Proof. exact resize_pinned_refuted. Qed.
Print Assumptions C02_resize_pinned_refuted.

(* element-by-element in-place updates: whichever call panics, the vector has its original length under the original shape *)
Theorem C02_inplace_update_unwind_coh : forall (A : Type) (dflt : A) (closure : A -> A) (m : matrix A) (k : nat) (s : matrix A),
  Coh A m -> fault_at A dflt closure k (apply_prog A m) = Some s -> Coh A s.
Proof. intros A dflt closure m k s. exact (apply_unwind_coh A dflt closure m k s). Qed.
Print Assumptions C02_inplace_update_unwind_coh.

(* clear: a panicking Drop finds the matrix already 0 x 0 with no elements *)
Theorem C02_clear_unwind_coh : forall (A : Type) (dflt : A) (closure : A -> A) (m : matrix A) (k : nat) (s : matrix A),
  fault_at A dflt closure k (clear_prog A m) = Some s -> Coh A s.
Proof. intros A dflt closure m k s. exact (clear_unwind_coh A dflt closure m k s). Qed.
Print Assumptions C02_clear_unwind_coh.

(* the programs mean what the functional model says when nothing panics *)
Theorem C02_run_agrees : forall (A : Type) (dflt : A) (closure : A -> A) (done todo : list A),
  run A dflt closure (update_from A done todo) = done ++ map closure todo.
Proof. intros A dflt closure done todo. exact (run_update A dflt closure done todo). Qed.
Print Assumptions C02_run_agrees.
