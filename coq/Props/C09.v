(* C09 — reshape / resize act on the memory-order sequence; failed operations change nothing.
   Only statements; proofs in Proofs/ShapeOps.v and Proofs/StepFacts.v. *)
From Matreex Require Import Model.Step Proofs.ShapeOps Proofs.StepFacts.

Example C09_instances :
  let m := mkMatrix ColMajor (mkAxisShape 2 3) [1; 2; 3; 4; 5; 6] in
  reshape (cfg64 true) m 6 1 = Val (Ok (mkMatrix ColMajor (mkAxisShape 1 6) [1; 2; 3; 4; 5; 6])) /\
  reshape (cfg64 true) m 4 2 = Val (Err SizeMismatch) /\
  reshape (cfg64 true) m 18446744073709551615 2 = Val (Err SizeMismatch) /\
  resize (cfg64 true) 8 0 m 2 2 = Val (Ok (mkMatrix ColMajor (mkAxisShape 2 2) [1; 2; 3; 4])) /\
  resize (cfg64 true) 8 0 m 4 2 = Val (Ok (mkMatrix ColMajor (mkAxisShape 2 4) [1; 2; 3; 4; 5; 6; 0; 0])).
Proof. repeat split; vm_compute; reflexivity. Qed.

(* reshape succeeds exactly when the new shape has the same size; then order and memory-order sequence are untouched *)
Theorem C09_reshape : forall (A : Type) (c : cfg) (m : matrix A) (r cl : Z),
  is_usize c r -> is_usize c cl ->
  reshape c m r cl =
  Val (if (r * cl >? umax c) || negb (size m =? r * cl) then Err SizeMismatch
       else Ok (mkMatrix (m_order m) (shape_of (m_order m) r cl) (m_data m))).
Proof. intros A c m r cl. exact (reshape_spec c m r cl). Qed.
Print Assumptions C09_reshape.

(* resize sets the requested shape and keeps the first min(old, new) elements of the memory-order sequence *)
Theorem C09_resize : forall (A : Type) (c : cfg) (es : Z) (dflt : A) (m : matrix A) (r cl : Z),
  wf c -> 0 <= es -> is_usize c r -> is_usize c cl ->
  resize c es dflt m r cl =
  Val (if r * cl >? umax c then Err SizeOverflow
       else if es * (r * cl) >? imax c then Err CapacityOverflow
       else Ok (mkMatrix (m_order m) (shape_of (m_order m) r cl)
                  (if r * cl <=? size m then zfirstn (r * cl) (m_data m)
                   else m_data m ++ zrepeat dflt (r * cl - size m)))).
Proof. intros A c es dflt m r cl Hc Hes. exact (resize_spec c Hc es Hes dflt m r cl). Qed.
Print Assumptions C09_resize.

(* whenever a fallible in-place operation (reshape, resize, swap, swap_rows, swap_cols, get_mut / IndexMut assignment,
   elementwise *_assign, += / -= with a borrowed right operand) reports an error or panics on its arguments, every
   matrix of the pool is exactly as before — at any point of any history, since `p` is arbitrary *)
Theorem C09_failed_unchanged : forall (c : cfg) (es : Z) (p : pool) (o : op),
  inplace_fallible o = true -> is_failure (snd (step c es p o)) = true -> fst (step c es p o) = p.
Proof. exact step_failed_unchanged. Qed.
Print Assumptions C09_failed_unchanged.
