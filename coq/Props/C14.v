(* C14 — overwrite copies exactly the overlapping top-left block.
   Only statements; proofs in Proofs/Overwrite.v.  `clone` is the element type's Clone (caller code). *)
From Matreex Require Import Model.Ops Proofs.Layout Proofs.Overwrite.

Example C14_instance :
  let d := mat_of_fun RowMajor 2 3 (fun r c => r * 10 + c) in
  let s := mat_of_fun ColMajor 3 2 (fun r c => 100 + r * 10 + c) in
  Coh (cfg64 true) 8 d /\ Coh (cfg64 true) 8 s /\
  overwrite (cfg64 true) (fun x => x) d s = Val (mat_of_fun RowMajor 2 3 (fun r c => if c <? 2 then 100 + r * 10 + c else r * 10 + c)).
Proof. repeat split; vm_compute; congruence. Qed.

(* for every pair of coherent shapes and every combination of storage orders: dest[r][c] = clone(src[r][c]) on the overlap,
   every other element of dest, its shape and its order unchanged; the loop never leaves either buffer (no UB), never
   panics (step_by(0) and the clone_from_slice length check are unreachable); src is not part of the result: it is only read *)
Theorem C14_overwrite : forall (A : Type) (c : cfg) (es : Z) (clone : A -> A) (d s : matrix A),
  Coh c es d -> Coh c es s ->
  exists d', overwrite c clone d s = Val d' /\ Coh c es d' /\ m_order d' = m_order d /\ m_shape d' = m_shape d /\
    forall r cl, 0 <= r < nrows d -> 0 <= cl < ncols d ->
      at_ d' r cl = if (r <? Z.min (nrows d) (nrows s)) && (cl <? Z.min (ncols d) (ncols s))
                    then option_map clone (at_ s r cl) else at_ d r cl.
Proof. intros A c es clone d s. exact (overwrite_logical c es clone d s). Qed.
Print Assumptions C14_overwrite.

(* the two code paths at the level of the element store (what the unchecked range arithmetic does) *)
Theorem C14_same_order_store : forall (A : Type) (c : cfg) (es : Z) (clone : A -> A) (d s : matrix A),
  Coh c es d -> Coh c es s -> m_order d = m_order s ->
  exists data, overwrite c clone d s = Val (set_data d data) /\ zlen data = size d /\
    forall i j, 0 <= i < mmajor d -> 0 <= j < mminor d ->
      znth_opt (i * mminor d + j) data =
      if (i <? Z.min (mmajor d) (mmajor s)) && (j <? Z.min (mminor d) (mminor s))
      then option_map clone (znth_opt (i * mminor s + j) (m_data s))
      else znth_opt (i * mminor d + j) (m_data d).
Proof. intros A c es clone d s. exact (overwrite_same_order c es clone d s). Qed.
Print Assumptions C14_same_order_store.

Theorem C14_cross_order_store : forall (A : Type) (c : cfg) (es : Z) (clone : A -> A) (d s : matrix A),
  Coh c es d -> Coh c es s -> m_order d <> m_order s ->
  exists data, overwrite c clone d s = Val (set_data d data) /\ zlen data = size d /\
    forall i j, 0 <= i < mmajor d -> 0 <= j < mminor d ->
      znth_opt (i * mminor d + j) data =
      if (i <? Z.min (mmajor d) (mminor s)) && (j <? Z.min (mminor d) (mmajor s))
      then option_map clone (znth_opt (j * mminor s + i) (m_data s))
      else znth_opt (i * mminor d + j) (m_data d).
Proof. intros A c es clone d s. exact (overwrite_cross_order c es clone d s). Qed.
Print Assumptions C14_cross_order_store.
