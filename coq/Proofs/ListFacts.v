(* List primitives with Z indices: update, swap, slices, loops in the outcome monad. *)
From Matreex Require Import Model.Ops.

Section ListFacts.
Context {A : Type}.
Implicit Types l : list A.

Lemma nth_error_firstn_lt (n : nat) : forall l (k : nat), (k < n)%nat -> nth_error (firstn n l) k = nth_error l k.
Proof.
  induction n as [|n IH]; intros l k Hk; [lia|].
  destruct l as [|a l]; [destruct k; reflexivity|]. destruct k as [|k]; [reflexivity|].
  cbn. apply IH. lia.
Qed.

Lemma nth_error_skipn_add (n : nat) : forall l (k : nat), nth_error (skipn n l) k = nth_error l (n + k).
Proof.
  induction n as [|n IH]; intros l k; [reflexivity|].
  destruct l as [|a l]; [destruct k; reflexivity|]. cbn. apply IH.
Qed.

Lemma zlen_zupd l i x : zlen (zupd l i x) = zlen l.
Proof.
  unfold zupd, zlen. destruct (i <? 0); [reflexivity|].
  rewrite app_length, firstn_length.
  destruct (skipn (Z.to_nat i) l) eqn:E.
  - assert (length l <= Z.to_nat i)%nat.
    { pose proof (skipn_length (Z.to_nat i) l) as H. rewrite E in H. cbn in H. lia. }
    cbn. lia.
  - pose proof (skipn_length (Z.to_nat i) l) as H. rewrite E in H. cbn in *. lia.
Qed.

Lemma length_zupd l i x : length (zupd l i x) = length l.
Proof. pose proof (zlen_zupd l i x) as H. unfold zlen in H. lia. Qed.

Lemma znth_opt_zupd_same l i x : 0 <= i < zlen l -> znth_opt i (zupd l i x) = Some x.
Proof.
  unfold znth_opt, zupd, zlen. intros H. destruct (i <? 0) eqn:E; [lia|].
  rewrite nth_error_app2 by (rewrite firstn_length; lia).
  rewrite firstn_length. replace (Z.to_nat i - Nat.min (Z.to_nat i) (length l))%nat with 0%nat by lia.
  destruct (skipn (Z.to_nat i) l) eqn:E2.
  - pose proof (skipn_length (Z.to_nat i) l) as H2. rewrite E2 in H2. cbn in H2. lia.
  - reflexivity.
Qed.

Lemma znth_opt_zupd_other l i j x : i <> j -> znth_opt j (zupd l i x) = znth_opt j l.
Proof.
  unfold znth_opt, zupd. intros Hne. destruct (j <? 0) eqn:Ej; [reflexivity|].
  destruct (i <? 0) eqn:Ei; [reflexivity|].
  set (n := Z.to_nat i). set (k := Z.to_nat j). assert (n <> k) by lia.
  destruct (Nat.lt_ge_cases k n) as [Hlt|Hge].
  - destruct (Nat.lt_ge_cases k (length l)) as [Hk|Hk].
    + rewrite nth_error_app1 by (rewrite firstn_length; lia). apply nth_error_firstn_lt; lia.
    + assert (nth_error l k = None) as -> by (apply nth_error_None; lia).
      apply nth_error_None. rewrite app_length, firstn_length.
      destruct (skipn n l) eqn:E.
      * cbn. lia.
      * pose proof (skipn_length n l) as H2. rewrite E in H2. cbn in H2. lia.
  - rewrite nth_error_app2 by (rewrite firstn_length; lia). rewrite firstn_length.
    destruct (Nat.lt_ge_cases n (length l)) as [Hn|Hn].
    + replace (Nat.min n (length l)) with n by lia.
      destruct (skipn n l) eqn:E.
      * pose proof (skipn_length n l) as H2. rewrite E in H2. cbn in H2. lia.
      * replace (k - n)%nat with (S (k - n - 1)) by lia. cbn [nth_error].
        pose proof (nth_error_skipn_add n l (S (k - n - 1))) as H3. rewrite E in H3. cbn [nth_error] in H3.
        rewrite H3. f_equal. lia.
    + rewrite skipn_all2 by lia. replace (Nat.min n (length l)) with (length l) by lia.
      assert (nth_error l k = None) as -> by (apply nth_error_None; lia).
      destruct (k - length l)%nat; reflexivity.
Qed.

Lemma znth_opt_zupd l i j x : 0 <= i < zlen l ->
  znth_opt j (zupd l i x) = if j =? i then Some x else znth_opt j l.
Proof.
  intros H. destruct (j =? i) eqn:E.
  - assert (j = i) as -> by lia. now apply znth_opt_zupd_same.
  - apply znth_opt_zupd_other. lia.
Qed.

(* ptr::swap on two in-range offsets *)
Lemma ptr_swap_ok l i j : 0 <= i < zlen l -> 0 <= j < zlen l ->
  exists l', ptr_swap l i j = Val l' /\ zlen l' = zlen l /\
    forall k, znth_opt k l' = if k =? j then znth_opt i l else if k =? i then znth_opt j l else znth_opt k l.
Proof.
  intros Hi Hj. unfold ptr_swap.
  destruct (znth_opt_some l i Hi) as [x Hx], (znth_opt_some l j Hj) as [y Hy]. rewrite Hx, Hy.
  eexists. split; [reflexivity|]. split; [now rewrite !zlen_zupd|].
  intros k. rewrite znth_opt_zupd by (rewrite zlen_zupd; lia).
  destruct (k =? j) eqn:Ekj; [reflexivity|].
  rewrite znth_opt_zupd by lia. destruct (k =? i); reflexivity.
Qed.

(* two lists with the same length and the same elements at every index are equal *)
Lemma list_ext_znth l1 l2 : zlen l1 = zlen l2 -> (forall k, 0 <= k < zlen l1 -> znth_opt k l1 = znth_opt k l2) -> l1 = l2.
Proof.
  unfold zlen. revert l2. induction l1 as [|a l1 IH]; intros [|b l2] Hlen H; cbn in *; try lia; auto.
  f_equal.
  - specialize (H 0). unfold znth_opt in H. cbn in H. assert (Some a = Some b) by (apply H; lia). congruence.
  - apply IH; [lia|]. intros k Hk. specialize (H (k + 1)). unfold znth_opt in *.
    destruct (k <? 0) eqn:E; [lia|]. destruct (k + 1 <? 0) eqn:E2; [lia|].
    replace (Z.to_nat (k + 1)) with (S (Z.to_nat k)) in H by lia. cbn in H. apply H. lia.
Qed.

End ListFacts.

(* loops: an invariant that every iteration preserves holds at the end, and the loop does not fail *)
Lemma for_res_inv {St} (P : Z -> St -> Prop) (body : Z -> St -> res St) (n : Z) (s0 : St) : 0 <= n ->
  P 0 s0 ->
  (forall i s, 0 <= i < n -> P i s -> exists s', body i s = Val s' /\ P (i + 1) s') ->
  exists s', for_res (zseq n) s0 body = Val s' /\ P n s'.
Proof.
  intros Hn H0 Hstep.
  assert (forall k (lst : nat) s, (k + lst = Z.to_nat n)%nat -> P (Z.of_nat k) s ->
            exists s', for_res (map Z.of_nat (seq k lst)) s body = Val s' /\ P n s') as Hgen.
  { intros k lst. revert k. induction lst as [|lst IH]; intros k s Hk HP.
    - cbn. exists s. split; [reflexivity|]. replace n with (Z.of_nat k) by lia. exact HP.
    - cbn [seq map for_res]. destruct (Hstep (Z.of_nat k) s ltac:(lia) HP) as (s' & E & HP').
      rewrite E. cbn [bind]. apply (IH (S k)); [lia|]. replace (Z.of_nat (S k)) with (Z.of_nat k + 1) by lia. exact HP'. }
  unfold zseq. apply (Hgen 0%nat); [lia|exact H0].
Qed.
