(* C14: Matrix::overwrite on the list model copies exactly the overlapping top-left block, for every pair of
   shapes and every combination of storage orders; all unchecked ranges stay inside both buffers. *)
From Matreex Require Import Model.Ops Proofs.ListFacts Proofs.SliceFacts.

Section Overwrite.
Context {A : Type}.
Variable c : cfg.
Variable es : Z.
Variable clone : A -> A.
Implicit Types d s : matrix A.

Lemma splice_nil (l : list A) lo : 0 <= lo <= zlen l -> splice l lo [] = l.
Proof.
  intros H. unfold splice, zfirstn, zskipn, zlen. cbn [length app]. rewrite Z.add_0_r. apply firstn_skipn.
Qed.

(* ---------- same storage order ---------- *)
Theorem overwrite_same_order d s : Coh c es d -> Coh c es s -> m_order d = m_order s ->
  exists data, overwrite c clone d s = Val (set_data d data) /\ zlen data = size d /\
    forall i j, 0 <= i < mmajor d -> 0 <= j < mminor d ->
      znth_opt (i * mminor d + j) data =
      if (i <? Z.min (mmajor d) (mmajor s)) && (j <? Z.min (mminor d) (mminor s))
      then option_map clone (znth_opt (i * mminor s + j) (m_data s))
      else znth_opt (i * mminor d + j) (m_data d).
Proof.
  intros (D1 & D2 & D3 & D4 & _) (S1 & S2 & S3 & S4 & _) Eo. unfold overwrite.
  assert (order_eqb (m_order d) (m_order s) = true) as -> by (rewrite Eo; destruct (m_order s); reflexivity).
  unfold AxisShape_major_stride, AxisShape_minor_stride. fold (mminor d) (mminor s).
  set (Md := mmajor d) in *. set (md := mminor d) in *. set (Ms := mmajor s) in *. set (ms := mminor s) in *.
  set (mj := Z.min Md Ms). set (mn := Z.min md ms). unfold size in *.
  set (P := fun (i : Z) (data : list A) =>
    zlen data = zlen (m_data d) /\
    forall r j, 0 <= r < Md -> 0 <= j < md ->
      znth_opt (r * md + j) data =
      if (r <? i) && (j <? mn) then option_map clone (znth_opt (r * ms + j) (m_data s)) else znth_opt (r * md + j) (m_data d)).
  destruct (for_res_inv P (fun i data =>
      let* self_lower := umul c i md in
      let* t := umul c mn 1 in
      let* self_upper := uadd c self_lower t in
      let* source_lower := umul c i ms in
      let* source_upper := uadd c source_lower t in
      let* dst := slice_unchecked data self_lower self_upper in
      let* src := slice_unchecked (m_data s) source_lower source_upper in
      if negb (zlen dst =? zlen src) then Panic PanicStd else Val (splice data self_lower (map clone src)))
      mj (m_data d)) as (data & E & (Hl & Hd)).
  - unfold mj. lia.
  - unfold P. split; [reflexivity|]. intros r j Hr Hj. assert (r <? 0 = false) as -> by lia. reflexivity.
  - intros i data Hi (Hl & Hd). unfold mj, mn in *.
    assert (0 <= i * md /\ i * md + Z.min md ms <= zlen (m_data d)) as [B1 B2] by nia.
    assert (0 <= i * ms /\ i * ms + Z.min md ms <= zlen (m_data s)) as [B3 B4] by nia.
    rewrite umul_val by nia. cbn [bind]. rewrite umul_val by lia. cbn [bind]. rewrite Z.mul_1_r.
    rewrite uadd_val by lia. cbn [bind]. rewrite umul_val by nia. cbn [bind]. rewrite uadd_val by lia. cbn [bind].
    destruct (slice_unchecked_ok data (i * md) (i * md + Z.min md ms)) as (dst & Ed & Ld & _); [lia|lia|].
    destruct (slice_unchecked_ok (m_data s) (i * ms) (i * ms + Z.min md ms)) as (src & Es & Ls & Ns); [lia|lia|].
    rewrite Ed, Es. cbn [bind]. assert (zlen dst =? zlen src = true) as -> by lia. cbn [negb].
    eexists. split; [reflexivity|].
    destruct (splice_spec data (i * md) (map clone src)) as [L2 N2]; [lia|rewrite zlen_map; lia|].
    unfold P. split; [lia|].
    intros r j Hr Hj. rewrite N2, zlen_map, Ls. replace (i * ms + Z.min md ms - i * ms) with (Z.min md ms) by lia.
    destruct (Z.eq_dec r i) as [->|Hne].
    + assert (i <? i + 1 = true) as -> by lia. cbn [andb].
      destruct (j <? Z.min md ms) eqn:Ej.
      * assert ((i * md <=? i * md + j) && (i * md + j <? i * md + Z.min md ms) = true) as -> by lia.
        rewrite znth_opt_map. replace (i * md + j - i * md) with j by lia. rewrite Ns by lia. reflexivity.
      * assert ((i * md <=? i * md + j) && (i * md + j <? i * md + Z.min md ms) = false) as -> by lia.
        rewrite (Hd i j) by lia. assert (i <? i = false) as -> by lia. reflexivity.
    + assert ((i * md <=? r * md + j) && (r * md + j <? i * md + Z.min md ms) = false) as -> by (destruct (Z_lt_ge_dec r i); nia).
      rewrite (Hd r j) by lia. destruct (r <? i) eqn:E1, (r <? i + 1) eqn:E2; try reflexivity; exfalso; lia.
  - rewrite E. cbn [bind]. exists data. split; [reflexivity|]. split; [exact Hl|].
    intros i j Hi Hj. rewrite (Hd i j) by lia. reflexivity.
Qed.

(* ---------- different storage orders: the source is walked with iter().skip(i).step_by(stride) ---------- *)
Lemma zview_prefix (l : list A) (a s k : Z) : 0 <= a -> 0 < s <= zlen l -> 0 < k -> a + (k - 1) * s < zlen l ->
  exists v, zview a s (zlen l) l = Val v /\ k <= zlen v /\ forall t, 0 <= t < k -> znth_opt t v = znth_opt (a + t * s) l.
Proof.
  intros Ha Hs Hk Hfit. unfold zview. assert (s =? 0 = false) as -> by lia.
  assert (a < zlen l) by nia.
  rewrite (Z.min_l a) by lia. rewrite (Z.min_l s) by lia. rewrite Z.min_id.
  eexists. split; [reflexivity|].
  set (v := view A (Z.to_nat a) (Z.to_nat s) (Z.to_nat (zlen l)) l).
  destruct l as [|d0 l']; [unfold zlen in *; cbn in *; lia|]. set (l := d0 :: l') in *.
  assert (firstn (Z.to_nat k) v = strided A d0 (Z.to_nat a) (Z.to_nat s) (Z.to_nat k) l) as Hpre.
  { unfold v, view. rewrite firstn_firstn. replace (Nat.min (Z.to_nat k) (Z.to_nat (zlen l))) with (Z.to_nat k).
    2:{ assert (k <= zlen l) by nia. lia. }
    apply (view_is_strided A d0); [lia|]. right. unfold zlen in *. nia. }
  assert (length (firstn (Z.to_nat k) v) = Z.to_nat k) as Hlen.
  { rewrite Hpre. unfold strided. now rewrite map_length, seq_length. }
  assert (Z.to_nat k <= length v)%nat as Hkv.
  { rewrite firstn_length in Hlen. lia. }
  split; [unfold zlen; lia|].
  intros t Ht. unfold znth_opt. destruct (t <? 0) eqn:E1; [exfalso; lia|]. destruct (a + t * s <? 0) eqn:E2; [exfalso; nia|].
  rewrite <- (nth_error_firstn_lt (Z.to_nat k)) by lia. rewrite Hpre. unfold strided.
  rewrite nth_error_map. rewrite (nth_error_nth' (seq 0 (Z.to_nat k)) 0%nat) by (rewrite seq_length; lia).
  rewrite seq_nth by lia. cbn [option_map Nat.add].
  replace (Z.to_nat (a + t * s)) with (Z.to_nat a + Z.to_nat t * Z.to_nat s)%nat by nia.
  symmetry. apply nth_error_nth'. unfold zlen in *. nia.
Qed.

Theorem overwrite_cross_order d s : Coh c es d -> Coh c es s -> m_order d <> m_order s ->
  exists data, overwrite c clone d s = Val (set_data d data) /\ zlen data = size d /\
    forall i j, 0 <= i < mmajor d -> 0 <= j < mminor d ->
      znth_opt (i * mminor d + j) data =
      if (i <? Z.min (mmajor d) (mminor s)) && (j <? Z.min (mminor d) (mmajor s))
      then option_map clone (znth_opt (j * mminor s + i) (m_data s))
      else znth_opt (i * mminor d + j) (m_data d).
Proof.
  intros (D1 & D2 & D3 & D4 & _) (S1 & S2 & S3 & S4 & _) Eo. unfold overwrite.
  assert (order_eqb (m_order d) (m_order s) = false) as -> by (destruct (m_order d), (m_order s); cbn; congruence).
  unfold AxisShape_major_stride, AxisShape_minor_stride. fold (mminor d) (mminor s).
  set (Md := mmajor d) in *. set (md := mminor d) in *. set (Ms := mmajor s) in *. set (ms := mminor s) in *.
  set (mj := Z.min Md ms). set (mn := Z.min md Ms). unfold size in *.
  set (P := fun (i : Z) (data : list A) =>
    zlen data = zlen (m_data d) /\
    forall r j, 0 <= r < Md -> 0 <= j < md ->
      znth_opt (r * md + j) data =
      if (r <? i) && (j <? mn) then option_map clone (znth_opt (j * ms + r) (m_data s)) else znth_opt (r * md + j) (m_data d)).
  destruct (for_res_inv P (fun i data =>
      let* self_lower := umul c i md in
      let* t := umul c mn 1 in
      let* self_upper := uadd c self_lower t in
      let* dst := slice_unchecked data self_lower self_upper in
      let* src := zview i ms (zlen (m_data s)) (m_data s) in
      let k := Z.min (zlen dst) (zlen src) in
      Val (splice data self_lower (map clone (zfirstn k src))))
      mj (m_data d)) as (data & E & (Hl & Hd)).
  - unfold mj. lia.
  - unfold P. split; [reflexivity|]. intros r j Hr Hj. assert (r <? 0 = false) as -> by lia. reflexivity.
  - intros i data Hi (Hl & Hd). unfold mj, mn in *.
    assert (0 <= i * md /\ i * md + Z.min md Ms <= zlen (m_data d)) as [B1 B2] by nia.
    rewrite umul_val by nia. cbn [bind]. rewrite umul_val by lia. cbn [bind]. rewrite Z.mul_1_r.
    rewrite uadd_val by lia. cbn [bind].
    destruct (slice_unchecked_ok data (i * md) (i * md + Z.min md Ms)) as (dst & Ed & Ld & _); [lia|lia|].
    rewrite Ed. cbn [bind].
    destruct (Z.eq_dec (Z.min md Ms) 0) as [E0|Hpos].
    + (* nothing to copy in this line: the zipped pair of iterators is empty on the destination side *)
      assert (exists src, zview i ms (zlen (m_data s)) (m_data s) = Val src) as [src Ev].
      { unfold zview. assert (ms =? 0 = false) as -> by lia. eexists. reflexivity. }
      rewrite Ev. cbn [bind]. assert (zlen dst = 0) by lia.
      pose proof (zlen_nonneg src). rewrite (Z.min_l (zlen dst)) by lia.
      replace (zlen dst) with 0 by lia. cbn [zfirstn Z.to_nat firstn map].
      rewrite splice_nil by lia. eexists. split; [reflexivity|]. unfold P. split; [exact Hl|].
      intros r j Hr Hj. rewrite (Hd r j) by lia. rewrite E0.
      assert (j <? 0 = false) as -> by lia. rewrite !andb_false_r. reflexivity.
    + assert (0 < Z.min md Ms) by lia.
      destruct (zview_prefix (m_data s) i ms (Z.min md Ms)) as (src & Ev & Lv & Nv); [lia|nia|lia|nia|].
      rewrite Ev. cbn [bind]. rewrite (Z.min_l (zlen dst)) by lia. rewrite Ld.
      replace (i * md + Z.min md Ms - i * md) with (Z.min md Ms) by lia.
      eexists. split; [reflexivity|].
      assert (zlen (zfirstn (Z.min md Ms) src) = Z.min md Ms) as Lf by (apply zlen_zfirstn_le; lia).
      destruct (splice_spec data (i * md) (map clone (zfirstn (Z.min md Ms) src))) as [L2 N2]; [lia|rewrite zlen_map; lia|].
      unfold P. split; [lia|].
      intros r j Hr Hj. rewrite N2, zlen_map, Lf.
      destruct (Z.eq_dec r i) as [->|Hne].
      * assert (i <? i + 1 = true) as -> by lia. cbn [andb].
        destruct (j <? Z.min md Ms) eqn:Ej.
        -- assert ((i * md <=? i * md + j) && (i * md + j <? i * md + Z.min md Ms) = true) as -> by lia.
           rewrite znth_opt_map. replace (i * md + j - i * md) with j by lia.
           rewrite znth_opt_zfirstn by lia. rewrite Nv by lia. do 2 f_equal. lia.
        -- assert ((i * md <=? i * md + j) && (i * md + j <? i * md + Z.min md Ms) = false) as -> by lia.
           rewrite (Hd i j) by lia. assert (i <? i = false) as -> by lia. reflexivity.
      * assert ((i * md <=? r * md + j) && (r * md + j <? i * md + Z.min md Ms) = false) as -> by (destruct (Z_lt_ge_dec r i); nia).
        rewrite (Hd r j) by lia. destruct (r <? i) eqn:E1, (r <? i + 1) eqn:E2; try reflexivity; exfalso; lia.
  - cbv zeta in E |- *. rewrite E. cbn [bind]. exists data. split; [reflexivity|]. split; [exact Hl|].
    intros i j Hi Hj. rewrite (Hd i j) by lia. reflexivity.
Qed.

(* ---------- logical level, all four combinations of storage orders ---------- *)
Theorem overwrite_logical d s : Coh c es d -> Coh c es s ->
  exists d', overwrite c clone d s = Val d' /\ Coh c es d' /\ m_order d' = m_order d /\ m_shape d' = m_shape d /\
    forall r cl, 0 <= r < nrows d -> 0 <= cl < ncols d ->
      at_ d' r cl = if (r <? Z.min (nrows d) (nrows s)) && (cl <? Z.min (ncols d) (ncols s))
                    then option_map clone (at_ s r cl) else at_ d r cl.
Proof.
  intros HD HS.
  assert (forall data, zlen data = size d -> Coh c es (set_data d data)) as Hcoh.
  { intros data E. unfold Coh, set_data, mmajor, mminor, size in *. cbn [m_shape m_data]. rewrite E. exact HD. }
  destruct (order_eqb (m_order d) (m_order s)) eqn:Eo.
  - assert (m_order d = m_order s) as Eq by (destruct (m_order d), (m_order s); cbn in Eo; try reflexivity; discriminate).
    destruct (overwrite_same_order d s HD HS Eq) as (data & E & Hl & Hd).
    exists (set_data d data). split; [exact E|]. split; [now apply Hcoh|]. split; [reflexivity|]. split; [reflexivity|].
    unfold nrows, ncols, at_, flat, mminor. cbn [set_data m_order m_shape m_data]. rewrite <- Eq. fold (mminor d) (mminor s).
    destruct (m_order d); cbn [AxisShape_nrows AxisShape_ncols]; fold (mmajor d) (mminor d) (mmajor s) (mminor s); intros r cl Hr Hcl.
    + rewrite (Hd r cl) by lia. reflexivity.
    + rewrite (Hd cl r) by lia. rewrite andb_comm. reflexivity.
  - assert (m_order d <> m_order s) as Ne by (destruct (m_order d), (m_order s); cbn in Eo; congruence).
    destruct (overwrite_cross_order d s HD HS Ne) as (data & E & Hl & Hd).
    exists (set_data d data). split; [exact E|]. split; [now apply Hcoh|]. split; [reflexivity|]. split; [reflexivity|].
    unfold nrows, ncols, at_, flat, mminor. cbn [set_data m_order m_shape m_data]. fold (mminor d) (mminor s).
    destruct (m_order d), (m_order s); try congruence; cbn [AxisShape_nrows AxisShape_ncols]; fold (mmajor d) (mminor d) (mmajor s) (mminor s); intros r cl Hr Hcl.
    + rewrite (Hd r cl) by lia. reflexivity.
    + rewrite (Hd cl r) by lia. rewrite andb_comm. reflexivity.
Qed.
End Overwrite.