(* Sub-slices, splicing and strided views of a list, with Z positions. *)
From Matreex Require Import Model.Ops Proofs.ListFacts.

Section SliceFacts.
Context {A : Type}.
Implicit Types l xs : list A.

Lemma znth_opt_app1 l1 l2 k : 0 <= k < zlen l1 -> znth_opt k (l1 ++ l2) = znth_opt k l1.
Proof.
  unfold znth_opt, zlen. intros H. destruct (k <? 0) eqn:E; [exfalso; lia|]. apply nth_error_app1. lia.
Qed.
Lemma znth_opt_app2 l1 l2 k : zlen l1 <= k -> znth_opt k (l1 ++ l2) = znth_opt (k - zlen l1) l2.
Proof.
  unfold znth_opt, zlen. intros H. destruct (k <? 0) eqn:E; [exfalso; lia|].
  destruct (k - Z.of_nat (length l1) <? 0) eqn:E2; [exfalso; lia|].
  rewrite nth_error_app2 by lia. f_equal. lia.
Qed.
Lemma znth_opt_neg l k : k < 0 -> znth_opt k l = None.
Proof. unfold znth_opt. intros H. destruct (k <? 0) eqn:E; [reflexivity|exfalso; lia]. Qed.
Lemma znth_opt_zskipn l n k : 0 <= n -> 0 <= k -> znth_opt k (zskipn n l) = znth_opt (n + k) l.
Proof.
  unfold znth_opt, zskipn. intros Hn Hk. destruct (k <? 0) eqn:E; [exfalso; lia|]. destruct (n + k <? 0) eqn:E2; [exfalso; lia|].
  rewrite nth_error_skipn_add. f_equal. lia.
Qed.
Lemma znth_opt_zfirstn l n k : 0 <= k < n -> znth_opt k (zfirstn n l) = znth_opt k l.
Proof.
  unfold znth_opt, zfirstn. intros H. destruct (k <? 0) eqn:E; [exfalso; lia|]. apply nth_error_firstn_lt. lia.
Qed.
Lemma zlen_zfirstn_le l n : 0 <= n <= zlen l -> zlen (zfirstn n l) = n.
Proof. unfold zlen, zfirstn. intros H. rewrite firstn_length. lia. Qed.
Lemma zlen_zskipn l n : 0 <= n <= zlen l -> zlen (zskipn n l) = zlen l - n.
Proof. unfold zlen, zskipn. intros H. rewrite skipn_length. lia. Qed.
Lemma zlen_app2 l1 l2 : zlen (l1 ++ l2) = zlen l1 + zlen l2.
Proof. unfold zlen. rewrite app_length. lia. Qed.
Lemma zlen_map {B} (f : A -> B) l : zlen (map f l) = zlen l.
Proof. unfold zlen. now rewrite map_length. Qed.

(* the sub-slice lo..hi *)
Lemma slice_unchecked_ok l lo hi : 0 <= lo <= hi -> hi <= zlen l ->
  exists s, slice_unchecked l lo hi = Val s /\ zlen s = hi - lo /\ forall k, 0 <= k < hi - lo -> znth_opt k s = znth_opt (lo + k) l.
Proof.
  intros H1 H2. unfold slice_unchecked.
  assert ((0 <=? lo) && (lo <=? hi) && (hi <=? zlen l) = true) as -> by lia.
  eexists. split; [reflexivity|]. split.
  - rewrite zlen_zfirstn_le; [lia|]. rewrite zlen_zskipn by lia. lia.
  - intros k Hk. rewrite znth_opt_zfirstn by lia. apply znth_opt_zskipn; lia.
Qed.

(* writing xs back over l at lo *)
Lemma splice_spec l lo xs : 0 <= lo -> lo + zlen xs <= zlen l ->
  zlen (splice l lo xs) = zlen l /\
  forall k, znth_opt k (splice l lo xs) = if (lo <=? k) && (k <? lo + zlen xs) then znth_opt (k - lo) xs else znth_opt k l.
Proof.
  intros Hlo Hhi. pose proof (zlen_nonneg xs). unfold splice. split.
  - rewrite !zlen_app2, zlen_zfirstn_le, zlen_zskipn by lia. lia.
  - intros k. destruct (Z_lt_ge_dec k 0) as [Hneg|Hk].
    + rewrite !znth_opt_neg by lia. assert ((lo <=? k) && (k <? lo + zlen xs) = false) as -> by lia. reflexivity.
    + destruct (Z_lt_ge_dec k lo) as [H1|H1].
      * assert ((lo <=? k) && (k <? lo + zlen xs) = false) as -> by lia.
        rewrite znth_opt_app1 by (rewrite zlen_zfirstn_le; lia). apply znth_opt_zfirstn. lia.
      * rewrite znth_opt_app2 by (rewrite zlen_zfirstn_le; lia). rewrite zlen_zfirstn_le by lia.
        destruct (Z_lt_ge_dec k (lo + zlen xs)) as [H2|H2].
        -- assert ((lo <=? k) && (k <? lo + zlen xs) = true) as -> by lia. apply znth_opt_app1. lia.
        -- assert ((lo <=? k) && (k <? lo + zlen xs) = false) as -> by lia.
           rewrite znth_opt_app2 by lia. rewrite znth_opt_zskipn by lia. f_equal. lia.
Qed.

Lemma znth_opt_map {B} (f : A -> B) l k : znth_opt k (map f l) = option_map f (znth_opt k l).
Proof. unfold znth_opt. destruct (k <? 0); [reflexivity|]. apply nth_error_map. Qed.
End SliceFacts.
