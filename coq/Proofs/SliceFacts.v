(* Sub-slices, splicing and strided views of a list, with Z positions. *)
From Matreex Require Import Model.Ops Proofs.ListFacts.

Section SliceFacts.
Context {A : Type}.
Implicit Types l xs : list A.

Lemma znth_opt_app1 l1 l2 k : 0 <= k < zlen l1 -> znth_opt k (l1 ++ l2) = znth_opt k l1.
Proof.
  unfold znth_opt, zlen. intros H. destruct (k <? 0) eqn:E; [exfalso; lia|]. apply nth_error_app1. lia.
Qed.
Lemma znth_opt_app2 l1 l2 k : zlen l1 <= k -> znth_opt k (l1 ++ l2) = znth_opt (k - zlen l1) l2.
Proof.
  unfold znth_opt, zlen. intros H. destruct (k <? 0) eqn:E; [exfalso; lia|].
  destruct (k - Z.of_nat (length l1) <? 0) eqn:E2; [exfalso; lia|].
  rewrite nth_error_app2 by lia. f_equal. lia.
Qed.
Lemma znth_opt_neg l k : k < 0 -> znth_opt k l = None.
Proof. unfold znth_opt. intros H. destruct (k <? 0) eqn:E; [reflexivity|exfalso; lia]. Qed.
Lemma znth_opt_zskipn l n k : 0 <= n -> 0 <= k -> znth_opt k (zskipn n l) = znth_opt (n + k) l.
Proof.
  unfold znth_opt, zskipn. intros Hn Hk. destruct (k <? 0) eqn:E; [exfalso; lia|]. destruct (n + k <? 0) eqn:E2; [exfalso; lia|].
  rewrite nth_error_skipn_add. f_equal. lia.
Qed.
Lemma znth_opt_zfirstn l n k : 0 <= k < n -> znth_opt k (zfirstn n l) = znth_opt k l.
Proof.
  unfold znth_opt, zfirstn. intros H. destruct (k <? 0) eqn:E; [exfalso; lia|]. apply nth_error_firstn_lt. lia.
Qed.
Lemma zlen_zfirstn_le l n : 0 <= n <= zlen l -> zlen (zfirstn n l) = n.
Proof. unfold zlen, zfirstn. intros H. rewrite firstn_length. lia. Qed.
Lemma zlen_zskipn l n : 0 <= n <= zlen l -> zlen (zskipn n l) = zlen l - n.
Proof. unfold zlen, zskipn. intros H. rewrite skipn_length. lia. Qed.
Lemma zlen_app2 l1 l2 : zlen (l1 ++ l2) = zlen l1 + zlen l2.
Proof. unfold zlen. rewrite app_length. lia. Qed.
Lemma zlen_map {B} (f : A -> B) l : zlen (map f l) = zlen l.
Proof. unfold zlen. now rewrite map_length. Qed.

(* the sub-slice lo..hi *)
Lemma slice_unchecked_ok l lo hi : 0 <= lo <= hi -> hi <= zlen l ->
  exists s, slice_unchecked l lo hi = Val s /\ zlen s = hi - lo /\ forall k, 0 <= k < hi - lo -> znth_opt k s = znth_opt (lo + k) l.
Proof.
  intros H1 H2. unfold slice_unchecked.
  assert ((0 <=? lo) && (lo <=? hi) && (hi <=? zlen l) = true) as -> by lia.
  eexists. split; [reflexivity|]. split.
  - rewrite zlen_zfirstn_le; [lia|]. rewrite zlen_zskipn by lia. lia.
  - intros k Hk. rewrite znth_opt_zfirstn by lia. apply znth_opt_zskipn; lia.
Qed.

(* writing xs back over l at lo *)
Lemma splice_spec l lo xs : 0 <= lo -> lo + zlen xs <= zlen l ->
  zlen (splice l lo xs) = zlen l /\
  forall k, znth_opt k (splice l lo xs) = if (lo <=? k) && (k <? lo + zlen xs) then znth_opt (k - lo) xs else znth_opt k l.
Proof.
  intros Hlo Hhi. pose proof (zlen_nonneg xs). unfold splice. split.
  - rewrite !zlen_app2, zlen_zfirstn_le, zlen_zskipn by lia. lia.
  - intros k. destruct (Z_lt_ge_dec k 0) as [Hneg|Hk].
    + rewrite !znth_opt_neg by lia. assert ((lo <=? k) && (k <? lo + zlen xs) = false) as -> by lia. reflexivity.
    + destruct (Z_lt_ge_dec k lo) as [H1|H1].
      * assert ((lo <=? k) && (k <? lo + zlen xs) = false) as -> by lia.
        rewrite znth_opt_app1 by (rewrite zlen_zfirstn_le; lia). apply znth_opt_zfirstn. lia.
      * rewrite znth_opt_app2 by (rewrite zlen_zfirstn_le; lia). rewrite zlen_zfirstn_le by lia.
        destruct (Z_lt_ge_dec k (lo + zlen xs)) as [H2|H2].
        -- assert ((lo <=? k) && (k <? lo + zlen xs) = true) as -> by lia. apply znth_opt_app1. lia.
        -- assert ((lo <=? k) && (k <? lo + zlen xs) = false) as -> by lia.
           rewrite znth_opt_app2 by lia. rewrite znth_opt_zskipn by lia. f_equal. lia.
Qed.

Lemma znth_opt_map {B} (f : A -> B) l k : znth_opt k (map f l) = option_map f (znth_opt k l).
Proof. unfold znth_opt. destruct (k <? 0); [reflexivity|]. apply nth_error_map. Qed.

(* iter().skip(a).step_by(s).take(n): exactly the strided elements a, a+s, ..., a+(n-1)s when they exist *)
Lemma zview_exact l (a s n : Z) : 0 <= a -> 0 < s -> 0 <= n ->
  (n = 0 \/ (a + (n - 1) * s < zlen l /\ s <= zlen l)) ->
  exists v, zview a s n l = Val v /\ zlen v = n /\ forall t, 0 <= t < n -> znth_opt t v = znth_opt (a + t * s) l.
Proof.
  intros Ha Hs Hn Hfit. unfold zview. assert (s =? 0 = false) as -> by lia.
  eexists. split; [reflexivity|].
  destruct Hfit as [->|[Hfit Hsl]].
  { unfold view. pose proof (zlen_nonneg l). replace (Z.to_nat (Z.min 0 (zlen l))) with 0%nat by lia. cbn [firstn]. split; [reflexivity|]. intros t Ht. lia. }
  destruct (Z.eq_dec n 0) as [->|Hn0].
  { unfold view. pose proof (zlen_nonneg l). replace (Z.to_nat (Z.min 0 (zlen l))) with 0%nat by lia. cbn [firstn]. split; [reflexivity|]. intros t Ht. lia. }
  assert (a < zlen l) by nia. assert (n <= zlen l) by nia.
  rewrite (Z.min_l a) by lia. rewrite (Z.min_l s) by lia. rewrite (Z.min_l n) by lia.
  destruct l as [|d0 l']; [unfold zlen in *; cbn in *; lia|]. set (l := d0 :: l') in *.
  assert (view A (Z.to_nat a) (Z.to_nat s) (Z.to_nat n) l = strided A d0 (Z.to_nat a) (Z.to_nat s) (Z.to_nat n) l) as Hv.
  { apply (view_is_strided A d0); [lia|]. right. unfold zlen in *. nia. }
  rewrite Hv. unfold strided. split.
  - unfold zlen. rewrite map_length, seq_length. lia.
  - intros t Ht. unfold znth_opt. destruct (t <? 0) eqn:E1; [exfalso; lia|]. destruct (a + t * s <? 0) eqn:E2; [exfalso; nia|].
    rewrite nth_error_map. rewrite (nth_error_nth' (seq 0 (Z.to_nat n)) 0%nat) by (rewrite seq_length; lia).
    rewrite seq_nth by lia. cbn [option_map Nat.add].
    replace (Z.to_nat (a + t * s)) with (Z.to_nat a + Z.to_nat t * Z.to_nat s)%nat by nia.
    symmetry. apply nth_error_nth'. unfold zlen in *. nia.
Qed.

Lemma znth_opt_combine {B} (l1 : list A) (l2 : list B) k x y :
  znth_opt k l1 = Some x -> znth_opt k l2 = Some y -> znth_opt k (combine l1 l2) = Some (x, y).
Proof.
  unfold znth_opt. destruct (k <? 0); [discriminate|]. generalize (Z.to_nat k) as n. clear k.
  revert l2. induction l1 as [|a l1 IH]; intros l2 n H1 H2; [destruct n; discriminate|].
  destruct l2 as [|b l2]; [destruct n; discriminate|]. destruct n as [|n]; cbn in *; [congruence|]. now apply IH.
Qed.
Lemma zlen_combine {B} (l1 : list A) (l2 : list B) : zlen l1 = zlen l2 -> zlen (combine l1 l2) = zlen l1.
Proof. unfold zlen. intros H. rewrite combine_length. lia. Qed.

(* map with an effectful body that never fails on the given list *)
Lemma map_res_ok {B} (f : A -> res B) (g : Z -> A -> B) l :
  (forall k x, znth_opt k l = Some x -> f x = Val (g k x)) ->
  exists ys, map_res f l = Val ys /\ zlen ys = zlen l /\ forall k x, znth_opt k l = Some x -> znth_opt k ys = Some (g k x).
Proof.
  revert g. induction l as [|a l IH]; intros g H.
  - exists []. repeat split; auto. intros k x E. unfold znth_opt in E. destruct (k <? 0); [discriminate|]. destruct (Z.to_nat k); discriminate.
  - destruct (IH (fun k x => g (k + 1) x)) as (ys & E & Hl & Hn).
    { intros k x Hk. apply H. unfold znth_opt in *. destruct (k <? 0) eqn:E1; [discriminate|]. destruct (k + 1 <? 0) eqn:E2; [exfalso; lia|].
      replace (Z.to_nat (k + 1)) with (S (Z.to_nat k)) by lia. exact Hk. }
    cbn [map_res]. rewrite (H 0 a eq_refl). cbn [bind]. rewrite E. cbn [bind].
    exists (g 0 a :: ys). split; [reflexivity|]. split; [unfold zlen in *; cbn [length]; lia|].
    intros k x Hk. unfold znth_opt in *. destruct (k <? 0) eqn:E1; [discriminate|].
    destruct (Z.to_nat k) as [|n] eqn:En.
    + cbn in Hk |- *. injection Hk as <-. replace k with 0 by lia. reflexivity.
    + cbn [nth_error] in Hk |- *. specialize (Hn (k - 1) x). destruct (k - 1 <? 0) eqn:E3; [exfalso; lia|].
      replace (Z.to_nat (k - 1)) with n in Hn by lia. rewrite Hn by exact Hk. f_equal. f_equal. lia.
Qed.

(* the same with a relational description of each result *)
Lemma map_res_rel {B} (f : A -> res B) (P : Z -> A -> B -> Prop) l :
  (forall k x, znth_opt k l = Some x -> exists y, f x = Val y /\ P k x y) ->
  exists ys, map_res f l = Val ys /\ zlen ys = zlen l /\
    forall k x, znth_opt k l = Some x -> exists y, znth_opt k ys = Some y /\ P k x y.
Proof.
  revert P. induction l as [|a l IH]; intros P H.
  - exists []. repeat split; auto. intros k x E. unfold znth_opt in E. destruct (k <? 0); [discriminate|]. destruct (Z.to_nat k); discriminate.
  - destruct (IH (fun k x y => P (k + 1) x y)) as (ys & E & Hl & Hn).
    { intros k x Hk. apply H. unfold znth_opt in *. destruct (k <? 0) eqn:E1; [discriminate|]. destruct (k + 1 <? 0) eqn:E2; [exfalso; lia|].
      replace (Z.to_nat (k + 1)) with (S (Z.to_nat k)) by lia. exact Hk. }
    destruct (H 0 a eq_refl) as (y0 & E0 & P0).
    cbn [map_res]. rewrite E0. cbn [bind]. rewrite E. cbn [bind].
    exists (y0 :: ys). split; [reflexivity|]. split; [unfold zlen in *; cbn [length]; lia|].
    intros k x Hk. unfold znth_opt in *. destruct (k <? 0) eqn:E1; [discriminate|].
    destruct (Z.to_nat k) as [|n] eqn:En.
    + cbn in Hk |- *. injection Hk as <-. replace k with 0 by lia. eauto.
    + cbn [nth_error] in Hk |- *. specialize (Hn (k - 1) x). destruct (k - 1 <? 0) eqn:E3; [exfalso; lia|].
      replace (Z.to_nat (k - 1)) with n in Hn by lia. destruct (Hn Hk) as (y & Ey & Py).
      exists y. split; [exact Ey|]. replace (k - 1 + 1) with k in Py by lia. exact Py.
Qed.

Lemma znth_opt_combine_inv {B} (l1 : list A) (l2 : list B) k x y :
  znth_opt k (combine l1 l2) = Some (x, y) -> znth_opt k l1 = Some x /\ znth_opt k l2 = Some y.
Proof.
  unfold znth_opt. destruct (k <? 0); [discriminate|]. generalize (Z.to_nat k) as n. clear k.
  revert l2. induction l1 as [|a l1 IH]; intros l2 n H; [destruct n; discriminate|].
  destruct l2 as [|b l2]; [destruct n; discriminate|]. destruct n as [|n]; cbn in *; [split; congruence|]. now apply IH.
Qed.
End SliceFacts.
