(* C20: Display / Debug never panic (the cache is only ever indexed inside its bounds) and print "[]" for matrices
   without elements. *)
From Matreex Require Import Model.Fmt Proofs.ListFacts Proofs.SliceFacts Proofs.IndexProofs Proofs.ElementIter.

Section FmtProofs.
Context {A : Type}.
Variable c : cfg.
Variable es : Z.
Variable render : A -> text.
Implicit Types m : matrix A.

Lemma cache_next_ok (cache : list (list text)) index : 0 <= index < zlen cache ->
  exists r, cache_next cache index = Val r /\ zlen (snd r) = zlen cache.
Proof.
  intros H. unfold cache_next. destruct (znth_opt_some cache index H) as [ls E]. rewrite E.
  destruct ls as [|l t]; eexists; split; try reflexivity. cbn [snd]. apply zlen_zupd.
Qed.
Lemma cell_ok (cache : list (list text)) index ew : 0 <= index < zlen cache ->
  exists r, cell cache index ew = Val r /\ zlen (snd r) = zlen cache.
Proof.
  intros H. unfold cell. destruct (cache_next_ok cache index H) as ([o cache'] & E & Hl). rewrite E. cbn [bind fst snd].
  destruct o; eexists; split; try reflexivity; exact Hl.
Qed.

(* one text line of one row: every cache access is in range and the cache keeps its length *)
Lemma row_cells_ok m row ew label (acc : text * list (list text)) : Coh c es m -> 0 <= row < nrows m -> zlen (snd acc) = size m ->
  exists r, row_cells c m row ew label acc = Val r /\ zlen (snd r) = size m.
Proof.
  intros HC Hrow Hacc. unfold row_cells.
  destruct (nrows_ncols_size c es m HC) as (_ & _ & Hnc).
  destruct (for_res_inv (fun (_ : Z) (st : text * list (list text)) => zlen (snd st) = size m)
              (fun col st => let '(out, cache) := st in
                 let sep := if col =? 0 then [] else pad_space INTER_GAP in
                 let* index := Index_to_flattened c (mkIndex row col) (m_order m) (m_shape m) in
                 let* r := cell cache index ew in
                 Val (out ++ sep ++ label index ++ fst r, snd r))
              (ncols m) acc Hnc Hacc) as (r & E & Hr).
  - intros col [out cache] Hcol Hl. cbn [snd] in Hl.
    assert (Index_to_flattened c (mkIndex row col) (m_order m) (m_shape m) = Val (flat m row col)) as ->.
    { unfold Index_to_flattened. cbn [ix_row ix_col].
      destruct (to_flattened_ok c es m (AxisIndex_from_rc row col (m_order m)) HC) as [E _].
      { unfold nrows, ncols, mmajor, mminor, AxisIndex_from_rc in *. destruct (m_order m); cbn in *; lia. }
      { unfold nrows, ncols, mmajor, mminor, AxisIndex_from_rc in *. destruct (m_order m); cbn in *; lia. }
      rewrite E. f_equal. apply flat_of_axis. }
    cbn [bind]. pose proof (flat_in_range c es m row col HC Hrow Hcol) as Hf.
    destruct (cell_ok cache (flat m row col) ew ltac:(lia)) as (r & Er & Hlr). rewrite Er. cbn [bind].
    eexists. split; [reflexivity|]. cbn [snd]. lia.
  - exists r. split; [exact E|exact Hr].
Qed.

Lemma build_cache_len m : zlen (build_cache render m) = size m.
Proof. unfold build_cache. apply zlen_map. Qed.

Theorem display_no_panic m : Coh c es m -> exists t, fmt_display_gen c render m = Val t.
Proof.
  intros HC. unfold fmt_display_gen. destruct (is_empty m); [eauto|]. cbv zeta.
  destruct (nrows_ncols_size c es m HC) as (_ & Hnr & _).
  set (ew := max_width (build_cache render m)). set (eh := max_height (build_cache render m)).
  destruct (for_res_inv (fun (_ : Z) (st : text * list (list text)) => zlen (snd st) = size m)
              (fun row st => let '(out, cache) := st in
                 let* st1 := row_cells c m row ew (fun _ => []) (out ++ pad_space TAB_SIZE ++ [ch_lb], cache) in
                 let st1 := (fst st1 ++ [ch_rb; ch_nl], snd st1) in
                 for_res (zseq (eh - 1)) st1 (fun _ st =>
                   let '(out, cache) := st in
                   let* st2 := row_cells c m row ew (fun _ => []) (out ++ pad_space TAB_SIZE ++ [ch_sp], cache) in
                   Val (fst st2 ++ [ch_nl], snd st2)))
              (nrows m) ([ch_lb; ch_nl], build_cache render m) Hnr (build_cache_len m)) as (r & E & _).
  - intros row [out cache] Hrow Hl. cbn [snd] in Hl.
    destruct (row_cells_ok m row ew (fun _ => []) (out ++ pad_space TAB_SIZE ++ [ch_lb], cache) HC Hrow Hl) as (st1 & E1 & H1).
    rewrite E1. cbn [bind].
    destruct (Z_le_gt_dec (eh - 1) 0) as [Hle|Hgt].
    + replace (zseq (eh - 1)) with (@nil Z) by (unfold zseq; replace (Z.to_nat (eh - 1)) with 0%nat by lia; reflexivity).
      cbn [for_res]. eexists. split; [reflexivity|]. exact H1.
    + destruct (for_res_inv (fun (_ : Z) (st : text * list (list text)) => zlen (snd st) = size m)
                  (fun _ st => let '(out, cache) := st in
                     let* st2 := row_cells c m row ew (fun _ => []) (out ++ pad_space TAB_SIZE ++ [ch_sp], cache) in
                     Val (fst st2 ++ [ch_nl], snd st2))
                  (eh - 1) (fst st1 ++ [ch_rb; ch_nl], snd st1) ltac:(lia) H1) as (r2 & E2 & H2).
      * intros k [out2 cache2] Hk Hl2. cbn [snd] in Hl2.
        destruct (row_cells_ok m row ew (fun _ => []) (out2 ++ pad_space TAB_SIZE ++ [ch_sp], cache2) HC Hrow Hl2) as (st2 & E3 & H3).
        rewrite E3. cbn [bind]. eexists. split; [reflexivity|exact H3].
      * exists r2. split; [exact E2|exact H2].
  - match goal with |- exists t, bind ?X _ = _ => assert (X = Val r) as -> by exact E end. cbn [bind]. eauto.
Qed.

Theorem display_elementless m : size m = 0 -> fmt_display_gen c render m = Val [ch_lb; ch_rb].
Proof. intros H. unfold fmt_display_gen, is_empty. rewrite H. reflexivity. Qed.
Theorem debug_elementless m : size m = 0 -> fmt_debug_gen c render m = Val [ch_lb; ch_rb].
Proof. intros H. unfold fmt_debug_gen, is_empty. rewrite H. reflexivity. Qed.

Theorem debug_no_panic m : Coh c es m -> exists t, fmt_debug_gen c render m = Val t.
Proof.
  intros HC. unfold fmt_debug_gen. destruct (is_empty m); [eauto|]. cbv zeta.
  destruct (nrows_ncols_size c es m HC) as (_ & Hnr & _).
  set (ew := max_width (build_cache render m)). set (eh := max_height (build_cache render m)). set (iw := zlen (dec (size m))).
  match goal with |- context [for_res (zseq (nrows m)) (?hdr ++ [ch_nl], _) _] => set (header := hdr) end.
  destruct (for_res_inv (fun (_ : Z) (st : text * list (list text)) => zlen (snd st) = size m)
              (fun row st => let '(out, cache) := st in
                 let* st1 := row_cells c m row ew (fun index => pad_left_dec index iw ++ pad_space INNER_GAP)
                               (out ++ pad_space TAB_SIZE ++ pad_left_dec row iw ++ pad_space OUTER_GAP ++ [ch_lb], cache) in
                 let st1 := (fst st1 ++ [ch_rb; ch_nl], snd st1) in
                 for_res (zseq (eh - 1)) st1 (fun _ st =>
                   let '(out, cache) := st in
                   let* st2 := row_cells c m row ew (fun _ => pad_space iw ++ pad_space INNER_GAP)
                                 (out ++ pad_space TAB_SIZE ++ pad_space iw ++ pad_space OUTER_GAP ++ [ch_sp], cache) in
                   Val (fst st2 ++ [ch_nl], snd st2)))
              (nrows m) (header ++ [ch_nl], build_cache render m) Hnr (build_cache_len m)) as (r & E & _).
  - intros row [out cache] Hrow Hl. cbn [snd] in Hl.
    destruct (row_cells_ok m row ew (fun index => pad_left_dec index iw ++ pad_space INNER_GAP)
                (out ++ pad_space TAB_SIZE ++ pad_left_dec row iw ++ pad_space OUTER_GAP ++ [ch_lb], cache) HC Hrow Hl) as (st1 & E1 & H1).
    rewrite E1. cbn [bind].
    destruct (Z_le_gt_dec (eh - 1) 0) as [Hle|Hgt].
    + replace (zseq (eh - 1)) with (@nil Z) by (unfold zseq; replace (Z.to_nat (eh - 1)) with 0%nat by lia; reflexivity).
      cbn [for_res]. eexists. split; [reflexivity|]. exact H1.
    + destruct (for_res_inv (fun (_ : Z) (st : text * list (list text)) => zlen (snd st) = size m)
                  (fun _ st => let '(out, cache) := st in
                     let* st2 := row_cells c m row ew (fun _ => pad_space iw ++ pad_space INNER_GAP)
                                   (out ++ pad_space TAB_SIZE ++ pad_space iw ++ pad_space OUTER_GAP ++ [ch_sp], cache) in
                     Val (fst st2 ++ [ch_nl], snd st2))
                  (eh - 1) (fst st1 ++ [ch_rb; ch_nl], snd st1) ltac:(lia) H1) as (r2 & E2 & H2).
      * intros k [out2 cache2] Hk Hl2. cbn [snd] in Hl2.
        destruct (row_cells_ok m row ew (fun _ => pad_space iw ++ pad_space INNER_GAP)
                    (out2 ++ pad_space TAB_SIZE ++ pad_space iw ++ pad_space OUTER_GAP ++ [ch_sp], cache2) HC Hrow Hl2) as (st2 & E3 & H3).
        rewrite E3. cbn [bind]. eexists. split; [reflexivity|exact H3].
      * exists r2. split; [exact E2|exact H2].
  - match goal with |- exists t, bind ?X _ = _ => assert (X = Val r) as -> by exact E end. cbn [bind]. eauto.
Qed.
End FmtProofs.
