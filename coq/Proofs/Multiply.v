(* C11: multiply / multiplication_like_operation on the list model compute the textbook product. *)
From Matreex Require Import Model.Ops Proofs.ListFacts Proofs.SliceFacts Proofs.IndexProofs Proofs.Decisions Proofs.ShapeOps
  Proofs.Transpose Proofs.OrderOps Proofs.Elementwise.

Lemma znth_zseq_inv n k x : znth_opt k (zseq n) = Some x -> x = k /\ 0 <= k < n.
Proof.
  intros H. destruct (Z_lt_ge_dec k 0); [rewrite znth_opt_neg in H by lia; discriminate|].
  destruct (Z_lt_ge_dec k n).
  - rewrite zseq_nth in H by lia. injection H as <-. lia.
  - rewrite znth_opt_none in H; [discriminate|]. unfold zlen. rewrite zseq_length. lia.
Qed.

(* element (i, j) of a list of rows of uniform length n2, flattened *)
Lemma znth_concat_uniform {B} (rows : list (list B)) n2 : 0 <= n2 -> (forall r, In r rows -> zlen r = n2) ->
  zlen (concat rows) = zlen rows * n2 /\
  forall i j, 0 <= i < zlen rows -> 0 <= j < n2 ->
    exists r, znth_opt i rows = Some r /\ znth_opt (i * n2 + j) (concat rows) = znth_opt j r.
Proof.
  intros Hn. induction rows as [|r0 rows IH]; intros Hlen.
  - split; [reflexivity|]. intros i j Hi. unfold zlen in Hi. cbn in Hi. lia.
  - destruct IH as [IHl IHn]; [intros r Hr; apply Hlen; now right|].
    assert (zlen r0 = n2) as H0 by (apply Hlen; now left).
    cbn [concat]. split.
    + rewrite zlen_app2, IHl, H0. unfold zlen. cbn [length]. lia.
    + intros i j Hi Hj. destruct (Z.eq_dec i 0) as [->|Hne].
      * exists r0. split; [reflexivity|]. rewrite Z.mul_0_l, Z.add_0_l. apply znth_opt_app1. lia.
      * destruct (IHn (i - 1) j) as (r & Er & En); [unfold zlen in *; cbn [length] in Hi; lia|lia|].
        exists r. split.
        -- unfold znth_opt in *. destruct (i <? 0) eqn:E1; [exfalso; lia|]. destruct (i - 1 <? 0) eqn:E2; [exfalso; lia|].
           replace (Z.to_nat i) with (S (Z.to_nat (i - 1))) by lia. exact Er.
        -- rewrite znth_opt_app2 by nia. rewrite H0. replace (i * n2 + j - n2) with ((i - 1) * n2 + j) by lia. exact En.
Qed.

(* a doubly nested effectful map over index ranges, flattened *)
Lemma nested_map_res {B} (cell : Z -> Z -> res B) n1 n2 : 0 <= n1 -> 0 <= n2 ->
  (forall i j, 0 <= i < n1 -> 0 <= j < n2 -> exists u, cell i j = Val u) ->
  exists rows, map_res (fun i => map_res (fun j => cell i j) (zseq n2)) (zseq n1) = Val rows /\
    zlen (concat rows) = n1 * n2 /\
    forall i j, 0 <= i < n1 -> 0 <= j < n2 -> exists u, cell i j = Val u /\ znth_opt (i * n2 + j) (concat rows) = Some u.
Proof.
  intros H1 H2 Hcell.
  destruct (map_res_rel (fun i => map_res (fun j => cell i j) (zseq n2))
              (fun (k : Z) (i : Z) (row : list B) => zlen row = n2 /\ forall j, 0 <= j < n2 -> exists u, cell i j = Val u /\ znth_opt j row = Some u)
              (zseq n1)) as (rows & E & Hl & Hn).
  { intros k i Hk. apply znth_zseq_inv in Hk as [-> Hk].
    destruct (map_res_rel (fun j => cell k j) (fun (t : Z) (j : Z) (u : B) => cell j t = cell j t /\ cell k j = Val u) (zseq n2)) as (row & Er & Hlr & Hnr).
    { intros t j Ht. apply znth_zseq_inv in Ht as [-> Ht]. destruct (Hcell k t Hk Ht) as [u Eu]. exists u. auto. }
    exists row. split; [exact Er|]. split; [rewrite Hlr; unfold zlen; rewrite zseq_length; lia|].
    intros j Hj. destruct (Hnr j j (zseq_nth n2 j Hj)) as (u & Eu & _ & Ec). exists u. auto. }
  exists rows. split; [exact E|].
  assert (zlen rows = n1) as Hrows by (rewrite Hl; unfold zlen; rewrite zseq_length; lia).
  assert (forall r, In r rows -> zlen r = n2) as Hunif.
  { intros r Hr. apply In_nth_error in Hr as [n Hn']. 
    assert (znth_opt (Z.of_nat n) rows = Some r) as Hz by (unfold znth_opt; destruct (Z.of_nat n <? 0) eqn:E1; [exfalso; lia|]; rewrite Nat2Z.id; exact Hn').
    assert (0 <= Z.of_nat n < n1).
    { split; [lia|]. rewrite <- Hrows. unfold zlen. apply Nat2Z.inj_lt. apply nth_error_Some. congruence. }
    destruct (Hn (Z.of_nat n) (Z.of_nat n) (zseq_nth n1 _ H)) as (row & Erow & Hlen & _). congruence. }
  destruct (znth_concat_uniform rows n2 H2 Hunif) as [Lc Nc]. split; [rewrite Lc, Hrows; reflexivity|].
  intros i j Hi Hj. destruct (Hn i i (zseq_nth n1 i Hi)) as (row & Erow & _ & Hcells).
  destruct (Hcells j Hj) as (u & Eu & Hu). exists u. split; [exact Eu|].
  destruct (Nc i j ltac:(lia) Hj) as (r & Er & En). rewrite En. assert (r = row) by congruence. subst r. exact Hu.
Qed.

Lemma result_shape {X} (o : order) (r cl : Z) (data : list X) :
  let p := mkMatrix o (Shape_to_axis_shape_unchecked (mkShape r cl) o) data in
  m_order p = o /\ nrows p = r /\ ncols p = cl /\ size p = zlen data /\
  forall i j, at_ p i j = znth_opt (match o with RowMajor => i * cl + j | ColMajor => j * r + i end) data.
Proof. destruct o; cbn; repeat split; reflexivity. Qed.

Section Multiply.
Context {L R U : Type}.
Variable c : cfg.
Hypothesis Hwf : wf c.
Variables esL esR esU : Z.
Hypothesis HesL : 0 < esL.
Hypothesis HesR : 0 < esR.
Hypothesis HesU : 0 <= esU.
Variable dflt : U.

(* row n of a row-major / column n of a column-major matrix as the contiguous slice get_nth_major_axis_vector reads *)
Lemma major_vector {X} (es : Z) (m : matrix X) n : Coh c es m -> 0 <= n < mmajor m ->
  exists v, get_nth_major_axis_vector c m n = Val v /\ zlen v = mminor m /\
    forall k, 0 <= k < mminor m -> znth_opt k v = znth_opt (n * mminor m + k) (m_data m).
Proof.
  intros (H1 & H2 & H3 & H4 & _) Hn. unfold get_nth_major_axis_vector, AxisShape_major_stride. fold (mminor m).
  unfold size in *. rewrite umul_val by nia. cbn [bind]. rewrite uadd_val by nia. cbn [bind].
  destruct (slice_unchecked_ok (m_data m) (n * mminor m) (n * mminor m + mminor m)) as (v & E & Hl & Hv); [nia|nia|].
  exists v. split; [exact E|]. split; [lia|]. intros k Hk. apply Hv. lia.
Qed.

(* what the closure of multiplication_like_operation is given for result position (i, j) *)
Definition is_row (a : matrix L) (i : Z) (ls : list L) : Prop :=
  zlen ls = ncols a /\ forall k, 0 <= k < ncols a -> znth_opt k ls = at_ a i k.
Definition is_col (b : matrix R) (j : Z) (rs : list R) : Prop :=
  zlen rs = nrows b /\ forall k, 0 <= k < nrows b -> znth_opt k rs = at_ b k j.

Theorem multiplication_like_spec (op : list L -> list R -> res U) (a : matrix L) (b : matrix R) :
  Coh c esL a -> Coh c esR b ->
  (* the closure does not fail on a row of lhs and a column of rhs *)
  (ncols a = nrows b -> 0 < ncols a -> forall i j ls rs, is_row a i ls -> is_col b j rs -> exists u, op ls rs = Val u) ->
  if negb (ncols a =? nrows b) then multiplication_like_operation c esL esR esU dflt op a b = Val (Err ShapeNotConformable)
  else if nrows a * ncols b >? umax c then multiplication_like_operation c esL esR esU dflt op a b = Val (Err SizeOverflow)
  else if esU * (nrows a * ncols b) >? imax c then multiplication_like_operation c esL esR esU dflt op a b = Val (Err CapacityOverflow)
  else exists p, multiplication_like_operation c esL esR esU dflt op a b = Val (Ok p) /\
    m_order p = m_order a /\ nrows p = nrows a /\ ncols p = ncols b /\ size p = nrows a * ncols b /\
    forall i j, 0 <= i < nrows a -> 0 <= j < ncols b ->
      if ncols a =? 0 then at_ p i j = Some dflt
      else exists ls rs u, is_row a i ls /\ is_col b j rs /\ op ls rs = Val u /\ at_ p i j = Some u.
Proof.
  intros HA HB Hop.
  destruct (nrows_ncols_size c esL a HA) as (Sa & Ra & Ca). destruct (nrows_ncols_size c esR b HB) as (Sb & Rb & Cb).
  assert (is_usize c (nrows a)) as Ura.
  { destruct HA as (A1 & A2 & _). unfold is_usize, nrows, mmajor, mminor in *. destruct (m_order a); cbn; lia. }
  assert (is_usize c (ncols b)) as Ucb.
  { destruct HB as (B1 & B2 & _). unfold is_usize, ncols, mmajor, mminor in *. destruct (m_order b); cbn; lia. }
  unfold multiplication_like_operation, mul_decision, is_mul_conformable, is_multiplication_conformable.
  fold (ncols a) (nrows b). destruct (ncols a =? nrows b) eqn:Econf; cbn [negb bind]; [|reflexivity].
  rewrite (decide_shape_spec c Hwf esU (m_order a) (nrows a) (ncols b) Ura Ucb HesU). cbn [bind].
  destruct (nrows a * ncols b >? umax c) eqn:E1; [reflexivity|].
  destruct (esU * (nrows a * ncols b) >? imax c) eqn:E2; [reflexivity|].
  set (sh := Shape_to_axis_shape_unchecked (mkShape (nrows a) (ncols b)) (m_order a)).
  assert (AxisShape_nrows sh (m_order a) = nrows a /\ AxisShape_ncols sh (m_order a) = ncols b) as [Hnr Hnc]
    by (unfold sh; destruct (m_order a); split; reflexivity).
  destruct (ncols a =? 0) eqn:EK.
  - (* zero inner dimension: every element is U::default() *)
    eexists. split; [reflexivity|].
    destruct (result_shape (m_order a) (nrows a) (ncols b) (zrepeat dflt (nrows a * ncols b))) as (P1 & P2 & P3 & P4 & P5).
    fold sh in P1, P2, P3, P4, P5.
    split; [exact P1|]. split; [exact P2|]. split; [exact P3|].
    split; [rewrite P4; unfold zlen, zrepeat; rewrite repeat_length; lia|].
    intros i j Hi Hj. rewrite P5. unfold znth_opt, zrepeat.
    assert (0 <= (match m_order a with RowMajor => i * ncols b + j | ColMajor => j * nrows a + i end) < nrows a * ncols b) as Hpos
      by (destruct (m_order a); nia).
    destruct (_ <? 0) eqn:E3; [exfalso; lia|].
    rewrite nth_error_repeat by lia. reflexivity.
  - (* the general case: lhs re-laid row-major, rhs column-major *)
    destruct (set_order_logical c esL a RowMajor HA HesL) as (a' & Ea & HA' & Oa & Ra' & Ca' & Hata).
    destruct (set_order_logical c esR b ColMajor HB HesR) as (b' & Eb & HB' & Ob & Rb' & Cb' & Hatb).
    rewrite Ea. cbn [bind]. rewrite Eb. cbn [bind].
    assert (mmajor a' = nrows a /\ mminor a' = ncols a) as [Ma' ma'].
    { unfold nrows, ncols, mmajor, mminor in *. rewrite Oa in *. cbn in *. lia. }
    assert (mmajor b' = ncols b /\ mminor b' = nrows b) as [Mb' mb'].
    { unfold nrows, ncols, mmajor, mminor in *. rewrite Ob in *. cbn in *. lia. }
    (* one cell *)
    assert (forall i j, 0 <= i < nrows a -> 0 <= j < ncols b ->
              exists ls rs u, is_row a i ls /\ is_col b j rs /\ op ls rs = Val u /\
                (let* l := get_nth_major_axis_vector c a' i in let* r := get_nth_major_axis_vector c b' j in op l r) = Val u) as Hcell.
    { intros i j Hi Hj.
      destruct (major_vector esL a' i HA' ltac:(lia)) as (ls & El & Ll & Nl).
      destruct (major_vector esR b' j HB' ltac:(lia)) as (rs & Er & Lr & Nr).
      assert (is_row a i ls) as Hrow.
      { split; [lia|]. intros k Hk. rewrite Nl by lia. rewrite <- Hata by lia. unfold at_, flat. rewrite Oa. reflexivity. }
      assert (is_col b j rs) as Hcol.
      { split; [lia|]. intros k Hk. rewrite Nr by lia. rewrite <- Hatb by lia. unfold at_, flat. rewrite Ob. reflexivity. }
      destruct (Hop ltac:(lia) ltac:(lia) i j ls rs Hrow Hcol) as [u Eu].
      exists ls, rs, u. rewrite El, Er. cbn [bind]. auto. }
    destruct (m_order a) eqn:Eoa.
    + destruct (nested_map_res (fun row col => let* l := get_nth_major_axis_vector c a' row in let* r := get_nth_major_axis_vector c b' col in op l r)
                  (nrows a) (ncols b) Ra Cb) as (rows & Erows & Lrows & Nrows).
      { intros i j Hi Hj. destruct (Hcell i j Hi Hj) as (_ & _ & u & _ & _ & _ & Eu). eauto. }
      rewrite Erows. cbn [bind]. eexists. split; [reflexivity|].
      destruct (result_shape RowMajor (nrows a) (ncols b) (concat rows)) as (P1 & P2 & P3 & P4 & P5).
      fold sh in P1, P2, P3, P4, P5.
      split; [exact P1|]. split; [exact P2|]. split; [exact P3|]. split; [rewrite P4; exact Lrows|].
      intros i j Hi Hj. destruct (Hcell i j Hi Hj) as (ls & rs & u & Hrow & Hcol & Eop & Ecell).
      exists ls, rs, u. split; [exact Hrow|]. split; [exact Hcol|]. split; [exact Eop|].
      destruct (Nrows i j Hi Hj) as (u' & Eu' & Hu'). rewrite P5, Hu'. congruence.
    + destruct (nested_map_res (fun col row => let* l := get_nth_major_axis_vector c a' row in let* r := get_nth_major_axis_vector c b' col in op l r)
                  (ncols b) (nrows a) Cb Ra) as (cols & Ecols & Lcols & Ncols).
      { intros j i Hj Hi. destruct (Hcell i j Hi Hj) as (_ & _ & u & _ & _ & _ & Eu). eauto. }
      rewrite Ecols. cbn [bind]. eexists. split; [reflexivity|].
      destruct (result_shape ColMajor (nrows a) (ncols b) (concat cols)) as (P1 & P2 & P3 & P4 & P5).
      fold sh in P1, P2, P3, P4, P5.
      split; [exact P1|]. split; [exact P2|]. split; [exact P3|]. split; [rewrite P4; lia|].
      intros i j Hi Hj. destruct (Hcell i j Hi Hj) as (ls & rs & u & Hrow & Hcol & Eop & Ecell).
      exists ls, rs, u. split; [exact Hrow|]. split; [exact Hcol|]. split; [exact Eop|].
      destruct (Ncols j i Hj Hi) as (u' & Eu' & Hu'). rewrite P5, Hu'. congruence.
Qed.
End Multiply.

Section Product.
Context {L R U : Type}.
Variable c : cfg.
Hypothesis Hwf : wf c.
Variables esL esR esU : Z.
Hypothesis HesL : 0 < esL.
Hypothesis HesR : 0 < esR.
Hypothesis HesU : 0 <= esU.
Variable dflt : U.
Variable mul : L -> R -> U.
Variable add : U -> U -> U.

(* the textbook sum: ((l0*r0 + l1*r1) + l2*r2) + ... — lhs factor on the left, k ascending, each k once *)
Definition products (ls : list L) (rs : list R) : list U := map (fun p => mul (fst p) (snd p)) (combine ls rs).
Definition textbook (ls : list L) (rs : list R) : option U :=
  match products ls rs with [] => None | x :: t => Some (fold_left add t x) end.

Lemma dot_product_some (ls : list L) (rs : list R) : 0 < zlen ls -> zlen ls = zlen rs ->
  exists u, textbook ls rs = Some u /\ dot_product mul add ls rs = Val u.
Proof.
  intros Hpos Hlen. unfold textbook, dot_product, products.
  destruct ls as [|l0 ls]; [unfold zlen in Hpos; cbn in Hpos; lia|].
  destruct rs as [|r0 rs]; [unfold zlen in *; cbn in *; lia|]. cbn. eauto.
Qed.

Theorem multiply_spec (a : matrix L) (b : matrix R) : Coh c esL a -> Coh c esR b ->
  if negb (ncols a =? nrows b) then multiply c esL esR esU dflt mul add a b = Val (Err ShapeNotConformable)
  else if nrows a * ncols b >? umax c then multiply c esL esR esU dflt mul add a b = Val (Err SizeOverflow)
  else if esU * (nrows a * ncols b) >? imax c then multiply c esL esR esU dflt mul add a b = Val (Err CapacityOverflow)
  else exists p, multiply c esL esR esU dflt mul add a b = Val (Ok p) /\
    m_order p = m_order a /\ nrows p = nrows a /\ ncols p = ncols b /\ size p = nrows a * ncols b /\
    forall i j, 0 <= i < nrows a -> 0 <= j < ncols b ->
      if ncols a =? 0 then at_ p i j = Some dflt
      else exists ls rs u, is_row a i ls /\ is_col b j rs /\ textbook ls rs = Some u /\ at_ p i j = Some u.
Proof.
  intros HA HB. unfold multiply.
  pose proof (multiplication_like_spec c Hwf esL esR esU HesL HesR HesU dflt (dot_product mul add) a b HA HB) as H.
  assert (ncols a = nrows b -> 0 < ncols a -> forall i j ls rs, is_row a i ls -> is_col b j rs -> exists u, dot_product mul add ls rs = Val u) as Hdot.
  { intros Hc HK i j ls rs [Hl _] [Hr _]. destruct (dot_product_some ls rs) as (u & _ & Eu); [lia|lia|]. eauto. }
  specialize (H Hdot).
  destruct (negb (ncols a =? nrows b)) eqn:Econf; [exact H|].
  destruct (nrows a * ncols b >? umax c); [exact H|]. destruct (esU * (nrows a * ncols b) >? imax c); [exact H|].
  destruct H as (p & E & H1 & H2 & H3 & H4 & H5). exists p. split; [exact E|]. repeat (split; [assumption|]).
  intros i j Hi Hj. specialize (H5 i j Hi Hj). destruct (ncols a =? 0) eqn:EK; [exact H5|].
  destruct H5 as (ls & rs & u & Hrow & Hcol & Eop & Hat). exists ls, rs, u. split; [exact Hrow|]. split; [exact Hcol|]. split; [|exact Hat].
  destruct Hrow as [Hl _], Hcol as [Hr _].
  destruct (nrows_ncols_size c esL a HA) as (_ & _ & Hc0).
  destruct (dot_product_some ls rs) as (u' & Et & Eu'); [lia|lia|]. congruence.
Qed.
End Product.
