(* Layout facts: where logical (r, c) sits in the element store. *)
From Matreex Require Import Base.ListLayout Model.Matrix.

Lemma zseq_as_map n : zseq n = map Z.of_nat (seq 0 (Z.to_nat n)).
Proof. reflexivity. Qed.

Lemma layout_as_concat {A} (f : Z -> Z -> A) (n m : Z) :
  flat_map (fun r => map (fun cl => f r cl) (zseq m)) (zseq n) =
  concat (map (fun r : nat => map ((fun r cl : nat => f (Z.of_nat r) (Z.of_nat cl)) r) (seq 0 (Z.to_nat m))) (seq 0 (Z.to_nat n))).
Proof.
  rewrite flat_map_concat_map. unfold zseq. rewrite map_map. f_equal.
  apply map_ext. intros r. now rewrite map_map.
Qed.

Lemma layout_length {A} (f : Z -> Z -> A) n m : 0 <= n -> 0 <= m ->
  zlen (flat_map (fun r => map (fun cl => f r cl) (zseq m)) (zseq n)) = n * m.
Proof. intros Hn Hm. unfold zlen. rewrite layout_as_concat, length_flat. lia. Qed.

Lemma layout_nth {A} (f : Z -> Z -> A) n m r cl : 0 <= r < n -> 0 <= cl < m ->
  znth_opt (r * m + cl) (flat_map (fun r => map (fun cl => f r cl) (zseq m)) (zseq n)) = Some (f r cl).
Proof.
  intros Hr Hc.
  rewrite (znth_opt_nth (f 0 0)) by (rewrite layout_length by lia; nia).
  f_equal. rewrite layout_as_concat.
  replace (Z.to_nat (r * m + cl)) with (Z.to_nat r * Z.to_nat m + Z.to_nat cl)%nat by nia.
  rewrite nth_flat by lia. f_equal; lia.
Qed.

Section MatOfFun.
Context {A : Type} (f : Z -> Z -> A) (o : order) (nr nc : Z).
Hypothesis Hnr : 0 <= nr. Hypothesis Hnc : 0 <= nc.

Lemma mat_of_fun_order : m_order (mat_of_fun o nr nc f) = o.
Proof. destruct o; reflexivity. Qed.
Lemma mat_of_fun_nrows : nrows (mat_of_fun o nr nc f) = nr.
Proof. destruct o; reflexivity. Qed.
Lemma mat_of_fun_ncols : ncols (mat_of_fun o nr nc f) = nc.
Proof. destruct o; reflexivity. Qed.
Lemma mat_of_fun_size : size (mat_of_fun o nr nc f) = nr * nc.
Proof. destruct o; unfold size; cbn [mat_of_fun m_data]; rewrite layout_length; lia. Qed.
Lemma mat_of_fun_coh c es : nr <= umax c -> nc <= umax c -> nr * nc <= umax c -> es * (nr * nc) <= imax c -> Coh c es (mat_of_fun o nr nc f).
Proof.
  intros Hr Hcl H1 H2. unfold Coh. rewrite mat_of_fun_size.
  destruct o; unfold mmajor, mminor; cbn [mat_of_fun m_shape major minor]; repeat split; try lia.
Qed.
Lemma mat_of_fun_at r cl : 0 <= r < nr -> 0 <= cl < nc -> at_ (mat_of_fun o nr nc f) r cl = Some (f r cl).
Proof.
  intros Hr Hc. unfold at_, flat, mminor. destruct o; cbn [mat_of_fun m_order m_shape m_data minor].
  - apply layout_nth; lia.
  - apply (layout_nth (fun a b => f b a)); lia.
Qed.
End MatOfFun.
