(* C03: the pointer-level machines of Model/IterMut.v, both arms (zero-sized and ordinary elements) at once.
   An element index i of the buffer is addressed by  addr_of i = origin + i * unit  where for ordinary elements
   origin = base, unit = size_of::<T>() and for zero-sized elements origin = 1, unit = 1 (the counters). *)
From Matreex Require Import Model.IterMut Proofs.InterleavingWorld.

Section Machines.
Variable c : cfg.
Hypothesis Hwf : wf c.
Variables es al base bytes : Z.
Hypothesis Hes : 0 <= es.
Hypothesis Hal : 0 < al.
Variable cnt : Z.                           (* number of elements in the buffer *)
Hypothesis Hcnt : 0 < cnt <= umax c.
(* Vec's allocation invariants for element types that occupy memory *)
Hypothesis Halloc : 0 < es -> bytes = cnt * es /\ 0 < base /\ base + bytes <= umax c /\ bytes <= imax c.

Definition unit_ : Z := if es =? 0 then 1 else es.
Definition origin : Z := if es =? 0 then 1 else base.
Definition addr_of (i : Z) : Z := origin + i * unit_.

Lemma unit_pos : 0 < unit_.
Proof. unfold unit_. destruct (es =? 0) eqn:E; lia. Qed.
Lemma addr_of_inj i j : addr_of i = addr_of j -> i = j.
Proof. unfold addr_of. pose proof unit_pos as Hu. intros Heq. assert (i * unit_ = j * unit_) as E by lia. apply Z.mul_reg_r in E; lia. Qed.
Lemma addr_of_pos i : 0 <= i -> 0 < addr_of i.
Proof.
  unfold addr_of, origin, unit_. intros Hi. destruct (es =? 0) eqn:E; [lia|].
  destruct (Halloc ltac:(lia)) as (_ & Hb & _). nia.
Qed.

Lemma step_fwd_ok i n : 0 <= i -> 0 <= n -> i + n < cnt ->
  step_fwd c es base bytes (addr_of i) n = Val (addr_of (i + n)).
Proof.
  intros Hi Hn Hfit. unfold step_fwd, addr_of, origin, unit_. destruct (es =? 0) eqn:E.
  - rewrite uadd_val by lia. cbn [bind]. unfold nn_new_unchecked. assert (1 + i * 1 + n =? 0 = false) as -> by lia. f_equal. lia.
  - destruct (Halloc ltac:(lia)) as (Hb & Hb0 & Hb1 & Hb2). unfold nn_add.
    assert (0 <= (i + n) * es <= bytes) by nia.
    assert ((base <=? base + i * es + n * es) && (base + i * es + n * es <=? base + bytes) = true) as -> by lia.
    f_equal. lia.
Qed.
Lemma step_back_ok i n : 0 <= n <= i -> i < cnt ->
  step_back c es base bytes (addr_of i) n = Val (addr_of (i - n)).
Proof.
  intros Hn Hi. unfold step_back, addr_of, origin, unit_. destruct (es =? 0) eqn:E.
  - rewrite usub_val by lia. cbn [bind]. unfold nn_new_unchecked. assert (1 + i * 1 - n =? 0 = false) as -> by lia. f_equal. lia.
  - destruct (Halloc ltac:(lia)) as (Hb & Hb0 & Hb1 & Hb2). unfold nn_sub.
    assert (0 <= (i - n) * es <= bytes) by nia.
    assert ((base <=? base + i * es - n * es) && (base + i * es - n * es <=? base + bytes) = true) as -> by lia.
    f_equal. lia.
Qed.

(* ---------- one vector: elements v0, v0 + st, ..., v0 + (n-1) st ---------- *)
Section Vector.
Variables v0 st n : Z.
Hypothesis Hst : 0 < st.
Hypothesis Hn : 0 < n.
Hypothesis Hv0 : 0 <= v0.
Hypothesis Hfit : v0 + (n - 1) * st < cnt.
Hypothesis Hstc : st <= cnt.

Definition vat (j : Z) : Z := addr_of (v0 + j * st).
Definition RI (g : option (Z * Z)) (s : IterNth) : Prop :=
  match g with
  | None => n_stride s = None
  | Some (a, b) => 0 <= a <= b /\ b < n /\ n_stride s = Some st /\ n_lower s = vat a /\ n_upper s = vat b
  end.

Lemma vat_inj j k : vat j = vat k -> j = k.
Proof. unfold vat. intros H. apply addr_of_inj in H. nia. Qed.
Lemma idx_in j : 0 <= j < n -> 0 <= v0 + j * st < cnt.
Proof. intros Hj. split; [nia|]. assert (j * st <= (n - 1) * st) by nia. lia. Qed.

Lemma Nth_assemble_ok : exists s, Nth_assemble c es base bytes (addr_of v0) st n = Val s /\ RI (Some (0, n - 1)) s.
Proof.
  unfold Nth_assemble. rewrite usub_val by lia. cbn [bind]. assert (0 <= (n - 1) * st < cnt) by nia.
  rewrite umul_val by lia. cbn [bind]. rewrite step_fwd_ok by lia. cbn [bind].
  eexists. split; [reflexivity|]. cbn [RI n_lower n_upper n_stride]. unfold vat. repeat split; try lia; f_equal; lia.
Qed.

Lemma Nth_next_ok g s : RI g s ->
  match g with
  | None => Nth_next c es al base bytes s = Val (s, None)
  | Some (a, b) => exists s', Nth_next c es al base bytes s = Val (s', Some (if es =? 0 then al else vat a, vat a)) /\
                     RI (shrink_front (a, b)) s'
  end.
Proof.
  destruct g as [[a b]|]; cbn [RI]; intros H.
  - destruct H as (Hab & Hb & Hs & Hl & Hu). unfold Nth_next. rewrite Hs, Hl, Hu. unfold shrink_front.
    destruct (a =? b) eqn:E.
    + assert (a = b) by lia. subst b. rewrite Z.eqb_refl. eexists. split; [reflexivity|]. reflexivity.
    + assert (vat a =? vat b = false) as -> by (apply Z.eqb_neq; intros X; apply vat_inj in X; lia).
      unfold vat at 1. pose proof (idx_in a ltac:(lia)). pose proof (idx_in (a + 1) ltac:(lia)).
      rewrite step_fwd_ok by lia. cbn [bind]. eexists. split; [reflexivity|].
      cbn [RI n_lower n_upper n_stride]. unfold vat. repeat split; try lia; f_equal; lia.
  - unfold Nth_next. now rewrite H.
Qed.
Lemma Nth_next_back_ok g s : RI g s ->
  match g with
  | None => Nth_next_back c es al base bytes s = Val (s, None)
  | Some (a, b) => exists s', Nth_next_back c es al base bytes s = Val (s', Some (if es =? 0 then al else vat b, vat b)) /\
                     RI (shrink_back (a, b)) s'
  end.
Proof.
  destruct g as [[a b]|]; cbn [RI]; intros H.
  - destruct H as (Hab & Hb & Hs & Hl & Hu). unfold Nth_next_back. rewrite Hs, Hl, Hu. unfold shrink_back.
    destruct (a =? b) eqn:E.
    + assert (a = b) by lia. subst b. rewrite Z.eqb_refl. eexists. split; [reflexivity|]. reflexivity.
    + assert (vat a =? vat b = false) as -> by (apply Z.eqb_neq; intros X; apply vat_inj in X; lia).
      unfold vat at 1. pose proof (idx_in b ltac:(lia)). pose proof (idx_in (b - 1) ltac:(lia)).
      rewrite step_back_ok by nia. cbn [bind]. eexists. split; [reflexivity|].
      cbn [RI n_lower n_upper n_stride]. unfold vat. repeat split; try lia; f_equal; lia.
  - unfold Nth_next_back. now rewrite H.
Qed.

(* len() is exactly the number of items still to come *)
Lemma Nth_len_ok g s : RI g s ->
  Nth_len c es s = Val (match g with None => 0 | Some (a, b) => b - a + 1 end).
Proof.
  destruct g as [[a b]|]; cbn [RI]; intros H; [|unfold Nth_len; now rewrite H].
  destruct H as (Hab & Hb & Hs & Hl & Hu). unfold Nth_len. rewrite Hs, Hl, Hu.
  fold unit_. pose proof unit_pos as Hu0.
  assert (vat b - vat a = (b - a) * (st * unit_)) as Hd by (unfold vat, addr_of; ring).
  assert (0 < st * unit_) by nia. assert (0 <= (b - a) * (st * unit_)) by nia.
  rewrite usub_val by lia. cbn [bind].
  assert (st * unit_ <= umax c) as Hm.
  { unfold unit_. destruct (es =? 0) eqn:E; [lia|]. destruct (Halloc ltac:(lia)) as (Hb1 & _ & _ & Hb4). destruct Hwf. nia. }
  rewrite umul_val by lia. cbn [bind]. rewrite udiv_val by lia. cbn [bind].
  rewrite Hd, Z.div_mul by lia. assert (n - 1 <= (n - 1) * st) by nia. rewrite uadd_val by lia. f_equal. lia.
Qed.
End Vector.

(* ---------- the outer iterator: vectors 0..N, vector v starts at element v * ast ---------- *)
Section Outer.
Variables N n ast vst : Z.                 (* number of vectors, their length, axis stride, vector stride *)
Hypothesis HN : 0 < N.
Hypothesis Hn : 0 < n.
Hypothesis Hast : 0 < ast.
Hypothesis Hvst : 0 < vst.
Hypothesis Hfit : (N - 1) * ast + (n - 1) * vst < cnt.
Hypothesis Hvstc : vst <= cnt.
Hypothesis Hastc : ast <= cnt.

Definition lay : Layout := mkLayout ast vst n.
Definition RO (g : option (Z * Z)) (s : IterVecs) : Prop :=
  match g with
  | None => v_layout s = None
  | Some (A, B) => 0 <= A <= B /\ B < N /\ v_layout s = Some lay /\ v_lower s = addr_of (A * ast) /\ v_upper s = addr_of (B * ast)
  end.

Lemma vec_fit v : 0 <= v < N -> 0 <= v * ast /\ v * ast + (n - 1) * vst < cnt.
Proof. intros Hv. split; [nia|]. assert (v * ast <= (N - 1) * ast) by nia. lia. Qed.

Lemma Vecs_assemble_ok : exists s, Vecs_assemble c es base bytes base ast N vst n = Val s /\ RO (Some (0, N - 1)) s.
Proof.
  unfold Vecs_assemble.
  assert ((if es =? 0 then nn_new_unchecked 1 else Val base) = Val (addr_of 0)) as ->.
  { unfold addr_of, origin. destruct (es =? 0); [reflexivity|f_equal; lia]. }
  cbn [bind]. rewrite usub_val by lia. cbn [bind]. assert (0 <= ast * (N - 1) < cnt) by nia.
  rewrite umul_val by lia. cbn [bind]. rewrite step_fwd_ok by lia. cbn [bind].
  eexists. split; [reflexivity|]. cbn [RO v_lower v_upper v_layout]. repeat split; try lia; f_equal; lia.
Qed.

Lemma Vecs_next_ok g s : RO g s ->
  match g with
  | None => Vecs_next c es base bytes s = Val (s, None)
  | Some (A, B) => exists s' i, Vecs_next c es base bytes s = Val (s', Some i) /\ RO (shrink_front (A, B)) s' /\
                     RI (A * ast) vst n (Some (0, n - 1)) i
  end.
Proof.
  destruct g as [[A B]|]; cbn [RO]; intros H; [|unfold Vecs_next; now rewrite H].
  destruct H as (HAB & HB & Hl & Hlo & Hup). unfold Vecs_next. rewrite Hl, Hlo, Hup. cbn [vector_stride vector_length axis_stride lay].
  destruct (vec_fit A ltac:(lia)) as [F1 F2].
  destruct (Nth_assemble_ok (A * ast) vst n Hvst Hn F1 F2) as (i & Ei & Hi). rewrite Ei. cbn [bind]. unfold shrink_front.
  destruct (A =? B) eqn:E.
  - assert (A = B) by lia. subst B. rewrite Z.eqb_refl. eexists _, i. split; [reflexivity|]. split; [reflexivity|exact Hi].
  - assert (addr_of (A * ast) =? addr_of (B * ast) = false) as -> by (apply Z.eqb_neq; intros X; apply addr_of_inj in X; nia).
    destruct (vec_fit (A + 1) ltac:(lia)) as [G1 G2].
    rewrite step_fwd_ok by nia. cbn [bind]. eexists _, i. split; [reflexivity|]. split; [|exact Hi].
    cbn [RO v_lower v_upper v_layout]. repeat split; try lia; f_equal; lia.
Qed.
Lemma Vecs_next_back_ok g s : RO g s ->
  match g with
  | None => Vecs_next_back c es base bytes s = Val (s, None)
  | Some (A, B) => exists s' i, Vecs_next_back c es base bytes s = Val (s', Some i) /\ RO (shrink_back (A, B)) s' /\
                     RI (B * ast) vst n (Some (0, n - 1)) i
  end.
Proof.
  destruct g as [[A B]|]; cbn [RO]; intros H; [|unfold Vecs_next_back; now rewrite H].
  destruct H as (HAB & HB & Hl & Hlo & Hup). unfold Vecs_next_back. rewrite Hl, Hlo, Hup. cbn [vector_stride vector_length axis_stride lay].
  destruct (vec_fit B ltac:(lia)) as [F1 F2].
  destruct (Nth_assemble_ok (B * ast) vst n Hvst Hn F1 F2) as (i & Ei & Hi). rewrite Ei. cbn [bind]. unfold shrink_back.
  destruct (A =? B) eqn:E.
  - assert (A = B) by lia. subst B. rewrite Z.eqb_refl. eexists _, i. split; [reflexivity|]. split; [reflexivity|exact Hi].
  - assert (addr_of (A * ast) =? addr_of (B * ast) = false) as -> by (apply Z.eqb_neq; intros X; apply addr_of_inj in X; nia).
    destruct (vec_fit (B - 1) ltac:(lia)) as [G1 G2].
    rewrite step_back_ok by nia. cbn [bind]. eexists _, i. split; [reflexivity|]. split; [|exact Hi].
    cbn [RO v_lower v_upper v_layout]. repeat split; try lia; f_equal; lia.
Qed.
Lemma Vecs_len_ok g s : RO g s ->
  Vecs_len c es s = Val (match g with None => 0 | Some (A, B) => B - A + 1 end).
Proof.
  destruct g as [[A B]|]; cbn [RO]; intros H; [|unfold Vecs_len; now rewrite H].
  destruct H as (HAB & HB & Hl & Hlo & Hup). unfold Vecs_len. rewrite Hl, Hlo, Hup. cbn [axis_stride lay].
  fold unit_. pose proof unit_pos as Hu0.
  assert (addr_of (B * ast) - addr_of (A * ast) = (B - A) * (ast * unit_)) as Hd by (unfold addr_of; ring).
  assert (0 < ast * unit_) by nia. assert (0 <= (B - A) * (ast * unit_)) by nia.
  rewrite usub_val by lia. cbn [bind].
  assert (ast * unit_ <= umax c) as Hm.
  { unfold unit_. destruct (es =? 0) eqn:E; [lia|]. destruct (Halloc ltac:(lia)) as (Hb1 & _ & _ & Hb4). destruct Hwf. nia. }
  rewrite umul_val by lia. cbn [bind]. rewrite udiv_val by lia. cbn [bind].
  rewrite Hd, Z.div_mul by lia. assert (N - 1 <= (N - 1) * ast) by nia. assert (0 <= (n - 1) * vst) by nia. rewrite uadd_val by lia. f_equal. lia.
Qed.
End Outer.
End Machines.

(* ---------- every program of next / next_back calls on the outer iterator and on the inner iterators it has produced ---------- *)
Section World.
Variable c : cfg.
Hypothesis Hwf : wf c.
Variables es al base bytes : Z.
Hypothesis Hes : 0 <= es.
Hypothesis Hal : 0 < al.
Variable cnt : Z.
Hypothesis Hcnt : 0 < cnt <= umax c.
Hypothesis Halloc : 0 < es -> bytes = cnt * es /\ 0 < base /\ base + bytes <= umax c /\ bytes <= imax c.
Variables N n ast vst : Z.
Hypothesis HN : 0 < N.
Hypothesis Hn : 0 < n.
Hypothesis Hast : 0 < ast.
Hypothesis Hvst : 0 < vst.
Hypothesis Hfit : (N - 1) * ast + (n - 1) * vst < cnt.
Hypothesis Hvstc : vst <= cnt.
Hypothesis Hastc : ast <= cnt.
(* the layout assigns every (vector, position) its own element *)
Hypothesis Hlay : forall v j v' j', 0 <= v < N -> 0 <= j < n -> 0 <= v' < N -> 0 <= j' < n ->
  v * ast + j * vst = v' * ast + j' * vst -> v = v' /\ j = j'.

Definition pos_id (v j : Z) : Z := addr_of es base (v * ast + j * vst).
Definition onext := Vecs_next c es base bytes.
Definition onext_back := Vecs_next_back c es base bytes.
(* the identity of the position a handed-out reference stands for (its address; for zero-sized elements the counter) *)
Definition inext (i : IterNth) : res (IterNth * option Z) :=
  let* r := Nth_next c es al base bytes i in Val (fst r, option_map snd (snd r)).
Definition inext_back (i : IterNth) : res (IterNth * option Z) :=
  let* r := Nth_next_back c es al base bytes i in Val (fst r, option_map snd (snd r)).
Definition WRO := RO es base N n ast vst.
(* an inner iterator always belongs to one of the N vectors *)
Definition WRI (v : Z) (g : option (Z * Z)) (i : IterNth) : Prop := 0 <= v < N /\ RI es base (v * ast) vst n g i.
Definition WInv := Inv IterVecs IterNth N n pos_id WRO WRI.

Lemma pos_id_inj v j v' j' : 0 <= v < N -> 0 <= j < n -> 0 <= v' < N -> 0 <= j' < n -> pos_id v j = pos_id v' j' -> v = v' /\ j = j'.
Proof. intros H1 H2 H3 H4 E. apply (addr_of_inj es base Hes) in E. auto. Qed.

Lemma vec_ok v : 0 <= v < N -> 0 <= v * ast /\ v * ast + (n - 1) * vst < cnt.
Proof. intros Hv. split; [nia|]. assert (v * ast <= (N - 1) * ast) by nia. lia. Qed.

Lemma onext_spec g o : WRO g o ->
  match g with
  | Some (A, B) => exists o' i, onext o = Val (o', Some i) /\ WRO (shrink_front (A, B)) o' /\ WRI A (Some (0, n - 1)) i
  | None => onext o = Val (o, None)
  end.
Proof.
  intros H. pose proof (Vecs_next_ok c es base bytes Hes cnt Hcnt Halloc N n ast vst HN Hn Hast Hvst Hfit Hvstc Hastc g o H) as S.
  destruct g as [[A B]|]; [|exact S]. destruct S as (o' & i & E & R1 & R2). exists o', i. split; [exact E|]. split; [exact R1|].
  split; [|exact R2]. destruct H as (H1 & H2 & _). lia.
Qed.
Lemma onext_back_spec g o : WRO g o ->
  match g with
  | Some (A, B) => exists o' i, onext_back o = Val (o', Some i) /\ WRO (shrink_back (A, B)) o' /\ WRI B (Some (0, n - 1)) i
  | None => onext_back o = Val (o, None)
  end.
Proof.
  intros H. pose proof (Vecs_next_back_ok c es base bytes Hes cnt Hcnt Halloc N n ast vst HN Hn Hast Hvst Hfit Hvstc Hastc g o H) as S.
  destruct g as [[A B]|]; [|exact S]. destruct S as (o' & i & E & R1 & R2). exists o', i. split; [exact E|]. split; [exact R1|].
  split; [|exact R2]. destruct H as (H1 & H2 & _). lia.
Qed.
Lemma inext_spec v g i : WRI v g i ->
  match g with
  | Some (a, b) => exists i', inext i = Val (i', Some (pos_id v a)) /\ WRI v (shrink_front (a, b)) i'
  | None => inext i = Val (i, None)
  end.
Proof.
  intros [Hv H]. destruct (vec_ok v Hv) as [F1 F2].
  pose proof (Nth_next_ok c es al base bytes Hes cnt Hcnt Halloc (v * ast) vst n Hvst F1 F2 g i H) as S.
  unfold inext. destruct g as [[a b]|].
  - destruct S as (i' & E & R'). rewrite E. cbn [bind fst snd option_map]. exists i'. split; [reflexivity|split; [exact Hv|exact R']].
  - rewrite S. reflexivity.
Qed.
Lemma inext_back_spec v g i : WRI v g i ->
  match g with
  | Some (a, b) => exists i', inext_back i = Val (i', Some (pos_id v b)) /\ WRI v (shrink_back (a, b)) i'
  | None => inext_back i = Val (i, None)
  end.
Proof.
  intros [Hv H]. destruct (vec_ok v Hv) as [F1 F2].
  pose proof (Nth_next_back_ok c es al base bytes Hes cnt Halloc (v * ast) vst n Hvst F1 F2 g i H) as S.
  unfold inext_back. destruct g as [[a b]|].
  - destruct S as (i' & E & R'). rewrite E. cbn [bind fst snd option_map]. exists i'. split; [reflexivity|split; [exact Hv|exact R']].
  - rewrite S. reflexivity.
Qed.

Definition wrun := run IterVecs IterNth onext onext_back inext inext_back.

(* the iterator as IterVectorsMut::assemble builds it, with no inner iterators yet *)
Theorem world_init : exists o0, Vecs_assemble c es base bytes base ast N vst n = Val o0 /\
  WInv {| outer := o0; inners := []; yielded := [] |} {| go := Some (0, N - 1); gis := []; ypos := [] |}.
Proof.
  destruct (Vecs_assemble_ok c es base bytes Hes cnt Hcnt Halloc N n ast vst HN Hn Hast Hvst Hfit) as (o0 & E & R0).
  exists o0. split; [exact E|]. apply Inv_init; [exact HN|exact R0].
Qed.

(* no program of calls ever hits UB or a panic, and the ghost invariant holds afterwards *)
Theorem world_run cs w gw : WInv w gw -> exists w' gw', wrun cs w = Val w' /\ WInv w' gw'.
Proof. intros I. exact (run_inv IterVecs IterNth onext onext_back inext inext_back N n Hn pos_id WRO WRI onext_spec onext_back_spec inext_spec inext_back_spec cs w gw I). Qed.

(* each element is handed out at most once ... *)
Theorem world_nodup w gw : WInv w gw -> NoDup (yielded IterVecs IterNth w).
Proof. exact (yielded_nodup IterVecs IterNth N n pos_id pos_id_inj WRO WRI w gw). Qed.
(* ... and exactly once when everything is exhausted *)
Theorem world_exhausted w gw : WInv w gw -> go gw = None -> (forall v g, In (v, g) (gis gw) -> g = None) ->
  forall v j, 0 <= v < N -> 0 <= j < n -> In (pos_id v j) (yielded IterVecs IterNth w).
Proof. exact (exhausted_all IterVecs IterNth N n pos_id WRO WRI w gw). Qed.

(* len() of the outer iterator and of every inner iterator is the number of items still to come, in every reachable state *)
Theorem world_len w gw : WInv w gw ->
  Vecs_len c es (outer IterVecs IterNth w) = Val (match go gw with Some (A, B) => B - A + 1 | None => 0 end) /\
  Forall2 (fun vg i => Nth_len c es i = Val (match snd vg with Some (a, b) => b - a + 1 | None => 0 end)) (gis gw) (inners IterVecs IterNth w).
Proof.
  intros I. split.
  - exact (Vecs_len_ok c Hwf es base bytes Hes cnt Hcnt Halloc N n ast vst HN Hn Hast Hvst Hfit Hvstc Hastc _ _ (i_out _ _ _ _ _ _ _ _ _ I)).
  - pose proof (i_inn _ _ _ _ _ _ _ _ _ I) as F. induction F as [|[v g] i l1 l2 [Hv HR] F IH]; constructor; auto.
    cbn [fst snd] in *. destruct (vec_ok v Hv) as [F1 F2].
    exact (Nth_len_ok c Hwf es base bytes Hes cnt Hcnt Halloc (v * ast) vst n Hvst Hn F1 F2 Hvstc g i HR).
Qed.

(* every handed-out position is the address of an element of the buffer (for zero-sized elements: a counter in 1..=cnt,
   never null, never wrapped) *)
Theorem pos_id_on_element v j : 0 <= v < N -> 0 <= j < n ->
  exists idx, 0 <= idx < cnt /\ pos_id v j = addr_of es base idx /\
    (es = 0 -> pos_id v j = 1 + idx /\ 1 <= pos_id v j <= umax c) /\
    (0 < es -> pos_id v j = base + idx * es /\ base <= pos_id v j /\ pos_id v j + es <= base + bytes).
Proof.
  intros Hv Hj. exists (v * ast + j * vst).
  assert (0 <= v * ast + j * vst < cnt) as Hidx.
  { destruct (vec_ok v Hv). split; [nia|]. assert (j * vst <= (n - 1) * vst) by nia. lia. }
  split; [exact Hidx|]. split; [reflexivity|]. unfold pos_id, addr_of, origin, unit_. split.
  - intros E0. subst es. cbn [Z.eqb]. split; lia.
  - intros Hpos. assert (es =? 0 = false) as -> by lia. destruct (Halloc Hpos) as (Hb & Hb0 & Hb1 & Hb2). repeat split; nia.
Qed.
End World.

(* ---------- the public entry points: iter_rows_mut / iter_cols_mut of a coherent M x m buffer (major M, minor m) build
   exactly the machine the theorems above are about, in one of the two layouts ---------- *)
Section Entry.
Variable c : cfg.
Hypothesis Hwf : wf c.
Variables es al base bytes : Z.
Hypothesis Hes : 0 <= es.
Hypothesis Hal : 0 < al.
Variables M m : Z.
Hypothesis HM : 0 < M.
Hypothesis Hm : 0 < m.
Hypothesis Hcnt : M * m <= umax c.
Hypothesis Hbase : 0 < base.                 (* Vec::as_mut_ptr() is never null *)
Hypothesis Halloc : 0 < es -> bytes = (M * m) * es /\ 0 < base /\ base + bytes <= umax c /\ bytes <= imax c.

Lemma nz_pos a : 0 < a -> nz_new_unchecked a = Val a.
Proof. intros H. unfold nz_new_unchecked. assert (a =? 0 = false) as -> by lia. reflexivity. Qed.

Lemma over_major_eq : Vecs_over_major_axis c es al base bytes (M * m) (mkAxisShape M m) = Vecs_assemble c es base bytes base m M 1 m.
Proof.
  unfold Vecs_over_major_axis, AxisShape_major_stride, AxisShape_minor_stride, nn_new_unchecked. cbn [major minor].
  assert (M * m =? 0 = false) as -> by nia. assert (base =? 0 = false) as -> by lia. cbn [bind].
  rewrite !nz_pos by lia. reflexivity.
Qed.
Lemma over_minor_eq : Vecs_over_minor_axis c es al base bytes (M * m) (mkAxisShape M m) = Vecs_assemble c es base bytes base 1 m m M.
Proof.
  unfold Vecs_over_minor_axis, AxisShape_major_stride, AxisShape_minor_stride, nn_new_unchecked. cbn [major minor].
  assert (M * m =? 0 = false) as -> by nia. assert (base =? 0 = false) as -> by lia. cbn [bind].
  rewrite !nz_pos by lia. reflexivity.
Qed.

Lemma cnt_bounds : 0 < M * m <= umax c.
Proof. split; [nia|exact Hcnt]. Qed.

(* over the major axis: M vectors of m elements, axis stride m, vector stride 1 *)
Theorem entry_major_init : exists o0, Vecs_over_major_axis c es al base bytes (M * m) (mkAxisShape M m) = Val o0 /\
  WInv es base M m m 1 {| outer := o0; inners := []; yielded := [] |} {| go := Some (0, M - 1); gis := []; ypos := [] |}.
Proof.
  rewrite over_major_eq. eapply (world_init c es base bytes Hes (M * m) cnt_bounds Halloc M m m 1); try lia; nia.
Qed.
(* over the minor axis: m vectors of M elements, axis stride 1, vector stride m *)
Theorem entry_minor_init : exists o0, Vecs_over_minor_axis c es al base bytes (M * m) (mkAxisShape M m) = Val o0 /\
  WInv es base m M 1 m {| outer := o0; inners := []; yielded := [] |} {| go := Some (0, m - 1); gis := []; ypos := [] |}.
Proof.
  rewrite over_minor_eq. eapply (world_init c es base bytes Hes (M * m) cnt_bounds Halloc m M 1 m); try lia; nia.
Qed.
End Entry.

(* a matrix without elements: the detached empty iterator; every call returns None, nothing is ever handed out *)
Lemma entry_elementless c es al base bytes sh :
  Vecs_over_major_axis c es al base bytes 0 sh = Val (Vecs_empty al) /\ Vecs_over_minor_axis c es al base bytes 0 sh = Val (Vecs_empty al) /\
  Vecs_next c es base bytes (Vecs_empty al) = Val (Vecs_empty al, None) /\
  Vecs_next_back c es base bytes (Vecs_empty al) = Val (Vecs_empty al, None) /\
  Vecs_len c es (Vecs_empty al) = Val 0.
Proof. repeat split; reflexivity. Qed.
