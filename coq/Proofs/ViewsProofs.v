(* C06: the row / column views of src/iter.rs present the logical matrix. *)
From Matreex Require Import Model.Ops Model.Views Proofs.ListFacts Proofs.SliceFacts Proofs.IndexProofs.

Section ViewsProofs.
Context {A : Type}.
Variable c : cfg.
Variable es : Z.
Implicit Types m : matrix A.

(* the k-th vector along the major axis: the contiguous run k*minor .. k*minor+minor *)
Lemma major_vector_spec m k : Coh c es m -> 0 <= k < mmajor m ->
  exists v, iter_nth_major_axis_vector_unchecked c m k = Val v /\ zlen v = mminor m /\
    forall t, 0 <= t < mminor m -> znth_opt t v = znth_opt (k * mminor m + t) (m_data m).
Proof.
  intros (H1 & H2 & H3 & H4 & _) Hk. unfold iter_nth_major_axis_vector_unchecked, AxisShape_major_stride, AxisShape_minor_stride.
  fold (mminor m). unfold size in *. rewrite umul_val by nia. cbn [bind].
  destruct (zview_exact (m_data m) (k * mminor m) 1 (mminor m)) as (v & E & Hl & Hn); [nia|lia|lia| |].
  { destruct (Z.eq_dec (mminor m) 0); [left; assumption|right]. split; nia. }
  exists v. split; [exact E|]. split; [exact Hl|]. intros t Ht. rewrite Hn by lia. f_equal. lia.
Qed.

(* the k-th vector along the minor axis: the strided elements k, k+minor, ... *)
Lemma minor_vector_spec m k : Coh c es m -> 0 <= k < mminor m ->
  exists v, iter_nth_minor_axis_vector_unchecked c m k = Val v /\ zlen v = mmajor m /\
    forall t, 0 <= t < mmajor m -> znth_opt t v = znth_opt (t * mminor m + k) (m_data m).
Proof.
  intros (H1 & H2 & H3 & H4 & _) Hk. unfold iter_nth_minor_axis_vector_unchecked, AxisShape_major_stride, AxisShape_minor_stride.
  fold (mminor m) (mmajor m). unfold size in *. rewrite umul_val by nia. cbn [bind]. rewrite Z.mul_1_r.
  destruct (zview_exact (m_data m) k (mminor m) (mmajor m)) as (v & E & Hl & Hn); [lia|lia|lia| |].
  { destruct (Z.eq_dec (mmajor m) 0); [left; assumption|right]. split; nia. }
  exists v. split; [exact E|]. split; [exact Hl|]. intros t Ht. rewrite Hn by lia. f_equal. lia.
Qed.

(* the k-th row view yields exactly the elements (k, 0..ncols) in order; never panics (step_by(0) is unreachable) *)
Theorem row_view_spec m k : Coh c es m -> 0 <= k < nrows m ->
  exists v, row_view c m k = Val v /\ zlen v = ncols m /\ forall cl, 0 <= cl < ncols m -> znth_opt cl v = at_ m k cl.
Proof.
  intros HC Hk. unfold row_view, nrows, ncols, at_, flat in *.
  destruct (m_order m); cbn [AxisShape_nrows AxisShape_ncols] in *; fold (mmajor m) (mminor m) in *.
  - exact (major_vector_spec m k HC Hk).
  - exact (minor_vector_spec m k HC Hk).
Qed.
Theorem col_view_spec m k : Coh c es m -> 0 <= k < ncols m ->
  exists v, col_view c m k = Val v /\ zlen v = nrows m /\ forall r, 0 <= r < nrows m -> znth_opt r v = at_ m r k.
Proof.
  intros HC Hk. unfold col_view, nrows, ncols, at_, flat in *.
  destruct (m_order m); cbn [AxisShape_nrows AxisShape_ncols] in *; fold (mmajor m) (mminor m) in *.
  - exact (minor_vector_spec m k HC Hk).
  - exact (major_vector_spec m k HC Hk).
Qed.

(* the nth variants: IndexOutOfBounds exactly when n is not a row / column number, for every usize n *)
Theorem iter_nth_row_spec m n : Coh c es m -> 0 <= n ->
  if n <? nrows m then exists v, iter_nth_row c m n = Val (Ok v) /\ zlen v = ncols m /\ forall cl, 0 <= cl < ncols m -> znth_opt cl v = at_ m n cl
  else iter_nth_row c m n = Val (Err IndexOutOfBounds).
Proof.
  intros HC Hn. destruct (n <? nrows m) eqn:E.
  - destruct (row_view_spec m n HC ltac:(lia)) as (v & Ev & Hl & Hv). exists v. split; [|auto].
    unfold iter_nth_row, row_view, iter_nth_major_axis_vector, iter_nth_minor_axis_vector, nrows in *.
    destruct (m_order m); cbn [AxisShape_nrows] in *; fold (mmajor m) (mminor m) in *.
    + assert (n >=? mmajor m = false) as -> by lia. rewrite Ev. reflexivity.
    + assert (n >=? mminor m = false) as -> by lia. rewrite Ev. reflexivity.
  - unfold iter_nth_row, iter_nth_major_axis_vector, iter_nth_minor_axis_vector, nrows in *.
    destruct (m_order m); cbn [AxisShape_nrows] in *; fold (mmajor m) (mminor m) in *.
    + assert (n >=? mmajor m = true) as -> by lia. reflexivity.
    + assert (n >=? mminor m = true) as -> by lia. reflexivity.
Qed.
Theorem iter_nth_col_spec m n : Coh c es m -> 0 <= n ->
  if n <? ncols m then exists v, iter_nth_col c m n = Val (Ok v) /\ zlen v = nrows m /\ forall r, 0 <= r < nrows m -> znth_opt r v = at_ m r n
  else iter_nth_col c m n = Val (Err IndexOutOfBounds).
Proof.
  intros HC Hn. destruct (n <? ncols m) eqn:E.
  - destruct (col_view_spec m n HC ltac:(lia)) as (v & Ev & Hl & Hv). exists v. split; [|auto].
    unfold iter_nth_col, col_view, iter_nth_major_axis_vector, iter_nth_minor_axis_vector, ncols in *.
    destruct (m_order m); cbn [AxisShape_ncols] in *; fold (mmajor m) (mminor m) in *.
    + assert (n >=? mminor m = false) as -> by lia. rewrite Ev. reflexivity.
    + assert (n >=? mmajor m = false) as -> by lia. rewrite Ev. reflexivity.
  - unfold iter_nth_col, iter_nth_major_axis_vector, iter_nth_minor_axis_vector, ncols in *.
    destruct (m_order m); cbn [AxisShape_ncols] in *; fold (mmajor m) (mminor m) in *.
    + assert (n >=? mminor m = true) as -> by lia. reflexivity.
    + assert (n >=? mmajor m = true) as -> by lia. reflexivity.
Qed.
End ViewsProofs.

(* ---------- the mutable outer iterators at the level of element offsets ---------- *)
Section MutViews.
Variable c : cfg.
Variable es : Z.
Implicit Types m : matrix expr.

Lemma zlen_map_zseq {B} (f : Z -> B) n : 0 <= n -> zlen (map f (zseq n)) = n.
Proof. intros H. unfold zlen. rewrite map_length, zseq_length. lia. Qed.
Lemma znth_map_zseq {B} (f : Z -> B) n k : 0 <= k < n -> znth_opt k (map f (zseq n)) = Some (f k).
Proof. intros H. rewrite znth_opt_map, zseq_nth by lia. reflexivity. Qed.

(* when the matrix has elements, iter_rows_mut hands out nrows vectors, and the cl-th item of the k-th vector is the
   position of logical (k, cl) *)
Theorem rows_mut_spec m : Coh c es m -> size m > 0 ->
  zlen (rows_mut_positions m) = nrows m /\
  forall k cl, 0 <= k < nrows m -> 0 <= cl < ncols m ->
    exists v, znth_opt k (rows_mut_positions m) = Some v /\ zlen v = ncols m /\ znth_opt cl v = Some (flat m k cl).
Proof.
  intros (H1 & H2 & H3 & H4 & _) Hs. unfold rows_mut_positions, over_major_axis, over_minor_axis, is_empty, vectors_mut, nrows, ncols, flat.
  assert (size m =? 0 = false) as -> by lia. unfold AxisShape_major_stride, AxisShape_minor_stride. fold (mminor m) (mmajor m).
  destruct (m_order m); cbn [AxisShape_nrows AxisShape_ncols]; fold (mminor m) (mmajor m).
  - split; [apply zlen_map_zseq; lia|]. intros k cl Hk Hcl. eexists. split; [apply znth_map_zseq; lia|].
    split; [apply zlen_map_zseq; lia|]. rewrite znth_map_zseq by lia. f_equal. lia.
  - split; [apply zlen_map_zseq; lia|]. intros k cl Hk Hcl. eexists. split; [apply znth_map_zseq; lia|].
    split; [apply zlen_map_zseq; lia|]. rewrite znth_map_zseq by lia. f_equal. lia.
Qed.
Theorem cols_mut_spec m : Coh c es m -> size m > 0 ->
  zlen (cols_mut_positions m) = ncols m /\
  forall k r, 0 <= k < ncols m -> 0 <= r < nrows m ->
    exists v, znth_opt k (cols_mut_positions m) = Some v /\ zlen v = nrows m /\ znth_opt r v = Some (flat m r k).
Proof.
  intros (H1 & H2 & H3 & H4 & _) Hs. unfold cols_mut_positions, over_major_axis, over_minor_axis, is_empty, vectors_mut, nrows, ncols, flat.
  assert (size m =? 0 = false) as -> by lia. unfold AxisShape_major_stride, AxisShape_minor_stride. fold (mminor m) (mmajor m).
  destruct (m_order m); cbn [AxisShape_nrows AxisShape_ncols]; fold (mminor m) (mmajor m).
  - split; [apply zlen_map_zseq; lia|]. intros k r Hk Hr. eexists. split; [apply znth_map_zseq; lia|].
    split; [apply zlen_map_zseq; lia|]. rewrite znth_map_zseq by lia. f_equal. lia.
  - split; [apply zlen_map_zseq; lia|]. intros k r Hk Hr. eexists. split; [apply znth_map_zseq; lia|].
    split; [apply zlen_map_zseq; lia|]. rewrite znth_map_zseq by lia. f_equal. lia.
Qed.
End MutViews.
