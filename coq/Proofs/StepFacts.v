(* Facts about the history machine that hold by its construction: a fallible in-place operation that
   reports an error (or the documented operator panic) leaves the pool exactly as it was. *)
From Matreex Require Import Model.Step.

Definition is_failure (ob : obs) : bool :=
  match ob with
  | OErr _ => true
  | OPanic (PanicErr _) => true
  | OList (OErr _ :: _) => true
  | OList (OPanic (PanicErr _) :: _) => true
  | _ => false
  end.

(* the fallible operations that work on their receiver in place and consume nothing *)
Definition inplace_fallible (o : op) : bool :=
  match o with
  | Reshape _ _ _ | Resize _ _ _ | SwapRows _ _ _ | SwapCols _ _ _ | Swap _ _ _
  | SetAt _ _ _ | SetIndexMut _ _ _ | EwAssign _ _ _ => true
  | EwNamed _ variant _ _ _ => variant =? 2
  | OpEwAssign _ form _ _ => form =? 1
  | _ => false
  end.

Lemma store_failure p d r : is_failure (snd (store p d r)) = true -> fst (store p d r) = p.
Proof. unfold store. destruct r as [[m|e]|w|w]; cbn; auto; discriminate. Qed.
Lemma store_op_failure p d r : is_failure (snd (store_op p d r)) = true -> fst (store_op p d r) = p.
Proof. unfold store_op, store. destruct r as [[m|e]|w|w]; cbn; auto; discriminate. Qed.

Ltac pool_cases :=
  repeat match goal with
         | |- context [match slot ?p ?s with _ => _ end] => destruct (slot p s)
         | |- context [if ?b then _ else _] => destruct b
         | |- context [let '(_, _) := ?x in _] => destruct x
         | |- context [match ?r with Val _ => _ | Panic _ => _ | UB _ => _ end] => destruct r
         | |- context [match ?r with Ok _ => _ | Err _ => _ end] => destruct r
         end.

Theorem step_failed_unchanged c es p o :
  inplace_fallible o = true -> is_failure (snd (step c es p o)) = true -> fst (step c es p o) = p.
Proof.
  destruct o; cbn [inplace_fallible]; try discriminate; intros Hin; unfold step.
  - (* Reshape *) destruct (slot p s); cbn; auto. apply store_failure.
  - (* Resize *) destruct (slot p s); cbn; auto. apply store_failure.
  - (* SetAt *) destruct (slot p s); cbn; auto. destruct (locate c m i) as [r calls]. destruct r as [[q|e]|w|w]; cbn; auto; discriminate.
  - (* SetIndexMut *) destruct (slot p s); cbn; auto. destruct (locate c m i) as [r calls]. destruct r as [[q|e]|w|w]; cbn; auto; discriminate.
  - (* Swap *) destruct (slot p s); cbn; auto. destruct (locate c m i) as [ri ci].
    destruct ri as [[q1|e]|w|w]; cbn; auto.
    destruct (locate c m j) as [rj cj]. destruct rj as [[q2|e]|w|w]; cbn; auto.
    destruct (swap_at m q1 q2); cbn; auto; discriminate.
  - (* SwapRows *) destruct (slot p s); cbn; auto. apply store_failure.
  - (* SwapCols *) destruct (slot p s); cbn; auto. apply store_failure.
  - (* EwAssign *) destruct (a =? b); cbn; auto. destruct (slot p a), (slot p b); cbn; auto. apply store_failure.
  - (* EwNamed, assign variant *)
    assert (variant =? 0 = false) as -> by lia. assert (variant =? 1 = false) as -> by lia.
    destruct (a =? b); cbn; auto. destruct (slot p a), (slot p b); cbn; auto. apply store_failure.
  - (* OpEwAssign, borrowed right operand *)
    destruct (a =? b); cbn; auto. destruct (slot p a), (slot p b); cbn; auto.
    assert (form =? 0 = false) as -> by lia. apply store_op_failure.
Qed.
