(* C07: storage order is transparent.  Two matrices with the same logical grid (same shape, the same element at every
   logical position) - whatever their storage orders - are taken by the operations to results with the same logical grid.
   Each statement is a corollary of the operation's specification, which speaks about logical positions only. *)
From Matreex Require Import Model.Ops Proofs.ListFacts Proofs.SliceFacts Proofs.IndexProofs Proofs.OrderOps Proofs.Swap
  Proofs.Overwrite Proofs.Elementwise Proofs.Multiply.

Definition grid_eq {A} (m1 m2 : matrix A) : Prop :=
  nrows m1 = nrows m2 /\ ncols m1 = ncols m2 /\
  forall r cl, 0 <= r < nrows m1 -> 0 <= cl < ncols m1 -> at_ m1 r cl = at_ m2 r cl.

Section Transparency.
Context {A : Type}.
Variable c : cfg.
Variable es : Z.
Implicit Types m : matrix A.

Lemma nrows_of_shape m m' : m_order m' = m_order m -> m_shape m' = m_shape m -> nrows m' = nrows m /\ ncols m' = ncols m.
Proof. unfold nrows, ncols. intros -> ->. auto. Qed.

Theorem transpose_transparent m1 m2 : Coh c es m1 -> Coh c es m2 -> 0 < es -> grid_eq m1 m2 ->
  exists t1 t2, transpose c es m1 = Val t1 /\ transpose c es m2 = Val t2 /\ grid_eq t1 t2.
Proof.
  intros H1 H2 Hes (Hr & Hc & Hat).
  destruct (transpose_logical c es m1 H1 Hes) as (t1 & E1 & _ & _ & R1 & C1 & _ & A1).
  destruct (transpose_logical c es m2 H2 Hes) as (t2 & E2 & _ & _ & R2 & C2 & _ & A2).
  exists t1, t2. repeat split; auto; try congruence.
  intros r cl Hrr Hcc. rewrite A1, A2 by lia. apply Hat; lia.
Qed.

Theorem switch_order_transparent m1 m2 : Coh c es m1 -> Coh c es m2 -> 0 < es -> grid_eq m1 m2 ->
  exists t1 t2, switch_order c es m1 = Val t1 /\ switch_order c es m2 = Val t2 /\ grid_eq t1 t2 /\ grid_eq m1 t1.
Proof.
  intros H1 H2 Hes (Hr & Hc & Hat).
  destruct (switch_order_logical c es m1 H1 Hes) as (t1 & E1 & _ & _ & R1 & C1 & A1).
  destruct (switch_order_logical c es m2 H2 Hes) as (t2 & E2 & _ & _ & R2 & C2 & A2).
  exists t1, t2. repeat split; auto; try congruence.
  - intros r cl Hrr Hcc. rewrite A1, A2 by lia. apply Hat; lia.
  - intros r cl Hrr Hcc. symmetry. apply A1; lia.
Qed.

Theorem swap_rows_transparent m1 m2 a b : Coh c es m1 -> Coh c es m2 -> 0 <= a < nrows m1 -> 0 <= b < nrows m1 -> grid_eq m1 m2 ->
  exists t1 t2, swap_rows c m1 a b = Val (Ok t1) /\ swap_rows c m2 a b = Val (Ok t2) /\ grid_eq t1 t2.
Proof.
  intros H1 H2 Ha Hb (Hr & Hc & Hat).
  pose proof (swap_rows_logical c es m1 a b H1 ltac:(lia) ltac:(lia)) as S1.
  pose proof (swap_rows_logical c es m2 a b H2 ltac:(lia) ltac:(lia)) as S2.
  assert ((a <? nrows m1) && (b <? nrows m1) = true) as B1 by lia. assert ((a <? nrows m2) && (b <? nrows m2) = true) as B2 by lia.
  rewrite B1 in S1. rewrite B2 in S2.
  destruct S1 as (t1 & E1 & _ & O1 & Sh1 & A1). destruct S2 as (t2 & E2 & _ & O2 & Sh2 & A2).
  destruct (nrows_of_shape m1 t1 O1 Sh1) as [R1 C1]. destruct (nrows_of_shape m2 t2 O2 Sh2) as [R2 C2].
  exists t1, t2. repeat split; auto; try congruence.
  intros r cl Hrr Hcc. rewrite A1, A2 by lia. apply Hat; [|lia]. unfold sw. destruct (r =? a); [lia|]. destruct (r =? b); lia.
Qed.

Theorem swap_cols_transparent m1 m2 a b : Coh c es m1 -> Coh c es m2 -> 0 <= a < ncols m1 -> 0 <= b < ncols m1 -> grid_eq m1 m2 ->
  exists t1 t2, swap_cols c m1 a b = Val (Ok t1) /\ swap_cols c m2 a b = Val (Ok t2) /\ grid_eq t1 t2.
Proof.
  intros H1 H2 Ha Hb (Hr & Hc & Hat).
  pose proof (swap_cols_logical c es m1 a b H1 ltac:(lia) ltac:(lia)) as S1.
  pose proof (swap_cols_logical c es m2 a b H2 ltac:(lia) ltac:(lia)) as S2.
  assert ((a <? ncols m1) && (b <? ncols m1) = true) as B1 by lia. assert ((a <? ncols m2) && (b <? ncols m2) = true) as B2 by lia.
  rewrite B1 in S1. rewrite B2 in S2.
  destruct S1 as (t1 & E1 & _ & O1 & Sh1 & A1). destruct S2 as (t2 & E2 & _ & O2 & Sh2 & A2).
  destruct (nrows_of_shape m1 t1 O1 Sh1) as [R1 C1]. destruct (nrows_of_shape m2 t2 O2 Sh2) as [R2 C2].
  exists t1, t2. repeat split; auto; try congruence.
  intros r cl Hrr Hcc. rewrite A1, A2 by lia. apply Hat; [lia|]. unfold sw. destruct (cl =? a); [lia|]. destruct (cl =? b); lia.
Qed.

Theorem overwrite_transparent (clone : A -> A) d1 d2 s1 s2 : Coh c es d1 -> Coh c es d2 -> Coh c es s1 -> Coh c es s2 ->
  grid_eq d1 d2 -> grid_eq s1 s2 ->
  exists t1 t2, overwrite c clone d1 s1 = Val t1 /\ overwrite c clone d2 s2 = Val t2 /\ grid_eq t1 t2.
Proof.
  intros HD1 HD2 HS1 HS2 (Dr & Dc & Dat) (Sr & Sc & Sat).
  destruct (overwrite_logical c es clone d1 s1 HD1 HS1) as (t1 & E1 & _ & O1 & Sh1 & A1).
  destruct (overwrite_logical c es clone d2 s2 HD2 HS2) as (t2 & E2 & _ & O2 & Sh2 & A2).
  destruct (nrows_of_shape d1 t1 O1 Sh1) as [R1 C1]. destruct (nrows_of_shape d2 t2 O2 Sh2) as [R2 C2].
  exists t1, t2. repeat split; auto; try congruence.
  intros r cl Hrr Hcc. rewrite A1, A2 by lia. rewrite <- Dr, <- Dc, <- Sr, <- Sc.
  destruct ((r <? Z.min (nrows d1) (nrows s1)) && (cl <? Z.min (ncols d1) (ncols s1))) eqn:B.
  - f_equal. apply Sat; lia.
  - apply Dat; lia.
Qed.
End Transparency.

Section Transparency2.
Context {L R U : Type}.
Variable c : cfg.
Hypothesis Hwf : wf c.
Variables esL esR esU : Z.
Hypothesis HesU : 0 <= esU.

Lemma grid_conformable (a1 a2 : matrix L) (b1 b2 : matrix R) :
  grid_eq a1 a2 -> grid_eq b1 b2 -> is_ew_conformable a1 b1 = is_ew_conformable a2 b2.
Proof.
  intros (Ar & Ac & _) (Br & Bc & _).
  pose proof (ew_conformable_iff a1 b1) as I1. pose proof (ew_conformable_iff a2 b2) as I2.
  destruct (is_ew_conformable a1 b1), (is_ew_conformable a2 b2); try reflexivity; exfalso.
  - assert (false = true) by (apply I2; destruct (proj1 I1 eq_refl); split; congruence). discriminate.
  - assert (false = true) by (apply I1; destruct (proj1 I2 eq_refl); split; congruence). discriminate.
Qed.

Lemma grid_size {X} es (m1 m2 : matrix X) : Coh c es m1 -> Coh c es m2 -> grid_eq m1 m2 -> size m1 = size m2.
Proof.
  intros H1 H2 (Hr & Hc & _). destruct (nrows_ncols_size c es m1 H1) as (<- & _). destruct (nrows_ncols_size c es m2 H2) as (<- & _). congruence.
Qed.

(* elementwise operations: the same error, or results with the same logical grid *)
Theorem elementwise_transparent (op : L -> R -> U) (a1 a2 : matrix L) (b1 b2 : matrix R) :
  Coh c esL a1 -> Coh c esL a2 -> Coh c esR b1 -> Coh c esR b2 -> grid_eq a1 a2 -> grid_eq b1 b2 ->
  match elementwise_operation c esU op a1 b1, elementwise_operation c esU op a2 b2 with
  | Val (Ok p1), Val (Ok p2) => grid_eq p1 p2
  | Val (Err e1), Val (Err e2) => e1 = e2
  | _, _ => False
  end.
Proof.
  intros HA1 HA2 HB1 HB2 GA GB.
  pose proof (elementwise_operation_spec c esL esR op esU a1 b1 HA1 HB1 Hwf HesU) as S1.
  pose proof (elementwise_operation_spec c esL esR op esU a2 b2 HA2 HB2 Hwf HesU) as S2.
  rewrite <- (grid_conformable a1 a2 b1 b2 GA GB) in S2. rewrite <- (grid_size esL a1 a2 HA1 HA2 GA) in S2.
  destruct (is_ew_conformable a1 b1) eqn:Ec; cbn [negb] in S1, S2; [|rewrite S1, S2; reflexivity].
  destruct (esU * size a1 >? imax c); [rewrite S1, S2; reflexivity|].
  destruct S1 as (d1 & E1 & L1 & P1). destruct S2 as (d2 & E2 & L2 & P2). rewrite E1, E2.
  destruct GA as (Ar & Ac & Aat). destruct GB as (Br & Bc & Bat).
  assert (nrows (mkMatrix (m_order a1) (m_shape a1) d1) = nrows a1 /\ ncols (mkMatrix (m_order a1) (m_shape a1) d1) = ncols a1) as [R1 C1] by (split; reflexivity).
  assert (nrows (mkMatrix (m_order a2) (m_shape a2) d2) = nrows a2 /\ ncols (mkMatrix (m_order a2) (m_shape a2) d2) = ncols a2) as [R2 C2] by (split; reflexivity).
  repeat split; try congruence.
  intros r cl Hr Hcl. rewrite R1 in Hr. rewrite C1 in Hcl.
  destruct (P1 r cl Hr Hcl) as (x1 & y1 & X1 & Y1 & Z1). destruct (P2 r cl ltac:(lia) ltac:(lia)) as (x2 & y2 & X2 & Y2 & Z2).
  rewrite Z1, Z2. rewrite (Aat r cl Hr Hcl) in X1.
  assert (0 <= r < nrows b1 /\ 0 <= cl < ncols b1) as [Hrb Hcb].
  { destruct (proj1 (ew_conformable_iff a1 b1) Ec). lia. }
  rewrite (Bat r cl Hrb Hcb) in Y1. congruence.
Qed.

Hypothesis HesL : 0 < esL.
Hypothesis HesR : 0 < esR.

Lemma is_row_unique (a1 a2 : matrix L) i ls1 ls2 : grid_eq a1 a2 -> 0 <= i < nrows a1 -> is_row a1 i ls1 -> is_row a2 i ls2 -> ls1 = ls2.
Proof.
  intros (Ar & Ac & Aat) Hi [L1 N1] [L2 N2]. apply list_ext_znth; [congruence|].
  intros k Hk. rewrite N1, N2 by lia. apply Aat; lia.
Qed.
Lemma is_col_unique (b1 b2 : matrix R) j rs1 rs2 : grid_eq b1 b2 -> 0 <= j < ncols b1 -> is_col b1 j rs1 -> is_col b2 j rs2 -> rs1 = rs2.
Proof.
  intros (Br & Bc & Bat) Hj [L1 N1] [L2 N2]. apply list_ext_znth; [congruence|].
  intros k Hk. rewrite N1, N2 by lia. apply Bat; lia.
Qed.

(* the matrix product: the same error, or products with the same logical grid *)
Theorem multiply_transparent (dflt : U) (mul : L -> R -> U) (add : U -> U -> U) (a1 a2 : matrix L) (b1 b2 : matrix R) :
  Coh c esL a1 -> Coh c esL a2 -> Coh c esR b1 -> Coh c esR b2 -> grid_eq a1 a2 -> grid_eq b1 b2 ->
  match multiply c esL esR esU dflt mul add a1 b1, multiply c esL esR esU dflt mul add a2 b2 with
  | Val (Ok p1), Val (Ok p2) => grid_eq p1 p2
  | Val (Err e1), Val (Err e2) => e1 = e2
  | _, _ => False
  end.
Proof.
  intros HA1 HA2 HB1 HB2 GA GB.
  pose proof (multiply_spec c Hwf esL esR esU HesL HesR HesU dflt mul add a1 b1 HA1 HB1) as S1.
  pose proof (multiply_spec c Hwf esL esR esU HesL HesR HesU dflt mul add a2 b2 HA2 HB2) as S2.
  pose proof GA as (Ar & Ac & Aat). pose proof GB as (Br & Bc & Bat).
  rewrite <- Ar, <- Ac, <- Br, <- Bc in S2.
  destruct (negb (ncols a1 =? nrows b1)); [rewrite S1, S2; reflexivity|].
  destruct (nrows a1 * ncols b1 >? umax c); [rewrite S1, S2; reflexivity|].
  destruct (esU * (nrows a1 * ncols b1) >? imax c); [rewrite S1, S2; reflexivity|].
  destruct S1 as (p1 & E1 & _ & R1 & C1 & _ & P1). destruct S2 as (p2 & E2 & _ & R2 & C2 & _ & P2). rewrite E1, E2.
  repeat split; try congruence.
  intros i j Hi Hj. rewrite R1 in Hi. rewrite C1 in Hj.
  specialize (P1 i j Hi Hj). specialize (P2 i j ltac:(lia) ltac:(lia)).
  destruct (ncols a1 =? 0); [congruence|].
  destruct P1 as (ls1 & rs1 & u1 & Hr1 & Hc1 & T1 & At1). destruct P2 as (ls2 & rs2 & u2 & Hr2 & Hc2 & T2 & At2).
  rewrite (is_row_unique a1 a2 i ls1 ls2 GA Hi Hr1 Hr2) in T1. rewrite (is_col_unique b1 b2 j rs1 rs2 GB Hj Hc1 Hc2) in T1. congruence.
Qed.
End Transparency2.
