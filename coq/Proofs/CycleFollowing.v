From Coq Require Import Arith List Lia Bool.
Import ListNotations.

Section Cycle.
Variable A : Type.
Variable n : nat.
Variable p : nat -> nat.
Hypothesis p_range : forall x, x < n -> p x < n.
Hypothesis p_inj : forall x y, x < n -> y < n -> p x = p y -> x = y.

Definition upd {B} (f : nat -> B) (i : nat) (b : B) : nat -> B := fun x => if Nat.eqb x i then b else f x.
Definition swp (a : nat -> A) (i j : nat) : nat -> A := upd (upd a i (a j)) j (a i).

Lemma upd_same {B} (f : nat -> B) i b : upd f i b i = b.
Proof. unfold upd. now rewrite Nat.eqb_refl. Qed.
Lemma upd_other {B} (f : nat -> B) i b x : x <> i -> upd f i b x = f x.
Proof. unfold upd. intros H. destruct (Nat.eqb_spec x i); congruence. Qed.
Lemma swp_l a i j : swp a i j i = a j.
Proof. unfold swp, upd. rewrite Nat.eqb_refl. destruct (Nat.eqb_spec i j); congruence. Qed.
Lemma swp_r a i j : swp a i j j = a i.
Proof. unfold swp. apply upd_same. Qed.
Lemma swp_other a i j x : x <> i -> x <> j -> swp a i j x = a x.
Proof. intros. unfold swp. rewrite !upd_other; auto. Qed.

(* src/lib.rs:279-297, inner `loop` *)
Fixpoint inner (fuel index current : nat) (v : nat -> bool) (a : nat -> A) : option ((nat -> bool) * (nat -> A)) :=
  match fuel with
  | 0 => None
  | S f => if v current then Some (v, a)
           else let v' := upd v current true in
                let next := p current in
                inner f index next v' (swp a index next)
  end.

(* number of unvisited below n *)
Fixpoint unvis (v : nat -> bool) (k : nat) : nat :=
  match k with 0 => 0 | S k' => (if v k' then 0 else 1) + unvis v k' end.

Lemma unvis_upd v c k : c < k -> v c = false -> S (unvis (upd v c true) k) = unvis v k.
Proof.
  induction k as [|k IH]; intros Hc Hv; [lia|]. cbn [unvis].
  destruct (Nat.eq_dec c k) as [->|Hne].
  - rewrite upd_same, Hv. cbn. f_equal.
    clear IH Hc. assert (forall j, j <= k -> unvis (upd v k true) j = unvis v j) as H.
    { induction j as [|j IHj]; intros Hj; cbn [unvis]; auto. rewrite upd_other by lia. rewrite IHj by lia. reflexivity. }
    apply H; lia.
  - rewrite upd_other by auto. rewrite <- IH by (auto; lia). destruct (v k); cbn; lia.
Qed.

Variable a0 : nat -> A.

(* outer-loop invariant *)
Definition Outer (v : nat -> bool) (a : nat -> A) : Prop :=
  (forall x, x < n -> v x = true -> v (p x) = true) /\
  (forall x, x < n -> v (p x) = true -> v x = true) /\
  (forall x, x < n -> v x = true -> a (p x) = a0 x) /\
  (forall x, x < n -> v x = false -> a x = a0 x).

(* mid-cycle invariant: before an iteration with [current = c], cycle started at [i] *)
Definition Mid (i c : nat) (v : nat -> bool) (a : nat -> A) : Prop :=
  i < n /\ c < n /\ v i = true /\
  (exists u, u < n /\ v u = true /\ p u = c) /\
  (forall x, x < n -> v x = true -> v (p x) = true \/ p x = c) /\
  (forall x, x < n -> v (p x) = true -> v x = true \/ p x = i) /\
  (forall x, x < n -> v x = true -> p x <> i -> a (p x) = a0 x) /\
  (forall x, x < n -> v x = false -> x <> c -> a x = a0 x) /\
  (c <> i -> v c = false /\ a i = a0 c) /\
  (c = i -> forall u, u < n -> p u = i -> a i = a0 u).

Lemma inner_mid : forall fuel i c v a,
  Mid i c v a -> unvis v n < fuel ->
  exists v' a', inner fuel i c v a = Some (v', a') /\ Outer v' a' /\ (forall x, v x = true -> v' x = true) /\ v' i = true.
Proof.
  induction fuel as [|fuel IH]; intros i c v a HM Hf; [lia|].
  destruct HM as (Hi & Hc & Hvi & (u & Hu & Hvu & Hpu) & HC & HC' & HM1 & HM2 & HM3 & HM4).
  cbn [inner]. destruct (v c) eqn:Hvc.
  - (* loop exits: c must be i *)
    assert (c = i) as -> by (destruct (Nat.eq_dec c i) as [|ne]; auto; destruct (HM3 ne); congruence).
    exists v, a. split; [reflexivity|]. split; [|auto].
    repeat split.
    + intros x Hx Hv. destruct (HC x Hx Hv) as [|E]; auto. congruence.
    + intros x Hx Hv. destruct (HC' x Hx Hv) as [|E]; auto.
      assert (x = u) by (apply p_inj; auto; congruence). congruence.
    + intros x Hx Hv. destruct (Nat.eq_dec (p x) i) as [E|NE]; [|auto].
      rewrite E. apply (HM4 eq_refl); auto.
    + intros x Hx Hv. apply HM2; auto. congruence.
  - (* one more step *)
    assert (c <> i) as Hci by congruence.
    destruct (HM3 Hci) as [_ Hai].
    set (v' := upd v c true). set (next := p c). set (a' := swp a i next).
    assert (Hnext : next < n) by (apply p_range; auto).
    assert (Hnc : next <> c).
    { intros E. assert (u = c) by (apply p_inj; auto; unfold next in E; congruence). congruence. }
    assert (Hvnext : next <> i -> v next = false).
    { intros NE. destruct (v next) eqn:E; auto. destruct (HC' c Hc E) as [|E2]; [congruence|]. exfalso; apply NE; exact E2. }
    assert (HMid : Mid i next v' a').
    { unfold Mid. repeat split; auto.
      * unfold v'. rewrite upd_other; auto.
      * exists c. repeat split; auto. unfold v'. apply upd_same.
      * intros x Hx Hv. unfold v' in *. destruct (Nat.eq_dec x c) as [->|NE]; [right; reflexivity|].
        rewrite upd_other in Hv by auto. destruct (HC x Hx Hv) as [H|H].
        -- left. destruct (Nat.eq_dec (p x) c) as [->|]; [apply upd_same | rewrite upd_other; auto].
        -- left. rewrite H. apply upd_same.
      * intros x Hx Hv. unfold v' in *. destruct (Nat.eq_dec (p x) c) as [E|NE].
        -- left. assert (x = u) by (apply p_inj; auto; congruence). subst x.
           destruct (Nat.eq_dec u c) as [->|]; [apply upd_same | rewrite upd_other; auto].
        -- rewrite upd_other in Hv by auto. destruct (HC' x Hx Hv) as [H|H]; auto.
           left. destruct (Nat.eq_dec x c) as [->|]; [apply upd_same | rewrite upd_other; auto].
      * intros x Hx Hv Hpx. unfold v', a' in *. destruct (Nat.eq_dec x c) as [->|NE].
        -- fold next. rewrite swp_r. exact Hai.
        -- rewrite upd_other in Hv by auto.
           assert (p x <> next) by (unfold next; intros E; apply NE, p_inj; auto).
           rewrite swp_other; auto.
      * intros x Hx Hv Hxn. unfold v', a' in *. destruct (Nat.eq_dec x c) as [->|NE]; [rewrite upd_same in Hv; discriminate|].
        rewrite upd_other in Hv by auto. rewrite swp_other; auto. congruence.
      * unfold v'. rewrite upd_other by auto. apply Hvnext; auto.
      * unfold a'. rewrite swp_l. apply HM2; auto.
      * intros E u' Hu' Hpu'. unfold a'. rewrite <- E. rewrite swp_l. rewrite E.
        assert (u' = c) by (apply p_inj; auto; unfold next in E; congruence). subst u'.
        rewrite <- E. exact Hai || (rewrite E; exact Hai). }
    assert (Hfuel : unvis v' n < fuel) by (unfold v'; pose proof (unvis_upd v c n Hc Hvc); lia).
    destruct (IH i next v' a' HMid Hfuel) as (v2 & a2 & E2 & HO & Hmono & Hi2).
    exists v2, a2. repeat split; auto; try apply HO.
    intros x Hx. apply Hmono. unfold v'. destruct (Nat.eq_dec x c) as [->|]; [apply upd_same | rewrite upd_other; auto].
Qed.

Lemma inner_start : forall fuel i v a,
  i < n -> Outer v a -> unvis v n < fuel ->
  exists v' a', inner fuel i i v a = Some (v', a') /\ Outer v' a' /\ (forall x, v x = true -> v' x = true) /\ v' i = true.
Proof.
  intros fuel i v a Hi HO Hf. destruct fuel as [|fuel]; [lia|].
  destruct HO as (HC & HC' & HM1 & HM2).
  cbn [inner]. destruct (v i) eqn:Hvi.
  - exists v, a. repeat split; auto.
  - set (v' := upd v i true). set (next := p i). set (a' := swp a i next).
    assert (Hnext : next < n) by (apply p_range; auto).
    assert (Hfuel : unvis v' n < fuel) by (unfold v'; pose proof (unvis_upd v i n Hi Hvi); lia).
    destruct (Nat.eq_dec next i) as [E|NE].
    + (* fixed point *)
      destruct fuel as [|fuel]; [lia|]. cbn [inner]. rewrite E. unfold v' at 1. rewrite upd_same.
      exists v', a'. split; [reflexivity|]. unfold v', a'. rewrite E. repeat split.
      * intros x Hx Hv. destruct (Nat.eq_dec x i) as [->|N]; [fold next; rewrite E; apply upd_same|].
        rewrite upd_other in Hv by auto. destruct (Nat.eq_dec (p x) i) as [->|]; [apply upd_same|rewrite upd_other; auto].
      * intros x Hx Hv. destruct (Nat.eq_dec x i) as [->|N]; [apply upd_same|]. rewrite upd_other by auto.
        destruct (Nat.eq_dec (p x) i) as [E2|N2].
        -- exfalso. apply N. apply p_inj; auto. fold next. congruence.
        -- rewrite upd_other in Hv by auto. auto.
      * intros x Hx Hv. destruct (Nat.eq_dec x i) as [->|N].
        -- fold next. rewrite E. rewrite swp_l. apply HM2; auto.
        -- rewrite upd_other in Hv by auto.
           assert (p x <> i) by (intros E2; apply N; apply p_inj; auto; fold next; congruence).
           rewrite swp_other; auto.
      * intros x Hx Hv. destruct (Nat.eq_dec x i) as [->|N]; [rewrite upd_same in Hv; discriminate|].
        rewrite upd_other in Hv by auto. rewrite swp_other; auto.
      * intros x Hv. destruct (Nat.eq_dec x i) as [->|]; [apply upd_same | rewrite upd_other; auto].
      * apply upd_same.
    + assert (Hvnext : v next = false).
      { destruct (v next) eqn:E; auto. rewrite (HC' i Hi E) in Hvi. discriminate. }
      assert (HMid : Mid i next v' a').
      { unfold Mid, v', a'. repeat split; auto.
        - apply upd_same.
        - exists i. repeat split; auto. apply upd_same.
        - intros x Hx Hv. destruct (Nat.eq_dec x i) as [->|N]; [right; reflexivity|].
          rewrite upd_other in Hv by auto. left.
          destruct (Nat.eq_dec (p x) i) as [->|]; [apply upd_same|rewrite upd_other; auto].
        - intros x Hx Hv. destruct (Nat.eq_dec (p x) i) as [E|N2]; [right; auto|].
          rewrite upd_other in Hv by auto. left.
          destruct (Nat.eq_dec x i) as [->|]; [apply upd_same|rewrite upd_other; auto].
        - intros x Hx Hv Hpx. destruct (Nat.eq_dec x i) as [->|N].
          + fold next. rewrite swp_r. apply HM2; auto.
          + rewrite upd_other in Hv by auto.
            assert (p x <> next) by (unfold next; intros E; apply N, p_inj; auto).
            rewrite swp_other; auto.
        - intros x Hx Hv Hxn. destruct (Nat.eq_dec x i) as [->|N]; [rewrite upd_same in Hv; discriminate|].
          rewrite upd_other in Hv by auto. rewrite swp_other; auto.
        - rewrite upd_other; auto.
        - rewrite swp_l. apply HM2; auto.
        - intros E. contradiction. }
      destruct (inner_mid fuel i next v' a' HMid Hfuel) as (v2 & a2 & E2 & HO2 & Hmono & Hi2).
      exists v2, a2. repeat split; auto; try apply HO2.
      intros x Hx. apply Hmono. unfold v'. destruct (Nat.eq_dec x i) as [->|]; [apply upd_same | rewrite upd_other; auto].
Qed.

(* outer `for index in 0..size` *)
Fixpoint outer (k : nat) (v : nat -> bool) (a : nat -> A) : option ((nat -> bool) * (nat -> A)) :=
  match k with
  | 0 => Some (v, a)
  | S k' => match outer k' v a with
            | None => None
            | Some (v1, a1) => inner (S n) k' k' v1 a1
            end
  end.

Lemma unvis_le v k : unvis v k <= k.
Proof. induction k; cbn [unvis]; [lia|]. destruct (v k); lia. Qed.

Lemma outer_inv : forall k, k <= n ->
  exists v a, outer k (fun _ => false) a0 = Some (v, a) /\ Outer v a /\ (forall x, x < k -> v x = true).
Proof.
  induction k as [|k IH]; intros Hk.
  - exists (fun _ => false), a0. split; [reflexivity|]. split; [|intros; lia].
    repeat split; auto; discriminate.
  - destruct IH as (v & a & E & HO & Hall); [lia|]. cbn [outer]. rewrite E.
    destruct (inner_start (S n) k v a) as (v' & a' & E' & HO' & Hmono & Hk'); auto; [pose proof (unvis_le v n); lia|].
    exists v', a'. repeat split; auto; try apply HO'.
    intros x Hx. destruct (Nat.eq_dec x k) as [->|]; auto. apply Hmono, Hall. lia.
Qed.

Theorem cycle_following_correct :
  exists v a, outer n (fun _ => false) a0 = Some (v, a) /\ forall x, x < n -> a (p x) = a0 x.
Proof.
  destruct (outer_inv n (le_n n)) as (v & a & E & (_ & _ & H3 & _) & Hall).
  exists v, a. split; auto.
Qed.
End Cycle.
Print Assumptions cycle_following_correct.
