(* C16 / C17: what "for every schedule" means in the model.
   C16: rayon's indexed-producer contract as an arbitrary binary split tree of the index range (each leaf processed
   sequentially with its global offset, results concatenated in index order).
   C17: threads updating pairwise disjoint address sets: any interleaving gives the sequential result. *)
From Coq Require Import List Arith Lia Permutation.
Import ListNotations.

Section C16.
Variables A B : Type.
Inductive split := Leaf | Node (at_ : nat) (l r : split).

(* data.par_iter().enumerate().map(g).collect() under schedule t; off = global position of the chunk *)
Fixpoint par_enum_map (t : split) (g : nat -> A -> B) (off : nat) (l : list A) : list B :=
  match t with
  | Leaf => map (fun p => g (fst p) (snd p)) (combine (seq off (length l)) l)
  | Node k tl tr => par_enum_map tl g off (firstn k l) ++ par_enum_map tr g (off + length (firstn k l)) (skipn k l)
  end.
Definition seq_enum_map (g : nat -> A -> B) (off : nat) (l : list A) : list B :=
  map (fun p => g (fst p) (snd p)) (combine (seq off (length l)) l).

Lemma seq_enum_map_app g off l1 l2 :
  seq_enum_map g off (l1 ++ l2) = seq_enum_map g off l1 ++ seq_enum_map g (off + length l1) l2.
Proof.
  revert off; induction l1 as [|x l1 IH]; intros off.
  - cbn. now rewrite Nat.add_0_r.
  - unfold seq_enum_map in *. cbn. f_equal. rewrite (IH (S off)).
    replace (S off + length l1) with (off + S (length l1)) by lia. reflexivity.
Qed.

Theorem par_enum_map_any_schedule t g : forall off l, par_enum_map t g off l = seq_enum_map g off l.
Proof.
  induction t as [|k tl IHl tr IHr]; intros off l; cbn; [reflexivity|].
  rewrite IHl, IHr, <- seq_enum_map_app, firstn_skipn. reflexivity.
Qed.

(* exactly-once invocation: the multiset of closure arguments does not depend on the schedule either *)
Fixpoint par_args (t : split) (off : nat) (l : list A) : list (nat * A) :=
  match t with
  | Leaf => combine (seq off (length l)) l
  | Node k tl tr => par_args tr (off + length (firstn k l)) (skipn k l) ++ par_args tl off (firstn k l)   (* right half ran first *)
  end.
Lemma combine_seq_app off (l1 l2 : list A) :
  combine (seq off (length (l1 ++ l2))) (l1 ++ l2) =
  combine (seq off (length l1)) l1 ++ combine (seq (off + length l1) (length l2)) l2.
Proof.
  revert off; induction l1 as [|x l1 IH]; intros off; cbn.
  - now rewrite Nat.add_0_r.
  - f_equal. rewrite (IH (S off)). replace (S off + length l1) with (off + S (length l1)) by lia. reflexivity.
Qed.

Theorem par_args_perm t : forall off l, Permutation (par_args t off l) (combine (seq off (length l)) l).
Proof.
  induction t as [|k tl IHl tr IHr]; intros off l; cbn; [reflexivity|].
  rewrite Permutation_app_comm, IHl, IHr.
  rewrite <- combine_seq_app, firstn_skipn. reflexivity.
Qed.
End C16.

Section C17.
(* a store of cells; each thread owns a set of addresses and applies updates only there *)
Variable V : Type.
Definition store := nat -> V.
Definition upd (s : store) (a : nat) (f : V -> V) : store := fun x => if Nat.eqb x a then f (s x) else s x.
Definition step := (nat * (V -> V))%type.
Fixpoint apply_steps (s : store) (l : list step) : store :=
  match l with [] => s | p :: l' => apply_steps (upd s (fst p) (snd p)) l' end.

(* an interleaving of two threads' step lists *)
Inductive interleave : list step -> list step -> list step -> Prop :=
| il_nil : interleave [] [] []
| il_l x l1 l2 l : interleave l1 l2 l -> interleave (x :: l1) l2 (x :: l)
| il_r x l1 l2 l : interleave l1 l2 l -> interleave l1 (x :: l2) (x :: l).

Definition disjoint (l1 l2 : list step) := forall p q, In p l1 -> In q l2 -> fst p <> fst q.

Lemma upd_comm s a f b g : a <> b -> forall x, upd (upd s a f) b g x = upd (upd s b g) a f x.
Proof. intros N x. unfold upd. destruct (Nat.eqb_spec x b), (Nat.eqb_spec x a); subst; congruence. Qed.

Lemma apply_ext l : forall s s', (forall x, s x = s' x) -> forall x, apply_steps s l x = apply_steps s' l x.
Proof. induction l as [|p l IH]; intros s s' E x; cbn; auto. apply IH. intros y. unfold upd. rewrite E. reflexivity. Qed.

(* moving one foreign step in front of a thread's whole list does not change the result *)
Lemma hoist l2 : forall s a f, (forall q, In q l2 -> a <> fst q) ->
  forall x, apply_steps (upd s a f) l2 x = upd (apply_steps s l2) a f x.
Proof.
  induction l2 as [|[b g] l2 IH]; intros s a f D x; cbn [apply_steps fst snd]; auto.
  rewrite <- IH by (intros q Hq; apply D; right; auto).
  apply apply_ext. intros y. apply upd_comm. apply (D (b, g)). left; reflexivity.
Qed.

Theorem any_interleaving_is_sequential l1 l2 l : interleave l1 l2 l -> disjoint l1 l2 ->
  forall s x, apply_steps s l x = apply_steps (apply_steps s l1) l2 x.
Proof.
  induction 1 as [|p l1 l2 l H IH|q l1 l2 l H IH]; intros D s x; cbn [apply_steps]; auto.
  - apply IH. intros p' q' Hp Hq. apply D; [right|]; auto.
  - rewrite IH by (intros p' q' Hp Hq; apply D; [|right]; auto).
    destruct q as [b g]. cbn [fst snd].
    apply apply_ext. intros y.
    apply (hoist l1 s b g (fun p' Hp => not_eq_sym (D p' (b, g) Hp (or_introl eq_refl)))).
Qed.
End C17.

(* ---------- any number of threads ---------- *)
Section Threads.
Variable V : Type.
Notation step := (step V).

Fixpoint replace_nth {X} (l : list X) (k : nat) (x : X) : list X :=
  match l, k with
  | [], _ => []
  | _ :: t, O => x :: t
  | h :: t, S k' => h :: replace_nth t k' x
  end.

(* one global order of execution: at each moment some thread performs its next step *)
Inductive interleaveN : list (list step) -> list step -> Prop :=
| iN_done ls : (forall l, In l ls -> l = []) -> interleaveN ls []
| iN_step ls k x t l : nth_error ls k = Some (x :: t) -> interleaveN (replace_nth ls k t) l -> interleaveN ls (x :: l).

Definition pairwise_disjoint (ls : list (list step)) : Prop :=
  forall i j li lj, i <> j -> nth_error ls i = Some li -> nth_error ls j = Some lj -> disjoint V li lj.

Lemma apply_app (l1 l2 : list step) : forall s, apply_steps V s (l1 ++ l2) = apply_steps V (apply_steps V s l1) l2.
Proof. induction l1 as [|p l1 IH]; intros s; cbn; auto. Qed.

Lemma concat_all_nil (ls : list (list step)) : (forall l, In l ls -> l = []) -> concat ls = [].
Proof. induction ls as [|l ls IH]; intros H; cbn; auto. rewrite (H l (or_introl eq_refl)). apply IH. intros l' Hl. apply H. now right. Qed.

Lemma split_at_nth {X} (ls : list (list X)) k x : nth_error ls k = Some x ->
  exists l1 l2, ls = l1 ++ x :: l2 /\ length l1 = k /\ forall y, replace_nth ls k y = l1 ++ y :: l2.
Proof.
  revert k. induction ls as [|h ls IH]; intros k H; [destruct k; discriminate|].
  destruct k as [|k]; cbn in H.
  - injection H as <-. exists [], ls. repeat split; auto.
  - destruct (IH k H) as (l1 & l2 & E & Hl & Hr). exists (h :: l1), l2. subst ls. repeat split; cbn; auto.
    intros y. now rewrite Hr.
Qed.

Theorem any_interleaving_of_threads ls l : interleaveN ls l -> pairwise_disjoint ls ->
  forall s x, apply_steps V s l x = apply_steps V s (concat ls) x.
Proof.
  induction 1 as [ls Hnil|ls k p t l Hk Hint IH]; intros D s x.
  - now rewrite concat_all_nil.
  - destruct (split_at_nth ls k (p :: t) Hk) as (l1 & l2 & E & Hl & Hr).
    cbn [apply_steps]. rewrite IH.
    2:{ intros i j li lj Hij Hi Hj. rewrite Hr in Hi, Hj. subst ls.
        assert (forall n ln, nth_error (l1 ++ t :: l2) n = Some ln -> exists ln', nth_error (l1 ++ (p :: t) :: l2) n = Some ln' /\ (forall q, In q ln -> In q ln')) as Hsub.
        { intros n ln Hn. destruct (Nat.lt_ge_cases n (length l1)).
          - rewrite nth_error_app1 in Hn by lia. exists ln. rewrite nth_error_app1 by lia. auto.
          - rewrite nth_error_app2 in Hn by lia. rewrite nth_error_app2 by lia.
            destruct (n - length l1) as [|m]; cbn in *.
            + injection Hn as <-. exists (p :: t). split; auto. intros q Hq. now right.
            + exists ln. auto. }
        destruct (Hsub i li Hi) as (li' & Hi' & Si). destruct (Hsub j lj Hj) as (lj' & Hj' & Sj).
        intros a b Ha Hb. apply (D i j li' lj' Hij Hi' Hj'); auto. }
    rewrite Hr. subst ls. rewrite !concat_app. cbn [concat]. rewrite !apply_app. cbn [apply_steps].
    (* hoist the step of thread k over the steps of the threads listed before it *)
    apply apply_ext. intros y. apply apply_ext. intros z.
    apply (hoist V (concat l1) s (fst p) (snd p)).
    intros q Hq. apply in_concat in Hq as (lq & Hlq & Hq). apply In_nth_error in Hlq as [i Hi].
    assert (i < length l1)%nat by (apply nth_error_Some; congruence).
    assert (nth_error (l1 ++ (p :: t) :: l2) i = Some lq) as Hi' by (rewrite nth_error_app1 by lia; exact Hi).
    assert (nth_error (l1 ++ (p :: t) :: l2) (length l1) = Some (p :: t)) as Hk' by (rewrite nth_error_app2 by lia; rewrite Nat.sub_diag; reflexivity).
    intro Heq. apply (D (length l1) i (p :: t) lq ltac:(lia) Hk' Hi' p q (or_introl eq_refl) Hq). exact Heq.
Qed.
End Threads.
