(* C02: operations that run caller code, as programs whose every call to caller code carries the state a catch_unwind
   around the operation would find behind the &mut receiver at that moment.  `fault_at k p` is that state when the k-th
   call panics.  The std behaviours used (Vec::resize_with publishes its length as it goes, truncate/clear set the length
   before dropping, slice iteration updates in place) are modelled, and validated by the fault enumeration of the harness. *)
From Coq Require Import ZArith List Lia Bool Arith.
Import ListNotations.

Section F.
Variable A : Type.

(* caller-code calls *)
Inductive call := CDefault | CDrop (x : A) | CClone (x : A) | CClosure (x : A).
Definition reply (c : call) : Type := match c with CDefault => A | CDrop _ => unit | CClone _ => A | CClosure _ => A end.

(* S = what a catch_unwind around the operation would find behind the &mut target *)
Inductive prog (S R : Type) :=
| Ret (r : R)
| Call (c : call) (snap : S) (k : reply c -> prog S R).
Arguments Ret {S R} r. Arguments Call {S R} c snap k.

Fixpoint pbind {S R R'} (p : prog S R) (f : R -> prog S R') : prog S R' :=
  match p with Ret r => f r | Call c s k => Call c s (fun x => pbind (k x) f) end.
(* run a callee that works on a part of the caller's state: map its snapshots into the caller's *)
Fixpoint frame {S S' R} (g : S -> S') (p : prog S R) : prog S' R :=
  match p with Ret r => Ret r | Call c s k => Call c (g s) (fun x => frame g (k x)) end.

Variable dflt : A.
Variable closure : A -> A.
Definition answer (c : call) : reply c := match c with CDefault => dflt | CDrop _ => tt | CClone x => x | CClosure x => closure x end.
Fixpoint run {S R} (p : prog S R) : R := match p with Ret r => r | Call c _ k => run (k (answer c)) end.
(* the k-th call (0-based) panics: what survives *)
Fixpoint fault_at {S R} (k : nat) (p : prog S R) {struct p} : option S :=
  match p with
  | Ret _ => None
  | Call c s kont => match k with 0 => Some s | S k' => fault_at k' (kont (answer c)) end
  end.

(* Vec::resize_with growing part: push defaults one by one; SetLenOnDrop => on unwind len = pushed so far *)
Fixpoint grow (n : nat) (v : list A) : prog (list A) (list A) :=
  match n with 0 => Ret v | S n' => Call CDefault v (fun x => grow n' (v ++ [x])) end.
(* truncate: len is set first, then the tail is dropped (a panicking drop still drops the rest) *)
Fixpoint drops (tl : list A) (v : list A) : prog (list A) (list A) :=
  match tl with [] => Ret v | x :: tl' => Call (CDrop x) v (fun _ => drops tl' v) end.
Definition resize_with (n : nat) (v : list A) : prog (list A) (list A) :=
  if n <=? length v then drops (skipn n v) (firstn n v) else grow (n - length v) v.

Record matrix := { major : nat; minor : nat; data : list A }.
Definition Coh m := major m * minor m = length (data m).

(* the code before the repair of finding F1: shape first, then the vector *)
Definition resize_pinned (m : matrix) (mj mn : nat) : prog matrix matrix :=
  let m1 := {| major := mj; minor := mn; data := data m |} in                       (* self.shape = shape; *)
  pbind (frame (fun v => {| major := mj; minor := mn; data := v |}) (resize_with (mj * mn) (data m1)))
        (fun v => Ret {| major := mj; minor := mn; data := v |}).

(* src/lib.rs resize as repaired (commit 22fef6b): shrink = assign the shape, truncate; grow = fill under a
   truncate-on-unwind guard, publish the shape last *)
Definition resize_fixed (m : matrix) (mj mn : nat) : prog matrix matrix :=
  let n := mj * mn in
  if n <=? length (data m) then
    pbind (frame (fun v => {| major := mj; minor := mn; data := v |}) (drops (skipn n (data m)) (firstn n (data m))))
          (fun v => Ret {| major := mj; minor := mn; data := v |})
  else
    (* guard: on unwind the vector is truncated back to its old length, shape untouched *)
    pbind (frame (fun _ => m) (grow (n - length (data m)) (data m)))
          (fun v => Ret {| major := mj; minor := mn; data := v |}).

Lemma fault_frame {S S' R} (g : S -> S') (p : prog S R) k : fault_at k (frame g p) = option_map g (fault_at k p).
Proof. revert k; induction p as [r|c s kont IH]; intros k; cbn; [reflexivity|]. destruct k; cbn; auto. Qed.
Lemma fault_bind_l {S R R'} (p : prog S R) (f : R -> prog S R') k s : fault_at k p = Some s -> fault_at k (pbind p f) = Some s.
Proof. revert k; induction p as [r|c s0 kont IH]; intros k; cbn; [discriminate|]. destruct k; cbn; auto. Qed.
Lemma fault_bind_ret {S R R'} (p : prog S R) (f : R -> prog S R') k :
  (forall r, exists r', f r = Ret r') -> fault_at k (pbind p f) = fault_at k p.
Proof. intros Hf. revert k; induction p as [r|c s0 kont IH]; intros k; cbn.
  - destruct (Hf r) as [r' ->]. reflexivity.
  - destruct k; cbn; auto. Qed.

Lemma fault_drops tl v k s : fault_at k (drops tl v) = Some s -> s = v.
Proof. revert k; induction tl as [|x tl IH]; intros k; cbn; [discriminate|]. destruct k; cbn; [congruence|eauto]. Qed.

Theorem resize_fixed_unwind_coh m mj mn k s : Coh m -> fault_at k (resize_fixed m mj mn) = Some s -> Coh s.
Proof.
  intros HC. unfold resize_fixed. destruct (mj * mn <=? length (data m)) eqn:E.
  - rewrite fault_bind_ret by eauto. rewrite fault_frame.
    destruct (fault_at k _) as [v|] eqn:F; cbn; [|discriminate]. intros [= <-].
    apply fault_drops in F. subst v. unfold Coh; cbn. rewrite firstn_length. apply Nat.leb_le in E. lia.
  - rewrite fault_bind_ret by eauto. rewrite fault_frame.
    destruct (fault_at k _); cbn; [|discriminate]. intros [= <-]. exact HC.
Qed.


(* in-place element updates (apply, elementwise / scalar *_assign, overwrite's clone_from_slice): caller code is called
   element by element on a vector whose length never changes; what was already updated stays updated *)
Fixpoint update_from (done todo : list A) : prog (list A) (list A) :=
  match todo with
  | [] => Ret done
  | x :: t => Call (CClosure x) (done ++ todo) (fun y => update_from (done ++ [y]) t)
  end.
Definition apply_prog (m : matrix) : prog matrix matrix :=
  pbind (frame (fun v => {| major := major m; minor := minor m; data := v |}) (update_from [] (data m)))
        (fun v => Ret {| major := major m; minor := minor m; data := v |}).

Lemma fault_update done todo k s : fault_at k (update_from done todo) = Some s -> length s = length done + length todo.
Proof.
  revert done k. induction todo as [|x t IH]; intros done k; cbn; [discriminate|].
  destruct k; cbn.
  - intros [= <-]. rewrite app_length. cbn. lia.
  - intros H. apply IH in H. rewrite app_length in H. cbn in H. lia.
Qed.

Theorem apply_unwind_coh m k s : Coh m -> fault_at k (apply_prog m) = Some s -> Coh s.
Proof.
  intros HC. unfold apply_prog. rewrite fault_bind_ret by eauto. rewrite fault_frame.
  destruct (fault_at k _) as [v|] eqn:F; cbn; [|discriminate]. intros [= <-].
  apply fault_update in F. unfold Coh in *; cbn in *. lia.
Qed.

(* clear: the shape is reset first, Vec::clear sets the length to zero before dropping anything *)
Definition clear_prog (m : matrix) : prog matrix matrix :=
  pbind (frame (fun v => {| major := 0; minor := 0; data := v |}) (drops (data m) []))
        (fun v => Ret {| major := 0; minor := 0; data := v |}).
Theorem clear_unwind_coh m k s : fault_at k (clear_prog m) = Some s -> Coh s.
Proof.
  unfold clear_prog. rewrite fault_bind_ret by eauto. rewrite fault_frame.
  destruct (fault_at k _) as [v|] eqn:F; cbn; [|discriminate]. intros [= <-].
  apply fault_drops in F. subst v. reflexivity.
Qed.

(* the functional meaning of the programs (what every other property file uses) *)
Lemma run_update done todo : run (update_from done todo) = done ++ map closure todo.
Proof.
  revert done. induction todo as [|x t IH]; intros done; cbn; [now rewrite app_nil_r|].
  rewrite IH. rewrite <- app_assoc. reflexivity.
Qed.

Lemma run_grow n v : length (run (grow n v)) = length v + n.
Proof. revert v; induction n as [|n IH]; intros v; cbn; [lia|]. rewrite IH, app_length. cbn. lia. Qed.
End F.

(* the pinned code is refuted: 1x2 -> 3x3, third Default (k = 2) panics *)
Example resize_pinned_refuted :
  exists s, fault_at nat 0 (fun x => x) 2 (resize_pinned nat {| major := 1; minor := 2; data := [7; 8] |} 3 3) = Some s /\ ~ Coh nat s.
Proof. eexists; split; [vm_compute; reflexivity|]. unfold Coh; cbn. lia. Qed.
