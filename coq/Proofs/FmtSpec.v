(* C20: what Display and Debug print, as a pure function of the logical grid.

   The implementation keeps a per-element cache of line iterators, indexed by the flat index of (row, col), and pops
   one line per visit.  Here the cache is abstracted to "how many lines of each (row, col) were consumed so far" and
   the output is shown to be a fold over rows, lines and columns of the k-th line of the element at (row, col),
   in row order and column order, independent of the storage order. *)
From Matreex Require Import Model.Fmt Proofs.ListFacts Proofs.SliceFacts Proofs.IndexProofs Proofs.FmtProofs.

Lemma zseq_snoc j : 0 <= j -> zseq (j + 1) = zseq j ++ [j].
Proof.
  intros H. unfold zseq. replace (Z.to_nat (j + 1)) with (S (Z.to_nat j)) by lia.
  rewrite seq_S, map_app. cbn. f_equal. f_equal. lia.
Qed.

Lemma skipn_nil_nth {T} (l : list T) n : skipn n l = [] -> nth_error l n = None.
Proof. revert l; induction n as [|n IH]; intros [|x t] H; cbn in *; try reflexivity; try discriminate. now apply IH. Qed.
Lemma skipn_cons_nth {T} (l : list T) n x t : skipn n l = x :: t -> nth_error l n = Some x /\ skipn (S n) l = t.
Proof.
  revert l; induction n as [|n IH]; intros [|y u] H; cbn in *; try discriminate.
  - inversion H. auto.
  - apply IH in H. exact H.
Qed.
Lemma skipn_S_nil {T} (l : list T) n : skipn n l = [] -> skipn (S n) l = [].
Proof. revert l; induction n as [|n IH]; intros [|x t] H; cbn in *; try reflexivity; try discriminate. now apply IH. Qed.

Lemma fold_left_ext_in {S T} (f g : S -> T -> S) l s : (forall a x, In x l -> f a x = g a x) -> fold_left f l s = fold_left g l s.
Proof.
  revert s. induction l as [|x l IH]; intros s H; [reflexivity|]. cbn. rewrite H by now left.
  apply IH. intros a y Hy. apply H. now right.
Qed.

Section FmtSpec.
Context {A : Type}.
Variable c : cfg.
Variable es : Z.
Variable render : A -> text.
Implicit Types m : matrix A.

(* the k-th printed line of an element whose rendering has the lines ls *)
Definition cell_line (ls : list text) (k : nat) (ew : Z) : text :=
  match nth_error ls k with Some l => pad_right l ew | None => pad_space ew end.
Definition sep (col : Z) : text := if col =? 0 then [] else pad_space INTER_GAP.

(* one printed line of one logical row: the cells in column order *)
Definition row_line (nc : Z) (g : Z -> list text) (pos : Z -> Z) (k : nat) (ew : Z) (label : Z -> text) (lead : text) : text :=
  fold_left (fun out col => out ++ sep col ++ label (pos col) ++ cell_line (g col) k ew) (zseq nc) lead.

(* the lines of the element at logical (r, cl) *)
Definition lines_at m (r cl : Z) : list text :=
  match at_ m r cl with Some e => lines_of (render e) | None => [] end.

(* abstraction of the cache: cnt r cl lines of the element at (r, cl) have been consumed *)
Definition CacheSt m (cache : list (list text)) (cnt : Z -> Z -> nat) : Prop :=
  zlen cache = size m /\
  forall r cl, 0 <= r < nrows m -> 0 <= cl < ncols m ->
    znth_opt (flat m r cl) cache = Some (skipn (cnt r cl) (lines_at m r cl)).

Lemma CacheSt_ext m cache cnt cnt' :
  (forall r cl, 0 <= r < nrows m -> 0 <= cl < ncols m -> cnt r cl = cnt' r cl) -> CacheSt m cache cnt -> CacheSt m cache cnt'.
Proof. intros He [Hl H]. split; [exact Hl|]. intros r cl Hr Hc. rewrite <- He by assumption. now apply H. Qed.

Lemma CacheSt_init m : Coh c es m -> CacheSt m (build_cache render m) (fun _ _ => 0%nat).
Proof.
  intros HC. split; [apply build_cache_len|]. intros r cl Hr Hc. unfold build_cache, lines_at, at_.
  rewrite znth_opt_map. destruct (at_in_range c es m r cl HC Hr Hc) as [x E]. unfold at_ in E. rewrite E. reflexivity.
Qed.

Definition bump (cnt : Z -> Z -> nat) (row col : Z) : Z -> Z -> nat :=
  fun r cl => if (r =? row) && (cl =? col) then S (cnt r cl) else cnt r cl.

Lemma cell_pop m cache cnt row col ew : Coh c es m -> 0 <= row < nrows m -> 0 <= col < ncols m -> CacheSt m cache cnt ->
  exists cache', cell cache (flat m row col) ew = Val (cell_line (lines_at m row col) (cnt row col) ew, cache') /\
                 CacheSt m cache' (bump cnt row col).
Proof.
  intros HC Hr Hc [Hl H]. unfold cell, cache_next. rewrite (H row col Hr Hc).
  pose proof (flat_in_range c es m row col HC Hr Hc) as Hf.
  destruct (skipn (cnt row col) (lines_at m row col)) as [|x t] eqn:E.
  - cbn [bind fst snd]. exists cache. unfold cell_line. rewrite (skipn_nil_nth _ _ E). split; [reflexivity|].
    split; [exact Hl|]. intros r cl Hr' Hc'. unfold bump.
    destruct ((r =? row) && (cl =? col)) eqn:B.
    + assert (r = row /\ cl = col) as [-> ->] by lia. rewrite (H row col Hr Hc), E. now rewrite (skipn_S_nil _ _ E).
    + now apply H.
  - cbn [bind fst snd]. destruct (skipn_cons_nth _ _ _ _ E) as [En Es]. exists (zupd cache (flat m row col) t).
    unfold cell_line. rewrite En. split; [reflexivity|]. split; [now rewrite zlen_zupd|].
    intros r cl Hr' Hc'. unfold bump. destruct ((r =? row) && (cl =? col)) eqn:B.
    + assert (r = row /\ cl = col) as [-> ->] by lia. rewrite znth_opt_zupd_same by lia. now rewrite Es.
    + rewrite znth_opt_zupd_other; [now apply H|]. intros Heq.
      destruct (flat_injective c es m row col r cl HC Hr Hc Hr' Hc' Heq) as [-> ->]. lia.
Qed.

(* one text line of one row *)
Lemma row_cells_spec m row ew label out cache cnt : Coh c es m -> 0 <= row < nrows m -> CacheSt m cache cnt ->
  exists cache',
    row_cells c m row ew label (out, cache) =
      Val (fold_left (fun o col => o ++ sep col ++ label (flat m row col) ++ cell_line (lines_at m row col) (cnt row col) ew)
                     (zseq (ncols m)) out, cache') /\
    CacheSt m cache' (fun r cl => if r =? row then S (cnt r cl) else cnt r cl).
Proof.
  intros HC Hrow HS. unfold row_cells.
  destruct (nrows_ncols_size c es m HC) as (_ & _ & Hnc).
  set (F := fun o col => o ++ sep col ++ label (flat m row col) ++ cell_line (lines_at m row col) (cnt row col) ew).
  set (cntj := fun (j : Z) (r cl : Z) => if (r =? row) && (cl <? j) then S (cnt r cl) else cnt r cl).
  destruct (for_res_inv (fun (j : Z) (st : text * list (list text)) => fst st = fold_left F (zseq j) out /\ CacheSt m (snd st) (cntj j))
              (fun col st => let '(out, cache) := st in
                 let sep := if col =? 0 then [] else pad_space INTER_GAP in
                 let* index := Index_to_flattened c (mkIndex row col) (m_order m) (m_shape m) in
                 let* r := cell cache index ew in
                 Val (out ++ sep ++ label index ++ fst r, snd r))
              (ncols m) (out, cache) Hnc) as (r & E & Hout & Hst).
  - split; [reflexivity|]. cbn [snd]. eapply CacheSt_ext; [|exact HS]. intros r cl _ Hc. unfold cntj.
    destruct ((r =? row) && (cl <? 0)) eqn:B; [lia|reflexivity].
  - intros col [o ch] Hcol [Ho Hs]. cbn [fst snd] in Ho, Hs.
    assert (Index_to_flattened c (mkIndex row col) (m_order m) (m_shape m) = Val (flat m row col)) as ->.
    { unfold Index_to_flattened. cbn [ix_row ix_col].
      destruct (to_flattened_ok c es m (AxisIndex_from_rc row col (m_order m)) HC) as [E _].
      { unfold nrows, ncols, mmajor, mminor, AxisIndex_from_rc in *. destruct (m_order m); cbn in *; lia. }
      { unfold nrows, ncols, mmajor, mminor, AxisIndex_from_rc in *. destruct (m_order m); cbn in *; lia. }
      rewrite E. f_equal. apply flat_of_axis. }
    cbn [bind]. destruct (cell_pop m ch (cntj col) row col ew HC Hrow Hcol Hs) as (ch' & Ec & Hs'). rewrite Ec. cbn [bind fst snd].
    eexists. split; [reflexivity|]. cbn [fst snd]. split.
    + rewrite zseq_snoc by lia. rewrite fold_left_app. cbn [fold_left]. rewrite <- Ho. unfold F, sep.
      replace (cntj col row col) with (cnt row col); [reflexivity|]. unfold cntj.
      destruct ((row =? row) && (col <? col)) eqn:B; [lia|reflexivity].
    + eapply CacheSt_ext; [|exact Hs']. intros r cl _ _. unfold bump, cntj.
      destruct ((r =? row) && (cl =? col)) eqn:B1; destruct ((r =? row) && (cl <? col)) eqn:B2; destruct ((r =? row) && (cl <? col + 1)) eqn:B3;
        try reflexivity; exfalso; lia.
  - destruct r as [o ch]. cbn [fst snd] in Hout, Hst. exists ch. subst o. split; [exact E|].
    eapply CacheSt_ext; [|exact Hst]. intros r cl _ Hc. unfold cntj.
    destruct (r =? row) eqn:B1; destruct (cl <? ncols m) eqn:B2; cbn [andb]; try reflexivity; exfalso; lia.
Qed.

Lemma zseq_max0 n : zseq n = zseq (Z.max 0 n).
Proof. unfold zseq. f_equal. f_equal. lia. Qed.

(* the printed lines of one logical row: the first line closes with "]", the remaining eh - 1 lines do not *)
Definition grid_block (nc : Z) (g : Z -> list text) (pos : Z -> Z) (ew eh : Z)
    (label1 : Z -> text) (pre1 : text) (label2 : Z -> text) (pre2 : text) (out : text) : text :=
  fold_left (fun o t => row_line nc g pos (S (Z.to_nat t)) ew label2 (o ++ pre2) ++ [ch_nl])
            (zseq (eh - 1))
            (row_line nc g pos 0 ew label1 (out ++ pre1) ++ [ch_rb; ch_nl]).

Lemma row_block_spec m row ew eh label1 pre1 label2 pre2 out cache cnt :
  Coh c es m -> 0 <= row < nrows m -> CacheSt m cache cnt -> (forall cl, 0 <= cl < ncols m -> cnt row cl = 0%nat) ->
  exists cache',
    (let* st1 := row_cells c m row ew label1 (out ++ pre1, cache) in
     for_res (zseq (eh - 1)) (fst st1 ++ [ch_rb; ch_nl], snd st1) (fun _ st =>
       let '(o, ch) := st in
       let* st2 := row_cells c m row ew label2 (o ++ pre2, ch) in
       Val (fst st2 ++ [ch_nl], snd st2)))
    = Val (grid_block (ncols m) (lines_at m row) (flat m row) ew eh label1 pre1 label2 pre2 out, cache') /\
    CacheSt m cache' (fun r cl => if r =? row then (cnt r cl + 1 + Z.to_nat (eh - 1))%nat else cnt r cl).
Proof.
  intros HC Hrow HS H0.
  destruct (row_cells_spec m row ew label1 (out ++ pre1) cache cnt HC Hrow HS) as (cache1 & E1 & HS1).
  rewrite E1. cbn [bind fst snd].
  assert (fold_left (fun o col => o ++ sep col ++ label1 (flat m row col) ++ cell_line (lines_at m row col) (cnt row col) ew)
            (zseq (ncols m)) (out ++ pre1) = row_line (ncols m) (lines_at m row) (flat m row) 0 ew label1 (out ++ pre1)) as ->.
  { unfold row_line. apply fold_left_ext_in. intros a x Hx. apply in_zseq in Hx. now rewrite H0. }
  unfold grid_block. rewrite (zseq_max0 (eh - 1)).
  set (out1 := row_line (ncols m) (lines_at m row) (flat m row) 0 ew label1 (out ++ pre1) ++ [ch_rb; ch_nl]).
  set (G := fun o t => row_line (ncols m) (lines_at m row) (flat m row) (S (Z.to_nat t)) ew label2 (o ++ pre2) ++ [ch_nl]).
  destruct (for_res_inv (fun (t : Z) (st : text * list (list text)) =>
                fst st = fold_left G (zseq t) out1 /\
                CacheSt m (snd st) (fun r cl => if r =? row then (cnt r cl + 1 + Z.to_nat t)%nat else cnt r cl))
              (fun (_ : Z) (st : text * list (list text)) => let '(o, ch) := st in
                 let* st2 := row_cells c m row ew label2 (o ++ pre2, ch) in
                 Val (fst st2 ++ [ch_nl], snd st2))
              (Z.max 0 (eh - 1)) (out1, cache1) ltac:(lia)) as (r & E & Hout & Hst).
  - split; [reflexivity|]. cbn [snd]. eapply CacheSt_ext; [|exact HS1]. intros r cl _ _. cbn beta.
    destruct (r =? row); [|reflexivity]. cbn. lia.
  - intros t [o ch] Ht [Ho Hs]. cbn [fst snd] in Ho, Hs.
    destruct (row_cells_spec m row ew label2 (o ++ pre2) ch _ HC Hrow Hs) as (ch' & E2 & Hs'). rewrite E2. cbn [bind fst snd].
    eexists. split; [reflexivity|]. cbn [fst snd]. split.
    + rewrite zseq_snoc by lia. rewrite fold_left_app. cbn [fold_left]. rewrite <- Ho. unfold G. f_equal.
      unfold row_line. apply fold_left_ext_in. intros a x Hx. apply in_zseq in Hx. cbn beta.
      rewrite Z.eqb_refl. rewrite H0 by lia. reflexivity.
    + eapply CacheSt_ext; [|exact Hs']. intros r cl _ _. cbn beta. destruct (r =? row); [|reflexivity]. lia.
  - destruct r as [o ch]. cbn [fst snd] in Hout, Hst. subst o. exists ch. split; [exact E|].
    eapply CacheSt_ext; [|exact Hst]. intros r cl _ _. cbn beta. destruct (r =? row); [|reflexivity]. lia.
Qed.

(* ---------- Display ---------- *)
Definition display_text (nr nc : Z) (g : Z -> Z -> list text) (ew eh : Z) : text :=
  fold_left (fun o row => grid_block nc (g row) (fun _ => 0) ew eh
                            (fun _ => []) (pad_space TAB_SIZE ++ [ch_lb]) (fun _ => []) (pad_space TAB_SIZE ++ [ch_sp]) o)
            (zseq nr) [ch_lb; ch_nl] ++ [ch_rb].

(* ---------- Debug: the same grid, each cell labelled with pos row col, rows and columns numbered ---------- *)
Definition debug_header (nc ew iw : Z) : text :=
  fold_left (fun out col =>
      out ++ (if col =? 0 then [] else pad_space INTER_GAP) ++ pad_left_dec col iw ++ pad_space INNER_GAP ++ pad_space ew)
      (zseq nc) ([ch_lb; ch_nl] ++ pad_space TAB_SIZE ++ pad_space iw ++ pad_space OUTER_GAP ++ [ch_sp]).
Definition debug_text (nr nc : Z) (g : Z -> Z -> list text) (pos : Z -> Z -> Z) (ew eh iw : Z) : text :=
  fold_left (fun o row => grid_block nc (g row) (pos row) ew eh
                            (fun index => pad_left_dec index iw ++ pad_space INNER_GAP)
                            (pad_space TAB_SIZE ++ pad_left_dec row iw ++ pad_space OUTER_GAP ++ [ch_lb])
                            (fun _ => pad_space iw ++ pad_space INNER_GAP)
                            (pad_space TAB_SIZE ++ pad_space iw ++ pad_space OUTER_GAP ++ [ch_sp]) o)
            (zseq nr) (debug_header nc ew iw ++ [ch_nl]) ++ [ch_rb].

(* the loop over the rows, for either trait *)
Lemma rows_loop_spec m ew eh (label1 : Z -> text) (pre1 : Z -> text) (label2 : Z -> text) (pre2 : text) (hdr : text) :
  Coh c es m ->
  exists cache',
    for_res (zseq (nrows m)) (hdr, build_cache render m) (fun row st =>
      let '(out, cache) := st in
      let* st1 := row_cells c m row ew label1 (out ++ pre1 row, cache) in
      for_res (zseq (eh - 1)) (fst st1 ++ [ch_rb; ch_nl], snd st1) (fun _ st =>
        let '(o, ch) := st in
        let* st2 := row_cells c m row ew label2 (o ++ pre2, ch) in
        Val (fst st2 ++ [ch_nl], snd st2)))
    = Val (fold_left (fun o row => grid_block (ncols m) (lines_at m row) (flat m row) ew eh label1 (pre1 row) label2 pre2 o)
                     (zseq (nrows m)) hdr, cache').
Proof.
  intros HC. destruct (nrows_ncols_size c es m HC) as (_ & Hnr & _).
  set (NL := (1 + Z.to_nat (eh - 1))%nat).
  set (B := fun o row => grid_block (ncols m) (lines_at m row) (flat m row) ew eh label1 (pre1 row) label2 pre2 o).
  destruct (for_res_inv (fun (i : Z) (st : text * list (list text)) =>
                fst st = fold_left B (zseq i) hdr /\ CacheSt m (snd st) (fun r _ => if r <? i then NL else 0%nat))
              (fun row (st : text * list (list text)) => let '(out, cache) := st in
                 let* st1 := row_cells c m row ew label1 (out ++ pre1 row, cache) in
                 for_res (zseq (eh - 1)) (fst st1 ++ [ch_rb; ch_nl], snd st1) (fun _ st =>
                   let '(o, ch) := st in
                   let* st2 := row_cells c m row ew label2 (o ++ pre2, ch) in
                   Val (fst st2 ++ [ch_nl], snd st2)))
              (nrows m) (hdr, build_cache render m) Hnr) as (r & E & Hout & _).
  - split; [reflexivity|]. cbn [snd]. eapply CacheSt_ext; [|apply CacheSt_init; exact HC]. intros r cl Hr _. cbn beta.
    destruct (r <? 0) eqn:B0; [lia|reflexivity].
  - intros row [o ch] Hrow [Ho Hs]. cbn [fst snd] in Ho, Hs.
    destruct (row_block_spec m row ew eh label1 (pre1 row) label2 pre2 o ch _ HC Hrow Hs) as (ch' & Eb & Hs').
    { intros cl _. cbn beta. destruct (row <? row) eqn:B0; [lia|reflexivity]. }
    eexists. split; [exact Eb|]. cbn [fst snd]. split.
    + rewrite zseq_snoc by lia. rewrite fold_left_app. cbn [fold_left]. rewrite <- Ho. reflexivity.
    + eapply CacheSt_ext; [|exact Hs']. intros r cl _ _. cbn beta. unfold NL.
      destruct (r =? row) eqn:B1; destruct (r <? row) eqn:B2; destruct (r <? row + 1) eqn:B3; try reflexivity; exfalso; lia.
  - destruct r as [o ch]. cbn [fst] in Hout. subst o. exists ch. exact E.
Qed.

Theorem display_spec m : Coh c es m -> is_empty m = false ->
  fmt_display_gen c render m =
    Val (display_text (nrows m) (ncols m) (lines_at m) (max_width (build_cache render m)) (max_height (build_cache render m))).
Proof.
  intros HC He. unfold fmt_display_gen. rewrite He. cbv zeta.
  destruct (rows_loop_spec m (max_width (build_cache render m)) (max_height (build_cache render m))
              (fun _ => []) (fun _ => pad_space TAB_SIZE ++ [ch_lb]) (fun _ => []) (pad_space TAB_SIZE ++ [ch_sp]) [ch_lb; ch_nl] HC) as (ch & E).
  match goal with |- bind ?X _ = _ => assert (X = Val (fold_left (fun o row =>
      grid_block (ncols m) (lines_at m row) (flat m row) (max_width (build_cache render m)) (max_height (build_cache render m))
        (fun _ => []) (pad_space TAB_SIZE ++ [ch_lb]) (fun _ => []) (pad_space TAB_SIZE ++ [ch_sp]) o) (zseq (nrows m)) [ch_lb; ch_nl], ch)) as -> by exact E end.
  reflexivity.
Qed.

Theorem debug_spec m : Coh c es m -> is_empty m = false ->
  fmt_debug_gen c render m =
    Val (debug_text (nrows m) (ncols m) (lines_at m) (flat m) (max_width (build_cache render m)) (max_height (build_cache render m))
           (zlen (dec (size m)))).
Proof.
  intros HC He. unfold fmt_debug_gen. rewrite He. cbv zeta.
  set (ew := max_width (build_cache render m)). set (eh := max_height (build_cache render m)). set (iw := zlen (dec (size m))).
  destruct (rows_loop_spec m ew eh
              (fun index => pad_left_dec index iw ++ pad_space INNER_GAP)
              (fun row => pad_space TAB_SIZE ++ pad_left_dec row iw ++ pad_space OUTER_GAP ++ [ch_lb])
              (fun _ => pad_space iw ++ pad_space INNER_GAP)
              (pad_space TAB_SIZE ++ pad_space iw ++ pad_space OUTER_GAP ++ [ch_sp])
              (debug_header (ncols m) ew iw ++ [ch_nl]) HC) as (ch & E).
  match goal with |- bind ?X _ = _ => assert (X = Val (fold_left (fun o row =>
      grid_block (ncols m) (lines_at m row) (flat m row) ew eh
        (fun index => pad_left_dec index iw ++ pad_space INNER_GAP)
        (pad_space TAB_SIZE ++ pad_left_dec row iw ++ pad_space OUTER_GAP ++ [ch_lb])
        (fun _ => pad_space iw ++ pad_space INNER_GAP)
        (pad_space TAB_SIZE ++ pad_space iw ++ pad_space OUTER_GAP ++ [ch_sp]) o) (zseq (nrows m)) (debug_header (ncols m) ew iw ++ [ch_nl]), ch)) as -> by exact E end.
  reflexivity.
Qed.

(* ---------- Display does not depend on the storage order ---------- *)
Lemma row_line_ext nc g g' pos k ew label lead : (forall cl, 0 <= cl < nc -> g cl = g' cl) ->
  row_line nc g pos k ew label lead = row_line nc g' pos k ew label lead.
Proof. intros H. unfold row_line. apply fold_left_ext_in. intros a x Hx. apply in_zseq in Hx. now rewrite H. Qed.

Lemma grid_block_ext nc g g' pos ew eh label1 pre1 label2 pre2 out : (forall cl, 0 <= cl < nc -> g cl = g' cl) ->
  grid_block nc g pos ew eh label1 pre1 label2 pre2 out = grid_block nc g' pos ew eh label1 pre1 label2 pre2 out.
Proof.
  intros H. unfold grid_block. rewrite (row_line_ext nc g g') by exact H.
  apply fold_left_ext_in. intros a x _. now rewrite (row_line_ext nc g g') by exact H.
Qed.

Lemma display_text_ext nr nc g g' ew eh : (forall r cl, 0 <= r < nr -> 0 <= cl < nc -> g r cl = g' r cl) ->
  display_text nr nc g ew eh = display_text nr nc g' ew eh.
Proof.
  intros H. unfold display_text. f_equal. apply fold_left_ext_in. intros a x Hx. apply in_zseq in Hx.
  apply grid_block_ext. intros cl Hc. now apply H.
Qed.

Lemma fold_max_ge l a : a <= fold_left Z.max l a.
Proof. revert a. induction l as [|x l IH]; intros a; cbn; [lia|]. specialize (IH (Z.max a x)). lia. Qed.
Lemma fold_max_in l a x : In x l -> x <= fold_left Z.max l a.
Proof.
  revert a. induction l as [|y l IH]; intros a H; cbn; [contradiction|]. destruct H as [->|H].
  - pose proof (fold_max_ge l (Z.max a x)). lia.
  - now apply IH.
Qed.
Lemma fold_max_is l a : fold_left Z.max l a = a \/ In (fold_left Z.max l a) l.
Proof.
  revert a. induction l as [|y l IH]; intros a; cbn; [now left|]. destruct (IH (Z.max a y)) as [E|H].
  - rewrite E. destruct (Z.max_spec a y) as [[_ ->]|[_ ->]]; auto.
  - now right; right.
Qed.
Lemma fold_max_same l1 l2 : (forall x, In x l1 <-> In x l2) -> fold_left Z.max l1 0 = fold_left Z.max l2 0.
Proof.
  intros H. apply Z.le_antisymm.
  - destruct (fold_max_is l1 0) as [->|Hi]; [apply fold_max_ge|]. apply fold_max_in. now apply H.
  - destruct (fold_max_is l2 0) as [->|Hi]; [apply fold_max_ge|]. apply fold_max_in. now apply H.
Qed.

Lemma flat_surjective m i : Coh c es m -> 0 <= i < size m ->
  exists r cl, 0 <= r < nrows m /\ 0 <= cl < ncols m /\ flat m r cl = i.
Proof.
  unfold Coh, nrows, ncols, flat, mmajor, mminor. intros (H1 & H2 & H3 & _) Hi.
  assert (0 < minor (m_shape m)) as Hpos by nia.
  pose proof (Z.div_mod i (minor (m_shape m)) ltac:(lia)) as Hdm.
  pose proof (Z.mod_pos_bound i (minor (m_shape m)) Hpos) as Hmb.
  assert (0 <= i / minor (m_shape m) < major (m_shape m)) as Hq.
  { split; [apply Z.div_pos; lia|]. apply Z.div_lt_upper_bound; [lia|]. nia. }
  destruct (m_order m); cbn.
  - exists (i / minor (m_shape m)), (i mod minor (m_shape m)). repeat split; try lia.
  - exists (i mod minor (m_shape m)), (i / minor (m_shape m)). repeat split; try lia.
Qed.

Lemma In_znth {T} (l : list T) e : In e l -> exists i, 0 <= i < zlen l /\ znth_opt i l = Some e.
Proof.
  intros H. apply In_nth_error in H. destruct H as [n E]. exists (Z.of_nat n).
  pose proof (nth_error_Some l n) as Hs. rewrite E in Hs. assert (n < length l)%nat by (apply Hs; congruence).
  unfold zlen, znth_opt. split; [lia|]. destruct (Z.of_nat n <? 0) eqn:B; [lia|]. now rewrite Nat2Z.id.
Qed.
Lemma znth_In {T} (l : list T) i e : znth_opt i l = Some e -> In e l.
Proof. unfold znth_opt. destruct (i <? 0); [discriminate|]. apply nth_error_In. Qed.

Definition same_grid m1 m2 : Prop :=
  nrows m1 = nrows m2 /\ ncols m1 = ncols m2 /\
  forall r cl, 0 <= r < nrows m1 -> 0 <= cl < ncols m1 -> at_ m1 r cl = at_ m2 r cl.

Lemma same_grid_sym m1 m2 : same_grid m1 m2 -> same_grid m2 m1.
Proof. intros (H1 & H2 & H3). repeat split; try congruence. intros r cl Hr Hc. symmetry. apply H3; congruence. Qed.

Lemma same_grid_In m1 m2 e : Coh c es m1 -> Coh c es m2 -> same_grid m1 m2 -> In e (m_data m1) -> In e (m_data m2).
Proof.
  intros HC1 HC2 (Hnr & Hnc & Hat) Hin. destruct (In_znth _ _ Hin) as (i & Hi & E).
  destruct (flat_surjective m1 i HC1 Hi) as (r & cl & Hr & Hc & Hf). subst i.
  specialize (Hat r cl Hr Hc). unfold at_ in Hat. rewrite E in Hat. symmetry in Hat. exact (znth_In _ _ _ Hat).
Qed.

Lemma same_grid_size m1 m2 : Coh c es m1 -> Coh c es m2 -> same_grid m1 m2 -> size m1 = size m2.
Proof.
  intros HC1 HC2 (Hnr & Hnc & _).
  destruct (nrows_ncols_size c es m1 HC1) as (<- & _). destruct (nrows_ncols_size c es m2 HC2) as (<- & _). congruence.
Qed.

Lemma same_grid_metric (w : list text -> Z) m1 m2 : Coh c es m1 -> Coh c es m2 -> same_grid m1 m2 ->
  fold_left Z.max (map w (build_cache render m1)) 0 = fold_left Z.max (map w (build_cache render m2)) 0.
Proof.
  intros HC1 HC2 HG. apply fold_max_same. intros x. unfold build_cache. rewrite !map_map, !in_map_iff.
  split; intros (e & <- & Hin); exists e; (split; [reflexivity|]).
  - exact (same_grid_In m1 m2 e HC1 HC2 HG Hin).
  - exact (same_grid_In m2 m1 e HC2 HC1 (same_grid_sym _ _ HG) Hin).
Qed.

Theorem display_order_transparent m1 m2 : Coh c es m1 -> Coh c es m2 -> same_grid m1 m2 ->
  fmt_display_gen c render m1 = fmt_display_gen c render m2.
Proof.
  intros HC1 HC2 HG. pose proof (same_grid_size m1 m2 HC1 HC2 HG) as Hs.
  destruct (is_empty m1) eqn:He1.
  - assert (is_empty m2 = true) as He2 by (unfold is_empty in *; lia).
    unfold fmt_display_gen. now rewrite He1, He2.
  - assert (is_empty m2 = false) as He2 by (unfold is_empty in *; lia).
    rewrite (display_spec m1 HC1 He1), (display_spec m2 HC2 He2). f_equal.
    unfold max_width, max_height. rewrite (same_grid_metric width_of m1 m2 HC1 HC2 HG), (same_grid_metric height_of m1 m2 HC1 HC2 HG).
    destruct HG as (Hnr & Hnc & Hat). rewrite <- Hnr, <- Hnc. apply display_text_ext. intros r cl Hr Hc.
    unfold lines_at. now rewrite Hat.
Qed.

(* ---------- single-line renderings: one bracketed line per row, cells in column order, equal widths ---------- *)
Lemma fold_app_concat {T} (f : Z -> list T) l a : fold_left (fun o x => o ++ f x) l a = a ++ concat (map f l).
Proof. revert a. induction l as [|x l IH]; intros a; cbn; [now rewrite app_nil_r|]. now rewrite IH, app_assoc. Qed.

Lemma row_line_lead nc g pos k ew label lead :
  row_line nc g pos k ew label lead = lead ++ concat (map (fun col => sep col ++ label (pos col) ++ cell_line (g col) k ew) (zseq nc)).
Proof. unfold row_line. apply fold_app_concat. Qed.

(* the cells of one row, for renderings with exactly one line: the line of each column, padded to the common width *)
Definition single_line m (r cl : Z) : text := match lines_at m r cl with x :: _ => x | [] => [] end.
Definition row_cells_text m (row ew : Z) : text :=
  concat (map (fun col => sep col ++ pad_right (single_line m row col) ew) (zseq (ncols m))).

Lemma zlen_pad_space w : zlen (pad_space w) = Z.max w 1.
Proof. unfold pad_space, zlen, zrepeat. rewrite repeat_length. lia. Qed.
Lemma zlen_pad_right l w : zlen l <= w -> zlen (pad_right l w) = w.
Proof. intros H. unfold pad_right, zrepeat, zlen in *. rewrite app_length, repeat_length. lia. Qed.

Lemma width_of_ge ls l : In l ls -> zlen l <= width_of ls.
Proof. intros H. unfold width_of. apply fold_max_in. apply in_map_iff. now exists l. Qed.

Lemma max_width_ge m r cl l : Coh c es m -> 0 <= r < nrows m -> 0 <= cl < ncols m -> In l (lines_at m r cl) ->
  zlen l <= max_width (build_cache render m).
Proof.
  intros HC Hr Hc Hin. unfold lines_at in Hin. destruct (at_ m r cl) as [e|] eqn:E; [|contradiction].
  unfold max_width. etransitivity; [apply (width_of_ge _ _ Hin)|]. apply fold_max_in. unfold build_cache. rewrite map_map.
  apply in_map_iff. exists e. split; [reflexivity|]. unfold at_ in E. exact (znth_In _ _ _ E).
Qed.

Lemma zlen_concat_cells (f : Z -> text) w j : 0 <= j -> (forall col, 0 <= col < j -> zlen (f col) = w) ->
  zlen (concat (map (fun col => sep col ++ f col) (zseq j))) = j * w + INTER_GAP * Z.max 0 (j - 1).
Proof.
  intros Hj. pattern j. apply natlike_ind; [| |exact Hj].
  - intros _. reflexivity.
  - intros x Hx IH H. unfold Z.succ. rewrite zseq_snoc by lia. rewrite map_app, concat_app. cbn [map concat]. rewrite app_nil_r.
    rewrite !zlen_app2. rewrite IH by (intros col Hc; apply H; lia). rewrite H by lia. unfold sep.
    destruct (x =? 0) eqn:B.
    + assert (x = 0) by lia. subst x. unfold INTER_GAP. change (zlen (@nil Z)) with 0. lia.
    + rewrite zlen_pad_space. unfold INTER_GAP. lia.
Qed.

Theorem display_single_line m : Coh c es m -> is_empty m = false ->
  (forall r cl, 0 <= r < nrows m -> 0 <= cl < ncols m -> exists x, lines_at m r cl = [x]) ->
  let ew := max_width (build_cache render m) in
  fmt_display_gen c render m =
    Val ([ch_lb; ch_nl] ++
         concat (map (fun row => pad_space TAB_SIZE ++ [ch_lb] ++ row_cells_text m row ew ++ [ch_rb; ch_nl]) (zseq (nrows m))) ++
         [ch_rb]) /\
  forall row, 0 <= row < nrows m -> zlen (row_cells_text m row ew) = ncols m * ew + INTER_GAP * (ncols m - 1).
Proof.
  intros HC He H1 ew. destruct (nrows_ncols_size c es m HC) as (Hsz & Hnr & Hnc).
  assert (size m > 0) as Hpos by (unfold is_empty, size, zlen in *; lia).
  assert (0 < nrows m /\ 0 < ncols m) as [Hr0 Hc0] by nia.
  split.
  - rewrite (display_spec m HC He). f_equal. fold ew.
    assert (max_height (build_cache render m) = 1) as ->.
    { unfold max_height. apply Z.le_antisymm.
      - destruct (fold_max_is (map height_of (build_cache render m)) 0) as [->|Hi]; [lia|].
        apply in_map_iff in Hi. destruct Hi as (ls & <- & Hin). unfold build_cache in Hin. apply in_map_iff in Hin.
        destruct Hin as (e & <- & Hin). destruct (In_znth _ _ Hin) as (i & Hi & E).
        destruct (flat_surjective m i HC Hi) as (r & cl & Hr & Hc & Hf). subst i.
        destruct (H1 r cl Hr Hc) as [x Hx]. unfold lines_at, at_ in Hx. rewrite E in Hx. rewrite Hx. reflexivity.
      - destruct (at_in_range c es m 0 0 HC ltac:(lia) ltac:(lia)) as [e E].
        destruct (H1 0 0 ltac:(lia) ltac:(lia)) as [x Hx]. unfold lines_at in Hx. rewrite E in Hx.
        apply (fold_max_in _ 0 1). apply in_map_iff. exists [x]. split; [reflexivity|]. unfold build_cache. apply in_map_iff.
        exists e. split; [exact Hx|]. unfold at_ in E. exact (znth_In _ _ _ E). }
    unfold display_text. rewrite app_assoc. rewrite <- (fold_app_concat (fun row => pad_space TAB_SIZE ++ [ch_lb] ++ row_cells_text m row ew ++ [ch_rb; ch_nl])).
    f_equal. apply fold_left_ext_in. intros a row Hrow. apply in_zseq in Hrow.
    unfold grid_block. replace (zseq (1 - 1)) with (@nil Z) by reflexivity. cbn [fold_left].
    rewrite row_line_lead. rewrite <- !app_assoc. do 3 f_equal. unfold row_cells_text. f_equal.
    f_equal. apply map_ext_in. intros col Hcol. apply in_zseq in Hcol. cbn [app]. f_equal.
    unfold cell_line, single_line. destruct (H1 row col Hrow Hcol) as [x ->]. reflexivity.
  - intros row Hrow. unfold row_cells_text. rewrite zlen_concat_cells with (w := ew); [unfold INTER_GAP; lia|lia|].
    intros col Hcol. apply zlen_pad_right. unfold single_line. destruct (H1 row col Hrow Hcol) as [x Hx]. rewrite Hx.
    apply (max_width_ge m row col x HC Hrow Hcol). rewrite Hx. now left.
Qed.

(* all renderings single-line: the common height is 1 *)
Lemma single_line_height m : Coh c es m -> is_empty m = false ->
  (forall r cl, 0 <= r < nrows m -> 0 <= cl < ncols m -> exists x, lines_at m r cl = [x]) ->
  max_height (build_cache render m) = 1.
Proof.
  intros HC He H1. destruct (nrows_ncols_size c es m HC) as (Hsz & Hnr & Hnc).
  assert (size m > 0) as Hpos by (unfold is_empty, size, zlen in *; lia).
  assert (0 < nrows m /\ 0 < ncols m) as [Hr0 Hc0] by nia.
  unfold max_height. apply Z.le_antisymm.
  - destruct (fold_max_is (map height_of (build_cache render m)) 0) as [->|Hi]; [lia|].
    apply in_map_iff in Hi. destruct Hi as (ls & <- & Hin). unfold build_cache in Hin. apply in_map_iff in Hin.
    destruct Hin as (e & <- & Hin). destruct (In_znth _ _ Hin) as (i & Hi & E).
    destruct (flat_surjective m i HC Hi) as (r & cl & Hr & Hc & Hf). subst i.
    destruct (H1 r cl Hr Hc) as [x Hx]. unfold lines_at, at_ in Hx. rewrite E in Hx. rewrite Hx. reflexivity.
  - destruct (at_in_range c es m 0 0 HC ltac:(lia) ltac:(lia)) as [e E].
    destruct (H1 0 0 ltac:(lia) ltac:(lia)) as [x Hx]. unfold lines_at in Hx. rewrite E in Hx.
    apply (fold_max_in _ 0 1). apply in_map_iff. exists [x]. split; [reflexivity|]. unfold build_cache. apply in_map_iff.
    exists e. split; [exact Hx|]. unfold at_ in E. exact (znth_In _ _ _ E).
Qed.

(* Debug for single-line renderings: the header with the column numbers, then one line per logical row: the row number,
   "[", and for each column in order the memory position of the element followed by its rendering padded to the common
   width, "]" *)
Definition debug_cells_text m (row ew iw : Z) : text :=
  concat (map (fun col => sep col ++ (pad_left_dec (flat m row col) iw ++ pad_space INNER_GAP) ++ pad_right (single_line m row col) ew)
              (zseq (ncols m))).

Theorem debug_single_line m : Coh c es m -> is_empty m = false ->
  (forall r cl, 0 <= r < nrows m -> 0 <= cl < ncols m -> exists x, lines_at m r cl = [x]) ->
  let ew := max_width (build_cache render m) in
  let iw := zlen (dec (size m)) in
  fmt_debug_gen c render m =
    Val ((debug_header (ncols m) ew iw ++ [ch_nl]) ++
         concat (map (fun row => (pad_space TAB_SIZE ++ pad_left_dec row iw ++ pad_space OUTER_GAP ++ [ch_lb]) ++
                                 debug_cells_text m row ew iw ++ [ch_rb; ch_nl]) (zseq (nrows m))) ++
         [ch_rb]).
Proof.
  intros HC He H1 ew iw. rewrite (debug_spec m HC He). f_equal. fold ew iw.
  rewrite (single_line_height m HC He H1). unfold debug_text. rewrite (app_assoc (debug_header (ncols m) ew iw ++ [ch_nl])).
  rewrite <- (fold_app_concat (fun row => (pad_space TAB_SIZE ++ pad_left_dec row iw ++ pad_space OUTER_GAP ++ [ch_lb]) ++
                                           debug_cells_text m row ew iw ++ [ch_rb; ch_nl])).
  f_equal. apply fold_left_ext_in. intros a row Hrow. apply in_zseq in Hrow.
  unfold grid_block. replace (zseq (1 - 1)) with (@nil Z) by reflexivity. cbn [fold_left].
  rewrite row_line_lead. rewrite <- !app_assoc. do 5 f_equal. unfold debug_cells_text. f_equal. f_equal.
  apply map_ext_in. intros col Hcol. apply in_zseq in Hcol. do 2 f_equal.
  unfold cell_line, single_line. destruct (H1 row col Hrow Hcol) as [x ->]. reflexivity.
Qed.

(* ---------- Debug, single-line renderings: all row lines are equally wide ---------- *)
Lemma dec_aux_len_ge fuel : forall n acc, zlen acc <= zlen (dec_aux fuel n acc).
Proof.
  induction fuel as [|f IH]; intros n acc; cbn [dec_aux]; [lia|].
  destruct (n / 10 =? 0).
  - unfold zlen. cbn [length]. lia.
  - specialize (IH (n / 10) ((48 + n mod 10) :: acc)). unfold zlen in *. cbn [length] in IH. lia.
Qed.
Lemma dec_aux_mono fuel : forall a b acc1 acc2, 0 <= a <= b -> zlen acc1 = zlen acc2 ->
  zlen (dec_aux fuel a acc1) <= zlen (dec_aux fuel b acc2).
Proof.
  induction fuel as [|f IH]; intros a b acc1 acc2 Hab Hl; cbn [dec_aux]; [lia|].
  assert (zlen ((48 + a mod 10) :: acc1) = zlen ((48 + b mod 10) :: acc2)) as Hl' by (unfold zlen in *; cbn [length]; lia).
  assert (0 <= a / 10 <= b / 10) as Hd by (split; [apply Z.div_pos; lia|apply Z.div_le_mono; lia]).
  destruct (a / 10 =? 0) eqn:Ea.
  - destruct (b / 10 =? 0); [lia|]. rewrite Hl'. apply dec_aux_len_ge.
  - destruct (b / 10 =? 0) eqn:Eb; [lia|]. apply IH; assumption.
Qed.
Lemma dec_len_mono a b : 0 <= a <= b -> zlen (dec a) <= zlen (dec b).
Proof.
  intros H. unfold dec. destruct (a <? 0) eqn:Ea; [lia|]. destruct (b <? 0) eqn:Eb; [lia|].
  apply dec_aux_mono; [lia|reflexivity].
Qed.
Lemma zlen_pad_left_dec n w : zlen (dec n) <= w -> zlen (pad_left_dec n w) = w.
Proof. intros H. unfold pad_left_dec, zrepeat, zlen in *. rewrite app_length, repeat_length. lia. Qed.

Lemma zlen_concat_cells' (f : Z -> text) w j : 0 <= j -> (forall col, 0 <= col < j -> zlen (f col) = w) ->
  zlen (concat (map (fun col => sep col ++ f col) (zseq j))) = j * w + INTER_GAP * Z.max 0 (j - 1).
Proof. exact (zlen_concat_cells f w j). Qed.

Theorem debug_single_line_widths m : Coh c es m -> is_empty m = false ->
  (forall r cl, 0 <= r < nrows m -> 0 <= cl < ncols m -> exists x, lines_at m r cl = [x]) ->
  let ew := max_width (build_cache render m) in
  let iw := zlen (dec (size m)) in
  forall row, 0 <= row < nrows m ->
    zlen (pad_left_dec row iw) = iw /\
    zlen (debug_cells_text m row ew iw) = ncols m * (iw + Z.max INNER_GAP 1 + ew) + INTER_GAP * (ncols m - 1).
Proof.
  intros HC He H1 ew iw row Hrow. destruct (nrows_ncols_size c es m HC) as (Hsz & Hnr & Hnc).
  assert (0 < ncols m) as Hc0 by (unfold is_empty, size, zlen in *; nia).
  split.
  - apply zlen_pad_left_dec. apply dec_len_mono. nia.
  - unfold debug_cells_text.
    rewrite (zlen_concat_cells (fun col => (pad_left_dec (flat m row col) iw ++ pad_space INNER_GAP) ++ pad_right (single_line m row col) ew)
               (iw + Z.max INNER_GAP 1 + ew) (ncols m) Hnc).
    + unfold INTER_GAP. lia.
    + intros col Hcol. rewrite !zlen_app2, zlen_pad_space.
      rewrite zlen_pad_left_dec by (apply dec_len_mono; pose proof (flat_in_range c es m row col HC Hrow Hcol); lia).
      rewrite zlen_pad_right; [lia|]. unfold single_line. destruct (H1 row col Hrow Hcol) as [x Hx]. rewrite Hx.
      apply (max_width_ge m row col x HC Hrow Hcol). rewrite Hx. now left.
Qed.
End FmtSpec.
