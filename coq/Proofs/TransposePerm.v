(* Feasibility prototype (design round): the successor map used by Matrix::transpose
   (src/lib.rs:287-289:  AxisIndex::from_flattened(current, old_shape).swap().to_flattened(new_shape))
   is a bijection of 0..r*c, so CycleFollowing.cycle_following_correct applies, and the result is the
   transposed layout: new[j*r + i] = old[i*c + j].  The same map is the cross-order remap of eq.rs and
   arithmetic.rs (C07, C12). *)
From Coq Require Import Arith Lia List.
From Matreex Require Import Proofs.CycleFollowing.

Section T.
Variables r c : nat.          (* old shape: major = r, minor = c *)
Hypothesis Hr : 0 < r.
Hypothesis Hc : 0 < c.

(* from_flattened x (r,c) = (x / c, x mod c); swap; to_flattened (.., (c,r)) = (x mod c) * r + x / c *)
Definition succ (x : nat) : nat := (x mod c) * r + x / c.

Lemma succ_range x : x < r * c -> succ x < r * c.
Proof.
  intros Hx. unfold succ.
  assert (x mod c < c) by (apply Nat.mod_upper_bound; lia).
  assert (x / c < r) by (apply Nat.div_lt_upper_bound; lia).
  nia.
Qed.

Lemma succ_inj x y : x < r * c -> y < r * c -> succ x = succ y -> x = y.
Proof.
  intros Hx Hy E. unfold succ in E.
  assert (Bx : x / c < r) by (apply Nat.div_lt_upper_bound; lia).
  assert (By : y / c < r) by (apply Nat.div_lt_upper_bound; lia).
  destruct (Nat.div_mod_unique r (x mod c) (y mod c) (x / c) (y / c) Bx By) as [E1 E2]; [lia|].
  rewrite (Nat.div_mod x c), (Nat.div_mod y c) by lia. congruence.
Qed.

Lemma succ_at i j : i < r -> j < c -> succ (i * c + j) = j * r + i.
Proof.
  intros Hi Hj. unfold succ.
  replace (i * c + j) with (j + i * c) by lia.
  rewrite Nat.mod_add by lia. rewrite Nat.mod_small by lia.
  rewrite Nat.div_add by lia. rewrite Nat.div_small by lia. lia.
Qed.

(* transpose = cycle-following with this successor: every element lands at the transposed flat index *)
Theorem transpose_core (A : Type) (a0 : nat -> A) :
  exists v a, outer A (r * c) succ (r * c) (fun _ => false) a0 = Some (v, a) /\
    forall i j, i < r -> j < c -> a (j * r + i) = a0 (i * c + j).
Proof.
  destruct (cycle_following_correct A (r * c) succ succ_range succ_inj a0) as (v & a & E & H).
  exists v, a. split; [exact E|]. intros i j Hi Hj.
  rewrite <- (succ_at i j Hi Hj). apply H. nia.
Qed.
End T.
