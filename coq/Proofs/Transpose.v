(* C05: Matrix::transpose (src/lib.rs, cycle following with a visited bitmap) on the list model is the
   exact transpose for every coherent shape: it terminates within its fuel, never leaves the buffer,
   and puts the element of axis position (i, j) at axis position (j, i) of the transposed shape. *)
From Matreex Require Import Model.Ops Proofs.ListFacts Proofs.CycleFollowing Proofs.TransposePerm.
From Coq Require Import Permutation.

Section Transpose.
Context {A : Type}.
Variable c : cfg.
Variable es : Z.

(* ---------- the successor map computed by the kernel is TransposePerm.succ ---------- *)
Lemma remap_is_succ (M m x : Z) : 0 < M -> 0 < m -> M * m <= umax c -> 0 <= x < M * m ->
  remap c x (mkAxisShape M m) (mkAxisShape m M) = Val ((x mod m) * M + x / m) /\
  0 <= (x mod m) * M + x / m < M * m.
Proof.
  intros HM Hm Hmax Hx.
  pose proof (Z.mod_pos_bound x m Hm). assert (0 <= x / m < M) by (split; [apply Z.div_pos; lia | apply Z.div_lt_upper_bound; lia]).
  assert (0 <= x mod m * M + x / m < M * m) by nia.
  split; [|assumption].
  unfold remap, AxisIndex_from_flattened, AxisIndex_to_flattened, AxisIndex_swap, AxisShape_major_stride, AxisShape_minor_stride.
  cbn [major minor ai_major ai_minor].
  rewrite udiv_val, urem_val by lia. cbn [bind]. rewrite udiv_val by lia. cbn [bind ai_major ai_minor].
  rewrite Z.div_1_r. rewrite umul_val by nia. cbn [bind]. rewrite umul_val by nia. cbn [bind].
  rewrite uadd_val by nia. f_equal. lia.
Qed.

Lemma succ_of_Z (M m : Z) (x : nat) : 0 < M -> 0 < m ->
  Z.of_nat (succ (Z.to_nat M) (Z.to_nat m) x) = (Z.of_nat x mod m) * M + Z.of_nat x / m.
Proof.
  intros HM Hm. unfold succ.
  rewrite Nat2Z.inj_add, Nat2Z.inj_mul, Nat2Z.inj_mod, Nat2Z.inj_div.
  rewrite (Z2Nat.id m). 2: lia. rewrite (Z2Nat.id M). 2: lia. reflexivity.
Qed.

(* ---------- representation of the list state by the function state of the generic algorithm ---------- *)
Definition Rep (n : nat) (vis : list bool) (a : list A) (v : nat -> bool) (f : nat -> option A) : Prop :=
  length vis = n /\ length a = n /\
  (forall x, (x < n)%nat -> nth_error vis x = Some (v x)) /\
  (forall x, (x < n)%nat -> nth_error a x = f x).

Lemma znth_nat {X} (l : list X) (x : nat) : znth_opt (Z.of_nat x) l = nth_error l x.
Proof. unfold znth_opt. destruct (Z.of_nat x <? 0) eqn:E; [exfalso; lia|]. now rewrite Nat2Z.id. Qed.

Lemma Rep_upd_vis n vis a v f cur : Rep n vis a v f -> (cur < n)%nat ->
  Rep n (zupd vis (Z.of_nat cur) true) a (upd v cur true) f.
Proof.
  intros (Hv & Ha & H1 & H2) Hc. repeat split; auto.
  - now rewrite length_zupd.
  - intros x Hx. rewrite <- znth_nat. rewrite znth_opt_zupd by (unfold zlen; lia).
    unfold upd. destruct (Nat.eqb_spec x cur) as [->|Hne].
    + now rewrite Z.eqb_refl.
    + assert (Z.of_nat x =? Z.of_nat cur = false) as -> by lia. rewrite znth_nat. auto.
Qed.

Lemma Rep_swap n vis a v f i j : Rep n vis a v f -> (i < n)%nat -> (j < n)%nat ->
  exists a', ptr_swap a (Z.of_nat i) (Z.of_nat j) = Val a' /\ Rep n vis a' v (swp (option A) f i j).
Proof.
  intros (Hv & Ha & H1 & H2) Hi Hj.
  destruct (ptr_swap_ok a (Z.of_nat i) (Z.of_nat j)) as (a' & E & Hlen & Hnth); [unfold zlen; lia..|].
  exists a'. split; [exact E|]. repeat split; auto.
  - unfold zlen in Hlen. lia.
  - intros x Hx. rewrite <- znth_nat, Hnth. unfold swp, upd.
    destruct (Nat.eqb_spec x j) as [->|Hnj].
    + rewrite Z.eqb_refl. rewrite znth_nat. auto.
    + assert (Z.of_nat x =? Z.of_nat j = false) as -> by lia.
      destruct (Nat.eqb_spec x i) as [->|Hni].
      * rewrite Z.eqb_refl, znth_nat. auto.
      * assert (Z.of_nat x =? Z.of_nat i = false) as -> by lia. rewrite znth_nat. auto.
Qed.

Section Shape.
Variables M m : Z.
Hypothesis HM : 0 < M.
Hypothesis Hm : 0 < m.
Hypothesis Hmax : M * m <= umax c.
Let n : nat := Z.to_nat (M * m).
Let p : nat -> nat := succ (Z.to_nat M) (Z.to_nat m).
Let old := mkAxisShape M m.
Let new := mkAxisShape m M.

Lemma n_eq : Z.of_nat n = M * m.
Proof. unfold n. rewrite Z2Nat.id; nia. Qed.
Lemma n_nat : n = (Z.to_nat M * Z.to_nat m)%nat.
Proof. unfold n. rewrite Z2Nat.inj_mul; lia. Qed.

Lemma p_range x : (x < n)%nat -> (p x < n)%nat.
Proof. intros H. unfold p. rewrite n_nat in *. apply succ_range; lia. Qed.

Lemma remap_p x : (x < n)%nat -> remap c (Z.of_nat x) old new = Val (Z.of_nat (p x)).
Proof.
  intros H. pose proof n_eq. destruct (remap_is_succ M m (Z.of_nat x) HM Hm Hmax) as [E _]; [lia|].
  unfold old, new, p. rewrite E, succ_of_Z by lia. reflexivity.
Qed.

(* the inner `loop` of the list model simulates the generic one *)
Lemma tr_inner_sim : forall fuel index cur vis a v f v' f',
  Rep n vis a v f -> (index < n)%nat -> (cur < n)%nat ->
  inner (option A) p fuel index cur v f = Some (v', f') ->
  exists vis' a', tr_inner c fuel old new (Z.of_nat index) (Z.of_nat cur) vis a = Val (vis', a') /\ Rep n vis' a' v' f'.
Proof.
  induction fuel as [|fuel IH]; intros index cur vis a v f v' f' HR Hi Hc E; [discriminate|].
  cbn [inner] in E. cbn [tr_inner].
  destruct HR as (Hv & Ha & H1 & H2). rewrite znth_nat, (H1 cur Hc).
  destruct (v cur) eqn:Evc.
  - injection E as <- <-. exists vis, a. split; [reflexivity|]. repeat split; auto.
  - rewrite (remap_p cur Hc). cbn [bind].
    assert (Rep n vis a v f) as HR by (repeat split; auto).
    destruct (Rep_swap n (zupd vis (Z.of_nat cur) true) a (upd v cur true) f index (p cur)) as (a' & Es & HR').
    { apply Rep_upd_vis; auto. } { exact Hi. } { apply p_range, Hc. }
    rewrite Es. cbn [bind]. eapply IH; eauto. apply p_range, Hc.
Qed.

(* the outer `for index in 0..size` *)
Lemma tr_outer_sim (data : list A) : length data = n ->
  forall k, (k <= n)%nat -> forall v f,
  outer (option A) n p k (fun _ => false) (fun x => nth_error data x) = Some (v, f) ->
  exists vis a, for_res (map Z.of_nat (seq 0 k)) (repeat false n, data)
                  (fun index va => tr_inner c (S n) old new index index (fst va) (snd va)) = Val (vis, a) /\ Rep n vis a v f.
Proof.
  intros Hlen. induction k as [|k IH]; intros Hk v f E.
  - cbn in E. injection E as <- <-. cbn. exists (repeat false n), data. split; [reflexivity|].
    repeat split; auto.
    + apply repeat_length.
    + intros x Hx. rewrite nth_error_repeat by lia. reflexivity.
  - cbn [outer] in E. destruct (outer (option A) n p k (fun _ => false) (fun x => nth_error data x)) as [[v1 f1]|] eqn:E1; [|discriminate].
    destruct (IH ltac:(lia) v1 f1 eq_refl) as (vis1 & a1 & Ef & HR1).
    rewrite seq_S, map_app. cbn [map Nat.add].
    assert (forall (l1 l2 : list Z) (s : list bool * list A) body, for_res (l1 ++ l2) s body =
              let* s' := for_res l1 s body in for_res l2 s' body) as for_app.
    { clear. induction l1 as [|x l1 IHl]; intros l2 s body; cbn; [reflexivity|].
      destruct (body x s); cbn; auto. }
    rewrite for_app, Ef. cbn [bind for_res fst snd].
    destruct (tr_inner_sim (S n) k k vis1 a1 v1 f1 v f HR1 ltac:(lia) ltac:(lia) E) as (vis' & a' & Et & HR').
    rewrite Et. cbn [bind]. exists vis', a'. split; [reflexivity|exact HR'].
Qed.

Theorem transpose_data (data : list A) : zlen data = M * m ->
  exists vis a, for_res (zseq (M * m)) (repeat false (length data), data)
                  (fun index va => tr_inner c (S (length data)) old new index index (fst va) (snd va)) = Val (vis, a) /\
    zlen a = M * m /\
    forall i j, 0 <= i < M -> 0 <= j < m -> znth_opt (j * M + i) a = znth_opt (i * m + j) data.
Proof.
  intros Hlen. assert (length data = n) as Hn by (unfold n, zlen in *; lia).
  destruct (transpose_core (Z.to_nat M) (Z.to_nat m) ltac:(lia) ltac:(lia) (option A) (fun x => nth_error data x)) as (v & f & E & Hf).
  fold p in E. rewrite <- n_nat in E.
  destruct (tr_outer_sim data Hn n (le_n n) v f E) as (vis & a & Ef & (_ & Ha & _ & H2)).
  exists vis, a. rewrite Hn. unfold zseq. fold n. split; [exact Ef|]. split; [unfold zlen; rewrite Ha; apply n_eq|].
  intros i j Hi Hj.
  assert (0 <= j * M + i < M * m) by nia. assert (0 <= i * m + j < M * m) by nia.
  replace (j * M + i) with (Z.of_nat (Z.to_nat j * Z.to_nat M + Z.to_nat i)) by nia.
  replace (i * m + j) with (Z.of_nat (Z.to_nat i * Z.to_nat m + Z.to_nat j)) by nia.
  rewrite !znth_nat. rewrite H2 by (pose proof n_eq; nia). apply Hf; lia.
Qed.
End Shape.

(* ---------- the operation ---------- *)
Implicit Types mx : matrix A.

Theorem transpose_spec mx : Coh c es mx -> 0 < es ->
  exists d, transpose c es mx = Val (mkMatrix (m_order mx) (AxisShape_transpose (m_shape mx)) d) /\
    zlen d = size mx /\
    forall i j, 0 <= i < mmajor mx -> 0 <= j < mminor mx ->
      znth_opt (j * mmajor mx + i) d = znth_opt (i * mminor mx + j) (m_data mx).
Proof.
  intros (H1 & H2 & H3 & H4 & _) Hes. unfold transpose. assert (es =? 0 = false) as -> by lia.
  unfold mmajor, mminor in *. destruct (m_shape mx) as [M m] eqn:Esh. cbn [major minor] in *.
  destruct (Z.eq_dec (size mx) 0) as [E0|Hne].
  - (* no elements: the loop does not run *)
    replace (zseq (size mx)) with (@nil Z) by (rewrite E0; reflexivity). cbn.
    exists (m_data mx). split; [reflexivity|]. split; [reflexivity|].
    intros i j Hi Hj. exfalso. nia.
  - assert (0 < M) by (destruct (Z.eq_dec M 0); [subst; nia|lia]).
    assert (0 < m) by (destruct (Z.eq_dec m 0) as [->|]; [nia|lia]).
    destruct (transpose_data M m ltac:(lia) ltac:(lia) ltac:(unfold size in *; lia) (m_data mx)) as (vis & a & E & Hl & Hn).
    { unfold size in H3. lia. }
    rewrite <- H3. unfold AxisShape_transpose. cbn [major minor]. rewrite E. cbn [bind snd].
    exists a. split; [reflexivity|]. split; [lia|exact Hn].
Qed.

(* zero-sized element types: only the shape is swapped *)
Theorem transpose_zst mx : es = 0 ->
  transpose c es mx = Val (mkMatrix (m_order mx) (AxisShape_transpose (m_shape mx)) (m_data mx)).
Proof. intros ->. reflexivity. Qed.

End Transpose.
