(* C10: the row / column swaps move elements, they neither clone nor drop: the element store afterwards is a
   permutation of the one before. *)
From Coq Require Import Permutation.
From Matreex Require Import Model.Ops Proofs.ListFacts Proofs.SliceFacts Proofs.IndexProofs Proofs.Swap.

Section SwapPerm.
Context {A : Type}.
Variable c : cfg.
Variable es : Z.
Implicit Types m : matrix A.

(* a list whose k-th element is the F(k)-th element of another, F an involution of the index range, is a permutation of it *)
Lemma perm_of_involution (l l' : list A) (F : Z -> Z) :
  zlen l' = zlen l ->
  (forall k, 0 <= k < zlen l -> 0 <= F k < zlen l /\ F (F k) = k /\ znth_opt k l' = znth_opt (F k) l) ->
  Permutation l l'.
Proof.
  intros Hlen H. unfold zlen in *.
  set (f := fun n : nat => if (n <? length l)%nat then Z.to_nat (F (Z.of_nat n)) else n).
  assert (Hff : forall n, f (f n) = n).
  { intros n. unfold f. destruct (n <? length l)%nat eqn:E.
    - apply Nat.ltb_lt in E. destruct (H (Z.of_nat n) ltac:(lia)) as (Hr & Hi & _).
      assert ((Z.to_nat (F (Z.of_nat n)) <? length l)%nat = true) as -> by (apply Nat.ltb_lt; lia).
      rewrite Z2Nat.id by lia. rewrite Hi. lia.
    - rewrite E. reflexivity. }
  apply Permutation_nth_error. split; [lia|]. exists f. split.
  - intros x y Hxy. rewrite <- (Hff x), <- (Hff y). now rewrite Hxy.
  - intros n. unfold f. destruct (n <? length l)%nat eqn:E.
    + apply Nat.ltb_lt in E. destruct (H (Z.of_nat n) ltac:(lia)) as (Hr & _ & Hn).
      unfold znth_opt in Hn. destruct (Z.of_nat n <? 0) eqn:E1; [lia|]. destruct (F (Z.of_nat n) <? 0) eqn:E2; [lia|].
      rewrite Nat2Z.id in Hn. exact Hn.
    + apply Nat.ltb_ge in E. rewrite (proj2 (nth_error_None l n)) by lia. apply nth_error_None. lia.
Qed.

Lemma sw_range a b i M : 0 <= a < M -> 0 <= b < M -> 0 <= i < M -> 0 <= sw a b i < M.
Proof. unfold sw. intros. destruct (i =? a); [lia|]. destruct (i =? b); lia. Qed.
Lemma sw_invol a b i : sw a b (sw a b i) = i.
Proof.
  unfold sw. destruct (i =? a) eqn:E1.
  - destruct (b =? a) eqn:E2; [lia|]. rewrite Z.eqb_refl. lia.
  - destruct (i =? b) eqn:E2.
    + rewrite Z.eqb_refl. lia.
    + rewrite E1, E2. reflexivity.
Qed.

(* position k = i*n + j  <->  i = k / n, j = k mod n *)
Lemma split_index k n M : 0 < n -> 0 <= k < M * n -> 0 <= k / n < M /\ 0 <= k mod n < n /\ k = (k / n) * n + k mod n.
Proof.
  intros Hn Hk. pose proof (Z.div_mod k n ltac:(lia)). pose proof (Z.mod_pos_bound k n Hn).
  repeat split; try lia.
  - apply Z.div_pos; lia.
  - apply Z.div_lt_upper_bound; lia.
Qed.
Lemma join_div i j n : 0 < n -> 0 <= j < n -> (i * n + j) / n = i /\ (i * n + j) mod n = j.
Proof.
  intros Hn Hj. split.
  - symmetry. apply (Z.div_unique (i * n + j) n i j); lia.
  - symmetry. apply (Z.mod_unique (i * n + j) n i j); lia.
Qed.

Theorem swap_major_perm m a b m' : Coh c es m -> 0 <= a -> 0 <= b ->
  swap_major_axis_vectors c m a b = Val (Ok m') -> Permutation (m_data m) (m_data m').
Proof.
  intros HC Ha Hb E. pose proof (swap_major_spec c es m a b HC Ha Hb) as H.
  destruct ((a <? mmajor m) && (b <? mmajor m)) eqn:Eab; [|congruence].
  destruct H as (d & E' & Hl & Hd). rewrite E in E'. injection E' as ->. cbn [set_data m_data].
  destruct HC as (H1 & H2 & H3 & _). fold (size m) in *.
  destruct (Z.eq_dec (size m) 0) as [Hz|Hnz].
  { unfold size, zlen in *. destruct (m_data m); [|cbn in Hz; lia]. destruct d; [constructor|cbn in Hl; lia]. }
  assert (0 < mminor m) as Hn by (unfold size, zlen in *; nia).
  apply (perm_of_involution (m_data m) d (fun k => sw a b (k / mminor m) * mminor m + k mod mminor m)); [exact Hl|].
  intros k Hk. fold (size m) in Hk. rewrite <- H3 in Hk.
  destruct (split_index k (mminor m) (mmajor m) Hn Hk) as (Hi & Hj & Hkk).
  pose proof (sw_range a b (k / mminor m) (mmajor m) ltac:(lia) ltac:(lia) Hi) as Hs.
  split; [|split].
  - fold (size m). nia.
  - destruct (join_div (sw a b (k / mminor m)) (k mod mminor m) (mminor m) Hn Hj) as [-> ->]. rewrite sw_invol. lia.
  - rewrite Hkk at 1. apply Hd; assumption.
Qed.

Theorem swap_minor_perm m a b m' : Coh c es m -> 0 <= a -> 0 <= b ->
  swap_minor_axis_vectors c m a b = Val (Ok m') -> Permutation (m_data m) (m_data m').
Proof.
  intros HC Ha Hb E. pose proof (swap_minor_spec c es m a b HC Ha Hb) as H.
  destruct ((a <? mminor m) && (b <? mminor m)) eqn:Eab; [|congruence].
  destruct H as (d & E' & Hl & Hd). rewrite E in E'. injection E' as ->. cbn [set_data m_data].
  destruct HC as (H1 & H2 & H3 & _). fold (size m) in *.
  assert (0 < mminor m) as Hn by lia.
  apply (perm_of_involution (m_data m) d (fun k => (k / mminor m) * mminor m + sw a b (k mod mminor m))); [exact Hl|].
  intros k Hk. fold (size m) in Hk. rewrite <- H3 in Hk.
  destruct (split_index k (mminor m) (mmajor m) Hn Hk) as (Hi & Hj & Hkk).
  pose proof (sw_range a b (k mod mminor m) (mminor m) ltac:(lia) ltac:(lia) Hj) as Hs.
  split; [|split].
  - fold (size m). nia.
  - destruct (join_div (k / mminor m) (sw a b (k mod mminor m)) (mminor m) Hn Hs) as [-> ->]. rewrite sw_invol. lia.
  - rewrite Hkk at 1. apply Hd; assumption.
Qed.

(* the public operations *)
Theorem swap_rows_moves_only m a b m' : Coh c es m -> 0 <= a -> 0 <= b ->
  swap_rows c m a b = Val (Ok m') -> Permutation (m_data m) (m_data m').
Proof. unfold swap_rows. destruct (m_order m); [apply swap_major_perm|apply swap_minor_perm]. Qed.
Theorem swap_cols_moves_only m a b m' : Coh c es m -> 0 <= a -> 0 <= b ->
  swap_cols c m a b = Val (Ok m') -> Permutation (m_data m) (m_data m').
Proof. unfold swap_cols. destruct (m_order m); [apply swap_minor_perm|apply swap_major_perm]. Qed.
End SwapPerm.
