(* Feasibility prototype (design round): C03's interleaving theorem, separated from the machines.
   Given step specifications of the outer and inner iterator against ghost intervals (the lemmas of
   IterNthMachine.v are the inner ones), ANY finite program of next/next_back calls on the outer
   iterator and on all inner iterators produced so far (all kept alive) yields pairwise distinct
   positions, each with the address of the position it stands for, and everything once all
   iterators are exhausted. *)
From Matreex Require Import Base.Machine.

Section W.
Variables Outer Inner : Type.
Variable onext onext_back : Outer -> res (Outer * option Inner).
Variable inext inext_back : Inner -> res (Inner * option Z).
Variable N n : Z.                       (* number of vectors, length of each vector *)
Hypothesis HN : 0 < N. Hypothesis Hn : 0 < n.
Variable at_ : Z -> Z -> Z.             (* address of position j of vector v *)
Hypothesis at_inj : forall v j v' j', 0 <= v < N -> 0 <= j < n -> 0 <= v' < N -> 0 <= j' < n -> at_ v j = at_ v' j' -> v = v' /\ j = j'.

Definition itv := option (Z * Z).
Definition shrink_front (g : Z * Z) : itv := let '(a, b) := g in if a =? b then None else Some (a + 1, b).
Definition shrink_back (g : Z * Z) : itv := let '(a, b) := g in if a =? b then None else Some (a, b - 1).
Variable RO : itv -> Outer -> Prop.
Variable RI : Z -> itv -> Inner -> Prop.
Hypothesis onext_spec : forall g o, RO g o ->
  match g with None => onext o = Val (o, None)
  | Some (A, B) => exists o' i, onext o = Val (o', Some i) /\ RO (shrink_front (A, B)) o' /\ RI A (Some (0, n - 1)) i end.
Hypothesis onext_back_spec : forall g o, RO g o ->
  match g with None => onext_back o = Val (o, None)
  | Some (A, B) => exists o' i, onext_back o = Val (o', Some i) /\ RO (shrink_back (A, B)) o' /\ RI B (Some (0, n - 1)) i end.
Hypothesis inext_spec : forall v g i, RI v g i ->
  match g with None => inext i = Val (i, None)
  | Some (a, b) => exists i', inext i = Val (i', Some (at_ v a)) /\ RI v (shrink_front (a, b)) i' end.
Hypothesis inext_back_spec : forall v g i, RI v g i ->
  match g with None => inext_back i = Val (i, None)
  | Some (a, b) => exists i', inext_back i = Val (i', Some (at_ v b)) /\ RI v (shrink_back (a, b)) i' end.

Inductive cmd := ONext | ONextBack | INext (k : nat) | INextBack (k : nat).
Record world := { outer : Outer; inners : list Inner; yielded : list Z }.

Fixpoint set_nth {A} (l : list A) (k : nat) (x : A) : list A :=
  match l, k with [], _ => [] | _ :: t, O => x :: t | h :: t, S k' => h :: set_nth t k' x end.

Definition exec (w : world) (c : cmd) : res world :=
  match c with
  | ONext => match onext (outer w) with
             | Val (o, Some i) => Val {| outer := o; inners := inners w ++ [i]; yielded := yielded w |}
             | Val (o, None) => Val {| outer := o; inners := inners w; yielded := yielded w |}
             | Panic x => Panic x | UB x => UB x end
  | ONextBack => match onext_back (outer w) with
             | Val (o, Some i) => Val {| outer := o; inners := inners w ++ [i]; yielded := yielded w |}
             | Val (o, None) => Val {| outer := o; inners := inners w; yielded := yielded w |}
             | Panic x => Panic x | UB x => UB x end
  | INext k => match nth_error (inners w) k with None => Val w | Some i =>
               match inext i with
               | Val (i', Some a) => Val {| outer := outer w; inners := set_nth (inners w) k i'; yielded := a :: yielded w |}
               | Val (i', None) => Val {| outer := outer w; inners := set_nth (inners w) k i'; yielded := yielded w |}
               | Panic x => Panic x | UB x => UB x end end
  | INextBack k => match nth_error (inners w) k with None => Val w | Some i =>
               match inext_back i with
               | Val (i', Some a) => Val {| outer := outer w; inners := set_nth (inners w) k i'; yielded := a :: yielded w |}
               | Val (i', None) => Val {| outer := outer w; inners := set_nth (inners w) k i'; yielded := yielded w |}
               | Panic x => Panic x | UB x => UB x end end
  end.
Fixpoint run (cs : list cmd) (w : world) : res world :=
  match cs with [] => Val w | c :: cs' => match exec w c with Val w' => run cs' w' | Panic x => Panic x | UB x => UB x end end.

(* ghost world *)
Record gworld := { go : itv; gis : list (Z * itv); ypos : list (Z * Z) }.
Definition in_itv (g : itv) (j : Z) : Prop := match g with None => False | Some (a, b) => a <= j <= b end.
Definition wf_itv (hi : Z) (g : itv) : Prop := match g with None => True | Some (a, b) => 0 <= a <= b /\ b < hi end.

Record Inv (w : world) (gw : gworld) : Prop := {
  i_out : RO (go gw) (outer w);
  i_inn : Forall2 (fun vg i => RI (fst vg) (snd vg) i) (gis gw) (inners w);
  i_wfo : wf_itv N (go gw);
  i_wfi : forall v g, In (v, g) (gis gw) -> 0 <= v < N /\ ~ in_itv (go gw) v /\ wf_itv n g;
  i_nd  : NoDup (map fst (gis gw));
  i_yld : yielded w = map (fun p => at_ (fst p) (snd p)) (ypos gw);
  i_ynd : NoDup (ypos gw);
  i_yin : forall v j, In (v, j) (ypos gw) -> 0 <= j < n /\ exists g, In (v, g) (gis gw) /\ ~ in_itv g j;
  i_cov : forall v j, 0 <= v < N -> 0 <= j < n -> In (v, j) (ypos gw) \/ in_itv (go gw) v \/ exists g, In (v, g) (gis gw) /\ in_itv g j
}.

Lemma Forall2_set_nth {A B} (R : A -> B -> Prop) la lb k a b :
  Forall2 R la lb -> R a b -> Forall2 R (set_nth la k a) (set_nth lb k b).
Proof. intros H; revert k; induction H; intros k Hab; destruct k; cbn; constructor; auto. Qed.
Lemma Forall2_nth_error {A B} (R : A -> B -> Prop) la lb k b :
  Forall2 R la lb -> nth_error lb k = Some b -> exists a, nth_error la k = Some a /\ R a b.
Proof. intros H; revert k; induction H; intros k E; destruct k; cbn in *; try discriminate; [inversion E; subst; eauto | eauto]. Qed.
Lemma In_set_nth {A} (l : list A) k x y : In y (set_nth l k x) -> y = x \/ In y l.
Proof. revert k; induction l as [|h t IH]; intros k H; destruct k; cbn in *; auto.
  - destruct H; auto.
  - destruct H as [H|H]; auto. destruct (IH _ H); auto. Qed.
Lemma set_nth_map_fst {A B} (l : list (A * B)) k a b b' : nth_error l k = Some (a, b) -> map fst (set_nth l k (a, b')) = map fst l.
Proof. revert k; induction l as [|h t IH]; intros k E; destruct k; cbn in *; try discriminate; [inversion E; subst; reflexivity | f_equal; auto]. Qed.
Lemma In_set_nth_self {A} (l : list A) k x y : nth_error l k = Some y -> In x (set_nth l k x).
Proof. revert k; induction l as [|h t IH]; intros k E; destruct k; cbn in *; try discriminate; auto. all: try (right; eauto). Qed.
Lemma In_set_nth_other {A} (l : list (Z * A)) k v g g' z : NoDup (map fst l) -> nth_error l k = Some (v, g) -> In z l -> fst z <> v -> In z (set_nth l k (v, g')).
Proof. revert k; induction l as [|h t IH]; intros k ND E Hin Hne; destruct k; cbn in *; try discriminate.
  - inversion E; subst. destruct Hin; [subst; cbn in Hne; congruence | auto].
  - inversion ND; subst. destruct Hin; [auto | right; eauto]. Qed.
Lemma nth_error_fst_unique {A} (l : list (Z * A)) k v g g2 : NoDup (map fst l) -> nth_error l k = Some (v, g) -> In (v, g2) l -> g2 = g.
Proof. revert k; induction l as [|h t IH]; intros k ND E Hin; destruct k; cbn in *; try discriminate; inversion ND; subst.
  - inversion E; subst. destruct Hin as [H|H]; [congruence|]. exfalso. apply (in_map fst) in H. cbn in H. auto.
  - destruct Hin as [H|H]; [|eauto]. subst h. exfalso. apply nth_error_In in E. apply (in_map fst) in E. cbn in *. auto. Qed.

Lemma NoDup_snoc {A} (l : list A) x : NoDup l -> ~ In x l -> NoDup (l ++ [x]).
Proof. induction l as [|h t IH]; intros ND Hnx; cbn.
  - constructor; [intros []|constructor].
  - inversion ND; subst. constructor.
    + intros C. apply in_app_or in C. destruct C as [C|[C|[]]]; [auto | subst; apply Hnx; left; reflexivity].
    + apply IH; auto. intros C; apply Hnx; right; auto. Qed.

(* one inner step that yields position (v, j) and shrinks g to g' *)
Lemma inner_step w gw k v a b g' j i' :
  Inv w gw -> nth_error (gis gw) k = Some (v, Some (a, b)) ->
  (j = a /\ g' = shrink_front (a, b) \/ j = b /\ g' = shrink_back (a, b)) -> RI v g' i' ->
  Inv {| outer := outer w; inners := set_nth (inners w) k i'; yielded := at_ v j :: yielded w |}
      {| go := go gw; gis := set_nth (gis gw) k (v, g'); ypos := (v, j) :: ypos gw |}.
Proof.
  intros I E Hj HR. pose proof (nth_error_In _ _ E) as Hin. destruct (i_wfi _ _ I _ _ Hin) as (Hv & Hout & Hab). cbn in Hab.
  assert (Hjr : a <= j <= b) by (destruct Hj as [[-> _]|[-> _]]; lia).
  assert (Hg' : wf_itv n g' /\ ~ in_itv g' j /\ forall x, in_itv g' x -> a <= x <= b).
  { destruct Hj as [[-> ->]|[-> ->]]; cbn; destruct (a =? b) eqn:Eab; cbn; repeat split; try lia; intros; lia. }
  destruct Hg' as (Hwf' & Hnj & Hsub).
  constructor; cbn.
  - apply (i_out _ _ I).
  - apply Forall2_set_nth; [apply (i_inn _ _ I) | exact HR].
  - apply (i_wfo _ _ I).
  - intros v0 g0 H0. apply In_set_nth in H0. destruct H0 as [H0|H0]; [inversion H0; subst; auto | apply (i_wfi _ _ I _ _ H0)].
  - rewrite (set_nth_map_fst _ _ _ _ _ E). apply (i_nd _ _ I).
  - f_equal. apply (i_yld _ _ I).
  - constructor; [|apply (i_ynd _ _ I)]. intros Hy. destruct (i_yin _ _ I _ _ Hy) as (_ & g2 & Hg2 & Hn2).
    rewrite (nth_error_fst_unique _ _ _ _ _ (i_nd _ _ I) E Hg2) in Hn2. cbn in Hn2. lia.
  - intros v0 j0 [H0|H0].
    + inversion H0; subst. split; [lia|]. exists g'. split; [eapply In_set_nth_self; eauto | auto].
    + destruct (i_yin _ _ I _ _ H0) as (Hj0 & g2 & Hg2 & Hn2). split; auto.
      destruct (Z.eq_dec v0 v) as [->|Hne].
      * rewrite (nth_error_fst_unique _ _ _ _ _ (i_nd _ _ I) E Hg2) in Hn2. exists g'. split; [eapply In_set_nth_self; eauto|].
        intros X. apply Hn2. cbn. apply Hsub in X. lia.
      * exists g2. split; auto. eapply In_set_nth_other; eauto. apply (i_nd _ _ I).
  - intros v0 j0 Hv0 Hj0. destruct (i_cov _ _ I v0 j0 Hv0 Hj0) as [H|[H|(g2 & Hg2 & Hi2)]]; auto.
    destruct (Z.eq_dec v0 v) as [->|Hne].
    + rewrite (nth_error_fst_unique _ _ _ _ _ (i_nd _ _ I) E Hg2) in Hi2. cbn in Hi2.
      destruct (Z.eq_dec j0 j) as [->|Hnej]; [left; left; reflexivity|].
      right; right. exists g'. split; [eapply In_set_nth_self; eauto|].
      destruct Hj as [[-> ->]|[-> ->]]; cbn; destruct (a =? b) eqn:Eab; cbn; lia.
    + right; right. exists g2. split; auto. eapply In_set_nth_other; eauto. apply (i_nd _ _ I).
Qed.

(* an inner step on an exhausted or missing iterator changes nothing observable *)
Lemma inner_idle w gw k v i' : Inv w gw -> nth_error (gis gw) k = Some (v, None) -> RI v None i' ->
  Inv {| outer := outer w; inners := set_nth (inners w) k i'; yielded := yielded w |} gw.
Proof.
  intros I E HR. constructor; try apply I.
  cbn. replace (gis gw) with (set_nth (gis gw) k (v, None)).
  - apply Forall2_set_nth; [apply (i_inn _ _ I) | exact HR].
  - clear -E. revert k E; induction (gis gw) as [|h t IH]; intros k E; destruct k; cbn in *; try discriminate; [inversion E; reflexivity | f_equal; auto].
Qed.

(* the outer iterator hands out vector v (front: v = A, back: v = B) *)
Lemma outer_step w gw A B v g' o' i :
  Inv w gw -> go gw = Some (A, B) -> (v = A /\ g' = shrink_front (A, B) \/ v = B /\ g' = shrink_back (A, B)) ->
  RO g' o' -> RI v (Some (0, n - 1)) i ->
  Inv {| outer := o'; inners := inners w ++ [i]; yielded := yielded w |}
      {| go := g'; gis := gis gw ++ [(v, Some (0, n - 1))]; ypos := ypos gw |}.
Proof.
  intros I Eg Hv HRO HRI. pose proof (i_wfo _ _ I) as Hwf. rewrite Eg in Hwf. cbn in Hwf.
  assert (HvAB : A <= v <= B) by (destruct Hv as [[-> _]|[-> _]]; lia).
  assert (Hg' : wf_itv N g' /\ ~ in_itv g' v /\ forall x, in_itv g' x -> A <= x <= B).
  { destruct Hv as [[-> ->]|[-> ->]]; cbn; destruct (A =? B) eqn:Eab; cbn; repeat split; try lia; intros; lia. }
  destruct Hg' as (Hwf' & Hnv & Hsub).
  constructor; cbn.
  - exact HRO.
  - apply Forall2_app; [apply (i_inn _ _ I) | constructor; [exact HRI | constructor]].
  - exact Hwf'.
  - intros v0 g0 H0. apply in_app_or in H0. destruct H0 as [H0|[H0|[]]].
    + destruct (i_wfi _ _ I _ _ H0) as (X & Y & Z0). split; [exact X|]. split; [|exact Z0].
      intros C. apply Y. rewrite Eg. cbn. apply Hsub in C. lia.
    + inversion H0; subst. split; [lia|]. split; [exact Hnv|]. cbn. lia.
  - rewrite map_app. cbn. apply NoDup_snoc; [apply (i_nd _ _ I)|].
    intros C. apply in_map_iff in C. destruct C as ((v1 & g1) & E1 & H1). cbn in E1; subst v1.
    destruct (i_wfi _ _ I _ _ H1) as (_ & Y & _). apply Y. rewrite Eg. cbn. lia.
  - apply (i_yld _ _ I).
  - apply (i_ynd _ _ I).
  - intros v0 j0 H0. destruct (i_yin _ _ I _ _ H0) as (X & g2 & Hg2 & Hn2). split; auto. exists g2. split; auto. apply in_or_app; auto.
  - intros v0 j0 Hv0 Hj0. destruct (i_cov _ _ I v0 j0 Hv0 Hj0) as [H|[H|(g2 & Hg2 & Hi2)]]; auto.
    + rewrite Eg in H. cbn in H. destruct (Z.eq_dec v0 v) as [->|Hne].
      * right; right. exists (Some (0, n - 1)). split; [apply in_or_app; right; left; reflexivity | cbn; lia].
      * right; left. destruct Hv as [[-> ->]|[-> ->]]; cbn; destruct (A =? B) eqn:Eab; cbn; lia.
    + right; right. exists g2. split; auto. apply in_or_app; auto.
Qed.

Lemma Inv_eta w gw : Inv w gw -> Inv {| outer := outer w; inners := inners w; yielded := yielded w |} gw.
Proof. destruct w; auto. Qed.

Lemma exec_inv w gw c : Inv w gw -> exists w' gw', exec w c = Val w' /\ Inv w' gw'.
Proof.
  intros I. destruct c as [| |k|k]; cbn [exec].
  - pose proof (onext_spec _ _ (i_out _ _ I)) as S. destruct (go gw) as [[A B]|] eqn:Eg.
    + destruct S as (o' & i & -> & HRO & HRI). do 2 eexists. split; [reflexivity|].
      exact (outer_step w gw A B A _ o' i I Eg (or_introl (conj eq_refl eq_refl)) HRO HRI).
    + rewrite S. do 2 eexists. split; [reflexivity|]. apply Inv_eta; exact I.
  - pose proof (onext_back_spec _ _ (i_out _ _ I)) as S. destruct (go gw) as [[A B]|] eqn:Eg.
    + destruct S as (o' & i & -> & HRO & HRI). do 2 eexists. split; [reflexivity|].
      exact (outer_step w gw A B B _ o' i I Eg (or_intror (conj eq_refl eq_refl)) HRO HRI).
    + rewrite S. do 2 eexists. split; [reflexivity|]. apply Inv_eta; exact I.
  - destruct (nth_error (inners w) k) as [i|] eqn:Ek; [|eauto].
    destruct (Forall2_nth_error _ _ _ _ _ (i_inn _ _ I) Ek) as ((v & g) & Eg & HR). cbn in HR.
    pose proof (inext_spec _ _ _ HR) as S. destruct g as [[a b]|].
    + destruct S as (i' & -> & HR'). do 2 eexists. split; [reflexivity|].
      exact (inner_step w gw k v a b _ a i' I Eg (or_introl (conj eq_refl eq_refl)) HR').
    + rewrite S. do 2 eexists. split; [reflexivity|]. eapply inner_idle; eauto.
  - destruct (nth_error (inners w) k) as [i|] eqn:Ek; [|eauto].
    destruct (Forall2_nth_error _ _ _ _ _ (i_inn _ _ I) Ek) as ((v & g) & Eg & HR). cbn in HR.
    pose proof (inext_back_spec _ _ _ HR) as S. destruct g as [[a b]|].
    + destruct S as (i' & -> & HR'). do 2 eexists. split; [reflexivity|].
      exact (inner_step w gw k v a b _ b i' I Eg (or_intror (conj eq_refl eq_refl)) HR').
    + rewrite S. do 2 eexists. split; [reflexivity|]. eapply inner_idle; eauto.
Qed.

(* every interleaving: never UB, never a panic, invariant kept *)
Theorem run_inv cs : forall w gw, Inv w gw -> exists w' gw', run cs w = Val w' /\ Inv w' gw'.
Proof.
  induction cs as [|c cs IH]; intros w gw I; cbn [run]; [eauto|].
  destruct (exec_inv w gw c I) as (w1 & gw1 & -> & I1). eauto.
Qed.

Lemma Inv_init o0 : RO (Some (0, N - 1)) o0 ->
  Inv {| outer := o0; inners := []; yielded := [] |} {| go := Some (0, N - 1); gis := []; ypos := [] |}.
Proof.
  intros H. constructor; cbn.
  - exact H.
  - constructor.
  - lia.
  - intros ? ? [].
  - constructor.
  - reflexivity.
  - constructor.
  - intros ? ? [].
  - intros v0 j0 Hv0 Hj0. right; left. lia.
Qed.

(* each element is handed out at most once: yielded addresses are pairwise distinct *)
Theorem yielded_nodup w gw : Inv w gw -> NoDup (yielded w).
Proof.
  intros I. rewrite (i_yld _ _ I).
  assert (Hval : forall p, In p (ypos gw) -> 0 <= fst p < N /\ 0 <= snd p < n).
  { intros [v j] Hp. destruct (i_yin _ _ I _ _ Hp) as (Hj & g & Hg & _). destruct (i_wfi _ _ I _ _ Hg) as (Hv & _). auto. }
  pose proof (i_ynd _ _ I) as ND. induction (ypos gw) as [|p l IH]; cbn; constructor.
  - intros C. apply in_map_iff in C. destruct C as (q & Eq & Hq). inversion ND; subst.
    destruct (Hval p (or_introl eq_refl)) as (P1 & P2). destruct (Hval q (or_intror Hq)) as (Q1 & Q2).
    destruct (at_inj _ _ _ _ Q1 Q2 P1 P2 Eq) as (E1 & E2). apply H1. destruct p, q; cbn in *; subst; auto.
  - inversion ND; subst. apply IH; auto. intros q Hq. apply Hval. right; auto.
Qed.

(* ... and exactly once when everything is exhausted *)
Theorem exhausted_all w gw : Inv w gw -> go gw = None -> (forall v g, In (v, g) (gis gw) -> g = None) ->
  forall v j, 0 <= v < N -> 0 <= j < n -> In (at_ v j) (yielded w).
Proof.
  intros I Eo Ei v j Hv Hj. rewrite (i_yld _ _ I).
  destruct (i_cov _ _ I v j Hv Hj) as [H|[H|(g & Hg & Hin)]].
  - apply in_map_iff. exists (v, j). auto.
  - rewrite Eo in H. destruct H.
  - rewrite (Ei _ _ Hg) in Hin. destruct Hin.
Qed.
End W.
