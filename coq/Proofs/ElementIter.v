(* C15: element iteration follows the memory order and every reported index addresses that very element. *)
From Matreex Require Import Model.Ops Proofs.ListFacts Proofs.SliceFacts Proofs.IndexProofs.

Section ElementIter.
Context {A : Type}.
Variable c : cfg.
Variable es : Z.
Implicit Types m : matrix A.

(* Index::from_flattened is the inverse of the position function on 0..size *)
Theorem from_flattened_spec m i : Coh c es m -> 0 <= i < size m ->
  exists ix, Index_from_flattened i (m_order m) (m_shape m) = Val ix /\
    0 <= ix_row ix < nrows m /\ 0 <= ix_col ix < ncols m /\ flat m (ix_row ix) (ix_col ix) = i /\
    Index_to_flattened c ix (m_order m) (m_shape m) = Val i.
Proof.
  intros (H1 & H2 & H3 & H4 & _) Hi.
  assert (0 < mminor m) by (destruct (Z.eq_dec (mminor m) 0) as [E0|]; [rewrite E0 in *; exfalso; nia|lia]).
  pose proof (Z.mod_pos_bound i (mminor m) ltac:(lia)).
  assert (0 <= i / mminor m < mmajor m) by (split; [apply Z.div_pos; lia | apply Z.div_lt_upper_bound; nia]).
  assert (i = i / mminor m * mminor m + i mod mminor m) as Hi2 by (rewrite Z.mul_comm; apply Z.div_mod; lia).
  unfold Index_from_flattened, AxisIndex_from_flattened, AxisShape_major_stride, AxisShape_minor_stride. fold (mminor m).
  rewrite udiv_val, urem_val by lia. cbn [bind]. rewrite udiv_val by lia. cbn [bind]. rewrite Z.div_1_r.
  eexists. split; [reflexivity|].
  unfold Index_to_flattened, AxisIndex_to_flattened, AxisIndex_from_rc, AxisIndex_to_index, nrows, ncols, flat, AxisShape_major_stride, AxisShape_minor_stride.
  fold (mminor m) (mmajor m).
  destruct (m_order m); cbn [AxisShape_nrows AxisShape_ncols ix_row ix_col ai_major ai_minor]; fold (mminor m) (mmajor m).
  - split; [lia|]. split; [lia|]. split; [lia|].
    rewrite umul_val by nia. cbn [bind]. rewrite umul_val by nia. cbn [bind]. rewrite uadd_val by nia. f_equal. lia.
  - split; [lia|]. split; [lia|]. split; [lia|].
    rewrite umul_val by nia. cbn [bind]. rewrite umul_val by nia. cbn [bind]. rewrite uadd_val by nia. f_equal. lia.
Qed.

(* the with_index iterators: item k (in memory order) is (index_k, element_k), and get(index_k) is element_k *)
Theorem iter_elements_with_index_spec m : Coh c es m ->
  exists items, iter_elements_with_index m = Val items /\ zlen items = size m /\
    forall k x, znth_opt k (m_data m) = Some x ->
      exists ix, znth_opt k items = Some (ix, x) /\ 0 <= ix_row ix < nrows m /\ 0 <= ix_col ix < ncols m /\
                 at_ m (ix_row ix) (ix_col ix) = Some x.
Proof.
  intros HC. unfold iter_elements_with_index.
  destruct (map_res_rel (fun ia : Z * A => let* ix := Index_from_flattened (fst ia) (m_order m) (m_shape m) in Val (ix, snd ia))
              (fun (k : Z) (ia : Z * A) (out : Index * A) =>
                 fst ia = k /\ snd out = snd ia /\ 0 <= ix_row (fst out) < nrows m /\ 0 <= ix_col (fst out) < ncols m /\
                 flat m (ix_row (fst out)) (ix_col (fst out)) = k)
              (combine (zseq (size m)) (m_data m))) as (items & E & Hl & Hn).
  { intros k [idx x] Hk. apply znth_opt_combine_inv in Hk as [Hk1 Hk2].
    assert (0 <= k < size m) as Hrange.
    { unfold size. destruct (Z_lt_ge_dec k 0); [rewrite znth_opt_neg in Hk2 by lia; discriminate|].
      destruct (Z_lt_ge_dec k (zlen (m_data m))); [lia|]. rewrite znth_opt_none in Hk2 by lia. discriminate. }
    rewrite zseq_nth in Hk1 by lia. injection Hk1 as <-. cbn [fst snd].
    destruct (from_flattened_spec m k HC Hrange) as (ix & Eix & Hr & Hcl & Hf & _).
    rewrite Eix. cbn [bind]. eexists. split; [reflexivity|]. cbn [fst snd]. auto. }
  exists items. split; [exact E|].
  split; [rewrite Hl, zlen_combine by (unfold zlen; rewrite zseq_length; unfold size, zlen; lia); unfold zlen; rewrite zseq_length; unfold size, zlen; lia|].
  intros k x Hx.
  assert (0 <= k < size m) as Hrange.
  { unfold size. destruct (Z_lt_ge_dec k 0); [rewrite znth_opt_neg in Hx by lia; discriminate|].
    destruct (Z_lt_ge_dec k (zlen (m_data m))); [lia|]. rewrite znth_opt_none in Hx by lia. discriminate. }
  assert (znth_opt k (combine (zseq (size m)) (m_data m)) = Some (k, x)) as Hc by (apply znth_opt_combine; [apply zseq_nth; lia|exact Hx]).
  destruct (Hn _ _ Hc) as ([ix y] & Ey & _ & Hy & Hr & Hcl & Hf). cbn [fst snd] in *. subst y.
  exists ix. split; [exact Ey|]. split; [exact Hr|]. split; [exact Hcl|]. unfold at_. rewrite Hf. exact Hx.
Qed.

(* memory order is row by row for a row-major and column by column for a column-major matrix *)
Theorem memory_order m r cl :
  at_ m r cl = znth_opt (match m_order m with RowMajor => r * ncols m + cl | ColMajor => cl * nrows m + r end) (m_data m).
Proof. unfold at_, flat, nrows, ncols, mminor. destruct (m_order m); reflexivity. Qed.
End ElementIter.
