(* Size / capacity decisions (C08, C09 reshape): exact laws for every usize pair, any pointer width, both build profiles. *)
From Matreex Require Import Model.Ops.

Section Decisions.
Variable c : cfg.
Hypothesis Hc : wf c.

Lemma umax_gt_imax : imax c < umax c.
Proof. destruct Hc; lia. Qed.

Lemma check_size_spec es n : 0 <= es -> 0 <= n ->
  check_size c es n = if es * n >? imax c then Err CapacityOverflow else Ok n.
Proof.
  intros He Hn. unfold check_size, saturating_mul. pose proof umax_gt_imax.
  destruct (Z.min (es * n) (umax c) >? imax c) eqn:E1, (es * n >? imax c) eqn:E2; auto; lia.
Qed.

Lemma try_to_axis_shape_spec o r cl : is_usize c r -> is_usize c cl ->
  Shape_try_to_axis_shape c (mkShape r cl) o =
  if r * cl >? umax c then Err SizeOverflow else Ok (Shape_to_axis_shape_unchecked (mkShape r cl) o).
Proof.
  intros Hr Hcl. unfold Shape_try_to_axis_shape, Shape_size, checked_mul; cbn [sh_nrows sh_ncols].
  destruct (r * cl <=? umax c) eqn:E.
  - assert (r * cl >? umax c = false) as -> by lia. reflexivity.
  - assert (r * cl >? umax c = true) as -> by lia. reflexivity.
Qed.

Lemma axis_size_unchecked o r cl : 0 <= r * cl <= umax c ->
  AxisShape_size c (Shape_to_axis_shape_unchecked (mkShape r cl) o) = Val (r * cl).
Proof.
  intros H. unfold AxisShape_size, Shape_to_axis_shape_unchecked; cbn [sh_nrows sh_ncols].
  destruct o; cbn [major minor]; rewrite umul_val by lia; f_equal; lia.
Qed.

(* with_default / with_value / with_initializer / resize / the TryFrom impls / the result shape of multiply *)
Theorem decide_shape_spec es o r cl : is_usize c r -> is_usize c cl -> 0 <= es ->
  decide_shape c es o r cl =
  Val (if r * cl >? umax c then Err SizeOverflow
       else if es * (r * cl) >? imax c then Err CapacityOverflow
       else Ok (Shape_to_axis_shape_unchecked (mkShape r cl) o, r * cl)).
Proof.
  intros Hr Hcl He. unfold decide_shape. rewrite try_to_axis_shape_spec by assumption.
  assert (0 <= r * cl) by (unfold is_usize in *; nia).
  destruct (r * cl >? umax c) eqn:E; [reflexivity|].
  rewrite axis_size_unchecked by lia. cbn [bind].
  rewrite check_size_spec by lia. destruct (es * (r * cl) >? imax c); reflexivity.
Qed.

(* reshape: every size that differs from the current one, overflowing ones included, is SizeMismatch *)
Theorem reshape_decision_spec o len r cl : is_usize c r -> is_usize c cl ->
  reshape_decision c o len r cl =
  Val (if (r * cl >? umax c) || negb (len =? r * cl) then Err SizeMismatch
       else Ok (Shape_to_axis_shape_unchecked (mkShape r cl) o)).
Proof.
  intros Hr Hcl. unfold reshape_decision. rewrite try_to_axis_shape_spec by assumption.
  assert (0 <= r * cl) by (unfold is_usize in *; nia).
  destruct (r * cl >? umax c) eqn:E; [reflexivity|].
  rewrite axis_size_unchecked by lia. cbn [bind orb]. destruct (negb (len =? r * cl)); reflexivity.
Qed.

End Decisions.

(* neither decision depends on the overflow behaviour of the build profile (debug: panic, release: wrap):
   no intermediate product overflows on a path that is taken *)
Theorem decisions_profile_independent c c' es o len r cl : wf c -> is_usize c r -> is_usize c cl -> 0 <= es ->
  umax c' = umax c -> imax c' = imax c ->
  decide_shape c' es o r cl = decide_shape c es o r cl /\ reshape_decision c' o len r cl = reshape_decision c o len r cl.
Proof.
  intros Hc Hr Hcl He Hu Hi.
  assert (wf c') as Hc' by (unfold wf in *; rewrite Hu, Hi; exact Hc).
  assert (is_usize c' r) by (unfold is_usize in *; rewrite Hu; exact Hr).
  assert (is_usize c' cl) by (unfold is_usize in *; rewrite Hu; exact Hcl).
  rewrite (decide_shape_spec c' Hc'), (decide_shape_spec c Hc), (reshape_decision_spec c'), (reshape_decision_spec c) by assumption.
  rewrite Hu, Hi. split; reflexivity.
Qed.
