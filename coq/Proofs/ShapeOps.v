(* reshape / resize / clear and the constructors that only decide a shape and fill a vector (C08, C09, C19 parts). *)
From Matreex Require Import Model.Ops Proofs.Decisions.

Section ShapeOps.
Context {A : Type}.
Variable c : cfg.
Hypothesis Hc : wf c.
Variable es : Z.
Hypothesis Hes : 0 <= es.
Implicit Types m : matrix A.

Definition shape_of (o : order) (r cl : Z) : AxisShape := Shape_to_axis_shape_unchecked (mkShape r cl) o.

Lemma shape_of_nrows o r cl : AxisShape_nrows (shape_of o r cl) o = r.
Proof. destruct o; reflexivity. Qed.
Lemma shape_of_ncols o r cl : AxisShape_ncols (shape_of o r cl) o = cl.
Proof. destruct o; reflexivity. Qed.
Lemma shape_of_product o r cl : major (shape_of o r cl) * minor (shape_of o r cl) = r * cl.
Proof. destruct o; cbn; lia. Qed.

(* reshape succeeds exactly when the new shape has the same size (no overflow), and then only the shape changes *)
Theorem reshape_spec m r cl : is_usize c r -> is_usize c cl ->
  reshape c m r cl =
  Val (if (r * cl >? umax c) || negb (size m =? r * cl) then Err SizeMismatch
       else Ok (mkMatrix (m_order m) (shape_of (m_order m) r cl) (m_data m))).
Proof.
  intros Hr Hcl. unfold reshape. rewrite reshape_decision_spec by assumption. cbn [bind].
  destruct ((r * cl >? umax c) || negb (size m =? r * cl)); reflexivity.
Qed.

Lemma zlen_zfirstn (l : list A) n : 0 <= n <= zlen l -> zlen (zfirstn n l) = n.
Proof. unfold zlen, zfirstn. intros H. rewrite firstn_length. lia. Qed.
Lemma zlen_app (l1 l2 : list A) : zlen (l1 ++ l2) = zlen l1 + zlen l2.
Proof. unfold zlen. rewrite app_length. lia. Qed.
Lemma zlen_zrepeat (x : A) n : 0 <= n -> zlen (zrepeat x n) = n.
Proof. unfold zlen, zrepeat. intros H. rewrite repeat_length. lia. Qed.

(* resize: the requested shape, the first min(old, new) elements of the memory-order sequence kept,
   the rest dropped or default values appended *)
Theorem resize_spec (dflt : A) m r cl : is_usize c r -> is_usize c cl ->
  resize c es dflt m r cl =
  Val (if r * cl >? umax c then Err SizeOverflow
       else if es * (r * cl) >? imax c then Err CapacityOverflow
       else Ok (mkMatrix (m_order m) (shape_of (m_order m) r cl)
                  (if r * cl <=? size m then zfirstn (r * cl) (m_data m)
                   else m_data m ++ zrepeat dflt (r * cl - size m)))).
Proof.
  intros Hr Hcl. unfold resize. rewrite decide_shape_spec by assumption. cbn [bind].
  destruct (r * cl >? umax c); [reflexivity|].
  destruct (es * (r * cl) >? imax c); [reflexivity|].
  destruct (r * cl <=? size m); reflexivity.
Qed.

Theorem resize_coh (dflt : A) m r cl m' : Coh c es m -> is_usize c r -> is_usize c cl ->
  resize c es dflt m r cl = Val (Ok m') ->
  Coh c es m' /\ nrows m' = r /\ ncols m' = cl /\ size m' = r * cl /\ m_order m' = m_order m.
Proof.
  intros HC Hr Hcl. rewrite resize_spec by assumption.
  destruct (r * cl >? umax c) eqn:E1; [discriminate|].
  destruct (es * (r * cl) >? imax c) eqn:E2; [discriminate|].
  intros H. injection H as <-.
  assert (0 <= r * cl) by (unfold is_usize in *; nia).
  assert (size (mkMatrix (m_order m) (shape_of (m_order m) r cl)
            (if r * cl <=? size m then zfirstn (r * cl) (m_data m) else m_data m ++ zrepeat dflt (r * cl - size m))) = r * cl) as Hs.
  { unfold size at 1; cbn [m_data]. destruct (r * cl <=? size m) eqn:E.
    - apply zlen_zfirstn. unfold size in E. lia.
    - rewrite zlen_app, zlen_zrepeat by (unfold size in *; lia). unfold size in *. lia. }
  unfold Coh, nrows, ncols, mmajor, mminor. cbn [m_shape m_order]. rewrite Hs, shape_of_nrows, shape_of_ncols, shape_of_product.
  unfold is_usize in *. destruct (m_order m); cbn [shape_of Shape_to_axis_shape_unchecked sh_nrows sh_ncols major minor]; repeat split; lia.
Qed.

(* with_value / with_default: the requested shape filled with the value *)
Theorem with_value_spec r cl (v : A) : is_usize c r -> is_usize c cl ->
  with_value c es r cl v =
  Val (if r * cl >? umax c then Err SizeOverflow
       else if es * (r * cl) >? imax c then Err CapacityOverflow
       else Ok (mkMatrix RowMajor (mkAxisShape r cl) (zrepeat v (r * cl)))).
Proof.
  intros Hr Hcl. unfold with_value, decide_ctor. rewrite decide_shape_spec by assumption. cbn [bind].
  destruct (r * cl >? umax c); [reflexivity|]. destruct (es * (r * cl) >? imax c); reflexivity.
Qed.

(* map / map_ref / scalar_operation*: CapacityOverflow exactly when the OUTPUT byte size exceeds isize::MAX *)
Theorem map_matrix_spec {B} (es' : Z) (f : A -> B) m : 0 <= es' ->
  map_matrix c es' f m =
  if es' * size m >? imax c then Err CapacityOverflow else Ok (mkMatrix (m_order m) (m_shape m) (map f (m_data m))).
Proof.
  intros He'. unfold map_matrix. rewrite check_size_spec by (auto; unfold size; apply zlen_nonneg).
  destruct (es' * size m >? imax c); reflexivity.
Qed.

Theorem clear_coh m : Coh c es (clear m) /\ size (clear m) = 0 /\ nrows (clear m) = 0 /\ ncols (clear m) = 0.
Proof.
  destruct Hc as [H1 H2]. unfold clear, Coh, size, nrows, ncols, mmajor, mminor, zlen; cbn.
  destruct (m_order m); cbn; repeat split; lia.
Qed.
End ShapeOps.
