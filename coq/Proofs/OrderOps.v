(* C05 at the logical level: transpose is the exact transpose, an involution and a permutation of the
   element store; the order-changing operations preserve the logical contents, the *_without_rearrangement
   variants preserve the memory-order sequence and present the transpose. *)
From Matreex Require Import Model.Ops Proofs.ListFacts Proofs.Transpose Proofs.IndexProofs.
From Coq Require Import Permutation.

Section OrderOps.
Context {A : Type}.
Variable c : cfg.
Variable es : Z.
Implicit Types m : matrix A.

Lemma Coh_transposed m (d : list A) : Coh c es m -> zlen d = size m ->
  Coh c es (mkMatrix (m_order m) (AxisShape_transpose (m_shape m)) d).
Proof.
  unfold Coh, mmajor, mminor, size, AxisShape_transpose. cbn [m_shape m_data major minor].
  intros (H1 & H2 & H3 & H4 & H5) Hd. rewrite Hd. repeat split; lia.
Qed.

(* the logical element (r, cl) of the result is the logical element (cl, r) of the operand *)
Theorem transpose_logical m : Coh c es m -> 0 < es ->
  exists m', transpose c es m = Val m' /\ Coh c es m' /\
    m_order m' = m_order m /\ nrows m' = ncols m /\ ncols m' = nrows m /\ size m' = size m /\
    forall r cl, 0 <= r < nrows m' -> 0 <= cl < ncols m' -> at_ m' r cl = at_ m cl r.
Proof.
  intros HC Hes. destruct (transpose_spec c es m HC Hes) as (d & E & Hlen & Hd).
  eexists. split; [exact E|]. split; [now apply Coh_transposed|].
  unfold nrows, ncols, size, at_, flat, mmajor, mminor in *. cbn [m_order m_shape m_data AxisShape_transpose major minor].
  destruct (m_order m); cbn [AxisShape_nrows AxisShape_ncols major minor]; repeat split; auto;
    intros r cl Hr Hcl; apply Hd; lia.
Qed.

(* applied twice, transpose restores the original matrix exactly (shape, order and memory-order sequence) *)
Theorem transpose_involutive m : Coh c es m -> 0 <= es ->
  exists m', transpose c es m = Val m' /\ transpose c es m' = Val m.
Proof.
  intros HC Hes. destruct (Z.eq_dec es 0) as [E0|Hne].
  - rewrite !transpose_zst by assumption. eexists. split; [reflexivity|].
    rewrite transpose_zst by assumption. cbn. destruct m as [o [M n] d]. reflexivity.
  - assert (0 < es) as Hpos by lia.
    destruct (transpose_spec c es m HC Hpos) as (d & E & Hlen & Hd).
    set (m' := mkMatrix (m_order m) (AxisShape_transpose (m_shape m)) d) in *.
    assert (Coh c es m') as HC' by (now apply Coh_transposed).
    destruct (transpose_spec c es m' HC' Hpos) as (d2 & E2 & Hlen2 & Hd2).
    exists m'. split; [exact E|]. rewrite E2. f_equal.
    destruct m as [o [M n] d0]. unfold m', mmajor, mminor, size in *.
    cbn [m_order m_shape m_data AxisShape_transpose major minor] in *.
    f_equal. apply list_ext_znth; [lia|].
    intros k Hk. destruct HC as (H1 & H2 & H3 & _). unfold mmajor, mminor, size in *. cbn [m_shape m_data major minor] in *.
    (* every position k < M*n is i*n + j *)
    assert (0 < n) by (destruct (Z.eq_dec n 0) as [->|]; [exfalso; nia|lia]).
    assert (k = (k / n) * n + k mod n) as Hk2 by (rewrite Z.mul_comm; apply Z.div_mod; lia).
    pose proof (Z.mod_pos_bound k n ltac:(lia)).
    assert (0 <= k / n < M) by (split; [apply Z.div_pos; lia | apply Z.div_lt_upper_bound; nia]).
    rewrite Hk2. rewrite (Hd2 (k mod n) (k / n)) by lia. apply Hd; lia.
Qed.

(* ---------- a swap of two positions permutes the list ---------- *)
Lemma zupd_split (l : list A) i x : znth_opt i l = Some x ->
  exists l1 l2, l = l1 ++ x :: l2 /\ zlen l1 = i /\ forall y, zupd l i y = l1 ++ y :: l2.
Proof.
  unfold znth_opt, zupd, zlen. destruct (i <? 0) eqn:E; [discriminate|]. intros H.
  exists (firstn (Z.to_nat i) l), (skipn (S (Z.to_nat i)) l).
  assert (Z.to_nat i < length l)%nat by (apply nth_error_Some; congruence).
  assert (skipn (Z.to_nat i) l = x :: skipn (S (Z.to_nat i)) l) as Hs.
  { clear E. revert H H0. generalize (Z.to_nat i) as n. induction l as [|a l IH]; intros n H Hn; [cbn in Hn; lia|].
    destruct n as [|n]; cbn in *; [congruence|]. apply IH; [exact H|lia]. }
  split; [|split].
  - rewrite <- Hs. symmetry. apply firstn_skipn.
  - rewrite firstn_length. lia.
  - intros y. rewrite Hs. reflexivity.
Qed.

Lemma ptr_swap_perm (l l' : list A) i j : ptr_swap l i j = Val l' -> Permutation l l'.
Proof.
  unfold ptr_swap. destruct (znth_opt i l) as [x|] eqn:Ex; [|discriminate].
  destruct (znth_opt j l) as [y|] eqn:Ey; [|discriminate]. intros H. injection H as <-.
  destruct (Z.eq_dec i j) as [->|Hne].
  - (* same position: the list is unchanged *)
    assert (x = y) as -> by congruence.
    destruct (zupd_split l j y Ey) as (l1 & l2 & El & Hl & Hu). rewrite Hu.
    assert (znth_opt j (l1 ++ y :: l2) = Some y) as E2 by (rewrite <- El; exact Ey).
    destruct (zupd_split (l1 ++ y :: l2) j y E2) as (k1 & k2 & El2 & Hl2 & Hu2). rewrite Hu2, <- El2, <- El. reflexivity.
  - destruct (zupd_split l i x Ex) as (l1 & l2 & El & Hl & Hu). rewrite Hu.
    assert (0 <= i < zlen l /\ 0 <= j < zlen l) as [Hi Hj].
    { split; [destruct (Z_lt_ge_dec i 0), (Z_lt_ge_dec i (zlen l)); try lia; rewrite znth_opt_none in Ex by lia; discriminate
             |destruct (Z_lt_ge_dec j 0), (Z_lt_ge_dec j (zlen l)); try lia; rewrite znth_opt_none in Ey by lia; discriminate]. }
    assert (znth_opt j (l1 ++ y :: l2) = Some y) as Ey'.
    { rewrite <- Hu. rewrite znth_opt_zupd_other by lia. exact Ey. }
    destruct (zupd_split (l1 ++ y :: l2) j y Ey') as (k1 & k2 & El2 & Hl2 & Hu2). rewrite Hu2.
    (* l = l1 ++ x :: l2 and l1 ++ y :: l2 = k1 ++ y :: k2 with |k1| = j <> i = |l1| *)
    rewrite El.
    transitivity (x :: l1 ++ l2); [symmetry; apply Permutation_middle|].
    transitivity (x :: k1 ++ k2); [|apply Permutation_middle].
    apply perm_skip. apply Permutation_cons_inv with (a := y).
    transitivity (l1 ++ y :: l2); [apply Permutation_middle|]. rewrite El2. symmetry. apply Permutation_middle.
Qed.

Lemma tr_inner_perm : forall fuel old new index cur vis (a : list A) vis' a',
  tr_inner c fuel old new index cur vis a = Val (vis', a') -> Permutation a a'.
Proof.
  induction fuel as [|fuel IH]; intros old new index cur vis a vis' a' E; [discriminate|].
  cbn [tr_inner] in E. destruct (znth_opt cur vis) as [[|]|]; try discriminate.
  - injection E as _ <-. reflexivity.
  - destruct (remap c cur old new) as [nx|w|w]; cbn [bind] in E; try discriminate.
    destruct (ptr_swap a index nx) as [a1|w|w] eqn:Es; cbn [bind] in E; try discriminate.
    transitivity a1; [eapply ptr_swap_perm; eauto | eapply IH; eauto].
Qed.

Lemma for_res_perm (body : Z -> list bool * list A -> res (list bool * list A)) :
  (forall i s s', body i s = Val s' -> Permutation (snd s) (snd s')) ->
  forall l s s', for_res l s body = Val s' -> Permutation (snd s) (snd s').
Proof.
  intros Hb. induction l as [|i l IH]; intros s s' E; cbn in E.
  - injection E as <-. reflexivity.
  - destruct (body i s) as [s1|w|w] eqn:E1; cbn [bind] in E; try discriminate.
    transitivity (snd s1); [eapply Hb; eauto | eapply IH; eauto].
Qed.

(* transpose moves the elements: the element store afterwards is a permutation of the one before (nothing cloned, nothing dropped) *)
Theorem transpose_moves_only m m' : transpose c es m = Val m' -> Permutation (m_data m) (m_data m').
Proof.
  unfold transpose. destruct (es =? 0).
  - intros H. injection H as <-. reflexivity.
  - destruct (for_res _ _ _) as [va|w|w] eqn:E; cbn [bind]; try discriminate.
    intros H. injection H as <-. cbn [m_data].
    refine (for_res_perm _ _ _ _ _ E). intros i s [v' a'] Hb. cbn [snd].
    eapply tr_inner_perm. exact Hb.
Qed.

(* ---------- order changes ---------- *)
Theorem switch_order_logical m : Coh c es m -> 0 < es ->
  exists m', switch_order c es m = Val m' /\ Coh c es m' /\
    m_order m' = Order_switch (m_order m) /\ nrows m' = nrows m /\ ncols m' = ncols m /\
    forall r cl, 0 <= r < nrows m -> 0 <= cl < ncols m -> at_ m' r cl = at_ m r cl.
Proof.
  intros HC Hes. destruct (transpose_spec c es m HC Hes) as (d & E & Hlen & Hd).
  unfold switch_order. rewrite E. cbn [bind m_order m_shape m_data]. eexists. split; [reflexivity|].
  split.
  { pose proof (Coh_transposed m d HC Hlen) as H. unfold Coh, mmajor, mminor, size in *. cbn [m_shape m_data] in *. exact H. }
  unfold nrows, ncols, at_, flat, mmajor, mminor in *. cbn [m_order m_shape m_data AxisShape_transpose major minor].
  destruct (m_order m); cbn [Order_switch AxisShape_nrows AxisShape_ncols major minor]; repeat split; auto;
    intros r cl Hr Hcl; apply Hd; lia.
Qed.

Theorem set_order_logical m o : Coh c es m -> 0 < es ->
  exists m', set_order c es m o = Val m' /\ Coh c es m' /\ m_order m' = o /\ nrows m' = nrows m /\ ncols m' = ncols m /\
    forall r cl, 0 <= r < nrows m -> 0 <= cl < ncols m -> at_ m' r cl = at_ m r cl.
Proof.
  intros HC Hes. unfold set_order. destruct (order_eqb o (m_order m)) eqn:E.
  - exists m. assert (m_order m = o) by (destruct o, (m_order m); cbn in E; try reflexivity; discriminate).
    split; [reflexivity|]. split; [exact HC|]. repeat split; auto.
  - destruct (switch_order_logical m HC Hes) as (m' & E1 & HC' & Ho & Hr & Hcl & Hat).
    exists m'. assert (Order_switch (m_order m) = o) by (destruct o, (m_order m); cbn in E |- *; try reflexivity; discriminate).
    split; [exact E1|]. split; [exact HC'|]. repeat split; auto. congruence.
Qed.

(* the variants without rearrangement: same memory-order sequence, the transposed matrix is presented *)
Theorem switch_order_wr_spec m :
  m_data (switch_order_wr m) = m_data m /\ m_order (switch_order_wr m) = Order_switch (m_order m) /\
  nrows (switch_order_wr m) = ncols m /\ ncols (switch_order_wr m) = nrows m /\
  (Coh c es m -> Coh c es (switch_order_wr m)) /\
  forall r cl, at_ (switch_order_wr m) r cl = at_ m cl r.
Proof.
  unfold switch_order_wr, nrows, ncols, at_, flat, Coh, mmajor, mminor, size. cbn [m_order m_shape m_data].
  destruct (m_order m); cbn; repeat split; auto. all: intros; tauto.
Qed.

Theorem set_order_wr_spec m o :
  m_data (set_order_wr m o) = m_data m /\ m_order (set_order_wr m o) = o /\
  (forall r cl, at_ (set_order_wr m o) r cl = if order_eqb o (m_order m) then at_ m r cl else at_ m cl r).
Proof.
  unfold set_order_wr. destruct (order_eqb o (m_order m)) eqn:E.
  - assert (m_order m = o) by (destruct o, (m_order m); cbn in E; try reflexivity; discriminate).
    repeat split; auto.
  - destruct (switch_order_wr_spec m) as (H1 & H2 & _ & _ & _ & H6). repeat split; auto.
    rewrite H2. destruct o, (m_order m); cbn in E |- *; try reflexivity; discriminate.
Qed.
End OrderOps.
