(* C10: swap_rows / swap_cols / swap on the list model. *)
From Matreex Require Import Model.Ops Proofs.ListFacts Proofs.SliceFacts Proofs.IndexProofs.

Section Swap.
Context {A : Type}.
Variable c : cfg.
Variable es : Z.
Implicit Types m : matrix A.

Definition sw (a b i : Z) : Z := if i =? a then b else if i =? b then a else i.

Lemma vec_slice (d : list A) lo n : 0 <= lo -> 0 <= n -> lo + n <= zlen d ->
  zlen (zfirstn n (zskipn lo d)) = n /\ forall k, 0 <= k < n -> znth_opt k (zfirstn n (zskipn lo d)) = znth_opt (lo + k) d.
Proof.
  intros H1 H2 H3. split.
  - rewrite zlen_zfirstn_le; [lia|]. rewrite zlen_zskipn by lia. lia.
  - intros k Hk. rewrite znth_opt_zfirstn by lia. apply znth_opt_zskipn; lia.
Qed.

(* contiguous vectors (rows of a row-major, columns of a column-major matrix) *)
Theorem swap_major_spec m a b : Coh c es m -> 0 <= a -> 0 <= b ->
  if (a <? mmajor m) && (b <? mmajor m) then
    exists d, swap_major_axis_vectors c m a b = Val (Ok (set_data m d)) /\ zlen d = size m /\
      forall i j, 0 <= i < mmajor m -> 0 <= j < mminor m ->
        znth_opt (i * mminor m + j) d = znth_opt (sw a b i * mminor m + j) (m_data m)
  else swap_major_axis_vectors c m a b = Val (Err IndexOutOfBounds).
Proof.
  intros (H1 & H2 & H3 & H4 & _) Ha Hb. unfold swap_major_axis_vectors.
  destruct ((a <? mmajor m) && (b <? mmajor m)) eqn:Eab.
  2: { assert ((a >=? mmajor m) || (b >=? mmajor m) = true) as -> by lia. reflexivity. }
  assert ((a >=? mmajor m) || (b >=? mmajor m) = false) as -> by lia.
  destruct (a =? b) eqn:Eeq.
  - assert (a = b) as -> by lia. exists (m_data m). split; [destruct m; reflexivity|]. split; [reflexivity|].
    intros i j Hi Hj. unfold sw. destruct (i =? b) eqn:E; [assert (i = b) as -> by lia|]; reflexivity.
  - unfold AxisShape_major_stride. fold (mminor m). set (n := mminor m) in *. set (M := mmajor m) in *.
    assert (0 <= a * n /\ a * n + n <= size m /\ 0 <= b * n /\ b * n + n <= size m) as (Ha1 & Ha2 & Hb1 & Hb2) by nia.
    rewrite !umul_val by nia. cbn [bind].
    assert ((a * n + n <=? size m) && (b * n + n <=? size m) = true) as -> by lia. cbn [negb].
    assert ((a * n + n <=? b * n) || (b * n + n <=? a * n) = true) as ->.
    { destruct (Z_lt_ge_dec a b); [assert (a * n + n <= b * n) by nia | assert (b * n + n <= a * n) by nia]; lia. }
    cbn [negb]. eexists. split; [reflexivity|].
    unfold size in *.
    destruct (vec_slice (m_data m) (a * n) n) as [Lx Nx]; try lia.
    destruct (vec_slice (m_data m) (b * n) n) as [Ly Ny]; try lia.
    destruct (splice_spec (m_data m) (a * n) (zfirstn n (zskipn (b * n) (m_data m)))) as [L1 N1]; try lia.
    destruct (splice_spec (splice (m_data m) (a * n) (zfirstn n (zskipn (b * n) (m_data m)))) (b * n) (zfirstn n (zskipn (a * n) (m_data m)))) as [L2 N2]; try lia.
    split; [lia|].
    intros i j Hi Hj. rewrite N2, Lx. unfold sw.
    destruct (i =? a) eqn:Eia.
    + assert (i = a) as -> by lia.
      assert ((b * n <=? a * n + j) && (a * n + j <? b * n + n) = false) as -> by (destruct (Z_lt_ge_dec a b); nia).
      rewrite N1, Ly. assert ((a * n <=? a * n + j) && (a * n + j <? a * n + n) = true) as -> by lia.
      rewrite Ny by lia. f_equal. lia.
    + destruct (i =? b) eqn:Eib.
      * assert (i = b) as -> by lia.
        assert ((b * n <=? b * n + j) && (b * n + j <? b * n + n) = true) as -> by lia.
        rewrite Nx by lia. f_equal. lia.
      * assert ((b * n <=? i * n + j) && (i * n + j <? b * n + n) = false) as -> by (destruct (Z_lt_ge_dec i b); nia).
        rewrite N1, Ly.
        assert ((a * n <=? i * n + j) && (i * n + j <? a * n + n) = false) as -> by (destruct (Z_lt_ge_dec i a); nia).
        reflexivity.
Qed.

(* strided vectors (columns of a row-major, rows of a column-major matrix) *)
Theorem swap_minor_spec m a b : Coh c es m -> 0 <= a -> 0 <= b ->
  if (a <? mminor m) && (b <? mminor m) then
    exists d, swap_minor_axis_vectors c m a b = Val (Ok (set_data m d)) /\ zlen d = size m /\
      forall i j, 0 <= i < mmajor m -> 0 <= j < mminor m ->
        znth_opt (i * mminor m + j) d = znth_opt (i * mminor m + sw a b j) (m_data m)
  else swap_minor_axis_vectors c m a b = Val (Err IndexOutOfBounds).
Proof.
  intros (H1 & H2 & H3 & H4 & _) Ha Hb. unfold swap_minor_axis_vectors.
  destruct ((a <? mminor m) && (b <? mminor m)) eqn:Eab.
  2: { assert ((a >=? mminor m) || (b >=? mminor m) = true) as -> by lia. reflexivity. }
  assert ((a >=? mminor m) || (b >=? mminor m) = false) as -> by lia.
  unfold AxisShape_minor_stride, AxisShape_major_stride. fold (mminor m). set (n := mminor m) in *. set (M := mmajor m) in *.
  rewrite !umul_val by lia. cbn [bind]. rewrite !Z.mul_1_r.
  set (P := fun (i : Z) (data : list A) =>
    zlen data = size m /\
    forall r j, 0 <= r < M -> 0 <= j < n ->
      znth_opt (r * n + j) data = znth_opt (r * n + (if r <? i then sw a b j else j)) (m_data m)).
  destruct (for_res_inv P (fun (i : Z) (data : list A) =>
      let* offset := umul c i n in
      let* x := uadd c a offset in
      let* y := uadd c b offset in
      ptr_swap data x y) M (m_data m)) as (data & E & HP).
  - lia.
  - unfold P. split; [reflexivity|]. intros r j Hr Hj. assert (r <? 0 = false) as -> by lia. reflexivity.
  - intros i data Hi (Hl & Hd). unfold size in *.
    rewrite umul_val by nia. cbn [bind]. rewrite !uadd_val by nia. cbn [bind].
    destruct (ptr_swap_ok data (a + i * n) (b + i * n)) as (d' & Es & Hl' & Hn'); [nia|nia|].
    rewrite Es. eexists. split; [reflexivity|].
    unfold P. split; [lia|].
    intros r j Hr Hj. rewrite Hn'.
    replace (a + i * n) with (i * n + a) by lia. replace (b + i * n) with (i * n + b) by lia.
    destruct (Z.eq_dec r i) as [->|Hri].
    + assert (i <? i + 1 = true) as -> by lia.
      pose proof (Hd i a ltac:(lia) ltac:(lia)) as Hda. pose proof (Hd i b ltac:(lia) ltac:(lia)) as Hdb. pose proof (Hd i j ltac:(lia) ltac:(lia)) as Hdj.
      assert (i <? i = false) as Eii by lia. rewrite Eii in Hda, Hdb, Hdj.
      unfold sw. destruct (j =? a) eqn:Eja.
      * assert (j = a) as -> by lia.
        destruct (i * n + a =? i * n + b) eqn:E1.
        -- assert (a = b) by lia. subst b. exact Hda.
        -- rewrite Z.eqb_refl. exact Hdb.
      * destruct (j =? b) eqn:Ejb.
        -- assert (j = b) as -> by lia. rewrite Z.eqb_refl. exact Hda.
        -- assert (i * n + j =? i * n + b = false) as -> by lia. assert (i * n + j =? i * n + a = false) as -> by lia. exact Hdj.
    + assert (r * n + j =? i * n + b = false) as -> by (destruct (Z_lt_ge_dec r i); nia).
      assert (r * n + j =? i * n + a = false) as -> by (destruct (Z_lt_ge_dec r i); nia).
      rewrite (Hd r j) by lia. destruct (r <? i) eqn:E1, (r <? i + 1) eqn:E2; try reflexivity; exfalso; lia.
  - rewrite E. cbn [bind]. destruct HP as (Hl & Hd).
    exists data. split; [reflexivity|]. split; [exact Hl|].
    intros i j Hi Hj. rewrite (Hd i j) by lia. assert (i <? M = true) as -> by lia. reflexivity.
Qed.

(* Matrix::swap on two resolved positions *)
Theorem swap_at_spec m p q : 0 <= p < size m -> 0 <= q < size m ->
  exists d, swap_at m p q = Val (set_data m d) /\ zlen d = size m /\
    forall k, znth_opt k d = if k =? q then znth_opt p (m_data m) else if k =? p then znth_opt q (m_data m) else znth_opt k (m_data m).
Proof.
  intros Hp Hq. unfold swap_at. destruct (ptr_swap_ok (m_data m) p q Hp Hq) as (d & E & Hl & Hn).
  rewrite E. cbn [bind]. exists d. repeat split; auto.
Qed.

(* ---------- logical level: rows and columns in either storage order ---------- *)
Lemma set_data_coh m (d : list A) : Coh c es m -> zlen d = size m -> Coh c es (set_data m d).
Proof. unfold Coh, set_data, mmajor, mminor, size. cbn [m_shape m_data]. intros H E. rewrite E. exact H. Qed.

Theorem swap_rows_logical m a b : Coh c es m -> 0 <= a -> 0 <= b ->
  if (a <? nrows m) && (b <? nrows m) then
    exists m', swap_rows c m a b = Val (Ok m') /\ Coh c es m' /\ m_order m' = m_order m /\ m_shape m' = m_shape m /\
      forall r cl, 0 <= r < nrows m -> 0 <= cl < ncols m -> at_ m' r cl = at_ m (sw a b r) cl
  else swap_rows c m a b = Val (Err IndexOutOfBounds).
Proof.
  intros HC Ha Hb. unfold swap_rows, nrows, ncols, at_, flat.
  destruct (m_order m) eqn:Eo; cbn [AxisShape_nrows AxisShape_ncols]; fold (mmajor m) (mminor m).
  - pose proof (swap_major_spec m a b HC Ha Hb) as H. destruct ((a <? mmajor m) && (b <? mmajor m)); [|exact H].
    destruct H as (d & E & Hl & Hd). exists (set_data m d). split; [exact E|]. split; [now apply set_data_coh|].
    cbn [set_data m_order m_shape m_data]. rewrite Eo. repeat split; auto.
  - pose proof (swap_minor_spec m a b HC Ha Hb) as H. destruct ((a <? mminor m) && (b <? mminor m)); [|exact H].
    destruct H as (d & E & Hl & Hd). exists (set_data m d). split; [exact E|]. split; [now apply set_data_coh|].
    cbn [set_data m_order m_shape m_data]. rewrite Eo. repeat split; auto.
Qed.

Theorem swap_cols_logical m a b : Coh c es m -> 0 <= a -> 0 <= b ->
  if (a <? ncols m) && (b <? ncols m) then
    exists m', swap_cols c m a b = Val (Ok m') /\ Coh c es m' /\ m_order m' = m_order m /\ m_shape m' = m_shape m /\
      forall r cl, 0 <= r < nrows m -> 0 <= cl < ncols m -> at_ m' r cl = at_ m r (sw a b cl)
  else swap_cols c m a b = Val (Err IndexOutOfBounds).
Proof.
  intros HC Ha Hb. unfold swap_cols, nrows, ncols, at_, flat.
  destruct (m_order m) eqn:Eo; cbn [AxisShape_nrows AxisShape_ncols]; fold (mmajor m) (mminor m).
  - pose proof (swap_minor_spec m a b HC Ha Hb) as H. destruct ((a <? mminor m) && (b <? mminor m)); [|exact H].
    destruct H as (d & E & Hl & Hd). exists (set_data m d). split; [exact E|]. split; [now apply set_data_coh|].
    cbn [set_data m_order m_shape m_data]. rewrite Eo. repeat split; auto.
  - pose proof (swap_major_spec m a b HC Ha Hb) as H. destruct ((a <? mmajor m) && (b <? mmajor m)); [|exact H].
    destruct H as (d & E & Hl & Hd). exists (set_data m d). split; [exact E|]. split; [now apply set_data_coh|].
    cbn [set_data m_order m_shape m_data]. rewrite Eo. repeat split; auto.
Qed.
End Swap.
