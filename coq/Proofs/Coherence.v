(* C01: every operation of the history machine keeps every matrix of the pool coherent
   (major * minor = number of stored elements, within the machine bounds). *)
From Matreex Require Import Model.Step Model.Decode Proofs.ListFacts Proofs.SliceFacts Proofs.IndexProofs Proofs.Decisions Proofs.ShapeOps
  Proofs.Transpose Proofs.OrderOps Proofs.Swap Proofs.Overwrite Proofs.Elementwise Proofs.Multiply Proofs.Construct.

Section Coherence.
Variable c : cfg.
Hypothesis Hwf : wf c.
Variable es : Z.
Hypothesis Hes : 0 <= es.

Definition pool_coh (p : pool) : Prop := forall s m, slot p s = Some m -> Coh c es m.

(* ---------- pool bookkeeping ---------- *)
Lemma slot_put p d x s : slot (put p d x) s = if (s =? d) && in_pool p d then x else slot p s.
Proof.
  unfold slot, put, in_pool. destruct ((0 <=? d) && (d <? zlen p)) eqn:Ein.
  - rewrite znth_opt_zupd by lia. destruct (s =? d); cbn [andb]; [destruct x; reflexivity|reflexivity].
  - rewrite andb_false_r. destruct (Z_lt_ge_dec d 0).
    + unfold zupd. assert (d <? 0 = true) as -> by lia. reflexivity.
    + assert (zlen p <= d) by lia. unfold zupd. assert (d <? 0 = false) as -> by lia.
      rewrite skipn_all2 by (unfold zlen in *; lia). rewrite firstn_all2 by (unfold zlen in *; lia). rewrite app_nil_r. reflexivity.
Qed.

Lemma put_some_coh p d m : pool_coh p -> Coh c es m -> pool_coh (put p d (Some m)).
Proof. intros Hp Hm s m' H. rewrite slot_put in H. destruct ((s =? d) && in_pool p d); [congruence|eauto]. Qed.
Lemma put_none_coh p d : pool_coh p -> pool_coh (put p d None).
Proof. intros Hp s m' H. rewrite slot_put in H. destruct ((s =? d) && in_pool p d); [discriminate|eauto]. Qed.

Lemma store_coh p d (r : res (result mat)) : pool_coh p -> (forall m, r = Val (Ok m) -> Coh c es m) -> pool_coh (fst (store p d r)).
Proof. intros Hp Hr. unfold store. destruct r as [[m|e]|w|w]; cbn [fst]; auto. apply put_some_coh; auto. Qed.
Lemma store_op_coh p d (r : res (result mat)) : pool_coh p -> (forall m, r = Val (Ok m) -> Coh c es m) -> pool_coh (fst (store_op p d r)).
Proof. intros Hp Hr. unfold store_op. destruct r as [[m|e]|w|w]; cbn [fst]; auto; try (apply store_coh; auto). Qed.
Lemma store_val_coh p d (r : res mat) : pool_coh p -> (forall m, r = Val m -> Coh c es m) -> pool_coh (fst (store_val p d r)).
Proof. intros Hp Hr. unfold store_val. apply store_coh; auto. intros m H. destruct r; cbn in H; try discriminate. injection H as <-. auto. Qed.

(* ---------- coherence of what the individual operations return ---------- *)
Lemma set_data_coh' {X} (m : matrix X) (d : list X) : Coh c es m -> zlen d = size m -> Coh c es (set_data m d).
Proof. unfold Coh, set_data, mmajor, mminor, size. cbn [m_shape m_data]. intros H E. rewrite E. exact H. Qed.
Lemma retype_coh {X Y} (m : matrix X) (d : list Y) : Coh c es m -> zlen d = size m -> Coh c es (mkMatrix (m_order m) (m_shape m) d).
Proof. unfold Coh, mmajor, mminor, size. cbn [m_shape m_data]. intros H E. rewrite E. exact H. Qed.

Lemma new_coh {X} : Coh c es (@new_matrix X).
Proof. destruct Hwf. unfold Coh, new_matrix, mmajor, mminor, size, zlen. cbn. lia. Qed.

Lemma shaped_coh {X} (o : order) (r cl : Z) (d : list X) : is_usize c r -> is_usize c cl -> zlen d = r * cl ->
  r * cl <= umax c -> es * (r * cl) <= imax c -> Coh c es (mkMatrix o (shape_of o r cl) d).
Proof.
  intros Hr Hcl Hd H1 H2. unfold Coh, mmajor, mminor, size, is_usize in *. cbn [m_shape m_data].
  rewrite Hd. destruct o; cbn [shape_of Shape_to_axis_shape_unchecked sh_nrows sh_ncols major minor]; repeat split; lia.
Qed.

(* zero-sized element types take the shortcut of transpose (the shape is swapped, the store untouched) *)
Lemma transpose_coh {X} (m m' : matrix X) : Coh c es m -> transpose c es m = Val m' -> Coh c es m'.
Proof.
  intros HC E. destruct (Z.eq_dec es 0) as [Hz|Hnz].
  - subst es. rewrite (transpose_zst c 0 m eq_refl) in E. injection E as <-.
    destruct HC as (H1 & H2 & H3 & H4 & H5). unfold Coh, mmajor, mminor, size, AxisShape_transpose in *. cbn. repeat split; lia.
  - destruct (transpose_logical c es m HC ltac:(lia)) as (m2 & E2 & HC2 & _). congruence.
Qed.
Lemma order_irrelevant_coh {X} (m : matrix X) o : Coh c es m -> Coh c es (mkMatrix o (m_shape m) (m_data m)).
Proof. unfold Coh, mmajor, mminor, size. cbn. auto. Qed.
Lemma switch_order_coh {X} (m m' : matrix X) : Coh c es m -> switch_order c es m = Val m' -> Coh c es m'.
Proof.
  intros HC E. unfold switch_order in E. destruct (transpose c es m) as [m1|w|w] eqn:E1; cbn [bind] in E; try discriminate.
  injection E as <-. apply order_irrelevant_coh. exact (transpose_coh m m1 HC E1).
Qed.
Lemma set_order_coh {X} (m m' : matrix X) o : Coh c es m -> set_order c es m o = Val m' -> Coh c es m'.
Proof.
  intros HC E. unfold set_order in E. destruct (order_eqb o (m_order m)).
  - injection E as <-. exact HC.
  - exact (switch_order_coh m m' HC E).
Qed.
Lemma switch_order_wr_coh (m : mat) : Coh c es m -> Coh c es (switch_order_wr m).
Proof. intros HC. destruct (switch_order_wr_spec c es m) as (_ & _ & _ & _ & H & _). auto. Qed.
Lemma set_order_wr_coh (m : mat) o : Coh c es m -> Coh c es (set_order_wr m o).
Proof. intros HC. unfold set_order_wr. destruct (order_eqb o (m_order m)); auto using switch_order_wr_coh. Qed.

Lemma reshape_coh (m m' : mat) r cl : Coh c es m -> is_usize c r -> is_usize c cl -> reshape c m r cl = Val (Ok m') -> Coh c es m'.
Proof.
  intros HC Hr Hcl. rewrite reshape_spec by assumption.
  destruct ((r * cl >? umax c) || negb (size m =? r * cl)) eqn:E; [discriminate|]. intros H. injection H as <-.
  destruct HC as (H1 & H2 & H3 & H4 & H5). assert (size m = r * cl) as Es by lia.
  apply shaped_coh; auto; unfold size in *; try lia.
Qed.

Lemma zupd_coh (m : mat) q x : Coh c es m -> Coh c es (set_data m (zupd (m_data m) q x)).
Proof. intros HC. apply set_data_coh'; auto. apply zlen_zupd. Qed.

Lemma swap_at_coh (m m' : mat) p q : Coh c es m -> swap_at m p q = Val m' -> Coh c es m'.
Proof.
  intros HC. unfold swap_at, ptr_swap. destruct (znth_opt p (m_data m)); [|discriminate]. destruct (znth_opt q (m_data m)); [|discriminate].
  cbn [bind]. intros H. injection H as <-. apply set_data_coh'; auto. now rewrite !zlen_zupd.
Qed.

Lemma swap_rows_coh (m m' : mat) a b : Coh c es m -> 0 <= a -> 0 <= b -> swap_rows c m a b = Val (Ok m') -> Coh c es m'.
Proof.
  intros HC Ha Hb E. pose proof (swap_rows_logical c es m a b HC Ha Hb) as H.
  destruct ((a <? nrows m) && (b <? nrows m)); [destruct H as (m2 & E2 & HC2 & _); congruence | congruence].
Qed.
Lemma swap_cols_coh (m m' : mat) a b : Coh c es m -> 0 <= a -> 0 <= b -> swap_cols c m a b = Val (Ok m') -> Coh c es m'.
Proof.
  intros HC Ha Hb E. pose proof (swap_cols_logical c es m a b HC Ha Hb) as H.
  destruct ((a <? ncols m) && (b <? ncols m)); [destruct H as (m2 & E2 & HC2 & _); congruence | congruence].
Qed.

Lemma overwrite_coh (d s d' : mat) f : Coh c es d -> Coh c es s -> overwrite c f d s = Val d' -> Coh c es d'.
Proof. intros HD HS E. destruct (overwrite_logical c es f d s HD HS) as (d2 & E2 & HC2 & _). congruence. Qed.

Lemma map_matrix_coh (m m' : mat) f : Coh c es m -> map_matrix c es f m = Ok m' -> Coh c es m'.
Proof.
  intros HC. unfold map_matrix. destruct (check_size c es (size m)); [|discriminate]. intros H. injection H as <-.
  apply retype_coh; auto. apply zlen_map.
Qed.

Lemma ew_coh (a b m' : mat) op : Coh c es a -> Coh c es b -> elementwise_operation c es op a b = Val (Ok m') -> Coh c es m'.
Proof.
  intros HA HB E. pose proof (elementwise_operation_spec c es es op es a b HA HB Hwf ltac:(lia)) as H.
  destruct (negb (is_ew_conformable a b)); [congruence|]. destruct (es * size a >? imax c); [congruence|].
  destruct H as (d & E2 & Hl & _). rewrite E2 in E. injection E as <-. now apply retype_coh.
Qed.
Lemma ew_assign_coh (a b m' : mat) op : Coh c es a -> Coh c es b -> elementwise_operation_assign c op a b = Val (Ok m') -> Coh c es m'.
Proof.
  intros HA HB E. pose proof (elementwise_assign_spec c es es op a b HA HB) as H.
  destruct (negb (is_ew_conformable a b)); [congruence|].
  destruct H as (d & E2 & Hl & _). rewrite E2 in E. injection E as <-. now apply retype_coh.
Qed.

Lemma product_coh (a b p : mat) : Coh c es a -> Coh c es b ->
  m_order p = m_order a -> nrows p = nrows a -> ncols p = ncols b -> size p = nrows a * ncols b ->
  nrows a * ncols b <= umax c -> es * (nrows a * ncols b) <= imax c -> Coh c es p.
Proof.
  intros HA HB Ho Hr Hcl Hs H1 H2.
  destruct (nrows_ncols_size c es a HA) as (_ & Ra & Ca). destruct (nrows_ncols_size c es b HB) as (_ & Rb & Cb).
  assert (nrows a <= umax c /\ ncols b <= umax c) as [U1 U2].
  { destruct HA as (A1 & A2 & _), HB as (B1 & B2 & _). unfold nrows, ncols, mmajor, mminor in *. destruct (m_order a), (m_order b); cbn; lia. }
  unfold Coh, nrows, ncols, mmajor, mminor in *. destruct (m_order p); cbn [AxisShape_nrows AxisShape_ncols] in *; repeat split; try lia; rewrite Hs; nia.
Qed.
Lemma map_res_len {X Y} (f : X -> res Y) : forall l ys, map_res f l = Val ys -> zlen ys = zlen l.
Proof.
  induction l as [|x l IH]; intros ys E; cbn [map_res] in E.
  - now injection E as <-.
  - destruct (f x) as [y|w|w]; cbn [bind] in E; try discriminate.
    destruct (map_res f l) as [t|w|w]; cbn [bind] in E; try discriminate. injection E as <-.
    specialize (IH t eq_refl). unfold zlen in *. cbn [length]. lia.
Qed.
Lemma map_res_in {X Y} (f : X -> res Y) : forall l ys y, map_res f l = Val ys -> In y ys -> exists x, In x l /\ f x = Val y.
Proof.
  induction l as [|x l IH]; intros ys y E Hin; cbn [map_res] in E.
  - injection E as <-. contradiction.
  - destruct (f x) as [y0|w|w] eqn:Ef; cbn [bind] in E; try discriminate.
    destruct (map_res f l) as [t|w|w] eqn:Et; cbn [bind] in E; try discriminate. injection E as <-.
    destruct Hin as [<-|Hin]; [exists x; split; [now left|exact Ef]|].
    destruct (IH t y eq_refl Hin) as (x' & Hx & Hf). exists x'. split; [now right|exact Hf].
Qed.
(* a matrix assembled from nr vectors of nc cells each (rows of a row-major, columns of a column-major result) *)
Lemma grid_len {Y} (cell : Z -> Z -> res Y) (n1 n2 : Z) (vs : list (list Y)) : 0 <= n1 -> 0 <= n2 ->
  map_res (fun i => map_res (fun j => cell i j) (zseq n2)) (zseq n1) = Val vs -> zlen (concat vs) = n1 * n2.
Proof.
  intros H1 H2 E. pose proof (map_res_len _ _ _ E) as Hl. unfold zlen in Hl at 2. rewrite zseq_length in Hl.
  destruct (znth_concat_uniform vs n2 H2) as [Lc _].
  - intros r Hr. destruct (map_res_in _ _ _ _ E Hr) as (i & _ & Ei). pose proof (map_res_len _ _ _ Ei) as Hr2.
    unfold zlen in Hr2 at 2. rewrite zseq_length in Hr2. lia.
  - rewrite Lc. lia.
Qed.

Lemma mul_like_coh (a b p : mat) op : Coh c es a -> Coh c es b ->
  multiplication_like_operation c es es es Dflt op a b = Val (Ok p) -> Coh c es p.
Proof.
  intros HA HB E.
  destruct (nrows_ncols_size c es a HA) as (_ & Ra & Ca). destruct (nrows_ncols_size c es b HB) as (_ & Rb & Cb).
  assert (is_usize c (nrows a) /\ is_usize c (ncols b)) as [U1 U2].
  { destruct HA as (A1 & A2 & _), HB as (B1 & B2 & _). unfold is_usize, nrows, ncols, mmajor, mminor in *. destruct (m_order a), (m_order b); cbn; lia. }
  unfold multiplication_like_operation, mul_decision in E.
  destruct (negb (is_mul_conformable a b)); cbn [bind] in E; [discriminate|].
  rewrite (decide_shape_spec c Hwf es (m_order a) (nrows a) (ncols b) U1 U2 Hes) in E. cbn [bind] in E.
  destruct (nrows a * ncols b >? umax c) eqn:E1; [discriminate|]. destruct (es * (nrows a * ncols b) >? imax c) eqn:E2; [discriminate|].
  assert (forall d : list expr, zlen d = nrows a * ncols b ->
            Coh c es (mkMatrix (m_order a) (Shape_to_axis_shape_unchecked (mkShape (nrows a) (ncols b)) (m_order a)) d)) as Hshape.
  { intros d Hd. apply (shaped_coh (m_order a) (nrows a) (ncols b)); auto; lia. }
  destruct (ncols a =? 0).
  - injection E as <-. apply Hshape. unfold zlen, zrepeat. rewrite repeat_length. nia.
  - destruct (set_order c es a RowMajor) as [a'|w|w]; cbn [bind] in E; try discriminate.
    destruct (set_order c es b ColMajor) as [b'|w|w]; cbn [bind] in E; try discriminate.
    destruct (m_order a); cbn [bind] in E.
    + match type of E with context [bind (map_res ?F ?L) _] => destruct (map_res F L) as [rows|w|w] eqn:Er end; cbn [bind] in E; try discriminate.
      injection E as <-. apply Hshape. exact (grid_len _ _ _ _ Ra Cb Er).
    + match type of E with context [bind (map_res ?F ?L) _] => destruct (map_res F L) as [cols|w|w] eqn:Er end; cbn [bind] in E; try discriminate.
      injection E as <-. apply Hshape. rewrite (grid_len (fun col row => _) _ _ _ Cb Ra Er). lia.
Qed.
Lemma multiply_coh (a b p : mat) : Coh c es a -> Coh c es b ->
  multiply c es es es Dflt (Bin 2) (Bin 0) a b = Val (Ok p) -> Coh c es p.
Proof. intros HA HB E. exact (mul_like_coh a b p _ HA HB E). Qed.

(* mutable iterators only replace elements in place *)
Lemma drain_mut_len {X} f (posof : X -> Z) show : forall items data d' os,
  drain_mut f posof show data items = (d', os) -> zlen d' = zlen data.
Proof.
  induction items as [|x t IH]; intros data d' os E; cbn [drain_mut] in E.
  - now injection E as <- _.
  - destruct (znth_opt (posof x) data); [|now injection E as <- _].
    destruct (drain_mut f posof show (zupd data (posof x) (f e)) t) as [d1 os1] eqn:E1. injection E as <- _.
    rewrite (IH _ _ _ E1). apply zlen_zupd.
Qed.
Lemma single_mut_len {X} f (posof : X -> Z) show : forall script data items d' os,
  single_mut f posof show data items script = (d', os) -> zlen d' = zlen data.
Proof.
  induction script as [|w t IH]; intros data items d' os E; cbn [single_mut] in E.
  - now injection E as <- _.
  - destruct (w =? 3); [eapply drain_mut_len; exact E|]. destruct (w =? 4); [eapply drain_mut_len; exact E|].
    destruct (deque_cmd items w) as [items' r]. destruct r as [[x|]|n|].
    + destruct (znth_opt (posof x) data); [|now injection E as <- _].
      destruct (single_mut f posof show (zupd data (posof x) (f e)) items' t) as [d1 os1] eqn:E1. injection E as <- _.
      rewrite (IH _ _ _ _ E1). apply zlen_zupd.
    + destruct (single_mut f posof show data items' t) as [d1 os1] eqn:E1. injection E as <- _. eauto.
    + destruct (single_mut f posof show data items' t) as [d1 os1] eqn:E1. injection E as <- _. eauto.
    + now injection E as <- _.
Qed.
Lemma nested_mut_len f : forall script data outer inners d' os,
  nested_mut f data outer inners script = (d', os) -> zlen d' = zlen data.
Proof.
  fix IH 1. intros script data outer inners d' os E. destruct script as [|who [|what t]]; cbn [nested_mut] in E; try (now injection E as <- _).
  destruct (who <? 0).
  - destruct (deque_cmd outer what) as [outer' r]. destruct r as [[v|]|n|].
    + destruct (nested_mut f data outer' (inners ++ [v]) t) as [d1 os1] eqn:E1. injection E as <- _. eauto.
    + destruct (nested_mut f data outer' inners t) as [d1 os1] eqn:E1. injection E as <- _. eauto.
    + destruct (nested_mut f data outer' inners t) as [d1 os1] eqn:E1. injection E as <- _. eauto.
    + now injection E as <- _.
  - destruct (znth_opt who inners) as [l|]; [|now injection E as <- _].
    destruct (deque_cmd l what) as [l' r]. destruct r as [[q|]|n|].
    + destruct (znth_opt q data); [|now injection E as <- _].
      destruct (nested_mut f (zupd data q (f e)) outer (zupd inners who l') t) as [d1 os1] eqn:E1. injection E as <- _.
      rewrite (IH _ _ _ _ _ _ E1). apply zlen_zupd.
    + destruct (nested_mut f data outer (zupd inners who l') t) as [d1 os1] eqn:E1. injection E as <- _. eauto.
    + destruct (nested_mut f data outer inners t) as [d1 os1] eqn:E1. injection E as <- _. eauto.
    + now injection E as <- _.
Qed.
Lemma run_single_mut_coh f (m : mat) r script : Coh c es m -> Coh c es (fst (run_single_mut f m r script)).
Proof.
  intros HC. unfold run_single_mut. destruct r as [[pos|e]|w|w]; cbn [fst]; auto.
  destruct (single_mut _ _ _ _ _ _) as [d os] eqn:E. cbn [fst]. apply set_data_coh'; auto. eapply single_mut_len; eauto.
Qed.
Lemma run_single_mut_idx_coh f (m : mat) script : Coh c es m -> Coh c es (fst (run_single_mut_idx f m script)).
Proof.
  intros HC. unfold run_single_mut_idx. destruct (map_res _ _) as [items|w|w]; cbn [fst]; auto.
  destruct (single_mut _ _ _ _ _ _) as [d os] eqn:E. cbn [fst]. apply set_data_coh'; auto. eapply single_mut_len; eauto.
Qed.
Lemma run_nested_mut_coh f (m : mat) rows script : Coh c es m -> Coh c es (fst (run_nested_mut f m rows script)).
Proof.
  intros HC. unfold run_nested_mut. destruct (nested_mut _ _ _ _ _) as [d os] eqn:E. cbn [fst]. apply set_data_coh'; auto. eapply nested_mut_len; eauto.
Qed.

(* ---------- constructors ---------- *)
Lemma with_value_coh (r cl : Z) (v : expr) (m : mat) : is_usize c r -> is_usize c cl ->
  with_value c es r cl v = Val (Ok m) -> Coh c es m.
Proof.
  intros Hr Hcl. rewrite with_value_spec by (auto; lia).
  destruct (r * cl >? umax c) eqn:E1; [discriminate|]. destruct (es * (r * cl) >? imax c) eqn:E2; [discriminate|].
  intros H. injection H as <-. assert (0 <= r * cl) by (unfold is_usize in *; nia).
  apply (shaped_coh RowMajor r cl); auto; try lia. unfold zlen, zrepeat. rewrite repeat_length. lia.
Qed.
Lemma with_initializer_coh f (r cl : Z) (m : mat) : is_usize c r -> is_usize c cl ->
  with_initializer c es f r cl = Val (Ok m) -> Coh c es m.
Proof.
  intros Hr Hcl E. pose proof (with_initializer_spec c Hwf es ltac:(lia) f r cl Hr Hcl) as H.
  destruct (r * cl >? umax c) eqn:E1; [congruence|]. destruct (es * (r * cl) >? imax c) eqn:E2; [congruence|].
  destruct H as (data & E3 & Hl & _). rewrite E3 in E. injection E as <-.
  apply (shaped_coh RowMajor r cl); auto; lia.
Qed.

(* rows handed to a conversion are vectors that exist: their number and lengths are usize values, and all their elements
   fit into one vector (for element types that occupy memory the last clause follows from the third; for zero-sized
   ones it excludes inputs of more than usize::MAX elements in total, on which Vec::extend panics with
   "capacity overflow" - a panic of std the model does not reproduce) *)
Definition rows_ok (rows : list (list Z)) : Prop :=
  zlen rows <= umax c /\ (forall r, In r rows -> zlen r <= umax c) /\ es * zlen (concat rows) <= imax c /\
  zlen (concat rows) <= umax c.

Lemma uniform_concat_len {X} (rows : list (list X)) nc : uniform nc rows = true -> zlen (concat rows) = zlen rows * nc.
Proof.
  intros Hu. destruct (Z_lt_ge_dec nc 0).
  - destruct rows as [|r0 t]; [reflexivity|]. cbn [uniform forallb] in Hu. pose proof (zlen_nonneg r0). lia.
  - assert (forall r, In r rows -> zlen r = nc) as Hunif.
    { intros r Hr. unfold uniform in Hu. rewrite forallb_forall in Hu. specialize (Hu r Hr). lia. }
    destruct (znth_concat_uniform rows nc ltac:(lia) Hunif) as [Lc _]. exact Lc.
Qed.

Lemma try_from_rows_coh (rows : list (list Z)) (m : mat) : rows_ok rows ->
  try_from_rows c es (map atoms rows) = Val (Ok m) -> Coh c es m.
Proof.
  intros (R1 & R2 & R3 & R4).
  assert (zlen (map atoms rows) = zlen rows) as Ln by apply zlen_map.
  assert (first_len (map atoms rows) <= umax c) as Hf.
  { destruct rows as [|r0 t]; cbn [map first_len]; [destruct Hwf; lia|]. unfold atoms. rewrite zlen_map. apply R2. now left. }
  rewrite try_from_rows_spec by (auto; lia).
  set (nr := zlen (map atoms rows)) in *. set (nc := first_len (map atoms rows)) in *.
  destruct (nr * nc >? umax c) eqn:E1; [discriminate|]. destruct (es * (nr * nc) >? imax c) eqn:E2; [discriminate|].
  destruct (uniform nc (map atoms rows)) eqn:Eu; [|discriminate]. intros H. injection H as <-.
  assert (0 <= nc) by (unfold nc, first_len; destruct (map atoms rows); [lia|apply zlen_nonneg]).
  assert (0 <= nr) by apply zlen_nonneg.
  apply (shaped_coh RowMajor nr nc); unfold is_usize; try lia. apply uniform_concat_len. exact Eu.
Qed.

Lemma concat_atoms (rows : list (list Z)) : concat (map atoms rows) = atoms (concat rows).
Proof. unfold atoms. symmetry. apply concat_map. Qed.

Lemma from_iter_coh (rows : list (list Z)) (m : mat) : rows_ok rows ->
  from_iter c (map atoms rows) = Val m -> Coh c es m.
Proof.
  intros (R1 & R2 & R3 & R4). rewrite from_iter_spec by (rewrite zlen_map; exact R1).
  destruct rows as [|row rest]; cbn [map].
  - intros H. injection H as <-. apply new_coh.
  - destruct (uniform (zlen (atoms row)) (map atoms rest)) eqn:Eu; [|discriminate]. intros H. injection H as <-.
    set (nc := zlen (atoms row)). change (atoms row :: map atoms rest) with (map atoms (row :: rest)).
    assert (uniform nc (map atoms (row :: rest)) = true) as Hu by (cbn [map uniform forallb]; fold nc; rewrite Z.eqb_refl; exact Eu).
    pose proof (uniform_concat_len _ _ Hu) as Hl. rewrite concat_atoms in *. unfold atoms in Hl at 1. rewrite !zlen_map in Hl.
    assert (0 <= nc) by apply zlen_nonneg. pose proof (zlen_nonneg (row :: rest)).
    assert (nc <= umax c) by (unfold nc, atoms; rewrite zlen_map; apply R2; now left).
    replace (zlen (map atoms (row :: rest))) with (zlen (row :: rest)) by (symmetry; apply zlen_map).
    change (atoms row ++ atoms (concat rest)) with (atoms (row ++ concat rest)) || idtac.
    apply (shaped_coh RowMajor (zlen (row :: rest)) nc); unfold is_usize; try lia.
    all: rewrite <- Hl; try (cbn [concat]; unfold atoms; rewrite !zlen_app2, !zlen_map; reflexivity); try lia.
Qed.

Lemma from_row_coh (l : list Z) : es * zlen l <= imax c /\ zlen l <= umax c -> Coh c es (from_row (atoms l)) /\ Coh c es (from_col (atoms l)).
Proof.
  intros [H Hu]. pose proof (zlen_nonneg l). destruct Hwf as [W1 W2].
  unfold from_row, from_col, atoms. rewrite !zlen_map.
  split; [apply (shaped_coh RowMajor 1 (zlen l)) | apply (shaped_coh RowMajor (zlen l) 1)]; unfold is_usize; rewrite ?zlen_map; lia.
Qed.

Lemma from_arrays_coh (nc : Z) (rows : list (list Z)) : rows_ok rows -> uniform nc (map atoms rows) = true -> 0 <= nc <= umax c ->
  Coh c es (from_arrays nc (map atoms rows)).
Proof.
  intros (R1 & R2 & R3 & R4) Hu Hnc. unfold from_arrays. pose proof (uniform_concat_len _ _ Hu) as Hl.
  rewrite concat_atoms in *. unfold atoms in Hl at 1. rewrite !zlen_map in *. pose proof (zlen_nonneg rows).
  apply (shaped_coh RowMajor (zlen rows) nc); unfold is_usize; try lia;
    try (unfold atoms; rewrite zlen_map; exact Hl);
    try (rewrite <- Hl; pose proof (zlen_nonneg (concat rows)); destruct Hwf; nia).
Qed.

Lemma map_repeat' {X Y} (f : X -> Y) (x : X) n : map f (repeat x n) = repeat (f x) n.
Proof. induction n as [|n IH]; cbn; [reflexivity|now rewrite IH]. Qed.
Lemma atoms_zrepeat (v a : Z) : zrepeat (Atom v) a = atoms (zrepeat v a).
Proof. unfold zrepeat, atoms. symmetry. apply map_repeat'. Qed.
Lemma map_atoms_zrepeat (r : list Z) a : zrepeat (atoms r) a = map atoms (zrepeat r a).
Proof. unfold zrepeat. symmetry. apply map_repeat'. Qed.
Lemma uniform_zrepeat (r : list Z) a : uniform (zlen r) (map atoms (zrepeat r a)) = true.
Proof.
  unfold uniform, zrepeat. apply forallb_forall. intros x Hx. apply in_map_iff in Hx. destruct Hx as (y & <- & Hy).
  apply repeat_spec in Hy. subst y. unfold atoms. rewrite zlen_map. apply Z.eqb_refl.
Qed.
Lemma zlen_zrepeat' {X} (x : X) a : 0 <= a -> zlen (zrepeat x a) = a.
Proof. intros H. unfold zlen, zrepeat. rewrite repeat_length. lia. Qed.

(* ---------- the arguments of an operation are values of the Rust types: usize extents, vectors that exist ---------- *)
Definition wf_op (o : op) : Prop :=
  match o with
  | WithDefault _ r cl | WithValue _ r cl _ | WithInit _ r cl _ | Reshape _ r cl | Resize _ r cl => is_usize c r /\ is_usize c cl
  | FromRow _ l | FromCol _ l => es * zlen l <= imax c /\ zlen l <= umax c      (* a vector that exists *)
  | FromArrays _ _ nc rows => rows_ok rows /\ uniform nc (map atoms rows) = true /\ 0 <= nc <= umax c
  | TryFromRows _ _ rows | FromIter _ rows => rows_ok rows
  | MacroOp _ arm a b rows =>            (* the arms of matrix! / row_vec! / col_vec!: the literal they are given exists *)
      match arm with
      | 1 => is_usize c a /\ is_usize c b
      | 2 => 0 <= a /\ zlen (hd [] rows) <= umax c /\ rows_ok (zrepeat (hd [] rows) a)
      | 3 => rows_ok rows /\ uniform (zlen (hd [] rows)) (map atoms rows) = true
      | 5 | 8 => 0 <= a <= umax c /\ es * a <= imax c
      | 6 | 9 => es * zlen (hd [] rows) <= imax c /\ zlen (hd [] rows) <= umax c
      | _ => True
      end
  | SwapRows _ a b | SwapCols _ a b => 0 <= a /\ 0 <= b
  | _ => True
  end.

Ltac need_slot p s Hp :=
  let m := fresh "m" in let E := fresh "E" in let HC := fresh "HC" in
  destruct (slot p s) as [m|] eqn:E; [pose proof (Hp _ _ E) as HC | try exact Hp].

Theorem step_coh (p : pool) (o : op) : pool_coh p -> wf_op o -> pool_coh (fst (step c es p o)).
Proof.
  intros Hp Hw. destruct o; cbn [wf_op] in Hw; unfold step;
    repeat match goal with |- context [if in_pool p ?d then _ else _] => destruct (in_pool p d); [|exact Hp] end.
  (* construct *)
  - apply put_some_coh; auto using new_coh.
  - apply put_some_coh; auto using new_coh.
  - destruct Hw. apply store_coh; auto. intros m E. unfold with_default in E. eapply (with_value_coh r cl); eauto.
  - destruct Hw. apply store_coh; auto. intros m E. eapply (with_value_coh r cl); eauto.
  - destruct Hw. apply store_coh; auto. intros m E. eapply (with_initializer_coh _ r cl); eauto.
  - apply put_some_coh; auto. apply from_row_coh; auto.
  - apply put_some_coh; auto. apply from_row_coh; auto.
  - destruct Hw as (H1 & H2 & H3). apply put_some_coh; auto. apply from_arrays_coh; auto.
  - apply store_coh; auto. intros m E. eapply try_from_rows_coh; eauto.
  - apply store_val_coh; auto. intros m E. eapply from_iter_coh; eauto.
  - (* the macro arms *)
    destruct arm as [|q|q]; cbn [fst]; try exact Hp;
      [apply put_some_coh; auto using new_coh|].
    do 4 (try destruct q as [q|q|]); cbn [fst]; try exact Hp.
    all: try (destruct rows as [|r0 rest]; cbn [fst hd] in *; [exact Hp|]).
    all: try (apply put_some_coh; [exact Hp|]).
    + (* 7: col_vec![] *) apply (from_row_coh []). cbn. destruct Hwf. split; lia.
    + (* 9: col_vec![..] *) apply from_row_coh. exact Hw.
    + (* 5: row_vec![7; a] *) rewrite atoms_zrepeat. apply from_row_coh. rewrite zlen_zrepeat' by lia. lia.
    + (* 3: matrix![[..], [..]] *) destruct Hw as [Hr Hu]. apply from_arrays_coh; auto.
      pose proof (zlen_nonneg r0). destruct Hr as (_ & R2 & _). specialize (R2 r0 (or_introl eq_refl)). lia.
    + (* 6: row_vec![..] *) apply from_row_coh. exact Hw.
    + (* 8: col_vec![7; a] *) rewrite atoms_zrepeat. apply from_row_coh. rewrite zlen_zrepeat' by lia. lia.
    + (* 4: row_vec![] *) apply (from_row_coh []). cbn. destruct Hwf. split; lia.
    + (* 2: matrix![[..]; a] *) destruct Hw as (Ha & Hl & Hr). rewrite map_atoms_zrepeat. apply from_arrays_coh; auto.
      * apply uniform_zrepeat.
      * pose proof (zlen_nonneg r0). lia.
    + (* 1: matrix![[7; b]; a] *) destruct Hw. apply store_op_coh; auto. intros m E. eapply (with_value_coh a b); eauto.
  - apply put_some_coh; auto using new_coh.
  (* observe: the pool is returned as it is *)
  - need_slot p s Hp; exact Hp.
  - need_slot p s Hp; exact Hp.
  - need_slot p s Hp; exact Hp.
  - need_slot p s Hp; exact Hp.
  - need_slot p s Hp; exact Hp.
  - need_slot p s Hp; exact Hp.
  - need_slot p s Hp; exact Hp.
  - need_slot p s Hp. destruct (locate c m i). exact Hp.
  - need_slot p s Hp. destruct (locate c m i). exact Hp.
  - need_slot p s Hp; exact Hp.
  - need_slot p s Hp; exact Hp.
  - need_slot p s Hp; exact Hp.
  - need_slot p s Hp; need_slot p t Hp; exact Hp.
  - need_slot p s Hp; need_slot p t Hp; exact Hp.
  - need_slot p s Hp; exact Hp.
  - need_slot p s Hp; need_slot p t Hp; exact Hp.
  - need_slot p s Hp; need_slot p t Hp; exact Hp.
  - need_slot p s Hp; need_slot p t Hp; exact Hp.
  - need_slot p s Hp; exact Hp.
  - need_slot p s Hp; exact Hp.
  (* order / shape *)
  - need_slot p s Hp. apply store_val_coh; auto. intros m' E'. eapply transpose_coh; eauto.
  - need_slot p s Hp. apply store_val_coh; auto. intros m' E'. eapply switch_order_coh; eauto.
  - need_slot p s Hp. apply put_some_coh; auto using switch_order_wr_coh.
  - need_slot p s Hp. apply store_val_coh; auto. intros m' E'. eapply set_order_coh; eauto.
  - need_slot p s Hp. apply put_some_coh; auto using set_order_wr_coh.
  - need_slot p s Hp. destruct Hw. apply store_coh; auto. intros m' E'. eapply (reshape_coh m m' r cl); eauto.
  - need_slot p s Hp. destruct Hw. apply store_coh; auto. intros m' E'. eapply (resize_coh c Hwf es ltac:(lia) Dflt m r cl); eauto.
  - need_slot p s Hp; exact Hp.
  - need_slot p s Hp; exact Hp.
  - need_slot p s Hp. apply put_some_coh; auto. apply (clear_coh c Hwf es m).
  (* element moves *)
  - need_slot p s Hp. destruct (locate c m i) as [r calls]. destruct r as [[q|e]|w|w]; cbn [fst]; auto. apply put_some_coh; auto using zupd_coh.
  - need_slot p s Hp. destruct (locate c m i) as [r calls]. destruct r as [[q|e]|w|w]; cbn [fst]; auto. apply put_some_coh; auto using zupd_coh.
  - need_slot p s Hp. destruct (locate c m i) as [ri ci]. destruct ri as [[q1|e]|w|w]; cbn [fst]; auto.
    destruct (locate c m j) as [rj cj]. destruct rj as [[q2|e]|w|w]; cbn [fst]; auto.
    destruct (swap_at m q1 q2) as [m'|w|w] eqn:Es; cbn [fst]; auto. apply put_some_coh; auto. eapply swap_at_coh; eauto.
  - need_slot p s Hp. destruct Hw. apply store_coh; auto. intros m' E'. eapply (swap_rows_coh m m' a b); eauto.
  - need_slot p s Hp. destruct Hw. apply store_coh; auto. intros m' E'. eapply (swap_cols_coh m m' a b); eauto.
  - destruct (d =? s); [exact Hp|]. need_slot p d Hp. need_slot p s Hp. apply store_val_coh; auto. intros m' E'. eapply overwrite_coh; [| |exact E']; assumption.
  (* maps *)
  - need_slot p s Hp. apply put_some_coh; auto. apply set_data_coh'; auto. apply zlen_map.
  - need_slot p s Hp. apply store_coh; auto using put_none_coh. intros m' E'. injection E' as E'. eapply map_matrix_coh; eauto.
  - need_slot p s Hp. apply store_coh; auto. intros m' E'. injection E' as E'. eapply map_matrix_coh; eauto.
  - need_slot p s Hp. apply put_some_coh; auto.
  - destruct (d =? s); [exact Hp|]. need_slot p d Hp. need_slot p s Hp. apply put_some_coh; auto.
  - need_slot p s Hp. apply store_op_coh; auto using put_none_coh. intros m' E'. injection E' as E'. eapply map_matrix_coh; eauto.
  - need_slot p s Hp. apply store_op_coh; auto. intros m' E'. injection E' as E'. eapply map_matrix_coh; eauto.
  (* elementwise *)
  - need_slot p a Hp. need_slot p b Hp. apply store_coh; auto. intros m' E'. eapply ew_coh; [| |exact E']; assumption.
  - destruct (a =? b); [exact Hp|]. try (destruct (in_pool p d); [|exact Hp]). need_slot p a Hp. need_slot p b Hp. apply store_coh; auto using put_none_coh. intros m' E'. eapply ew_coh; [| |exact E']; assumption.
  - destruct (a =? b); [exact Hp|]. need_slot p a Hp. need_slot p b Hp. apply store_coh; auto. intros m' E'. eapply ew_assign_coh; [| |exact E']; assumption.
  - destruct (variant =? 0).
    + try (destruct (in_pool p d); [|exact Hp]). need_slot p a Hp. need_slot p b Hp. apply store_coh; auto. intros m' E'. eapply ew_coh; [| |exact E']; assumption.
    + destruct (a =? b); [exact Hp|]. destruct (variant =? 1).
      * try (destruct (in_pool p d); [|exact Hp]). need_slot p a Hp. need_slot p b Hp. apply store_coh; auto using put_none_coh. intros m' E'. eapply ew_coh; [| |exact E']; assumption.
      * need_slot p a Hp. need_slot p b Hp. apply store_coh; auto. intros m' E'. eapply ew_assign_coh; [| |exact E']; assumption.
  - destruct (negb (form =? 3) && (a =? b)); [exact Hp|]. try (destruct (in_pool p d); [|exact Hp]). need_slot p a Hp. need_slot p b Hp.
    apply store_op_coh. { destruct ((form =? 0) || (form =? 1)), ((form =? 0) || (form =? 2)); auto using put_none_coh. }
    intros m' E'. eapply ew_coh; [| |exact E']; assumption.
  - destruct (a =? b); [exact Hp|]. need_slot p a Hp. need_slot p b Hp.
    apply store_op_coh. { destruct (form =? 0); auto using put_none_coh. } intros m' E'. eapply ew_assign_coh; [| |exact E']; assumption.
  (* scalar *)
  - need_slot p a Hp. apply store_coh; auto. intros m' E'. injection E' as E'. unfold scalar_operation in E'. eapply map_matrix_coh; eauto.
  - need_slot p a Hp. apply store_coh; auto using put_none_coh. intros m' E'. injection E' as E'. unfold scalar_operation in E'. eapply map_matrix_coh; eauto.
  - need_slot p a Hp. apply put_some_coh; auto. unfold scalar_operation_assign. apply set_data_coh'; auto. apply zlen_map.
  (* product *)
  - destruct (a =? b); [exact Hp|]. try (destruct (in_pool p d); [|exact Hp]). need_slot p a Hp. need_slot p b Hp. apply store_coh; auto using put_none_coh. intros m' E'. eapply multiply_coh; [| |exact E']; assumption.
  - destruct (negb (form =? 3) && (a =? b)); [exact Hp|]. try (destruct (in_pool p d); [|exact Hp]). need_slot p a Hp. need_slot p b Hp.
    apply store_op_coh. { destruct ((form =? 0) || (form =? 1)), ((form =? 0) || (form =? 2)); auto using put_none_coh. }
    intros m' E'. eapply multiply_coh; [| |exact E']; assumption.
  - destruct (a =? b); [exact Hp|]. try (destruct (in_pool p d); [|exact Hp]). need_slot p a Hp. need_slot p b Hp. apply store_coh; auto using put_none_coh.
    intros m' E'. eapply mul_like_coh; [| |exact E']; assumption.
  (* iterate *)
  - need_slot p s Hp; exact Hp.
  - need_slot p s Hp; exact Hp.
  - need_slot p s Hp. destruct (run_nested_mut (fn1 f) m true script) as [m' ob] eqn:E'. cbn [fst]. apply put_some_coh; auto.
    change m' with (fst (m', ob)). rewrite <- E'. now apply run_nested_mut_coh.
  - need_slot p s Hp. destruct (run_nested_mut (fn1 f) m false script) as [m' ob] eqn:E'. cbn [fst]. apply put_some_coh; auto.
    change m' with (fst (m', ob)). rewrite <- E'. now apply run_nested_mut_coh.
  - need_slot p s Hp; exact Hp.
  - need_slot p s Hp; exact Hp.
  - need_slot p s Hp. destruct (run_single_mut (fn1 f) m (nth_row_positions c m n) script) as [m' ob] eqn:E'. cbn [fst]. apply put_some_coh; auto.
    change m' with (fst (m', ob)). rewrite <- E'. now apply run_single_mut_coh.
  - need_slot p s Hp. destruct (run_single_mut (fn1 f) m (nth_col_positions c m n) script) as [m' ob] eqn:E'. cbn [fst]. apply put_some_coh; auto.
    change m' with (fst (m', ob)). rewrite <- E'. now apply run_single_mut_coh.
  - need_slot p s Hp; exact Hp.
  - need_slot p s Hp. destruct (run_single_mut (fn1 f) m (Val (Ok (zseq (size m)))) script) as [m' ob] eqn:E'. cbn [fst]. apply put_some_coh; auto.
    change m' with (fst (m', ob)). rewrite <- E'. now apply run_single_mut_coh.
  - need_slot p s Hp. cbn [fst]. auto using put_none_coh.
  - need_slot p s Hp; exact Hp.
  - need_slot p s Hp. destruct (run_single_mut_idx (fn1 f) m script) as [m' ob] eqn:E'. cbn [fst]. apply put_some_coh; auto.
    change m' with (fst (m', ob)). rewrite <- E'. now apply run_single_mut_idx_coh.
  - need_slot p s Hp. cbn [fst]. auto using put_none_coh.
  (* parallel *)
  - need_slot p s Hp. apply put_some_coh; auto. apply set_data_coh'; auto. apply zlen_map.
  - need_slot p s Hp. apply store_coh; auto using put_none_coh. intros m' E'. injection E' as E'. eapply map_matrix_coh; eauto.
  - need_slot p s Hp. apply store_coh; auto. intros m' E'. injection E' as E'. eapply map_matrix_coh; eauto.
  - need_slot p s Hp; exact Hp.
  - need_slot p s Hp. cbn [fst]. apply put_some_coh; auto. apply set_data_coh'; auto. apply zlen_map.
  - need_slot p s Hp. cbn [fst]. auto using put_none_coh.
  - need_slot p s Hp; exact Hp.
  - need_slot p s Hp. cbn [fst]. apply put_some_coh; auto. apply set_data_coh'; auto. apply zlen_map.
  - need_slot p s Hp. cbn [fst]. auto using put_none_coh.
  (* threads, lifetime *)
  - need_slot p s Hp. apply put_some_coh; auto. apply set_data_coh'; auto. apply zlen_map.
  - need_slot p s Hp; exact Hp.
  - need_slot p s Hp. cbn [fst]. auto using put_none_coh.
Qed.

(* after any history from the empty pool every matrix is coherent *)
Theorem history_coh (ops : list op) : Forall wf_op ops -> pool_coh (fst (run_ops c es ops empty_pool)).
Proof.
  assert (forall ops p acc, pool_coh p -> Forall wf_op ops ->
            pool_coh (fst (fold_left (fun st o => let '(p', ob) := step c es (fst st) o in (p', snd st ++ [ob])) ops (p, acc)))) as H.
  { induction ops0 as [|o ops0 IH]; intros p acc Hp Hw; cbn [fold_left fst]; auto.
    inversion Hw as [|? ? Ho Hrest]; subst.
    destruct (step c es p o) as [p' ob] eqn:Es. apply IH; auto. change p' with (fst (p', ob)). rewrite <- Es. now apply step_coh. }
  intros Hw. unfold run_ops. apply H; auto. intros s m E. unfold slot, empty_pool in E.
  destruct (znth_opt s [None; None; None; None]) as [[x|]|] eqn:E1; try discriminate.
  unfold znth_opt in E1. destruct (s <? 0); [discriminate|]. destruct (Z.to_nat s) as [|[|[|[|n]]]]; cbn in E1; try discriminate. destruct n; discriminate.
Qed.
End Coherence.