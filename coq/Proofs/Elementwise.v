(* C12 / C07 / C15: conformability, the elementwise drivers, equality and the flat-index <-> (row, col) maps. *)
From Matreex Require Import Model.Ops Proofs.ListFacts Proofs.SliceFacts Proofs.IndexProofs Proofs.Transpose Proofs.Decisions.

Section Conformable.
Context {L R : Type}.
Implicit Types (a : matrix L) (b : matrix R).

(* conformable for elementwise operations exactly when the logical shapes agree, whatever the storage orders *)
Theorem ew_conformable_iff a b :
  is_ew_conformable a b = true <-> (nrows a = nrows b /\ ncols a = ncols b).
Proof.
  unfold is_ew_conformable, is_elementwise_conformable, AxisShape_eqb, nrows, ncols.
  destruct (m_order a), (m_order b); cbn [order_eqb AxisShape_nrows AxisShape_ncols]; lia.
Qed.
Theorem mul_conformable_iff a b : is_mul_conformable a b = true <-> ncols a = nrows b.
Proof. unfold is_mul_conformable, is_multiplication_conformable. fold (ncols a) (nrows b). lia. Qed.
End Conformable.

Section Drivers.
Context {L R U : Type}.
Variable c : cfg.
Variables esL esR : Z.
Implicit Types (a : matrix L) (b : matrix R).

(* the right-hand element paired with store position i*minor+j of lhs in the cross-order path is at j*major+i of rhs *)
Lemma rhs_at_cross a b i j : Coh c esL a -> Coh c esR b -> mmajor a = mminor b -> mminor a = mmajor b ->
  0 <= i < mmajor a -> 0 <= j < mminor a ->
  exists y, znth_opt (j * mmajor a + i) (m_data b) = Some y /\ rhs_at c a b (i * mminor a + j) = Val y.
Proof.
  intros (A1 & A2 & A3 & A4 & _) (B1 & B2 & B3 & B4 & _) E1 E2 Hi Hj. unfold rhs_at.
  destruct (m_shape a) as [Ma ma] eqn:Ea. destruct (m_shape b) as [Mb mb] eqn:Eb.
  unfold mmajor, mminor, size in *. rewrite Ea, Eb in *. cbn [major minor] in *. subst mb Mb.
  destruct (remap_is_succ c Ma ma (i * ma + j)) as [Er Hr]; [lia|lia|lia|nia|].
  rewrite Er. cbn [bind].
  replace ((i * ma + j) mod ma) with j in * by (rewrite Z.add_comm, Z.mod_add by lia; symmetry; apply Z.mod_small; lia).
  replace ((i * ma + j) / ma) with i in * by (rewrite Z.add_comm, Z.div_add by lia; rewrite Z.div_small by lia; lia).
  destruct (znth_opt_some (m_data b) (j * Ma + i)) as [y Hy]; [nia|].
  exists y. split; [exact Hy|]. unfold get_unchecked. rewrite Hy. reflexivity.
Qed.

Variable op : L -> R -> U.

(* the data of elementwise_operation / _consume_self / _assign for conformable operands: every position of lhs, once,
   combined with the element at the same logical position of rhs *)
Theorem zip_data_spec a b : Coh c esL a -> Coh c esR b -> is_ew_conformable a b = true ->
  exists d, zip_data c op a b = Val d /\ zlen d = size a /\
    forall r cl, 0 <= r < nrows a -> 0 <= cl < ncols a ->
      exists x y, at_ a r cl = Some x /\ at_ b r cl = Some y /\ znth_opt (flat a r cl) d = Some (op x y).
Proof.
  intros HA HB Hconf. pose proof HA as (A1 & A2 & A3 & A4 & _). pose proof HB as (B1 & B2 & B3 & B4 & _).
  apply ew_conformable_iff in Hconf as Hshape. destruct Hshape as [Hnr Hnc].
  unfold zip_data. destruct (order_eqb (m_order a) (m_order b)) eqn:Eo.
  - (* same order: zip *)
    assert (m_order a = m_order b) as Eq by (destruct (m_order a), (m_order b); cbn in Eo; try reflexivity; discriminate).
    assert (mmajor a = mmajor b /\ mminor a = mminor b) as [EM Em].
    { unfold nrows, ncols, mmajor, mminor in *. rewrite <- Eq in *. destruct (m_order a); cbn in *; lia. }
    assert (zlen (m_data a) = zlen (m_data b)) as Elen by (unfold size in *; nia).
    eexists. split; [reflexivity|]. split; [rewrite zlen_map, zlen_combine by exact Elen; reflexivity|].
    intros r cl Hr Hcl.
    destruct (at_in_range c esL a r cl HA Hr Hcl) as [x Hx].
    destruct (at_in_range c esR b r cl HB ltac:(lia) ltac:(lia)) as [y Hy].
    exists x, y. split; [exact Hx|]. split; [exact Hy|].
    assert (flat b r cl = flat a r cl) as Ef by (unfold flat; rewrite <- Eq, Em; reflexivity).
    unfold at_ in *. rewrite Ef in Hy. rewrite znth_opt_map, (znth_opt_combine _ _ _ x y Hx Hy). reflexivity.
  - (* different orders: remap *)
    assert (mmajor a = mminor b /\ mminor a = mmajor b) as [EM Em].
    { unfold nrows, ncols, mmajor, mminor in *. destruct (m_order a), (m_order b); cbn in *; try discriminate; lia. }
    destruct (map_res_rel (fun il : Z * L => let* rgt := rhs_at c a b (fst il) in Val (op (snd il) rgt))
                (fun (k : Z) (il : Z * L) (u : U) => fst il = k /\ exists y, rhs_at c a b k = Val y /\ u = op (snd il) y)
                (combine (zseq (size a)) (m_data a))) as (d & Ed & Ld & Hd).
    { intros k [idx x] Hk. apply znth_opt_combine_inv in Hk as [Hk1 Hk2].
      assert (0 <= k < size a) as Hrange.
      { unfold size. destruct (Z_lt_ge_dec k 0); [rewrite znth_opt_neg in Hk2 by lia; discriminate|].
        destruct (Z_lt_ge_dec k (zlen (m_data a))); [lia|]. rewrite znth_opt_none in Hk2 by lia. discriminate. }
      rewrite zseq_nth in Hk1 by lia. injection Hk1 as <-. cbn [fst snd].
      assert (0 < mminor a) by (destruct (Z.eq_dec (mminor a) 0) as [E0|]; [rewrite E0 in *; exfalso; nia|lia]).
      pose proof (Z.mod_pos_bound k (mminor a) ltac:(lia)).
      assert (0 <= k / mminor a < mmajor a) by (split; [apply Z.div_pos; lia | apply Z.div_lt_upper_bound; nia]).
      destruct (rhs_at_cross a b (k / mminor a) (k mod mminor a) HA HB EM Em) as (y & _ & Ey); [lia|lia|].
      replace (k / mminor a * mminor a + k mod mminor a) with k in Ey by (rewrite Z.mul_comm; apply Z.div_mod; lia).
      rewrite Ey. cbn [bind]. eexists. split; [reflexivity|]. split; [reflexivity|]. eauto. }
    exists d. split; [exact Ed|]. split; [rewrite Ld, zlen_combine by (unfold zlen, size; rewrite zseq_length; unfold zlen; lia); unfold zlen; rewrite zseq_length; unfold size, zlen; lia|].
    intros r cl Hr Hcl.
    destruct (at_in_range c esL a r cl HA Hr Hcl) as [x Hx].
    (* axis coordinates (i, j) of the logical position *)
    set (i := ai_major (AxisIndex_from_rc r cl (m_order a))). set (j := ai_minor (AxisIndex_from_rc r cl (m_order a))).
    assert (flat a r cl = i * mminor a + j) as Ef by (unfold i, j; symmetry; apply flat_of_axis).
    assert (0 <= i < mmajor a /\ 0 <= j < mminor a) as [Hi Hj].
    { unfold i, j, AxisIndex_from_rc, nrows, ncols, mmajor, mminor in *. destruct (m_order a); cbn in *; lia. }
    destruct (rhs_at_cross a b i j HA HB EM Em Hi Hj) as (y & Hy & Ey).
    assert (at_ b r cl = Some y) as Hby.
    { unfold at_, flat. rewrite <- Hy. f_equal. unfold i, j, AxisIndex_from_rc, mmajor, mminor in *.
      destruct (m_order a), (m_order b); cbn in *; try discriminate; lia. }
    exists x, y. split; [exact Hx|]. split; [exact Hby|].
    unfold at_ in Hx. rewrite Ef in *.
    assert (0 <= i * mminor a + j < size a) as Hk by nia.
    assert (znth_opt (i * mminor a + j) (combine (zseq (size a)) (m_data a)) = Some (i * mminor a + j, x)) as Hc.
    { apply znth_opt_combine; [apply zseq_nth; lia|exact Hx]. }
    destruct (Hd _ _ Hc) as (u & Eu & _ & y' & Ey' & ->). cbn [snd]. rewrite Eu. rewrite Ey in Ey'. injection Ey' as <-. reflexivity.
Qed.

(* elementwise_operation and elementwise_operation_consume_self *)
Theorem elementwise_operation_spec (esU : Z) a b : Coh c esL a -> Coh c esR b -> wf c -> 0 <= esU ->
  if negb (is_ew_conformable a b) then elementwise_operation c esU op a b = Val (Err ShapeNotConformable)
  else if esU * size a >? imax c then elementwise_operation c esU op a b = Val (Err CapacityOverflow)
  else exists d, elementwise_operation c esU op a b = Val (Ok (mkMatrix (m_order a) (m_shape a) d)) /\ zlen d = size a /\
    forall r cl, 0 <= r < nrows a -> 0 <= cl < ncols a ->
      exists x y, at_ a r cl = Some x /\ at_ b r cl = Some y /\ at_ (mkMatrix (m_order a) (m_shape a) d) r cl = Some (op x y).
Proof.
  intros HA HB Hwf HesU. unfold elementwise_operation.
  destruct (is_ew_conformable a b) eqn:Econf; cbn [negb]; [|reflexivity].
  rewrite Decisions.check_size_spec by (auto; unfold size; apply zlen_nonneg).
  destruct (esU * size a >? imax c); [reflexivity|].
  destruct (zip_data_spec a b HA HB Econf) as (d & Ed & Ld & Hd).
  exists d. rewrite Ed. split; [reflexivity|]. split; [exact Ld|]. exact Hd.
Qed.
End Drivers.

Section Assign.
Context {L R : Type}.
Variable c : cfg.
Variables esL esR : Z.
Variable op : L -> R -> L.
Implicit Types (a : matrix L) (b : matrix R).

(* elementwise_operation_assign: in place, every position once; not conformable: ShapeNotConformable (no new state: unchanged) *)
Theorem elementwise_assign_spec a b : Coh c esL a -> Coh c esR b ->
  if negb (is_ew_conformable a b) then elementwise_operation_assign c op a b = Val (Err ShapeNotConformable)
  else exists d, elementwise_operation_assign c op a b = Val (Ok (mkMatrix (m_order a) (m_shape a) d)) /\ zlen d = size a /\
    forall r cl, 0 <= r < nrows a -> 0 <= cl < ncols a ->
      exists x y, at_ a r cl = Some x /\ at_ b r cl = Some y /\ at_ (mkMatrix (m_order a) (m_shape a) d) r cl = Some (op x y).
Proof.
  intros HA HB. unfold elementwise_operation_assign.
  destruct (is_ew_conformable a b) eqn:Econf; cbn [negb]; [|reflexivity].
  destruct (zip_data_spec c esL esR op a b HA HB Econf) as (d & Ed & Ld & Hd).
  exists d. rewrite Ed. split; [reflexivity|]. split; [exact Ld|]. exact Hd.
Qed.
End Assign.

(* ---------- equality (src/eq.rs) ---------- *)
Section Eq.
Context {A : Type}.
Variable c : cfg.
Variable es : Z.
Variable eqb : A -> A -> bool.
Implicit Types a b : matrix A.

Lemma forallb_combine_spec (l1 l2 : list A) : zlen l1 = zlen l2 ->
  (forallb (fun p => eqb (fst p) (snd p)) (combine l1 l2) = true <->
   forall k x y, znth_opt k l1 = Some x -> znth_opt k l2 = Some y -> eqb x y = true).
Proof.
  intros Hlen. rewrite forallb_forall. split.
  - intros H k x y Hx Hy. specialize (H (x, y)). apply H.
    pose proof (znth_opt_combine l1 l2 k x y Hx Hy) as Hc. unfold znth_opt in Hc. destruct (k <? 0); [discriminate|].
    eapply nth_error_In; eauto.
  - intros H [x y] Hin. apply In_nth_error in Hin as [n Hn]. cbn [fst snd].
    apply (H (Z.of_nat n) x y); apply (znth_opt_combine_inv l1 l2 (Z.of_nat n) x y); unfold znth_opt;
      (destruct (Z.of_nat n <? 0) eqn:E; [exfalso; lia|]); rewrite Nat2Z.id; exact Hn.
Qed.

(* == is true exactly when the logical shapes agree and all elements at equal logical positions are equal;
   the unchecked read of `other` in the cross-order path is always in range (Val, never UB) *)
Theorem matrix_eqb_spec a b : Coh c es a -> Coh c es b ->
  exists r, matrix_eqb c eqb a b = Val r /\
    (r = true <-> (nrows a = nrows b /\ ncols a = ncols b /\
                   forall i j x y, 0 <= i < nrows a -> 0 <= j < ncols a -> at_ a i j = Some x -> at_ b i j = Some y -> eqb x y = true)).
Proof.
  intros HA HB. pose proof HA as (A1 & A2 & A3 & A4 & _). pose proof HB as (B1 & B2 & B3 & B4 & _).
  unfold matrix_eqb. destruct (order_eqb (m_order a) (m_order b)) eqn:Eo.
  - assert (m_order a = m_order b) as Eq by (destruct (m_order a), (m_order b); cbn in Eo; try reflexivity; discriminate).
    eexists. split; [reflexivity|].
    unfold AxisShape_eqb. fold (mmajor a) (mmajor b) (mminor a) (mminor b).
    split.
    + intros H. apply andb_prop in H as [Hs H]. apply andb_prop in H as [Hl Hf].
      assert (mmajor a = mmajor b /\ mminor a = mminor b) as [EM Em] by lia.
      assert (nrows a = nrows b /\ ncols a = ncols b) as [Hr Hc].
      { unfold nrows, ncols, mmajor, mminor in *. rewrite <- Eq. destruct (m_order a); cbn; lia. }
      split; [exact Hr|]. split; [exact Hc|]. intros i j x y Hi Hj Hx Hy.
      assert (zlen (m_data a) = zlen (m_data b)) as Elen by lia.
      apply (proj1 (forallb_combine_spec (m_data a) (m_data b) Elen) Hf (flat a i j) x y Hx).
      unfold at_ in Hy. replace (flat a i j) with (flat b i j); [exact Hy|]. unfold flat. rewrite <- Eq, Em. reflexivity.
    + intros (Hr & Hc & Hall).
      assert (mmajor a = mmajor b /\ mminor a = mminor b) as [EM Em].
      { unfold nrows, ncols, mmajor, mminor in *. rewrite <- Eq in *. destruct (m_order a); cbn in *; lia. }
      assert (zlen (m_data a) = zlen (m_data b)) as Elen by (unfold size in *; nia).
      apply andb_true_intro. split; [lia|]. apply andb_true_intro. split; [lia|].
      apply (proj2 (forallb_combine_spec _ _ Elen)). intros k x y Hx Hy.
      assert (0 <= k < size a) as Hk.
      { unfold size. destruct (Z_lt_ge_dec k 0); [rewrite znth_opt_neg in Hx by lia; discriminate|].
        destruct (Z_lt_ge_dec k (zlen (m_data a))); [lia|]. rewrite znth_opt_none in Hx by lia. discriminate. }
      assert (0 < mminor a) by (destruct (Z.eq_dec (mminor a) 0) as [E0|]; [rewrite E0 in *; exfalso; nia|lia]).
      pose proof (Z.mod_pos_bound k (mminor a) ltac:(lia)).
      assert (0 <= k / mminor a < mmajor a) by (split; [apply Z.div_pos; lia | apply Z.div_lt_upper_bound; nia]).
      assert (k = k / mminor a * mminor a + k mod mminor a) as Hk2 by (rewrite Z.mul_comm; apply Z.div_mod; lia).
      (* logical coordinates of store position k *)
      destruct (m_order a) eqn:Eoa.
      * apply (Hall (k / mminor a) (k mod mminor a) x y).
        -- unfold nrows. rewrite Eoa. cbn. fold (mmajor a). lia.
        -- unfold ncols. rewrite Eoa. cbn. fold (mminor a). lia.
        -- unfold at_, flat. rewrite Eoa, <- Hk2. exact Hx.
        -- unfold at_, flat. rewrite <- Eq, <- Em, <- Hk2. exact Hy.
      * apply (Hall (k mod mminor a) (k / mminor a) x y).
        -- unfold nrows. rewrite Eoa. cbn. fold (mminor a). lia.
        -- unfold ncols. rewrite Eoa. cbn. fold (mmajor a). lia.
        -- unfold at_, flat. rewrite Eoa, <- Hk2. exact Hx.
        -- unfold at_, flat. rewrite <- Eq, <- Em, <- Hk2. exact Hy.
  - assert (m_order a <> m_order b) as Ne by (destruct (m_order a), (m_order b); cbn in Eo; congruence).
    destruct ((mmajor a =? mminor b) && (mminor a =? mmajor b)) eqn:Esh.
    2:{ eexists. split; [reflexivity|]. split; [discriminate|]. intros (Hr & Hc & _). exfalso.
        unfold nrows, ncols, mmajor, mminor in *. destruct (m_order a), (m_order b); cbn in *; try congruence; lia. }
    assert (mmajor a = mminor b /\ mminor a = mmajor b) as [EM Em] by lia.
    assert (nrows a = nrows b /\ ncols a = ncols b) as [Hr Hc].
    { unfold nrows, ncols, mmajor, mminor in *. destruct (m_order a), (m_order b); cbn in *; try congruence; lia. }
    (* the `all` loop over lhs positions from k0 on *)
    assert (forall (l : list (Z * A)) (k0 : Z), 0 <= k0 ->
              (forall t il, znth_opt t l = Some il -> fst il = k0 + t /\ znth_opt (k0 + t) (m_data a) = Some (snd il)) ->
              k0 + zlen l = size a ->
              exists r, (fix all (l : list (Z * A)) : res bool :=
                           match l with
                           | [] => Val true
                           | (index, lft) :: t =>
                             let* j := remap c index (m_shape a) (m_shape b) in
                             let* rgt := get_unchecked (m_data b) j in
                             if eqb lft rgt then all t else Val false
                           end) l = Val r /\
                (r = true <-> forall k x, k0 <= k < size a -> znth_opt k (m_data a) = Some x ->
                                 exists y, rhs_at c a b k = Val y /\ eqb x y = true)) as Hloop.
    { induction l as [|[idx x] l IH]; intros k0 Hk0 Hl Hend.
      - exists true. split; [reflexivity|]. split; [|auto]. intros _ k x Hk. unfold zlen in Hend. cbn in Hend. lia.
      - destruct (Hl 0 (idx, x) eq_refl) as [Hidx Hx0]. cbn [fst snd] in *. rewrite Z.add_0_r in *. subst idx.
        assert (0 <= k0 < size a) as Hk by (unfold zlen in Hend; cbn [length] in Hend; lia).
        assert (0 < mminor a) by (destruct (Z.eq_dec (mminor a) 0) as [E0|]; [rewrite E0 in *; exfalso; nia|lia]).
        pose proof (Z.mod_pos_bound k0 (mminor a) ltac:(lia)).
        assert (0 <= k0 / mminor a < mmajor a) by (split; [apply Z.div_pos; lia | apply Z.div_lt_upper_bound; nia]).
        destruct (rhs_at_cross c es es a b (k0 / mminor a) (k0 mod mminor a) HA HB EM Em) as (y & _ & Ey); [lia|lia|].
        replace (k0 / mminor a * mminor a + k0 mod mminor a) with k0 in Ey by (rewrite Z.mul_comm; apply Z.div_mod; lia).
        unfold rhs_at in Ey. destruct (remap c k0 (m_shape a) (m_shape b)) as [j|w|w] eqn:Erm; cbn [bind] in Ey |- *; try discriminate.
        rewrite Ey. cbn [bind].
        destruct (eqb x y) eqn:Exy.
        + destruct (IH (k0 + 1) ltac:(lia)) as (r & Er & Hr').
          { intros t il Ht. destruct (Hl (t + 1) il) as [H1' H2'].
            - unfold znth_opt in *. destruct (t <? 0) eqn:E1; [discriminate|]. destruct (t + 1 <? 0) eqn:E2; [exfalso; lia|].
              replace (Z.to_nat (t + 1)) with (S (Z.to_nat t)) by lia. exact Ht.
            - split; [lia|]. replace (k0 + 1 + t) with (k0 + (t + 1)) by lia. exact H2'. }
          { unfold zlen in *. cbn [length] in Hend. lia. }
          exists r. split; [exact Er|]. rewrite Hr'. split.
          * intros H' k x' Hk' Hx'. destruct (Z.eq_dec k k0) as [->|].
            -- rewrite Hx0 in Hx'. injection Hx' as <-. exists y. split; [|exact Exy].
               unfold rhs_at. rewrite Erm. cbn [bind]. exact Ey.
            -- apply H'; [lia|exact Hx'].
          * intros H' k x' Hk' Hx'. apply H'; [lia|exact Hx'].
        + exists false. split; [reflexivity|]. split; [discriminate|]. intros H'. exfalso.
          destruct (H' k0 x ltac:(lia) Hx0) as (y' & Ey' & Exy').
          unfold rhs_at in Ey'. rewrite Erm in Ey'. cbn [bind] in Ey'. congruence. }
    destruct (Hloop (combine (zseq (size a)) (m_data a)) 0 ltac:(lia)) as (r & Er & Hr').
    { intros t [idx x] Ht. apply znth_opt_combine_inv in Ht as [H1' H2']. cbn [fst snd]. rewrite Z.add_0_l.
      assert (0 <= t < size a).
      { unfold size. destruct (Z_lt_ge_dec t 0); [rewrite znth_opt_neg in H2' by lia; discriminate|].
        destruct (Z_lt_ge_dec t (zlen (m_data a))); [lia|]. rewrite znth_opt_none in H2' by lia. discriminate. }
      rewrite zseq_nth in H1' by lia. injection H1' as <-. auto. }
    { rewrite zlen_combine; unfold zlen; rewrite zseq_length; unfold size, zlen; lia. }
    exists r. split; [exact Er|]. rewrite Hr'. split.
    + intros H. split; [exact Hr|]. split; [exact Hc|]. intros i j x y Hi Hj Hx Hy.
      set (ia := ai_major (AxisIndex_from_rc i j (m_order a))). set (ja := ai_minor (AxisIndex_from_rc i j (m_order a))).
      assert (flat a i j = ia * mminor a + ja) as Ef by (unfold ia, ja; symmetry; apply flat_of_axis).
      assert (0 <= ia < mmajor a /\ 0 <= ja < mminor a) as [Hia Hja].
      { unfold ia, ja, AxisIndex_from_rc, nrows, ncols, mmajor, mminor in *. destruct (m_order a); cbn in *; lia. }
      destruct (rhs_at_cross c es es a b ia ja HA HB EM Em Hia Hja) as (y' & Hy' & Ey').
      assert (at_ b i j = Some y') as Hby.
      { unfold at_, flat. rewrite <- Hy'. f_equal. unfold ia, ja, AxisIndex_from_rc, mmajor, mminor in *.
        destruct (m_order a), (m_order b); cbn in *; try congruence; lia. }
      assert (y' = y) by congruence. subst y'.
      unfold at_ in Hx. rewrite Ef in Hx.
      destruct (H (ia * mminor a + ja) x ltac:(nia) Hx) as (y2 & Ey2 & Exy). congruence.
    + intros (_ & _ & Hall) k x Hk Hx.
      assert (0 < mminor a) by (destruct (Z.eq_dec (mminor a) 0) as [E0|]; [rewrite E0 in *; exfalso; nia|lia]).
      pose proof (Z.mod_pos_bound k (mminor a) ltac:(lia)).
      assert (0 <= k / mminor a < mmajor a) by (split; [apply Z.div_pos; lia | apply Z.div_lt_upper_bound; nia]).
      assert (k = k / mminor a * mminor a + k mod mminor a) as Hk2 by (rewrite Z.mul_comm; apply Z.div_mod; lia).
      destruct (rhs_at_cross c es es a b (k / mminor a) (k mod mminor a) HA HB EM Em) as (y & Hy & Ey); [lia|lia|].
      rewrite <- Hk2 in Ey. exists y. split; [exact Ey|].
      destruct (m_order a) eqn:Eoa, (m_order b) eqn:Eob; try congruence.
      * apply (Hall (k / mminor a) (k mod mminor a) x y).
        -- unfold nrows. rewrite Eoa. cbn. fold (mmajor a). lia.
        -- unfold ncols. rewrite Eoa. cbn. fold (mminor a). lia.
        -- unfold at_, flat. rewrite Eoa, <- Hk2. exact Hx.
        -- unfold at_, flat. rewrite Eob. rewrite <- Hy. f_equal. lia.
      * apply (Hall (k mod mminor a) (k / mminor a) x y).
        -- unfold nrows. rewrite Eoa. cbn. fold (mminor a). lia.
        -- unfold ncols. rewrite Eoa. cbn. fold (mmajor a). lia.
        -- unfold at_, flat. rewrite Eoa, <- Hk2. exact Hx.
        -- unfold at_, flat. rewrite Eob. rewrite <- Hy. f_equal. lia.
Qed.
End Eq.
