(* Checked / wrapping indexing: the facts behind C04 and C13 (and every later
   use of the flat index). *)
From Matreex Require Import Model.Matrix.

Section IndexProofs.
Context {A : Type} (c : cfg) (Hc : wf c) (es : Z).
Implicit Types m : matrix A.

Lemma nrows_ncols_size m : Coh c es m -> nrows m * ncols m = size m /\ 0 <= nrows m /\ 0 <= ncols m.
Proof.
  unfold Coh, nrows, ncols, mmajor, mminor. intros (H1 & H2 & H3 & _).
  destruct (m_order m); cbn; lia.
Qed.

Lemma flat_in_range m r cl : Coh c es m -> 0 <= r < nrows m -> 0 <= cl < ncols m ->
  0 <= flat m r cl < size m.
Proof.
  unfold Coh, nrows, ncols, flat, mmajor, mminor. intros (H1 & H2 & H3 & _).
  destruct (m_order m); cbn; intros; nia.
Qed.

Lemma flat_injective m r1 c1 r2 c2 : Coh c es m ->
  0 <= r1 < nrows m -> 0 <= c1 < ncols m -> 0 <= r2 < nrows m -> 0 <= c2 < ncols m ->
  flat m r1 c1 = flat m r2 c2 -> r1 = r2 /\ c1 = c2.
Proof.
  unfold Coh, nrows, ncols, flat, mmajor, mminor. intros (H1 & H2 & H3 & _).
  destruct (m_order m); cbn; intros.
  - assert (r1 = r2) by (destruct (Z.lt_trichotomy r1 r2) as [L|[L|L]]; [exfalso; nia | exact L | exfalso; nia]).
    subst. lia.
  - assert (c1 = c2) by (destruct (Z.lt_trichotomy c1 c2) as [L|[L|L]]; [exfalso; nia | exact L | exfalso; nia]).
    subst. lia.
Qed.

Lemma at_in_range m r cl : Coh c es m -> 0 <= r < nrows m -> 0 <= cl < ncols m ->
  exists x, at_ m r cl = Some x.
Proof. intros. apply znth_opt_some. now apply flat_in_range. Qed.

Lemma to_flattened_ok m i : Coh c es m ->
  0 <= ai_major i < mmajor m -> 0 <= ai_minor i < mminor m ->
  AxisIndex_to_flattened c i (m_shape m) = Val (ai_major i * mminor m + ai_minor i) /\
  0 <= ai_major i * mminor m + ai_minor i < size m.
Proof.
  unfold Coh, mmajor, mminor. intros (H1 & H2 & H3 & H4 & _) Hi Hj.
  unfold AxisIndex_to_flattened, AxisShape_major_stride, AxisShape_minor_stride.
  rewrite umul_val by nia. cbn [bind]. rewrite umul_val by nia. cbn [bind].
  rewrite uadd_val by nia. split; [f_equal; lia | nia].
Qed.

(* position of an axis index, in the two orders, is the logical flat position *)
Lemma flat_of_axis m r cl :
  let i := AxisIndex_from_rc r cl (m_order m) in
  ai_major i * mminor m + ai_minor i = flat m r cl.
Proof. unfold flat, AxisIndex_from_rc. destruct (m_order m); reflexivity. Qed.

Lemma axis_in_bounds_iff m r cl :
  AxisIndex_is_out_of_bounds (AxisIndex_from_rc r cl (m_order m)) (m_shape m) = negb ((r <? nrows m) && (cl <? ncols m)).
Proof.
  unfold AxisIndex_is_out_of_bounds, AxisIndex_from_rc, nrows, ncols.
  destruct (m_order m); cbn; lia.
Qed.

Lemma AxisIndex_get_in m r cl : Coh c es m -> 0 <= r < nrows m -> 0 <= cl < ncols m ->
  exists x, at_ m r cl = Some x /\
    AxisIndex_get c m (AxisIndex_from_rc r cl (m_order m)) = Val (Ok x) /\
    AxisIndex_locate c m (AxisIndex_from_rc r cl (m_order m)) = Val (Ok (flat m r cl)).
Proof.
  intros HC Hr Hcl. destruct (at_in_range m r cl HC Hr Hcl) as [x Hx]. exists x. split; [exact Hx|].
  unfold AxisIndex_get, AxisIndex_locate. rewrite axis_in_bounds_iff.
  replace ((r <? nrows m) && (cl <? ncols m)) with true by lia. cbn [negb].
  unfold AxisIndex_get_unchecked, AxisIndex_locate_unchecked.
  destruct (to_flattened_ok m (AxisIndex_from_rc r cl (m_order m)) HC) as [E _].
  { unfold nrows, ncols, mmajor, mminor, AxisIndex_from_rc in *. destruct (m_order m); cbn in *; lia. }
  { unfold nrows, ncols, mmajor, mminor, AxisIndex_from_rc in *. destruct (m_order m); cbn in *; lia. }
  rewrite E. cbn [bind]. rewrite flat_of_axis. unfold at_ in Hx. unfold get_unchecked. rewrite Hx. cbn. auto.
Qed.

Lemma AxisIndex_get_out m r cl : (r <? nrows m) && (cl <? ncols m) = false ->
  AxisIndex_get c m (AxisIndex_from_rc r cl (m_order m)) = Val (Err IndexOutOfBounds) /\
  AxisIndex_locate c m (AxisIndex_from_rc r cl (m_order m)) = Val (Err IndexOutOfBounds).
Proof.
  intros H. unfold AxisIndex_get, AxisIndex_locate. rewrite axis_in_bounds_iff, H. cbn. auto.
Qed.

(* ---------- accessor objects ---------- *)
Definition first_row (a : accessor) : Z := fst (pop (acc_rows a)).
Definition first_col (a : accessor) : Z := fst (pop (acc_cols a)).

Lemma from_index_snapshot (a : accessor) o :
  fst (AxisIndex_from_index a o) = AxisIndex_from_rc (first_row a) (first_col a) o /\
  acc_nrow (snd (AxisIndex_from_index a o)) = acc_nrow a + 1 /\
  acc_ncol (snd (AxisIndex_from_index a o)) = acc_ncol a + 1.
Proof.
  unfold AxisIndex_from_index, AxisIndex_from_rc, first_row, first_col, acc_row, acc_col.
  destruct a as [rs cs nr nc]; cbn [acc_rows acc_cols acc_nrow acc_ncol].
  destruct (pop rs) as [r rs'] eqn:Er, (pop cs) as [cl cs'] eqn:Ec.
  destruct o; cbn [acc_rows acc_cols acc_nrow acc_ncol]; rewrite ?Er, ?Ec; cbn; auto.
Qed.

Theorem AsIndex_get_in m a : Coh c es m ->
  0 <= first_row a < nrows m -> 0 <= first_col a < ncols m ->
  exists x, at_ m (first_row a) (first_col a) = Some x /\ fst (AsIndex_get c m a) = Val (Ok x) /\
            fst (AsIndex_locate c m a) = Val (Ok (flat m (first_row a) (first_col a))).
Proof.
  intros HC Hr Hcl. unfold AsIndex_get, AsIndex_locate.
  destruct (from_index_snapshot a (m_order m)) as (E & _).
  destruct (AxisIndex_from_index a (m_order m)) as [i a']. cbn [fst snd] in *. subst i.
  now apply AxisIndex_get_in.
Qed.

Theorem AsIndex_get_out m a :
  (first_row a <? nrows m) && (first_col a <? ncols m) = false ->
  fst (AsIndex_get c m a) = Val (Err IndexOutOfBounds) /\ fst (AsIndex_locate c m a) = Val (Err IndexOutOfBounds).
Proof.
  intros H. unfold AsIndex_get, AsIndex_locate.
  destruct (from_index_snapshot a (m_order m)) as (E & _).
  destruct (AxisIndex_from_index a (m_order m)) as [i a']. cbn [fst snd] in *. subst i.
  now apply AxisIndex_get_out.
Qed.

Theorem AsIndex_single_snapshot m a :
  acc_nrow (snd (AsIndex_get c m a)) = acc_nrow a + 1 /\ acc_ncol (snd (AsIndex_get c m a)) = acc_ncol a + 1 /\
  acc_nrow (snd (AsIndex_locate c m a)) = acc_nrow a + 1 /\ acc_ncol (snd (AsIndex_locate c m a)) = acc_ncol a + 1 /\
  acc_nrow (snd (AsIndex_index c m a)) = acc_nrow a + 1 /\ acc_ncol (snd (AsIndex_index c m a)) = acc_ncol a + 1.
Proof.
  unfold AsIndex_index, AsIndex_get, AsIndex_locate.
  destruct (from_index_snapshot a (m_order m)) as (_ & E1 & E2).
  destruct (AxisIndex_from_index a (m_order m)) as [i a']. cbn [fst snd] in *. repeat split; assumption.
Qed.

Theorem AsIndex_index_spec m a : Coh c es m -> 0 <= first_row a -> 0 <= first_col a ->
  (if (first_row a <? nrows m) && (first_col a <? ncols m)
   then exists x, at_ m (first_row a) (first_col a) = Some x /\ fst (AsIndex_index c m a) = Val x
   else fst (AsIndex_index c m a) = Panic (PanicErr IndexOutOfBounds)).
Proof.
  intros HC Hr Hcl. destruct ((first_row a <? nrows m) && (first_col a <? ncols m)) eqn:E.
  - destruct (AsIndex_get_in m a HC) as (x & Hx & Hg & _); try lia.
    exists x. split; [exact Hx|]. unfold AsIndex_index. destruct (AsIndex_get c m a) as [r a']. cbn in *. now subst r.
  - destruct (AsIndex_get_out m a E) as [Hg _]. unfold AsIndex_index.
    destruct (AsIndex_get c m a) as [r a']. cbn in *. now subst r.
Qed.

(* ---------- wrapping indices ---------- *)
Lemma wrap_axis_spec i n : is_isize c i -> 0 < n <= umax c -> wrap_axis c i n = Val (i mod n).
Proof.
  intros Hi Hn. unfold wrap_axis, urem, usub, unsigned_abs, bind.
  assert (n =? 0 = false) as -> by lia.
  destruct (i <? 0) eqn:Hneg; [|reflexivity].
  pose proof (Z.mod_pos_bound (Z.abs i) n ltac:(lia)).
  assert (Z.abs i mod n <=? n = true) as -> by lia. f_equal.
  assert (Z.abs i = - i) as -> by lia.
  pose proof (Z.mod_pos_bound i n ltac:(lia)).
  destruct (Z.eq_dec (i mod n) 0) as [E|E].
  - rewrite (Z.mod_opp_l_z i n) by lia. rewrite Z.sub_0_r, Z.mod_same by lia. lia.
  - rewrite (Z.mod_opp_l_nz i n) by lia. replace (n - (n - i mod n)) with (i mod n) by lia. apply Z.mod_small; lia.
Qed.
Lemma wrap_axis_zero i : wrap_axis c i 0 = Panic RemByZero.
Proof. unfold wrap_axis, urem, bind. destruct (i <? 0); reflexivity. Qed.

Lemma from_wrapping_spec m row col : Coh c es m -> is_isize c row -> is_isize c col -> size m > 0 ->
  AxisIndex_from_wrapping_index c row col (m_order m) (m_shape m) =
  Val (AxisIndex_from_rc (row mod nrows m) (col mod ncols m) (m_order m)) /\
  0 <= row mod nrows m < nrows m /\ 0 <= col mod ncols m < ncols m.
Proof.
  intros HC Hr Hcl Hs. pose proof HC as (H1 & H2 & H3 & H4 & _).
  unfold mmajor, mminor in *.
  set (M := major (m_shape m)) in *. set (n := minor (m_shape m)) in *.
  assert (0 < M) by (destruct (Z.eq_dec M 0); [subst; nia | lia]).
  assert (0 < n) by (destruct (Z.eq_dec n 0) as [E0|E0]; [rewrite E0 in *; nia | lia]).
  assert (M <= M * n) by nia. assert (n <= M * n) by nia.
  assert (0 < M <= umax c) by lia.
  assert (0 < n <= umax c) by lia.
  unfold AxisIndex_from_wrapping_index, AxisIndex_from_rc, nrows, ncols. fold M n.
  destruct (m_order m); cbn [AxisShape_nrows AxisShape_ncols];
    rewrite !wrap_axis_spec by assumption; cbn [bind];
    (split; [reflexivity|]); split; apply Z.mod_pos_bound; lia.
Qed.

Theorem Wrapping_get_spec m row col : Coh c es m -> is_isize c row -> is_isize c col -> size m > 0 ->
  exists x, at_ m (row mod nrows m) (col mod ncols m) = Some x /\
            Wrapping_get c m row col = Val (Ok x) /\
            Wrapping_get_unchecked c m row col = Val x /\
            Wrapping_index c m row col = Val x /\
            Wrapping_locate c m row col = Val (Ok (flat m (row mod nrows m) (col mod ncols m))).
Proof.
  intros HC Hr Hcl Hs.
  destruct (from_wrapping_spec m row col HC Hr Hcl Hs) as (E & B1 & B2).
  destruct (AxisIndex_get_in m _ _ HC B1 B2) as (x & Hx & Hg & Hl).
  exists x. split; [exact Hx|].
  assert (Wrapping_get_unchecked c m row col = Val x) as EU.
  { unfold Wrapping_get_unchecked, Wrapping_locate_unchecked. rewrite E. cbn [bind].
    unfold AxisIndex_get in Hg. rewrite axis_in_bounds_iff in Hg.
    replace ((row mod nrows m <? nrows m) && (col mod ncols m <? ncols m)) with true in Hg by lia.
    cbn [negb] in Hg. unfold AxisIndex_get_unchecked in Hg.
    destruct (AxisIndex_locate_unchecked c m _); cbn [bind] in *; try discriminate.
    destruct (get_unchecked (m_data m) a); cbn [bind] in *; congruence. }
  assert (Wrapping_get c m row col = Val (Ok x)) as EG.
  { unfold Wrapping_get, is_empty. replace (size m =? 0) with false by lia. now rewrite EU. }
  repeat split; auto.
  - unfold Wrapping_index. now rewrite EG.
  - unfold Wrapping_locate, is_empty. replace (size m =? 0) with false by lia.
    unfold Wrapping_locate_unchecked. rewrite E. cbn [bind].
    unfold AxisIndex_locate in Hl. rewrite axis_in_bounds_iff in Hl.
    replace ((row mod nrows m <? nrows m) && (col mod ncols m <? ncols m)) with true in Hl by lia.
    exact Hl.
Qed.

Theorem Wrapping_empty_checked m row col : size m = 0 ->
  Wrapping_get c m row col = Val (Err IndexOutOfBounds) /\
  Wrapping_locate c m row col = Val (Err IndexOutOfBounds) /\
  Wrapping_index c m row col = Panic (PanicErr IndexOutOfBounds).
Proof.
  intros Hs. unfold Wrapping_index, Wrapping_get, Wrapping_locate, is_empty. rewrite Hs. cbn. auto.
Qed.

Theorem Wrapping_empty_unchecked m row col : Coh c es m -> is_isize c row -> is_isize c col -> size m = 0 ->
  Wrapping_get_unchecked c m row col = Panic RemByZero.
Proof.
  intros (H1 & H2 & H3 & H4 & _) Hr Hcl Hs. unfold mmajor, mminor in *.
  unfold Wrapping_get_unchecked, Wrapping_locate_unchecked, AxisIndex_from_wrapping_index.
  assert (major (m_shape m) = 0 \/ (0 < major (m_shape m) <= umax c /\ minor (m_shape m) = 0)) as [E|[E1 E2]].
  { destruct (Z.eq_dec (major (m_shape m)) 0) as [E0|E0]; [left; exact E0|right].
    assert (minor (m_shape m) = 0) by nia. split; [|assumption].
    lia. }
  - destruct (m_order m); rewrite E, wrap_axis_zero; reflexivity.
  - destruct (m_order m); rewrite wrap_axis_spec by assumption; cbn [bind]; rewrite E2, wrap_axis_zero; reflexivity.
Qed.

End IndexProofs.
