(* C19: constructors and conversions build exactly the described matrix or fail. *)
From Matreex Require Import Model.Ops Proofs.ListFacts Proofs.SliceFacts Proofs.IndexProofs Proofs.Decisions Proofs.ShapeOps
  Proofs.Multiply Proofs.ElementIter.

Section Construct.
Context {A : Type}.
Variable c : cfg.
Hypothesis Hwf : wf c.
Variable es : Z.
Hypothesis Hes : 0 <= es.

Definition uniform (nc : Z) (rows : list (list A)) : bool := forallb (fun r => zlen r =? nc) rows.
Definition first_len (rows : list (list A)) : Z := match rows with [] => 0 | r :: _ => zlen r end.

(* the three TryFrom impls: SizeOverflow / CapacityOverflow first (C08), then every row is compared with the first one *)
Theorem try_from_rows_spec (rows : list (list A)) : zlen rows <= umax c -> first_len rows <= umax c ->
  let nr := zlen rows in let nc := first_len rows in
  try_from_rows c es rows =
  Val (if nr * nc >? umax c then Err SizeOverflow
       else if es * (nr * nc) >? imax c then Err CapacityOverflow
       else if uniform nc rows then Ok (mkMatrix RowMajor (mkAxisShape nr nc) (concat rows))
       else Err LengthInconsistent).
Proof.
  intros H1 H2 nr nc. unfold try_from_rows, decide_ctor. fold (first_len rows). fold nr nc.
  assert (is_usize c nr) by (unfold is_usize, nr; pose proof (zlen_nonneg rows); lia).
  assert (is_usize c nc) by (unfold is_usize, nc, first_len in *; destruct rows as [|r0 t]; [destruct Hwf; lia|pose proof (zlen_nonneg r0); lia]).
  rewrite decide_shape_spec by assumption.
  cbn [bind]. destruct (nr * nc >? umax c); [reflexivity|]. destruct (es * (nr * nc) >? imax c); [reflexivity|].
  cbn [Shape_to_axis_shape_unchecked sh_nrows sh_ncols].
  assert (forall rs data,
            (fix go (rs : list (list A)) (data : list A) : res (result (matrix A)) :=
               match rs with
               | [] => Val (Ok (mkMatrix RowMajor (mkAxisShape nr nc) data))
               | r :: t => if negb (zlen r =? nc) then Val (Err LengthInconsistent) else go t (data ++ r)
               end) rs data =
            Val (if uniform nc rs then Ok (mkMatrix RowMajor (mkAxisShape nr nc) (data ++ concat rs)) else Err LengthInconsistent)) as Hgo.
  { induction rs as [|r t IH]; intros data; cbn [uniform forallb concat].
    - now rewrite app_nil_r.
    - destruct (zlen r =? nc); cbn [negb andb]; [|reflexivity]. rewrite IH, app_assoc. reflexivity. }
  rewrite Hgo. reflexivity.
Qed.

(* FromIterator: the same test, failing by panic *)
Theorem from_iter_spec (rows : list (list A)) : zlen rows <= umax c ->
  from_iter c rows =
  match rows with
  | [] => Val new_matrix
  | row :: rest =>
    if uniform (zlen row) rest then Val (mkMatrix RowMajor (mkAxisShape (zlen rows) (zlen row)) (concat rows))
    else Panic (PanicErr LengthInconsistent)
  end.
Proof.
  intros Hlen. destruct rows as [|row rest]; [reflexivity|]. unfold from_iter.
  assert (forall rs data nr, 0 <= nr -> nr + zlen rs <= umax c ->
            (fix go (rs : list (list A)) (data : list A) (nr sz : Z) : res (matrix A) :=
               match rs with
               | [] => Val (mkMatrix RowMajor (Shape_to_axis_shape_unchecked (mkShape nr (zlen row)) RowMajor) data)
               | r :: t =>
                 let data' := data ++ r in
                 let* dlt := usub c (zlen data') sz in
                 if negb (dlt =? zlen row) then Panic (PanicErr LengthInconsistent)
                 else let* nr' := uadd c nr 1 in go t data' nr' (zlen data')
               end) rs data nr (zlen data) =
            if uniform (zlen row) rs then Val (mkMatrix RowMajor (mkAxisShape (nr + zlen rs) (zlen row)) (data ++ concat rs))
            else Panic (PanicErr LengthInconsistent)) as Hgo.
  { induction rs as [|r t IH]; intros data nr Hnr Hfit; cbn [uniform forallb concat].
    - unfold zlen at 1. cbn [length]. rewrite Z.add_0_r, app_nil_r. reflexivity.
    - cbv zeta. rewrite zlen_app2. pose proof (zlen_nonneg data). pose proof (zlen_nonneg r).
      rewrite usub_val by lia. cbn [bind]. replace (zlen data + zlen r - zlen data) with (zlen r) by lia.
      destruct (zlen r =? zlen row); cbn [negb andb]; [|reflexivity].
      assert (zlen (r :: t) = 1 + zlen t) as Hl by (unfold zlen; cbn [length]; lia).
      pose proof (zlen_nonneg t). rewrite uadd_val by lia. cbn [bind].
      rewrite <- zlen_app2. rewrite IH by lia. rewrite <- app_assoc. rewrite Hl.
      replace (nr + 1 + zlen t) with (nr + (1 + zlen t)) by lia. reflexivity. }
  assert (zlen (row :: rest) = 1 + zlen rest) as Hl by (unfold zlen; cbn [length]; lia).
  pose proof (Hgo rest row 1 ltac:(lia) ltac:(lia)) as Hg. rewrite Hl.
  etransitivity; [exact Hg|]. cbn [concat]. reflexivity.
Qed.

(* rows laid out one after the other: logical (i, j) is element j of row i *)
Theorem rows_layout (rows : list (list A)) (nc : Z) : 0 <= nc -> uniform nc rows = true ->
  let m := mkMatrix RowMajor (mkAxisShape (zlen rows) nc) (concat rows) in
  nrows m = zlen rows /\ ncols m = nc /\ size m = zlen rows * nc /\
  forall i j, 0 <= i < zlen rows -> 0 <= j < nc -> exists r, znth_opt i rows = Some r /\ at_ m i j = znth_opt j r.
Proof.
  intros Hnc Hu m.
  assert (forall r, In r rows -> zlen r = nc) as Hunif.
  { intros r Hr. unfold uniform in Hu. rewrite forallb_forall in Hu. specialize (Hu r Hr). lia. }
  destruct (znth_concat_uniform rows nc Hnc Hunif) as [Lc Nc].
  split; [reflexivity|]. split; [reflexivity|]. split; [exact Lc|].
  intros i j Hi Hj. destruct (Nc i j Hi Hj) as (r & Er & En). exists r. split; [exact Er|]. exact En.
Qed.

(* with_initializer: the closure is called once per position, in memory order, and its value is stored at the position it was called with *)
Theorem with_initializer_spec (f : Index -> A) (r cl : Z) : is_usize c r -> is_usize c cl ->
  if r * cl >? umax c then with_initializer c es f r cl = Val (Err SizeOverflow)
  else if es * (r * cl) >? imax c then with_initializer c es f r cl = Val (Err CapacityOverflow)
  else exists data, with_initializer c es f r cl = Val (Ok (mkMatrix RowMajor (mkAxisShape r cl) data)) /\ zlen data = r * cl /\
    forall i j, 0 <= i < r -> 0 <= j < cl -> znth_opt (i * cl + j) data = Some (f (mkIndex i j)).
Proof.
  intros Hr Hcl. unfold with_initializer, decide_ctor. rewrite decide_shape_spec by assumption. cbn [bind].
  destruct (r * cl >? umax c) eqn:E1; [reflexivity|]. destruct (es * (r * cl) >? imax c) eqn:E2; [reflexivity|].
  cbn [Shape_to_axis_shape_unchecked sh_nrows sh_ncols].
  assert (0 <= r * cl) by (unfold is_usize in *; nia).
  destruct (map_res_rel (fun i => let* ix := Index_from_flattened i RowMajor (mkAxisShape r cl) in Val (f ix))
              (fun (k : Z) (i : Z) (v : A) => i = k /\ 0 < cl /\ v = f (mkIndex (k / cl) (k mod cl)))
              (zseq (r * cl))) as (data & E & Hl & Hn).
  { intros k i Hk. apply znth_zseq_inv in Hk as [-> Hk].
    assert (0 < cl) by (destruct (Z.eq_dec cl 0) as [->|]; [exfalso; lia|unfold is_usize in *; lia]).
    unfold Index_from_flattened, AxisIndex_from_flattened, AxisShape_major_stride, AxisShape_minor_stride. cbn [major minor].
    rewrite udiv_val, urem_val by lia. cbn [bind]. rewrite udiv_val by lia. cbn [bind AxisIndex_to_index ai_major ai_minor].
    rewrite Z.div_1_r. eexists. split; [reflexivity|]. auto. }
  rewrite E. cbn [bind]. exists data. split; [reflexivity|]. split; [rewrite Hl; unfold zlen; rewrite zseq_length; lia|].
  intros i j Hi Hj. assert (0 <= i * cl + j < r * cl) as Hk by nia.
  destruct (Hn (i * cl + j) (i * cl + j) (zseq_nth _ _ Hk)) as (v & Ev & _ & Hpos & ->).
  rewrite Ev. do 3 f_equal.
  - rewrite Z.add_comm, Z.div_add by lia. rewrite Z.div_small by lia. lia.
  - rewrite Z.add_comm, Z.mod_add by lia. apply Z.mod_small. lia.
Qed.
End Construct.
