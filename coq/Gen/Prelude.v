(* Vocabulary the generated kernel (rs2v output) is written in: the model's own records under the names the
   translator derives from the Rust source, plus the few std primitives the kernel uses. Hand-written. *)
From Matreex Require Export Model.Kernel.

Notation GOrder := order (only parsing).
Notation GShape := Shape (only parsing).
Notation GAxisShape := AxisShape (only parsing).
Notation GAxisIndex := AxisIndex (only parsing).
Notation GIndex := Index (only parsing).
(* a value of a type implementing AsIndex, reduced to what its two accessors return *)
Notation GAsIndex := Index (only parsing).
Record GWrappingIndex := Build_WrappingIndex { f_WrappingIndex_row : Z; f_WrappingIndex_col : Z }.
(* Matrix<T> as far as the kernel looks at it: order, shape, data.len() *)
Record GMatrix := Build_Matrix { f_Matrix_order : order; f_Matrix_shape : AxisShape; f_Matrix_data : Z }.
Definition vec_len (n : Z) : Z := n.
Definition set_Matrix_shape (m : GMatrix) (s : AxisShape) := Build_Matrix (f_Matrix_order m) s (f_Matrix_data m).

Definition f_Shape_nrows := sh_nrows.
Definition f_Shape_ncols := sh_ncols.
Definition Build_Shape := mkShape.
Definition set_Shape_nrows (s : Shape) (v : Z) := mkShape v (sh_ncols s).
Definition set_Shape_ncols (s : Shape) (v : Z) := mkShape (sh_nrows s) v.
Definition f_AxisShape_major := major.
Definition f_AxisShape_minor := minor.
Definition Build_AxisShape := mkAxisShape.
Definition set_AxisShape_major (s : AxisShape) (v : Z) := mkAxisShape v (minor s).
Definition set_AxisShape_minor (s : AxisShape) (v : Z) := mkAxisShape (major s) v.
Definition f_AxisIndex_major := ai_major.
Definition f_AxisIndex_minor := ai_minor.
Definition Build_AxisIndex := mkAxisIndex.
Definition set_AxisIndex_major (i : AxisIndex) (v : Z) := mkAxisIndex v (ai_minor i).
Definition set_AxisIndex_minor (i : AxisIndex) (v : Z) := mkAxisIndex (ai_major i) v.
Definition f_Index_row := ix_row.
Definition f_Index_col := ix_col.
Definition Build_Index := mkIndex.
Definition set_Index_row (i : Index) (v : Z) := mkIndex v (ix_col i).
Definition set_Index_col (i : Index) (v : Z) := mkIndex (ix_row i) v.

Definition GOrder_eqb := order_eqb.            (* derive(PartialEq) on a field-less enum *)
Definition GAxisShape_eqb := AxisShape_eqb.    (* derive(PartialEq): fields in declaration order *)

Definition ok_or {A} (o : option A) (e : error) : result A := match o with Some a => Ok a | None => Err e end.
(* `i as usize` for an isize: two's complement reinterpretation *)
Definition cast_isize_usize (c : cfg) (i : Z) : Z := if i <? 0 then i + (umax c + 1) else i.
(* the accessors of an index value *)
Definition AsIndex_row (i : Index) : res Z := Val (ix_row i).
Definition AsIndex_col (i : Index) : res Z := Val (ix_col i).

(* ---------- the pointer-level iterator machines of iter/iter_mut.rs (Model/IterMut.v) ---------- *)
From Matreex Require Export Model.IterMut.
Notation GNonNull := Z (only parsing).          (* a pointer value is its address *)
Notation GRefMut := Z (only parsing).           (* a reference handed out is the address it points to *)
Notation GIterNthVectorMut := IterNth (only parsing).
Notation GLayout := Layout (only parsing).
Notation GIterVectorsMut := IterVecs (only parsing).
Definition GNonNull_eqb := Z.eqb.
Definition f_IterNthVectorMut_lower := n_lower.
Definition f_IterNthVectorMut_upper := n_upper.
Definition f_IterNthVectorMut_stride := n_stride.
Definition Build_IterNthVectorMut := mkNth.
Definition set_IterNthVectorMut_lower (s : IterNth) (v : Z) := mkNth v (n_upper s) (n_stride s).
Definition set_IterNthVectorMut_upper (s : IterNth) (v : Z) := mkNth (n_lower s) v (n_stride s).
Definition set_IterNthVectorMut_stride (s : IterNth) (v : option Z) := mkNth (n_lower s) (n_upper s) v.
Definition f_Layout_axis_stride := axis_stride.
Definition f_Layout_vector_stride := vector_stride.
Definition f_Layout_vector_length := vector_length.
Definition Build_Layout := mkLayout.
Definition f_IterVectorsMut_lower := v_lower.
Definition f_IterVectorsMut_upper := v_upper.
Definition f_IterVectorsMut_layout := v_layout.
Definition Build_IterVectorsMut := mkVecs.
Definition set_IterVectorsMut_lower (s : IterVecs) (v : Z) := mkVecs v (v_upper s) (v_layout s).
Definition set_IterVectorsMut_upper (s : IterVecs) (v : Z) := mkVecs (v_lower s) v (v_layout s).
Definition set_IterVectorsMut_layout (s : IterVecs) (v : option Layout) := mkVecs (v_lower s) (v_upper s) v.

(* ---------- swap.rs (data mode): `self` is the model's matrix, a pointer into self.data is an element index ---------- *)
From Matreex Require Export Model.Ops.
(* what the size / stride accessors see of a matrix *)
Definition mview {A} (m : matrix A) : GMatrix := Build_Matrix (m_order m) (m_shape m) (zlen (m_data m)).
(* ptr::swap_nonoverlapping(x, y, count) inside one buffer: both ranges inside it (pointer arithmetic contract) and
   disjoint (the function's own contract), then the two ranges exchanged *)
Definition swap_nonoverlapping_m {A} (data : list A) (x y count : Z) : res (list A) :=
  if negb ((x + count <=? zlen data) && (y + count <=? zlen data)) then UB UBPtr else
  if negb ((x + count <=? y) || (y + count <=? x)) then UB UBOverlap else
  Val (splice (splice data x (zfirstn count (zskipn y data))) y (zfirstn count (zskipn x data))).

(* ---------- lib.rs: transpose and the order changes (data mode) ---------- *)
Definition set_m_shape {A} (m : matrix A) (s : AxisShape) : matrix A := mkMatrix (m_order m) s (m_data m).
Definition set_m_order {A} (m : matrix A) (o : order) : matrix A := mkMatrix o (m_shape m) (m_data m).
(* `loop { body }`: the body maps the loop state to (continue?, new state); Rust's loop has no bound, the model's has
   `fuel` (running out of it is the outcome Panic OutOfFuel, which C05 proves unreachable for the fuel it uses) *)
Fixpoint loop_res {S} (fuel : nat) (s : S) (body : S -> res (bool * S)) : res S :=
  match fuel with
  | O => Panic OutOfFuel
  | S f => let* r := body s in if fst r then loop_res f (snd r) body else Val (snd r)
  end.

(* ---------- construct.rs: the Vec primitives the constructors use (capacity is not part of the model) ---------- *)
Definition vec_new {A} : list A := [].
Definition vec_with_capacity {A} (n : Z) : list A := [].
Definition vec_resize_with {A} (l : list A) (n : Z) (d : A) : list A :=
  if n <=? zlen l then zfirstn n l else l ++ zrepeat d (n - zlen l).
Definition vec_push {A} (l : list A) (x : A) : list A := l ++ [x].

(* ---------- eq.rs ---------- *)
(* <[T] as PartialEq>::eq: equal lengths and equal elements (the element comparison eqT is caller code) *)
Definition vec_eqb {A} (eqT : A -> A -> bool) (l1 l2 : list A) : bool :=
  (zlen l1 =? zlen l2) && forallb (fun p => eqT (fst p) (snd p)) (combine l1 l2).
(* slice.iter().enumerate() *)
Definition zenumerate {A} (l : list A) : list (Z * A) := combine (zseq (zlen l)) l.
(* Iterator::all with an effectful predicate: left to right, stops at the first false *)
Fixpoint all_res {X} (l : list X) (f : X -> res bool) : res bool :=
  match l with
  | [] => Val true
  | x :: t => let* b := f x in if b then all_res t f else Val false
  end.

(* ---------- lib.rs: contains, resize ---------- *)
Definition vec_contains {A} (eqT : A -> A -> bool) (l : list A) (v : A) : bool := existsb (fun x => eqT x v) l.
Definition vec_truncate {A} (l : list A) (n : Z) : list A := zfirstn n l.

(* ---------- convert.rs: rows ---------- *)
Definition rows_first_len {A} (rows : list (list A)) : Z := match rows with [] => 0 | r :: _ => zlen r end.
Definition vec_extend {A} (l r : list A) : list A := l ++ r.
(* for x in rows { body }: the loop state threaded through the rows ... *)
Fixpoint for_rows {X S} (l : list X) (s : S) (body : X -> S -> res S) : res S :=
  match l with
  | [] => Val s
  | x :: t => let* s' := body x s in for_rows t s' body
  end.
(* ... and the same when the body may `return Err(e)` from the function: the first Err ends the loop *)
Fixpoint for_try {X S} (l : list X) (s : S) (body : X -> S -> res (result S)) : res (result S) :=
  match l with
  | [] => Val (Ok s)
  | x :: t => let* r := body x s in match r with Ok s' => for_try t s' body | Err e => Val (Err e) end
  end.

(* ---------- mul.rs ---------- *)
(* Iterator::reduce: None for no items, otherwise the left fold starting from the first *)
Definition reduce_opt {X} (f : X -> X -> X) (l : list X) : option X := match l with [] => None | x :: t => Some (fold_left f t x) end.
(* Option::unwrap_unchecked *)
Definition unwrap_unchecked {X} (o : option X) : res X := match o with Some x => Val x | None => UB UBUnwrapNone end.
