(* Each function of the crate's integer / decision kernel, as translated from the Rust source on this run
   (KernelGen.v), computes exactly what the hand-written kernel of the model (Model/Kernel.v) - the one all
   property theorems are about - computes.  One lemma per source function. *)
From Matreex Require Import Model.Ops Gen.Prelude Gen.KernelGen.

(* case analysis on every outcome that is sequenced by `let*`, outermost first *)
Ltac res_cases :=
  repeat (cbn [bind];
          match goal with
          | |- context [bind ?x _] =>
            lazymatch x with
            | Val _ => fail
            | bind _ _ => fail
            | (if _ then _ else _) => fail
            | (match _ with _ => _ end) => fail
            | _ => destruct x
            end
          | |- context [bind (if ?b then _ else _) _] => destruct b
          end);
  cbn [bind]; try reflexivity.

(* BEGIN Order_switch *)
Lemma gen_Order_switch c o : G_Order_switch c o = Val (Order_switch o).
Proof. destruct o; reflexivity. Qed.
(* END *)
(* BEGIN Shape_size *)
Lemma gen_Shape_size c s : G_Shape_size c s = Val (Shape_size c s).
Proof. unfold G_Shape_size, Shape_size, ok_or. reflexivity. Qed.
(* END *)
(* BEGIN Shape_transpose *)
Lemma gen_Shape_transpose c s : G_Shape_transpose c s = Val (Shape_transpose s).
Proof. reflexivity. Qed.
(* END *)
(* BEGIN Shape_to_axis_shape_unchecked *)
Lemma gen_Shape_to_axis_shape_unchecked c s o : G_Shape_to_axis_shape_unchecked c s o = Val (Shape_to_axis_shape_unchecked s o).
Proof. destruct o; reflexivity. Qed.
(* END *)
(* BEGIN Shape_try_to_axis_shape *)
Lemma gen_Shape_try_to_axis_shape c s o : G_Shape_try_to_axis_shape c s o = Val (Shape_try_to_axis_shape c s o).
Proof.
  unfold G_Shape_try_to_axis_shape, Shape_try_to_axis_shape. rewrite gen_Shape_size. cbn [bind].
  destruct (Shape_size c s); [|reflexivity]. rewrite gen_Shape_to_axis_shape_unchecked. reflexivity.
Qed.
(* END *)
(* BEGIN AxisShape_major *)
Lemma gen_AxisShape_major c s : G_AxisShape_major c s = Val (major s).
Proof. reflexivity. Qed.
(* END *)
(* BEGIN AxisShape_minor *)
Lemma gen_AxisShape_minor c s : G_AxisShape_minor c s = Val (minor s).
Proof. reflexivity. Qed.
(* END *)
(* BEGIN AxisShape_major_stride *)
Lemma gen_AxisShape_major_stride c s : G_AxisShape_major_stride c s = Val (AxisShape_major_stride s).
Proof. reflexivity. Qed.
(* END *)
(* BEGIN AxisShape_minor_stride *)
Lemma gen_AxisShape_minor_stride c s : G_AxisShape_minor_stride c s = Val (AxisShape_minor_stride s).
Proof. reflexivity. Qed.
(* END *)
(* BEGIN AxisShape_size *)
Lemma gen_AxisShape_size c s : G_AxisShape_size c s = AxisShape_size c s.
Proof. unfold G_AxisShape_size, AxisShape_size. destruct (umul c _ _); reflexivity. Qed.
(* END *)
(* BEGIN AxisShape_transpose *)
Lemma gen_AxisShape_transpose c s : G_AxisShape_transpose c s = Val (AxisShape_transpose s).
Proof. reflexivity. Qed.
(* END *)
(* BEGIN AxisShape_nrows *)
Lemma gen_AxisShape_nrows c s o : G_AxisShape_nrows c s o = Val (AxisShape_nrows s o).
Proof. destruct o; reflexivity. Qed.
(* END *)
(* BEGIN AxisShape_ncols *)
Lemma gen_AxisShape_ncols c s o : G_AxisShape_ncols c s o = Val (AxisShape_ncols s o).
Proof. destruct o; reflexivity. Qed.
(* END *)
(* BEGIN AxisShape_to_shape *)
Lemma gen_AxisShape_to_shape c s o : G_AxisShape_to_shape c s o = Val (AxisShape_to_shape s o).
Proof. destruct o; reflexivity. Qed.
(* END *)
(* BEGIN Index_swap *)
Lemma gen_Index_swap c i : G_Index_swap c i = Val (mkIndex (ix_col i) (ix_row i)).
Proof. reflexivity. Qed.
(* END *)
(* BEGIN AxisIndex_swap *)
Lemma gen_AxisIndex_swap c i : G_AxisIndex_swap c i = Val (AxisIndex_swap i).
Proof. reflexivity. Qed.
(* END *)
(* BEGIN AxisIndex_from_index *)
(* both accessors are called exactly once, whatever the order *)
Lemma gen_AxisIndex_from_index c i o : G_AxisIndex_from_index c i o = Val (AxisIndex_from_rc (ix_row i) (ix_col i) o).
Proof. destruct o; reflexivity. Qed.
(* END *)
(* BEGIN AxisIndex_to_index *)
Lemma gen_AxisIndex_to_index c i o : G_AxisIndex_to_index c i o = Val (AxisIndex_to_index i o).
Proof. destruct o; reflexivity. Qed.
(* END *)
(* BEGIN AxisIndex_from_wrapping_index *)
Lemma gen_wrap_axis c i m : 
  (if i <? 0 then
     let* r1 := Val m in let* r2 := Val m in let* t1 := urem (unsigned_abs i) r2 in let* t2 := usub c r1 t1 in
     let* r3 := Val m in let* t3 := urem t2 r3 in Val t3
   else let* r4 := Val m in let* t4 := urem (cast_isize_usize c i) r4 in Val t4) = wrap_axis c i m.
Proof.
  unfold wrap_axis, cast_isize_usize. destruct (i <? 0) eqn:E; res_cases.
Qed.
Lemma gen_AxisIndex_from_wrapping_index c w o s :
  G_AxisIndex_from_wrapping_index c w o s = AxisIndex_from_wrapping_index c (f_WrappingIndex_row w) (f_WrappingIndex_col w) o s.
Proof.
  unfold G_AxisIndex_from_wrapping_index, AxisIndex_from_wrapping_index.
  destruct o; cbn [bind]; unfold G_AxisShape_major, G_AxisShape_minor, f_AxisShape_major, f_AxisShape_minor;
    rewrite !gen_wrap_axis;
    (destruct (wrap_axis c _ (major s)); cbn [bind]; try reflexivity; destruct (wrap_axis c _ (minor s)); reflexivity).
Qed.
(* END *)
(* BEGIN AxisIndex_from_flattened *)
Lemma gen_AxisIndex_from_flattened c index s : G_AxisIndex_from_flattened c index s = AxisIndex_from_flattened index s.
Proof.
  unfold G_AxisIndex_from_flattened, AxisIndex_from_flattened. rewrite !gen_AxisShape_major_stride, gen_AxisShape_minor_stride. cbn [bind].
  res_cases.
Qed.
(* END *)
(* BEGIN AxisIndex_to_flattened *)
Lemma gen_AxisIndex_to_flattened c i s : G_AxisIndex_to_flattened c i s = AxisIndex_to_flattened c i s.
Proof.
  unfold G_AxisIndex_to_flattened, AxisIndex_to_flattened. rewrite gen_AxisShape_major_stride, gen_AxisShape_minor_stride. cbn [bind].
  unfold f_AxisIndex_major, f_AxisIndex_minor. res_cases.
Qed.
(* END *)
(* BEGIN Index_from_flattened *)
Lemma gen_Index_from_flattened c index o s : G_Index_from_flattened c index o s = Index_from_flattened index o s.
Proof.
  unfold G_Index_from_flattened, Index_from_flattened. rewrite gen_AxisIndex_from_flattened.
  destruct (AxisIndex_from_flattened index s); cbn [bind]; try reflexivity. rewrite gen_AxisIndex_to_index. reflexivity.
Qed.
(* END *)
(* BEGIN Index_to_flattened *)
Lemma gen_Index_to_flattened c i o s : G_Index_to_flattened c i o s = Index_to_flattened c i o s.
Proof.
  unfold G_Index_to_flattened, Index_to_flattened. rewrite gen_AxisIndex_from_index. cbn [bind]. rewrite gen_AxisIndex_to_flattened.
  res_cases.
Qed.
(* END *)
(* BEGIN Matrix_nrows *)
Lemma gen_Matrix_nrows c m : G_Matrix_nrows c m = Val (AxisShape_nrows (f_Matrix_shape m) (f_Matrix_order m)).
Proof. unfold G_Matrix_nrows. rewrite gen_AxisShape_nrows. reflexivity. Qed.
(* END *)
(* BEGIN Matrix_ncols *)
Lemma gen_Matrix_ncols c m : G_Matrix_ncols c m = Val (AxisShape_ncols (f_Matrix_shape m) (f_Matrix_order m)).
Proof. unfold G_Matrix_ncols. rewrite gen_AxisShape_ncols. reflexivity. Qed.
(* END *)
(* BEGIN Matrix_size *)
Lemma gen_Matrix_size c m : G_Matrix_size c m = Val (f_Matrix_data m).
Proof. reflexivity. Qed.
(* END *)
(* BEGIN Matrix_is_empty *)
Lemma gen_Matrix_is_empty c m : G_Matrix_is_empty c m = Val (f_Matrix_data m =? 0).
Proof. reflexivity. Qed.
(* END *)
(* BEGIN Matrix_major *)
Lemma gen_Matrix_major c m : G_Matrix_major c m = Val (major (f_Matrix_shape m)).
Proof. reflexivity. Qed.
(* END *)
(* BEGIN Matrix_minor *)
Lemma gen_Matrix_minor c m : G_Matrix_minor c m = Val (minor (f_Matrix_shape m)).
Proof. reflexivity. Qed.
(* END *)
(* BEGIN Matrix_major_stride *)
Lemma gen_Matrix_major_stride c m : G_Matrix_major_stride c m = Val (AxisShape_major_stride (f_Matrix_shape m)).
Proof. reflexivity. Qed.
(* END *)
(* BEGIN Matrix_minor_stride *)
Lemma gen_Matrix_minor_stride c m : G_Matrix_minor_stride c m = Val (AxisShape_minor_stride (f_Matrix_shape m)).
Proof. reflexivity. Qed.
(* END *)
(* BEGIN Matrix_check_size *)
Lemma gen_Matrix_check_size c es size : 0 <= imax c -> G_Matrix_check_size c es size = Val (check_size c es size).
Proof.
  intros H. unfold G_Matrix_check_size, check_size, cast_isize_usize. destruct (imax c <? 0) eqn:E; [lia|].
  destruct (saturating_mul c es size >? imax c); reflexivity.
Qed.
(* END *)
(* BEGIN Matrix_is_elementwise_operation_conformable *)
Lemma gen_Matrix_is_elementwise_operation_conformable c m1 m2 :
  G_Matrix_is_elementwise_operation_conformable c m1 m2 =
    Val (is_elementwise_conformable (f_Matrix_order m1) (f_Matrix_shape m1) (f_Matrix_order m2) (f_Matrix_shape m2)).
Proof.
  unfold G_Matrix_is_elementwise_operation_conformable, is_elementwise_conformable, GOrder_eqb, GAxisShape_eqb.
  destruct (order_eqb _ _); [reflexivity|]. rewrite !gen_Matrix_major, !gen_Matrix_minor. cbn [bind].
  destruct (major (f_Matrix_shape m1) =? minor (f_Matrix_shape m2)); reflexivity.
Qed.
(* END *)
(* BEGIN Matrix_is_multiplication_like_operation_conformable *)
Lemma gen_Matrix_is_multiplication_like_operation_conformable c m1 m2 :
  G_Matrix_is_multiplication_like_operation_conformable c m1 m2 =
    Val (is_multiplication_conformable (f_Matrix_order m1) (f_Matrix_shape m1) (f_Matrix_order m2) (f_Matrix_shape m2)).
Proof.
  unfold G_Matrix_is_multiplication_like_operation_conformable, is_multiplication_conformable.
  rewrite gen_Matrix_ncols, gen_Matrix_nrows. reflexivity.
Qed.
(* END *)
(* BEGIN AxisIndex_is_out_of_bounds *)
Lemma gen_AxisIndex_is_out_of_bounds c i m :
  G_AxisIndex_is_out_of_bounds c i m = Val (AxisIndex_is_out_of_bounds i (f_Matrix_shape m)).
Proof.
  unfold G_AxisIndex_is_out_of_bounds, AxisIndex_is_out_of_bounds. rewrite gen_Matrix_major, gen_Matrix_minor. cbn [bind].
  unfold f_AxisIndex_major, f_AxisIndex_minor. destruct (ai_major i >=? _); reflexivity.
Qed.
(* END *)

(* BEGIN Shape_new *)
Lemma gen_Shape_new c r cl : G_Shape_new c r cl = Val (mkShape r cl).
Proof. reflexivity. Qed.
(* END *)
(* BEGIN Shape_nrows *)
Lemma gen_Shape_nrows c s : G_Shape_nrows c s = Val (sh_nrows s).
Proof. reflexivity. Qed.
(* END *)
(* BEGIN Shape_ncols *)
Lemma gen_Shape_ncols c s : G_Shape_ncols c s = Val (sh_ncols s).
Proof. reflexivity. Qed.
(* END *)
(* BEGIN Matrix_shape *)
Lemma gen_Matrix_shape c m : G_Matrix_shape c m = Val (AxisShape_to_shape (f_Matrix_shape m) (f_Matrix_order m)).
Proof. unfold G_Matrix_shape. rewrite gen_AxisShape_to_shape. reflexivity. Qed.
(* END *)
(* BEGIN Matrix_is_square *)
Lemma gen_Matrix_is_square c m :
  G_Matrix_is_square c m = Val (AxisShape_nrows (f_Matrix_shape m) (f_Matrix_order m) =? AxisShape_ncols (f_Matrix_shape m) (f_Matrix_order m)).
Proof.
  unfold G_Matrix_is_square. rewrite gen_Matrix_shape. cbn [bind]. rewrite gen_Shape_nrows, gen_Shape_ncols. cbn [bind].
  destruct (f_Matrix_order m); reflexivity.
Qed.
(* END *)
(* BEGIN Matrix_ensure_square *)
Lemma gen_Matrix_ensure_square c m :
  G_Matrix_ensure_square c m =
    Val (if AxisShape_nrows (f_Matrix_shape m) (f_Matrix_order m) =? AxisShape_ncols (f_Matrix_shape m) (f_Matrix_order m)
         then Ok m else Err SquareMatrixRequired).
Proof. unfold G_Matrix_ensure_square. rewrite gen_Matrix_is_square. cbn [bind]. destruct (_ =? _); reflexivity. Qed.
(* END *)
(* BEGIN Matrix_ensure_elementwise_operation_conformable *)
Lemma gen_Matrix_ensure_elementwise_operation_conformable c m1 m2 :
  G_Matrix_ensure_elementwise_operation_conformable c m1 m2 =
    Val (if is_elementwise_conformable (f_Matrix_order m1) (f_Matrix_shape m1) (f_Matrix_order m2) (f_Matrix_shape m2)
         then Ok m1 else Err ShapeNotConformable).
Proof.
  unfold G_Matrix_ensure_elementwise_operation_conformable. rewrite gen_Matrix_is_elementwise_operation_conformable. cbn [bind].
  destruct (is_elementwise_conformable _ _ _ _); reflexivity.
Qed.
(* END *)
(* BEGIN Matrix_ensure_multiplication_like_operation_conformable *)
Lemma gen_Matrix_ensure_multiplication_like_operation_conformable c m1 m2 :
  G_Matrix_ensure_multiplication_like_operation_conformable c m1 m2 =
    Val (if is_multiplication_conformable (f_Matrix_order m1) (f_Matrix_shape m1) (f_Matrix_order m2) (f_Matrix_shape m2)
         then Ok m1 else Err ShapeNotConformable).
Proof.
  unfold G_Matrix_ensure_multiplication_like_operation_conformable. rewrite gen_Matrix_is_multiplication_like_operation_conformable. cbn [bind].
  destruct (is_multiplication_conformable _ _ _ _); reflexivity.
Qed.
(* END *)
(* BEGIN Matrix_reshape *)
(* reshape: the decision of Model/Ops.v (reshape_decision) on the order, the number of stored elements and the requested
   shape; on success only the shape field changes, on failure nothing does *)
Lemma gen_Matrix_reshape c m sh :
  G_Matrix_reshape c m sh =
    let* d := reshape_decision c (f_Matrix_order m) (f_Matrix_data m) (sh_nrows sh) (sh_ncols sh) in
    Val (match d with
         | Ok a => (set_Matrix_shape m a, Ok (set_Matrix_shape m a))
         | Err e => (m, Err e)
         end).
Proof.
  unfold G_Matrix_reshape, reshape_decision. rewrite gen_Shape_try_to_axis_shape. cbn [bind].
  replace (mkShape (sh_nrows sh) (sh_ncols sh)) with sh by (destruct sh; reflexivity).
  destruct (Shape_try_to_axis_shape c sh (f_Matrix_order m)) as [a|e]; [|reflexivity].
  rewrite gen_Matrix_size. cbn [bind]. rewrite gen_AxisShape_size.
  destruct (AxisShape_size c a) as [sz|w|w]; cbn [bind]; try reflexivity.
  destruct (negb (f_Matrix_data m =? sz)); reflexivity.
Qed.
(* END *)

(* ---------- swap.rs ---------- *)
(* BEGIN Matrix_swap_major_axis_vectors *)
Lemma for_res_ext {St} (f g : Z -> St -> res St) : (forall i s, f i s = g i s) -> forall l s, for_res l s f = for_res l s g.
Proof. intros H. induction l as [|i l IH]; intros s; cbn [for_res]; [reflexivity|]. rewrite H. destruct (g i s); cbn [bind]; auto. Qed.
Definition swap_outcome {A} (m : matrix A) (r : result (matrix A)) : matrix A * result unit :=
  match r with Ok m' => (m', Ok tt) | Err e => (m, Err e) end.
Ltac gsimp :=
  repeat (first [rewrite gen_Matrix_major | rewrite gen_Matrix_minor | rewrite gen_Matrix_major_stride | rewrite gen_Matrix_minor_stride];
          cbn [bind mview f_Matrix_shape]).
Lemma gen_Matrix_swap_major_axis_vectors {A} c (m : matrix A) a b :
  G_Matrix_swap_major_axis_vectors c m a b = let* r := swap_major_axis_vectors c m a b in Val (swap_outcome m r).
Proof.
  unfold G_Matrix_swap_major_axis_vectors, swap_major_axis_vectors, swap_nonoverlapping_m, mmajor, mminor, size. gsimp.
  destruct (a >=? major (m_shape m)); cbn [orb bind]; [reflexivity|]. gsimp.
  destruct (b >=? major (m_shape m)); cbn [bind]; [reflexivity|].
  destruct (a =? b); [reflexivity|]. gsimp.
  destruct (umul c a _) as [i|w|w]; cbn [bind]; try reflexivity. gsimp.
  destruct (umul c b _) as [j|w|w]; cbn [bind]; try reflexivity. gsimp.
  change (0 + i) with i. change (0 + j) with j.
  destruct (negb _); cbn [bind]; [reflexivity|]. destruct (negb _); reflexivity.
Qed.
(* END *)
(* BEGIN Matrix_swap_minor_axis_vectors *)
Lemma gen_Matrix_swap_minor_axis_vectors {A} c (m : matrix A) a b :
  G_Matrix_swap_minor_axis_vectors c m a b = let* r := swap_minor_axis_vectors c m a b in Val (swap_outcome m r).
Proof.
  unfold G_Matrix_swap_minor_axis_vectors, swap_minor_axis_vectors, mmajor, mminor. gsimp.
  destruct (a >=? minor (m_shape m)); cbn [orb bind]; [reflexivity|]. gsimp.
  destruct (b >=? minor (m_shape m)); cbn [bind]; [reflexivity|]. gsimp.
  destruct (umul c a _) as [i|w|w]; cbn [bind]; try reflexivity. gsimp.
  destruct (umul c b _) as [j|w|w]; cbn [bind]; try reflexivity. gsimp.
  match goal with |- context [for_res ?l ?s ?f] =>
    rewrite (for_res_ext f (fun k data => let* offset := umul c k (AxisShape_major_stride (m_shape m)) in
                                          let* x := uadd c i offset in let* y := uadd c j offset in ptr_swap data x y))
  end.
  - destruct (for_res _ _ _); reflexivity.
  - intros k s. cbv zeta. cbn [Z.add]. gsimp. unfold AxisShape_major_stride. res_cases.
Qed.
(* END *)
(* BEGIN Matrix_swap_rows *)
Lemma gen_Matrix_swap_rows {A} c (m : matrix A) a b :
  G_Matrix_swap_rows c m a b = let* r := swap_rows c m a b in Val (swap_outcome m r).
Proof.
  unfold G_Matrix_swap_rows, swap_rows. destruct (m_order m);
    [rewrite gen_Matrix_swap_major_axis_vectors|rewrite gen_Matrix_swap_minor_axis_vectors]; res_cases.
Qed.
(* END *)
(* BEGIN Matrix_swap_cols *)
Lemma gen_Matrix_swap_cols {A} c (m : matrix A) a b :
  G_Matrix_swap_cols c m a b = let* r := swap_cols c m a b in Val (swap_outcome m r).
Proof.
  unfold G_Matrix_swap_cols, swap_cols. destruct (m_order m);
    [rewrite gen_Matrix_swap_minor_axis_vectors|rewrite gen_Matrix_swap_major_axis_vectors]; res_cases.
Qed.
(* END *)

(* ---------- lib.rs: transpose (cycle following through raw pointers) and the order changes ---------- *)
(* BEGIN Matrix_transpose *)
(* the model's transpose with the fuel of the inner loop as a parameter *)
Definition transpose_f {A} c es (fuel : nat) (m : matrix A) : res (matrix A) :=
  if es =? 0 then Val (mkMatrix (m_order m) (AxisShape_transpose (m_shape m)) (m_data m)) else
  let old := m_shape m in
  let new := AxisShape_transpose old in
  let n := length (m_data m) in
  let* va := for_res (zseq (size m)) (repeat false n, m_data m)
               (fun index va => tr_inner c fuel old new index index (fst va) (snd va)) in
  Val (mkMatrix (m_order m) new (snd va)).
Lemma transpose_f_fuel {A} c es (m : matrix A) : transpose c es m = transpose_f c es (S (length (m_data m))) m.
Proof. reflexivity. Qed.

Lemma for_res_ext2 {S} (l : list Z) (s : S) f g : (forall i s, f i s = g i s) -> for_res l s f = for_res l s g.
Proof. intros E. revert s. induction l as [|i l IH]; intros s; cbn [for_res]; [reflexivity|]. rewrite E. destruct (g i s); cbn [bind]; auto. Qed.


Lemma zrepeat_zlen {X Y} (x : X) (l : list Y) : zrepeat x (zlen l) = repeat x (length l).
Proof. unfold zrepeat, zlen. rewrite Nat2Z.id. reflexivity. Qed.

(* the cycle-following `loop` of transpose, as translated, is the model's tr_inner *)
Lemma gen_transpose_loop {A} c fuel old new index : forall current vis (a : list A),
  (let* st := loop_res fuel (vis, current, a)
      (fun st : list bool * Z * list A => let '(visited, current, data) := st in
         let state_i := current in
         match znth_opt state_i visited with
         | None => UB UBIndex
         | Some state_v =>
           if state_v then Val (false, (visited, current, data))
           else let visited := zupd visited state_i true in
             let* r1 := G_AxisIndex_from_flattened c current old in
             let* r2 := G_AxisIndex_swap c r1 in
             let* r3 := G_AxisIndex_to_flattened c r2 new in
             let next := r3 in
             let x := (0 + index) in
             let y := (0 + next) in
             let* data := ptr_swap data x y in
             let current := next in
             Val (true, (visited, current, data))
         end) in
   let '(visited, current, data) := st in Val (visited, data))
  = tr_inner c fuel old new index current vis a.
Proof.
  induction fuel as [|f IH]; intros current vis a; cbn [loop_res tr_inner bind]; [reflexivity|].
  destruct (znth_opt current vis) as [[|]|]; cbn [bind fst snd]; try reflexivity.
  rewrite gen_AxisIndex_from_flattened. unfold remap.
  destruct (AxisIndex_from_flattened current old) as [i|w|w]; cbn [bind]; try reflexivity.
  rewrite gen_AxisIndex_swap. cbn [bind]. rewrite gen_AxisIndex_to_flattened.
  destruct (AxisIndex_to_flattened c (AxisIndex_swap i) new) as [nx|w|w]; cbn [bind]; try reflexivity.
  change (0 + index) with index. change (0 + nx) with nx.
  destruct (ptr_swap a index nx) as [a'|w|w]; cbn [bind fst snd]; try reflexivity.
  apply IH.
Qed.

Lemma gen_Matrix_transpose {A} c es fuel (m : matrix A) : G_Matrix_transpose c es fuel m = transpose_f c es fuel m.
Proof.
  unfold G_Matrix_transpose, transpose_f. destruct (es =? 0); [reflexivity|].
  cbn [bind G_AxisShape_transpose G_Matrix_size]. unfold size, vec_len, mview, set_m_shape, set_data. cbn [f_Matrix_data m_shape m_data m_order].
  rewrite zrepeat_zlen.
  rewrite (for_res_ext2 _ _ _ (fun index va => tr_inner c fuel (m_shape m) (AxisShape_transpose (m_shape m)) index index (fst va) (snd va))).
  2:{ intros index [vis a]. cbn [fst snd]. apply (gen_transpose_loop c fuel (m_shape m) (AxisShape_transpose (m_shape m)) index index vis a). }
  cbn [fst snd].
  match goal with |- context [for_res ?l ?s ?f] => destruct (for_res l s f) as [[v a]|w|w] end; reflexivity.
Qed.

(* with the fuel the model runs it with (C05 proves that this fuel is never exhausted) it is the model's transpose *)
Lemma gen_Matrix_transpose_model {A} c es (m : matrix A) : G_Matrix_transpose c es (S (length (m_data m))) m = transpose c es m.
Proof. rewrite gen_Matrix_transpose. reflexivity. Qed.
(* END *)
(* BEGIN Matrix_switch_order *)
Definition switch_order_f {A} c es fuel (m : matrix A) : res (matrix A) :=
  let* m' := transpose_f c es fuel m in Val (mkMatrix (Order_switch (m_order m')) (m_shape m') (m_data m')).
Lemma gen_Matrix_switch_order {A} c es fuel (m : matrix A) : G_Matrix_switch_order c es fuel m = switch_order_f c es fuel m.
Proof.
  unfold G_Matrix_switch_order, switch_order_f. rewrite gen_Matrix_transpose.
  destruct (transpose_f c es fuel m) as [m'|w|w]; cbn [bind]; try reflexivity. rewrite gen_Order_switch. reflexivity.
Qed.
Lemma gen_Matrix_switch_order_model {A} c es (m : matrix A) : G_Matrix_switch_order c es (S (length (m_data m))) m = switch_order c es m.
Proof. rewrite gen_Matrix_switch_order. reflexivity. Qed.
(* END *)
(* BEGIN Matrix_switch_order_without_rearrangement *)
Lemma gen_Matrix_switch_order_without_rearrangement {A} c (m : matrix A) :
  G_Matrix_switch_order_without_rearrangement c m = Val (switch_order_wr m).
Proof. unfold G_Matrix_switch_order_without_rearrangement. rewrite gen_Order_switch. reflexivity. Qed.
(* END *)
(* BEGIN Matrix_set_order *)
Lemma gen_Matrix_set_order {A} c es fuel (m : matrix A) o :
  G_Matrix_set_order c es fuel m o = if order_eqb o (m_order m) then Val m else switch_order_f c es fuel m.
Proof.
  unfold G_Matrix_set_order, GOrder_eqb. destruct (order_eqb o (m_order m)); cbn [negb bind]; [reflexivity|].
  rewrite gen_Matrix_switch_order. destruct (switch_order_f c es fuel m); reflexivity.
Qed.
Lemma gen_Matrix_set_order_model {A} c es (m : matrix A) o : G_Matrix_set_order c es (S (length (m_data m))) m o = set_order c es m o.
Proof. rewrite gen_Matrix_set_order. reflexivity. Qed.
(* END *)
(* BEGIN Matrix_set_order_without_rearrangement *)
Lemma gen_Matrix_set_order_without_rearrangement {A} c (m : matrix A) o :
  G_Matrix_set_order_without_rearrangement c m o = Val (set_order_wr m o).
Proof.
  unfold G_Matrix_set_order_without_rearrangement, set_order_wr, GOrder_eqb. destruct (order_eqb o (m_order m)); cbn [negb bind]; [reflexivity|].
  rewrite gen_Matrix_switch_order_without_rearrangement. reflexivity.
Qed.
(* END *)

(* ---------- iter.rs: the immutable row / column views ---------- *)
(* BEGIN Matrix_iter_nth_major_axis_vector_unchecked *)
Lemma gen_Matrix_iter_nth_major_axis_vector_unchecked {A} c (m : matrix A) n :
  G_Matrix_iter_nth_major_axis_vector_unchecked c m n = iter_nth_major_axis_vector_unchecked c m n.
Proof.
  unfold G_Matrix_iter_nth_major_axis_vector_unchecked, iter_nth_major_axis_vector_unchecked, mminor. gsimp.
  destruct (umul c n _) as [k|w|w]; cbn [bind]; try reflexivity; gsimp; try reflexivity; destruct (zview _ _ _ _); reflexivity.
Qed.
(* END *)
(* BEGIN Matrix_iter_nth_minor_axis_vector_unchecked *)
Lemma gen_Matrix_iter_nth_minor_axis_vector_unchecked {A} c (m : matrix A) n :
  G_Matrix_iter_nth_minor_axis_vector_unchecked c m n = iter_nth_minor_axis_vector_unchecked c m n.
Proof.
  unfold G_Matrix_iter_nth_minor_axis_vector_unchecked, iter_nth_minor_axis_vector_unchecked, mmajor. gsimp.
  destruct (umul c n _) as [k|w|w]; cbn [bind]; try reflexivity; gsimp; try reflexivity; destruct (zview _ _ _ _); reflexivity.
Qed.
(* END *)
(* BEGIN Matrix_iter_nth_major_axis_vector *)
Lemma gen_Matrix_iter_nth_major_axis_vector {A} c (m : matrix A) n :
  G_Matrix_iter_nth_major_axis_vector c m n = iter_nth_major_axis_vector c m n.
Proof.
  unfold G_Matrix_iter_nth_major_axis_vector, iter_nth_major_axis_vector, mmajor. gsimp.
  destruct (n >=? major (m_shape m)); [reflexivity|]. rewrite gen_Matrix_iter_nth_major_axis_vector_unchecked.
  destruct (iter_nth_major_axis_vector_unchecked c m n); reflexivity.
Qed.
(* END *)
(* BEGIN Matrix_iter_nth_minor_axis_vector *)
Lemma gen_Matrix_iter_nth_minor_axis_vector {A} c (m : matrix A) n :
  G_Matrix_iter_nth_minor_axis_vector c m n = iter_nth_minor_axis_vector c m n.
Proof.
  unfold G_Matrix_iter_nth_minor_axis_vector, iter_nth_minor_axis_vector, mminor. gsimp.
  destruct (n >=? minor (m_shape m)); [reflexivity|]. rewrite gen_Matrix_iter_nth_minor_axis_vector_unchecked.
  destruct (iter_nth_minor_axis_vector_unchecked c m n); reflexivity.
Qed.
(* END *)

(* the mutable views (iter_mut() instead of iter(): the same adaptor chain, so the same elements in the same order;
   Model/Views.v instantiates them on the matrix of element positions) and the public dispatchers on the storage order *)
(* BEGIN Matrix_iter_nth_major_axis_vector_unchecked_mut *)
Lemma gen_Matrix_iter_nth_major_axis_vector_unchecked_mut {A} c (m : matrix A) n :
  G_Matrix_iter_nth_major_axis_vector_unchecked_mut c m n = iter_nth_major_axis_vector_unchecked c m n.
Proof.
  unfold G_Matrix_iter_nth_major_axis_vector_unchecked_mut, iter_nth_major_axis_vector_unchecked, mminor. gsimp.
  destruct (umul c n _) as [k|w|w]; cbn [bind]; try reflexivity; gsimp; try reflexivity; destruct (zview _ _ _ _); reflexivity.
Qed.
(* END *)
(* BEGIN Matrix_iter_nth_minor_axis_vector_unchecked_mut *)
Lemma gen_Matrix_iter_nth_minor_axis_vector_unchecked_mut {A} c (m : matrix A) n :
  G_Matrix_iter_nth_minor_axis_vector_unchecked_mut c m n = iter_nth_minor_axis_vector_unchecked c m n.
Proof.
  unfold G_Matrix_iter_nth_minor_axis_vector_unchecked_mut, iter_nth_minor_axis_vector_unchecked, mmajor. gsimp.
  destruct (umul c n _) as [k|w|w]; cbn [bind]; try reflexivity; gsimp; try reflexivity; destruct (zview _ _ _ _); reflexivity.
Qed.
(* END *)
(* BEGIN Matrix_iter_nth_major_axis_vector_mut *)
Lemma gen_Matrix_iter_nth_major_axis_vector_mut {A} c (m : matrix A) n :
  G_Matrix_iter_nth_major_axis_vector_mut c m n = iter_nth_major_axis_vector c m n.
Proof.
  unfold G_Matrix_iter_nth_major_axis_vector_mut, iter_nth_major_axis_vector, mmajor. gsimp.
  destruct (n >=? major (m_shape m)); [reflexivity|]. rewrite gen_Matrix_iter_nth_major_axis_vector_unchecked_mut.
  destruct (iter_nth_major_axis_vector_unchecked c m n); reflexivity.
Qed.
(* END *)
(* BEGIN Matrix_iter_nth_minor_axis_vector_mut *)
Lemma gen_Matrix_iter_nth_minor_axis_vector_mut {A} c (m : matrix A) n :
  G_Matrix_iter_nth_minor_axis_vector_mut c m n = iter_nth_minor_axis_vector c m n.
Proof.
  unfold G_Matrix_iter_nth_minor_axis_vector_mut, iter_nth_minor_axis_vector, mminor. gsimp.
  destruct (n >=? minor (m_shape m)); [reflexivity|]. rewrite gen_Matrix_iter_nth_minor_axis_vector_unchecked_mut.
  destruct (iter_nth_minor_axis_vector_unchecked c m n); reflexivity.
Qed.
(* END *)
(* BEGIN Matrix_iter_nth_row *)
Lemma gen_Matrix_iter_nth_row {A} c (m : matrix A) n : G_Matrix_iter_nth_row c m n = iter_nth_row c m n.
Proof.
  unfold G_Matrix_iter_nth_row, iter_nth_row. destruct (m_order m);
    [rewrite gen_Matrix_iter_nth_major_axis_vector|rewrite gen_Matrix_iter_nth_minor_axis_vector];
    match goal with |- bind ?x _ = _ => destruct x end; reflexivity.
Qed.
(* END *)
(* BEGIN Matrix_iter_nth_col *)
Lemma gen_Matrix_iter_nth_col {A} c (m : matrix A) n : G_Matrix_iter_nth_col c m n = iter_nth_col c m n.
Proof.
  unfold G_Matrix_iter_nth_col, iter_nth_col. destruct (m_order m);
    [rewrite gen_Matrix_iter_nth_minor_axis_vector|rewrite gen_Matrix_iter_nth_major_axis_vector];
    match goal with |- bind ?x _ = _ => destruct x end; reflexivity.
Qed.
(* END *)
(* BEGIN Matrix_iter_nth_row_mut *)
Lemma gen_Matrix_iter_nth_row_mut {A} c (m : matrix A) n : G_Matrix_iter_nth_row_mut c m n = iter_nth_row c m n.
Proof.
  unfold G_Matrix_iter_nth_row_mut, iter_nth_row. destruct (m_order m);
    [rewrite gen_Matrix_iter_nth_major_axis_vector_mut|rewrite gen_Matrix_iter_nth_minor_axis_vector_mut];
    match goal with |- bind ?x _ = _ => destruct x end; reflexivity.
Qed.
(* END *)
(* BEGIN Matrix_iter_nth_col_mut *)
Lemma gen_Matrix_iter_nth_col_mut {A} c (m : matrix A) n : G_Matrix_iter_nth_col_mut c m n = iter_nth_col c m n.
Proof.
  unfold G_Matrix_iter_nth_col_mut, iter_nth_col. destruct (m_order m);
    [rewrite gen_Matrix_iter_nth_minor_axis_vector_mut|rewrite gen_Matrix_iter_nth_major_axis_vector_mut];
    match goal with |- bind ?x _ = _ => destruct x end; reflexivity.
Qed.
(* END *)

(* ---------- iter/iter_mut.rs: the two pointer-level state machines ---------- *)
(* BEGIN IterNthVectorMut_assemble *)
Lemma gen_IterNthVectorMut_assemble c es al base bytes lower stride length :
  G_IterNthVectorMut_assemble c es al base bytes lower stride length = Nth_assemble c es base bytes lower stride length.
Proof.
  unfold G_IterNthVectorMut_assemble, Nth_assemble, step_fwd, Build_IterNthVectorMut.
  destruct (es =? 0); res_cases.
Qed.
(* END *)
(* BEGIN IterNthVectorMut_next *)
(* the model additionally records which position the reference stands for (ghost); the reference itself is the same *)
Lemma gen_IterNthVectorMut_next c es al base bytes s :
  G_IterNthVectorMut_next c es al base bytes s =
    let* r := Nth_next c es al base bytes s in Val (fst r, option_map fst (snd r)).
Proof.
  unfold G_IterNthVectorMut_next, Nth_next, step_fwd, GNonNull_eqb, f_IterNthVectorMut_stride, f_IterNthVectorMut_lower,
    f_IterNthVectorMut_upper, set_IterNthVectorMut_stride, set_IterNthVectorMut_lower.
  destruct s as [lo up [st|]]; cbn [n_lower n_upper n_stride]; [|reflexivity].
  destruct (es =? 0); cbn [bind]; destruct (lo =? up); res_cases.
Qed.
(* END *)
(* BEGIN IterNthVectorMut_next_back *)
Lemma gen_IterNthVectorMut_next_back c es al base bytes s :
  G_IterNthVectorMut_next_back c es al base bytes s =
    let* r := Nth_next_back c es al base bytes s in Val (fst r, option_map fst (snd r)).
Proof.
  unfold G_IterNthVectorMut_next_back, Nth_next_back, step_back, GNonNull_eqb, f_IterNthVectorMut_stride, f_IterNthVectorMut_lower,
    f_IterNthVectorMut_upper, set_IterNthVectorMut_stride, set_IterNthVectorMut_upper.
  destruct s as [lo up [st|]]; cbn [n_lower n_upper n_stride]; [|reflexivity].
  destruct (es =? 0); cbn [bind]; destruct (lo =? up); res_cases.
Qed.
(* END *)
(* BEGIN IterNthVectorMut_size_hint *)
Lemma gen_IterNthVectorMut_size_hint c es al base bytes s :
  G_IterNthVectorMut_size_hint c es al base bytes s = let* n := Nth_len c es s in Val (n, Some n).
Proof.
  unfold G_IterNthVectorMut_size_hint, Nth_len, f_IterNthVectorMut_stride, f_IterNthVectorMut_lower, f_IterNthVectorMut_upper.
  destruct s as [lo up [st|]]; cbn [n_lower n_upper n_stride]; [|reflexivity].
  destruct (es =? 0); res_cases.
Qed.
(* END *)
(* BEGIN IterVectorsMut_assemble *)
Lemma gen_IterVectorsMut_assemble c es al base bytes buffer axis_str axis_len vec_str vec_len :
  G_IterVectorsMut_assemble c es al base bytes buffer axis_str axis_len vec_str vec_len =
    Vecs_assemble c es base bytes buffer axis_str axis_len vec_str vec_len.
Proof.
  unfold G_IterVectorsMut_assemble, Vecs_assemble, step_fwd, Build_IterVectorsMut, Build_Layout.
  destruct (es =? 0); res_cases.
Qed.
(* END *)
(* BEGIN IterVectorsMut_next *)
Lemma gen_IterVectorsMut_next c es al base bytes s :
  G_IterVectorsMut_next c es al base bytes s = Vecs_next c es base bytes s.
Proof.
  unfold G_IterVectorsMut_next, Vecs_next, step_fwd, GNonNull_eqb, f_IterVectorsMut_layout, f_IterVectorsMut_lower,
    f_IterVectorsMut_upper, set_IterVectorsMut_layout, set_IterVectorsMut_lower, f_Layout_vector_stride, f_Layout_vector_length, f_Layout_axis_stride.
  destruct s as [lo up [l|]]; cbn [v_lower v_upper v_layout]; [|reflexivity].
  rewrite gen_IterNthVectorMut_assemble.
  destruct (Nth_assemble c es base bytes lo (vector_stride l) (vector_length l)); cbn [bind]; try reflexivity.
  destruct (es =? 0); cbn [bind]; destruct (lo =? up); res_cases.
Qed.
(* END *)
(* BEGIN IterVectorsMut_next_back *)
Lemma gen_IterVectorsMut_next_back c es al base bytes s :
  G_IterVectorsMut_next_back c es al base bytes s = Vecs_next_back c es base bytes s.
Proof.
  unfold G_IterVectorsMut_next_back, Vecs_next_back, step_back, GNonNull_eqb, f_IterVectorsMut_layout, f_IterVectorsMut_lower,
    f_IterVectorsMut_upper, set_IterVectorsMut_layout, set_IterVectorsMut_upper, f_Layout_vector_stride, f_Layout_vector_length, f_Layout_axis_stride.
  destruct s as [lo up [l|]]; cbn [v_lower v_upper v_layout]; [|reflexivity].
  rewrite gen_IterNthVectorMut_assemble.
  destruct (Nth_assemble c es base bytes up (vector_stride l) (vector_length l)); cbn [bind]; try reflexivity.
  destruct (es =? 0); cbn [bind]; destruct (lo =? up); res_cases.
Qed.
(* END *)
(* BEGIN IterVectorsMut_size_hint *)
Lemma gen_IterVectorsMut_size_hint c es al base bytes s :
  G_IterVectorsMut_size_hint c es al base bytes s = let* n := Vecs_len c es s in Val (n, Some n).
Proof.
  unfold G_IterVectorsMut_size_hint, Vecs_len, f_IterVectorsMut_layout, f_IterVectorsMut_lower, f_IterVectorsMut_upper, f_Layout_axis_stride.
  destruct s as [lo up [l|]]; cbn [v_lower v_upper v_layout]; [|reflexivity].
  destruct (es =? 0); res_cases.
Qed.
(* END *)

(* ---------- iter/iter_mut.rs + iter.rs: the constructors of the outer machine and the public entry points ---------- *)
(* BEGIN IterVectorsMut_empty *)
Lemma gen_IterVectorsMut_empty c es al base bytes : G_IterVectorsMut_empty c es al base bytes = Val (Vecs_empty al).
Proof. reflexivity. Qed.
(* END *)
(* BEGIN IterVectorsMut_over_major_axis *)
Lemma gen_IterVectorsMut_over_major_axis c es al base bytes (m : GMatrix) :
  G_IterVectorsMut_over_major_axis c es al base bytes m =
    Vecs_over_major_axis c es al base bytes (f_Matrix_data m) (f_Matrix_shape m).
Proof.
  unfold G_IterVectorsMut_over_major_axis, Vecs_over_major_axis.
  unfold G_Matrix_is_empty, G_IterVectorsMut_empty, G_Matrix_major_stride, G_Matrix_minor_stride, G_Matrix_major, G_Matrix_minor,
    G_AxisShape_major_stride, G_AxisShape_minor_stride, G_AxisShape_major, G_AxisShape_minor,
    AxisShape_major_stride, AxisShape_minor_stride, vec_len, f_AxisShape_minor, f_AxisShape_major. cbn [bind].
  destruct (f_Matrix_data m =? 0); [reflexivity|].
  destruct (nn_new_unchecked base); cbn [bind]; try reflexivity.
  repeat (match goal with |- context [bind (nz_new_unchecked ?x) _] => destruct (nz_new_unchecked x); cbn [bind]; try reflexivity end).
  rewrite gen_IterVectorsMut_assemble. destruct (Vecs_assemble _ _ _ _ _ _ _ _ _); reflexivity.
Qed.
(* END *)
(* BEGIN IterVectorsMut_over_minor_axis *)
Lemma gen_IterVectorsMut_over_minor_axis c es al base bytes (m : GMatrix) :
  G_IterVectorsMut_over_minor_axis c es al base bytes m =
    Vecs_over_minor_axis c es al base bytes (f_Matrix_data m) (f_Matrix_shape m).
Proof.
  unfold G_IterVectorsMut_over_minor_axis, Vecs_over_minor_axis.
  unfold G_Matrix_is_empty, G_IterVectorsMut_empty, G_Matrix_major_stride, G_Matrix_minor_stride, G_Matrix_major, G_Matrix_minor,
    G_AxisShape_major_stride, G_AxisShape_minor_stride, G_AxisShape_major, G_AxisShape_minor,
    AxisShape_major_stride, AxisShape_minor_stride, vec_len, f_AxisShape_minor, f_AxisShape_major. cbn [bind].
  destruct (f_Matrix_data m =? 0); [reflexivity|].
  destruct (nn_new_unchecked base); cbn [bind]; try reflexivity.
  repeat (match goal with |- context [bind (nz_new_unchecked ?x) _] => destruct (nz_new_unchecked x); cbn [bind]; try reflexivity end).
  rewrite gen_IterVectorsMut_assemble. destruct (Vecs_assemble _ _ _ _ _ _ _ _ _); reflexivity.
Qed.
(* END *)
(* BEGIN Matrix_iter_rows_mut *)
Lemma gen_Matrix_iter_rows_mut c es al base bytes (m : GMatrix) :
  G_Matrix_iter_rows_mut c es al base bytes m =
    Matrix_iter_rows_mut c es al base bytes (f_Matrix_order m) (f_Matrix_data m) (f_Matrix_shape m).
Proof.
  unfold G_Matrix_iter_rows_mut, Matrix_iter_rows_mut. destruct (f_Matrix_order m);
    [rewrite gen_IterVectorsMut_over_major_axis|rewrite gen_IterVectorsMut_over_minor_axis];
    match goal with |- bind (bind ?x _) _ = _ => destruct x end; reflexivity.
Qed.
(* END *)
(* BEGIN Matrix_iter_cols_mut *)
Lemma gen_Matrix_iter_cols_mut c es al base bytes (m : GMatrix) :
  G_Matrix_iter_cols_mut c es al base bytes m =
    Matrix_iter_cols_mut c es al base bytes (f_Matrix_order m) (f_Matrix_data m) (f_Matrix_shape m).
Proof.
  unfold G_Matrix_iter_cols_mut, Matrix_iter_cols_mut. destruct (f_Matrix_order m);
    [rewrite gen_IterVectorsMut_over_minor_axis|rewrite gen_IterVectorsMut_over_major_axis];
    match goal with |- bind (bind ?x _) _ = _ => destruct x end; reflexivity.
Qed.
(* END *)

(* ---------- construct.rs: the constructors ---------- *)
(* BEGIN Matrix_new *)
Lemma gen_Matrix_new {A} c : @G_Matrix_new A c = Val new_matrix.
Proof. reflexivity. Qed.
(* END *)
(* BEGIN Matrix_with_capacity *)
Lemma gen_Matrix_with_capacity {A} c n : @G_Matrix_with_capacity A c n = Val new_matrix.
Proof. reflexivity. Qed.
(* END *)
(* BEGIN Matrix_with_value *)
Lemma gen_Matrix_with_value {A} c es sh (v : A) : 0 <= imax c -> G_Matrix_with_value c es sh v = with_value c es (sh_nrows sh) (sh_ncols sh) v.
Proof.
  intros Hc. unfold G_Matrix_with_value, with_value, decide_ctor, decide_shape. rewrite gen_Shape_try_to_axis_shape. cbn [bind].
  destruct sh as [r cl]. cbn [sh_nrows sh_ncols].
  destruct (Shape_try_to_axis_shape c (mkShape r cl) RowMajor) as [s|e]; [|reflexivity].
  rewrite gen_AxisShape_size. destruct (AxisShape_size c s) as [n|w|w]; cbn [bind]; try reflexivity.
  rewrite gen_Matrix_check_size by exact Hc. cbn [bind]. destruct (check_size c es n); reflexivity.
Qed.
(* END *)
(* BEGIN Matrix_with_default *)
Lemma gen_Matrix_with_default {A} c es (d : A) sh : 0 <= imax c -> G_Matrix_with_default c es d sh = with_default c es d (sh_nrows sh) (sh_ncols sh).
Proof.
  intros Hc. unfold G_Matrix_with_default, with_default, with_value, decide_ctor, decide_shape. rewrite gen_Shape_try_to_axis_shape. cbn [bind].
  destruct sh as [r cl]. cbn [sh_nrows sh_ncols].
  destruct (Shape_try_to_axis_shape c (mkShape r cl) RowMajor) as [s|e]; [|reflexivity].
  rewrite gen_AxisShape_size. destruct (AxisShape_size c s) as [n|w|w]; cbn [bind]; try reflexivity.
  rewrite gen_Matrix_check_size by exact Hc. cbn [bind]. destruct (check_size c es n) as [sz|e] eqn:E; [|reflexivity].
  unfold vec_resize_with, vec_with_capacity. cbn [zlen length Z.of_nat app].
  destruct (sz <=? 0) eqn:L.
  - (* sz <= 0: both lists are empty *)
    unfold zfirstn, zrepeat. cbn [bind]. replace (Z.to_nat sz) with 0%nat by lia. reflexivity.
  - rewrite Z.sub_0_r. reflexivity.
Qed.
(* END *)
(* BEGIN Matrix_with_initializer *)
(* pushing f(index k) for k = 0 .. n-1 onto the vector is the left-to-right map *)
Lemma for_push_map {A} c (f : Index -> A) o s : forall (l : list Z) (acc : list A),
  for_res l acc (fun index data =>
    let* r := G_Index_from_flattened c index o s in Val (vec_push data (f r)))
  = let* ys := map_res (fun i => let* ix := Index_from_flattened i o s in Val (f ix)) l in Val (acc ++ ys).
Proof.
  induction l as [|i l IH]; intros acc; cbn [for_res map_res bind].
  - rewrite app_nil_r. reflexivity.
  - rewrite gen_Index_from_flattened. destruct (Index_from_flattened i o s) as [ix|w|w]; cbn [bind]; try reflexivity.
    rewrite IH. destruct (map_res _ l) as [ys|w|w]; cbn [bind]; try reflexivity.
    unfold vec_push. rewrite <- app_assoc. reflexivity.
Qed.

Lemma gen_Matrix_with_initializer {A} c es sh (f : Index -> A) : 0 <= imax c ->
  G_Matrix_with_initializer c es sh f = with_initializer c es f (sh_nrows sh) (sh_ncols sh).
Proof.
  intros Hc. unfold G_Matrix_with_initializer, with_initializer, decide_ctor, decide_shape. rewrite gen_Shape_try_to_axis_shape. cbn [bind].
  destruct sh as [r cl]. cbn [sh_nrows sh_ncols].
  destruct (Shape_try_to_axis_shape c (mkShape r cl) RowMajor) as [s|e]; [|reflexivity].
  rewrite gen_AxisShape_size. destruct (AxisShape_size c s) as [n|w|w]; cbn [bind]; try reflexivity.
  rewrite gen_Matrix_check_size by exact Hc. cbn [bind]. destruct (check_size c es n) as [sz|e]; [|reflexivity].
  cbv zeta. rewrite (for_push_map c f RowMajor s (zseq sz) (vec_with_capacity sz)).
  cbn [bind]. destruct (map_res _ (zseq sz)); reflexivity.
Qed.
(* END *)

(* ---------- eq.rs: PartialEq ---------- *)
(* BEGIN Matrix_eq *)
Lemma gen_eq_all {A} c (eqT : A -> A -> bool) s1 s2 (d2 : list A) : forall (l : list (Z * A)),
  all_res l (fun ix_el => let '(index, left_) := ix_el in
      let* r1 := G_AxisIndex_from_flattened c index s1 in
      let* r2 := G_AxisIndex_swap c r1 in
      let* r3 := G_AxisIndex_to_flattened c r2 s2 in
      let* g := get_unchecked d2 r3 in
      Val (eqT left_ g))
  = (fix all (l : list (Z * A)) : res bool :=
       match l with
       | [] => Val true
       | (index, lft) :: t =>
         let* j := remap c index s1 s2 in
         let* rgt := get_unchecked d2 j in
         if eqT lft rgt then all t else Val false
       end) l.
Proof.
  induction l as [|[index lft] t IH]; cbn [all_res]; [reflexivity|].
  rewrite gen_AxisIndex_from_flattened. unfold remap at 1.
  destruct (AxisIndex_from_flattened index s1) as [i|w|w]; cbn [bind]; try reflexivity.
  rewrite gen_AxisIndex_swap. cbn [bind]. rewrite gen_AxisIndex_to_flattened.
  destruct (AxisIndex_to_flattened c (AxisIndex_swap i) s2) as [j|w|w]; cbn [bind]; try reflexivity.
  destruct (get_unchecked d2 j) as [g|w|w]; cbn [bind]; try reflexivity.
  destruct (eqT lft g); [exact IH|reflexivity].
Qed.

Lemma gen_Matrix_eq {A} c (eqT : A -> A -> bool) (a b : matrix A) : G_Matrix_eq c eqT a b = matrix_eqb c eqT a b.
Proof.
  unfold G_Matrix_eq, matrix_eqb, GOrder_eqb, GAxisShape_eqb, vec_eqb, mmajor, mminor.
  destruct (order_eqb (m_order a) (m_order b)); cbn [bind].
  - destruct (AxisShape_eqb (m_shape a) (m_shape b)); reflexivity.
  - cbn [G_Matrix_major G_Matrix_minor G_AxisShape_major G_AxisShape_minor bind mview f_Matrix_shape]. unfold f_AxisShape_major, f_AxisShape_minor.
    destruct (major (m_shape a) =? minor (m_shape b)); cbn [bind andb]; [|reflexivity].
    destruct (minor (m_shape a) =? major (m_shape b)); cbn [bind]; [|reflexivity].
    cbv zeta. rewrite (gen_eq_all c eqT (m_shape a) (m_shape b) (m_data b)). unfold zenumerate, size.
    match goal with |- _ = ?rhs => destruct rhs end; reflexivity.
Qed.
(* END *)

(* ---------- arithmetic.rs: the elementwise and scalar drivers ---------- *)
(* BEGIN Matrix_elementwise_operation *)
Lemma map_res_pure {X Y} (f : X -> Y) (l : list X) : map_res (fun x => Val (f x)) l = Val (map f l).
Proof. induction l as [|x l IH]; cbn [map_res map bind]; [reflexivity|]. rewrite IH. reflexivity. Qed.
Lemma map_res_ext {X Y} (f g : X -> res Y) (l : list X) : (forall x, f x = g x) -> map_res f l = map_res g l.
Proof. intros E. induction l as [|x l IH]; cbn [map_res]; [reflexivity|]. rewrite E, IH. reflexivity. Qed.

(* the data of the three elementwise drivers, as translated, is the model's zip_data *)
Lemma gen_zip_data {L R U} c (op : L -> R -> U) (a : matrix L) (b : matrix R) :
  (if GOrder_eqb (m_order a) (m_order b)
   then let* d := map_res (fun it => let '(l, r) := it in Val (op l r)) (combine (m_data a) (m_data b)) in Val d
   else let* d := map_res (fun it => let '(index, l) := it in
                     let* r1 := G_AxisIndex_from_flattened c index (m_shape a) in
                     let* r2 := G_AxisIndex_swap c r1 in
                     let* r3 := G_AxisIndex_to_flattened c r2 (m_shape b) in
                     let* g := get_unchecked (m_data b) r3 in
                     Val (op l g)) (zenumerate (m_data a)) in Val d)
  = zip_data c op a b.
Proof.
  unfold zip_data, GOrder_eqb. destruct (order_eqb (m_order a) (m_order b)).
  - rewrite (map_res_ext _ (fun p => Val (op (fst p) (snd p)))) by (intros [l r]; reflexivity). rewrite map_res_pure. reflexivity.
  - unfold zenumerate, size.
    rewrite (map_res_ext _ (fun il => let* rgt := rhs_at c a b (fst il) in Val (op (snd il) rgt))).
    2:{ intros [index l]. cbn [fst snd]. unfold rhs_at, remap. rewrite gen_AxisIndex_from_flattened.
      destruct (AxisIndex_from_flattened index (m_shape a)) as [i|w|w]; cbn [bind]; try reflexivity.
      all: try (rewrite gen_AxisIndex_swap; cbn [bind]; rewrite gen_AxisIndex_to_flattened;
                destruct (AxisIndex_to_flattened c (AxisIndex_swap i) (m_shape b)) as [j|w|w]; cbn [bind]; try reflexivity;
                destruct (get_unchecked (m_data b) j); reflexivity). }
    destruct (map_res _ _); reflexivity.
Qed.

Lemma gen_Matrix_elementwise_operation {L R U} c esU (a : matrix L) (b : matrix R) (op : L -> R -> U) : 0 <= imax c ->
  G_Matrix_elementwise_operation c esU a b op = elementwise_operation c esU op a b.
Proof.
  intros Hc. unfold G_Matrix_elementwise_operation, elementwise_operation, is_ew_conformable.
  rewrite gen_Matrix_ensure_elementwise_operation_conformable. cbn [bind mview f_Matrix_order f_Matrix_shape].
  destruct (is_elementwise_conformable (m_order a) (m_shape a) (m_order b) (m_shape b)); cbn [negb]; [|reflexivity].
  cbn [G_Matrix_size bind]. rewrite gen_Matrix_check_size by exact Hc. cbn [bind]. unfold size, vec_len, mview. cbn [f_Matrix_data].
  destruct (check_size c esU (zlen (m_data a))); [|reflexivity].
  cbv zeta. rewrite (gen_zip_data c op a b). destruct (zip_data c op a b); reflexivity.
Qed.
(* END *)
(* BEGIN Matrix_elementwise_operation_consume_self *)
Lemma gen_Matrix_elementwise_operation_consume_self {L R U} c esU (a : matrix L) (b : matrix R) (op : L -> R -> U) : 0 <= imax c ->
  G_Matrix_elementwise_operation_consume_self c esU a b op = elementwise_operation c esU op a b.
Proof.
  intros Hc. unfold G_Matrix_elementwise_operation_consume_self, elementwise_operation, is_ew_conformable.
  rewrite gen_Matrix_ensure_elementwise_operation_conformable. cbn [bind mview f_Matrix_order f_Matrix_shape].
  destruct (is_elementwise_conformable (m_order a) (m_shape a) (m_order b) (m_shape b)); cbn [negb]; [|reflexivity].
  cbn [G_Matrix_size bind]. rewrite gen_Matrix_check_size by exact Hc. cbn [bind]. unfold size, vec_len, mview. cbn [f_Matrix_data].
  destruct (check_size c esU (zlen (m_data a))); [|reflexivity].
  cbv zeta. rewrite (gen_zip_data c op a b). destruct (zip_data c op a b); reflexivity.
Qed.
(* END *)
(* BEGIN Matrix_elementwise_operation_assign *)
(* the assigning form writes through iter_mut().zip(..): the elements the zip reaches are replaced, the rest of the vector
   stays; operands with equally many elements (coherent conformable operands, C01 / C12) are covered entirely *)
Lemma gen_Matrix_elementwise_operation_assign {L R} c (a : matrix L) (b : matrix R) (op : L -> R -> L) :
  zlen (m_data a) = zlen (m_data b) ->
  G_Matrix_elementwise_operation_assign c a b op =
    let* r := elementwise_operation_assign c op a b in Val (match r with Ok m' => (m', Ok tt) | Err e => (a, Err e) end).
Proof.
  intros Hlen. unfold G_Matrix_elementwise_operation_assign, elementwise_operation_assign, is_ew_conformable.
  rewrite gen_Matrix_ensure_elementwise_operation_conformable. cbn [bind mview f_Matrix_order f_Matrix_shape].
  destruct (is_elementwise_conformable (m_order a) (m_shape a) (m_order b) (m_shape b)); cbn [negb bind]; [|reflexivity].
  unfold zip_data, GOrder_eqb. destruct (order_eqb (m_order a) (m_order b)).
  - rewrite (map_res_ext _ (fun p => Val (op (fst p) (snd p)))) by (intros [l r]; reflexivity). rewrite map_res_pure. cbn [bind].
    assert (zlen (map (fun p => op (fst p) (snd p)) (combine (m_data a) (m_data b))) = zlen (m_data a)) as E.
    { unfold zlen in *. rewrite map_length, combine_length. lia. }
    rewrite E. unfold zskipn, zlen. rewrite Nat2Z.id, skipn_all, app_nil_r. reflexivity.
  - unfold zenumerate, size.
    rewrite (map_res_ext _ (fun il => let* rgt := rhs_at c a b (fst il) in Val (op (snd il) rgt))).
    2:{ intros [index l]. cbn [fst snd]. unfold rhs_at, remap. rewrite gen_AxisIndex_from_flattened.
      destruct (AxisIndex_from_flattened index (m_shape a)) as [i|w|w]; cbn [bind]; try reflexivity.
      all: try (rewrite gen_AxisIndex_swap; cbn [bind]; rewrite gen_AxisIndex_to_flattened;
                destruct (AxisIndex_to_flattened c (AxisIndex_swap i) (m_shape b)) as [j|w|w]; cbn [bind]; try reflexivity;
                destruct (get_unchecked (m_data b) j); reflexivity). }
    destruct (map_res _ _); reflexivity.
Qed.
(* END *)
(* BEGIN Matrix_scalar_operation *)
Lemma map_res_pure_s {X Y} (f : X -> Y) (l : list X) : map_res (fun x => Val (f x)) l = Val (map f l).
Proof. induction l as [|x l IH]; cbn [map_res map bind]; [reflexivity|]. rewrite IH. reflexivity. Qed.
Lemma gen_Matrix_scalar_operation {L S U} c esU (a : matrix L) (s : S) (op : L -> S -> U) : 0 <= imax c ->
  G_Matrix_scalar_operation c esU a s op = Val (scalar_operation c esU op a s).
Proof.
  intros Hc. unfold G_Matrix_scalar_operation, scalar_operation, map_matrix, retype.
  cbn [G_Matrix_size bind]. rewrite gen_Matrix_check_size by exact Hc. cbn [bind]. unfold size, vec_len, mview. cbn [f_Matrix_data].
  destruct (check_size c esU (zlen (m_data a))); [|reflexivity]. rewrite map_res_pure_s. reflexivity.
Qed.
(* END *)
(* BEGIN Matrix_scalar_operation_consume_self *)
Lemma map_res_pure_c {X Y} (f : X -> Y) (l : list X) : map_res (fun x => Val (f x)) l = Val (map f l).
Proof. induction l as [|x l IH]; cbn [map_res map bind]; [reflexivity|]. rewrite IH. reflexivity. Qed.
Lemma gen_Matrix_scalar_operation_consume_self {L S U} c esU (a : matrix L) (s : S) (op : L -> S -> U) : 0 <= imax c ->
  G_Matrix_scalar_operation_consume_self c esU a s op = Val (scalar_operation c esU op a s).
Proof.
  intros Hc. unfold G_Matrix_scalar_operation_consume_self, scalar_operation, map_matrix, retype.
  cbn [G_Matrix_size bind]. rewrite gen_Matrix_check_size by exact Hc. cbn [bind]. unfold size, vec_len, mview. cbn [f_Matrix_data].
  destruct (check_size c esU (zlen (m_data a))); [|reflexivity]. rewrite map_res_pure_c. reflexivity.
Qed.
(* END *)
(* BEGIN Matrix_scalar_operation_assign *)
Lemma map_res_pure_a {X Y} (f : X -> Y) (l : list X) : map_res (fun x => Val (f x)) l = Val (map f l).
Proof. induction l as [|x l IH]; cbn [map_res map bind]; [reflexivity|]. rewrite IH. reflexivity. Qed.
Lemma gen_Matrix_scalar_operation_assign {L S} c (a : matrix L) (s : S) (op : L -> S -> L) :
  G_Matrix_scalar_operation_assign c a s op = Val (scalar_operation_assign op a s).
Proof. unfold G_Matrix_scalar_operation_assign, scalar_operation_assign. rewrite map_res_pure_a. reflexivity. Qed.
(* END *)

(* ---------- lib.rs: apply / map / map_ref / clear / contains / overwrite / resize ---------- *)
(* BEGIN Matrix_apply *)
Lemma map_res_pure_ap {X Y} (f : X -> Y) (l : list X) : map_res (fun x => Val (f x)) l = Val (map f l).
Proof. induction l as [|x l IH]; cbn [map_res map bind]; [reflexivity|]. rewrite IH. reflexivity. Qed.
Lemma gen_Matrix_apply {L} c (m : matrix L) f : G_Matrix_apply c m f = Val (apply f m).
Proof. unfold G_Matrix_apply, apply. rewrite map_res_pure_ap. reflexivity. Qed.
(* END *)
(* BEGIN Matrix_map *)
Lemma map_res_pure_m {X Y} (f : X -> Y) (l : list X) : map_res (fun x => Val (f x)) l = Val (map f l).
Proof. induction l as [|x l IH]; cbn [map_res map bind]; [reflexivity|]. rewrite IH. reflexivity. Qed.
Lemma gen_Matrix_map {L U} c esU (m : matrix L) (f : L -> U) : 0 <= imax c -> G_Matrix_map c esU m f = Val (map_matrix c esU f m).
Proof.
  intros Hc. unfold G_Matrix_map, map_matrix, retype. cbn [G_Matrix_size bind]. rewrite gen_Matrix_check_size by exact Hc. cbn [bind].
  unfold size, vec_len, mview. cbn [f_Matrix_data]. destruct (check_size c esU (zlen (m_data m))); [|reflexivity]. rewrite map_res_pure_m. reflexivity.
Qed.
(* END *)
(* BEGIN Matrix_map_ref *)
Lemma map_res_pure_mr {X Y} (f : X -> Y) (l : list X) : map_res (fun x => Val (f x)) l = Val (map f l).
Proof. induction l as [|x l IH]; cbn [map_res map bind]; [reflexivity|]. rewrite IH. reflexivity. Qed.
Lemma gen_Matrix_map_ref {L U} c esU (m : matrix L) (f : L -> U) : 0 <= imax c -> G_Matrix_map_ref c esU m f = Val (map_matrix c esU f m).
Proof.
  intros Hc. unfold G_Matrix_map_ref, map_matrix, retype. cbn [G_Matrix_size bind]. rewrite gen_Matrix_check_size by exact Hc. cbn [bind].
  unfold size, vec_len, mview. cbn [f_Matrix_data]. destruct (check_size c esU (zlen (m_data m))); [|reflexivity]. rewrite map_res_pure_mr. reflexivity.
Qed.
(* END *)
(* BEGIN Matrix_clear *)
Lemma gen_Matrix_clear {L} c (m : matrix L) : G_Matrix_clear c m = Val (clear m).
Proof. reflexivity. Qed.
(* END *)
(* BEGIN Matrix_contains *)
Lemma gen_Matrix_contains {L} c eqT (m : matrix L) v : G_Matrix_contains c eqT m v = Val (contains eqT m v).
Proof. reflexivity. Qed.
(* END *)
(* BEGIN Matrix_overwrite *)
Ltac rc :=
  repeat (cbn [bind];
          match goal with
          | |- context [bind ?x _] =>
            lazymatch x with
            | Val _ => fail
            | bind _ _ => fail
            | (if _ then _ else _) => fail
            | (match _ with _ => _ end) => fail
            | _ => destruct x
            end
          | |- context [bind (if ?b then _ else _) _] => destruct b
          end);
  cbn [bind]; try reflexivity.
Lemma for_res_ext3 {S} (l : list Z) (s : S) f g : (forall i s, f i s = g i s) -> for_res l s f = for_res l s g.
Proof. intros E. revert s. induction l as [|i l IH]; intros s; cbn [for_res]; [reflexivity|]. rewrite E. destruct (g i s); cbn [bind]; auto. Qed.

Lemma gen_Matrix_overwrite {A} c (clone : A -> A) (d s : matrix A) : G_Matrix_overwrite c clone d s = overwrite c clone d s.
Proof.
  unfold G_Matrix_overwrite, overwrite, GOrder_eqb, mmajor, mminor.
  cbn [G_Matrix_major G_Matrix_minor G_Matrix_major_stride G_Matrix_minor_stride G_AxisShape_major G_AxisShape_minor
       G_AxisShape_major_stride G_AxisShape_minor_stride bind mview f_Matrix_shape].
  unfold f_AxisShape_major, f_AxisShape_minor. cbv zeta.
  destruct (order_eqb (m_order d) (m_order s)).
  - erewrite for_res_ext3.
    2:{ intros i data. 
        instantiate (1 := fun i data =>
      let* self_lower := umul c i (AxisShape_major_stride (m_shape d)) in
      let* t := umul c (Z.min (minor (m_shape d)) (minor (m_shape s))) (AxisShape_minor_stride (m_shape d)) in
      let* self_upper := uadd c self_lower t in
      let* source_lower := umul c i (AxisShape_major_stride (m_shape s)) in
      let* source_upper := uadd c source_lower t in
      let* dst := slice_unchecked data self_lower self_upper in
      let* src := slice_unchecked (m_data s) source_lower source_upper in
      if negb (zlen dst =? zlen src) then Panic PanicStd
      else Val (splice data self_lower (map clone src))).
        cbv beta. unfold AxisShape_major_stride, AxisShape_minor_stride. rc. all: try (destruct (negb (_ =? _)); reflexivity). }
    cbn [bind]. match goal with |- context [for_res ?l ?s0 ?f] => destruct (for_res l s0 f) end; reflexivity.
  - erewrite for_res_ext3.
    2:{ intros i data.
        instantiate (1 := fun i data =>
      let* self_lower := umul c i (AxisShape_major_stride (m_shape d)) in
      let* t := umul c (Z.min (minor (m_shape d)) (major (m_shape s))) (AxisShape_minor_stride (m_shape d)) in
      let* self_upper := uadd c self_lower t in
      let* dst := slice_unchecked data self_lower self_upper in
      let* src := zview i (AxisShape_major_stride (m_shape s)) (zlen (m_data s)) (m_data s) in
      let k := Z.min (zlen dst) (zlen src) in
      Val (splice data self_lower (map clone (zfirstn k src)))).
        cbv beta zeta. unfold AxisShape_major_stride, AxisShape_minor_stride. rc. }
    cbn [bind]. match goal with |- context [for_res ?l ?s0 ?f] => destruct (for_res l s0 f) end; reflexivity.
Qed.
(* END *)
(* BEGIN Matrix_resize *)
(* the normal (non-unwinding) execution of resize; what the unwind guard does when T::default panics is the fault model's
   business (Proofs/Faults.v, C02) *)
Lemma gen_Matrix_resize {A} c es (d : A) (m : matrix A) sh : 0 <= imax c ->
  G_Matrix_resize c es d m sh =
    let* r := resize c es d m (sh_nrows sh) (sh_ncols sh) in Val (match r with Ok m' => (m', Ok tt) | Err e => (m, Err e) end).
Proof.
  intros Hc. unfold G_Matrix_resize, resize, decide_shape. rewrite gen_Shape_try_to_axis_shape. cbn [bind].
  destruct sh as [r cl]. cbn [sh_nrows sh_ncols].
  destruct (Shape_try_to_axis_shape c (mkShape r cl) (m_order m)) as [s|e]; [|reflexivity].
  rewrite gen_AxisShape_size. destruct (AxisShape_size c s) as [n|w|w]; cbn [bind]; try reflexivity.
  rewrite gen_Matrix_check_size by exact Hc. cbn [bind]. destruct (check_size c es n) as [sz|e]; [|reflexivity].
  cbn [G_Matrix_size bind]. unfold vec_len, mview, size. cbn [f_Matrix_data].
  destruct (sz <=? zlen (m_data m)) eqn:L; cbn [bind].
  - reflexivity.
  - unfold vec_resize_with, set_data, set_m_shape. cbn [m_data m_order m_shape]. rewrite L. reflexivity.
Qed.
(* END *)

(* ---------- convert.rs: the three TryFrom conversions from rows and FromIterator ---------- *)
(* BEGIN Matrix_try_from_array *)
(* the row loop with its early `return Err(LengthInconsistent)` is the model's recursion over the rows *)
Lemma gen_try_from_loop_a {A} (nc : Z) (sh : AxisShape) : forall (rows : list (list A)) (data : list A),
  (let* lr := for_try rows data (fun row st => let data := st in
       if negb (zlen row =? nc) then Val (Err LengthInconsistent) else Val (Ok (vec_extend data row))) in
   match lr with Ok data => Val (Ok (mkMatrix RowMajor sh data)) | Err e => Val (Err e) end)
  = (fix go (rs : list (list A)) (data : list A) : res (result (matrix A)) :=
       match rs with
       | [] => Val (Ok (mkMatrix RowMajor sh data))
       | r :: t => if negb (zlen r =? nc) then Val (Err LengthInconsistent) else go t (data ++ r)
       end) rows data.
Proof.
  induction rows as [|r t IH]; intros data; cbn [for_try bind]; [reflexivity|].
  destruct (negb (zlen r =? nc)); cbn [bind]; [reflexivity|]. apply IH.
Qed.
Lemma gen_Matrix_try_from_array {A} c es (rows : list (list A)) : 0 <= imax c -> G_Matrix_try_from_array c es rows = try_from_rows c es rows.
Proof.
  intros Hc. unfold G_Matrix_try_from_array, try_from_rows, decide_ctor, decide_shape.
  cbv zeta. cbn [G_Shape_new bind]. rewrite gen_Shape_try_to_axis_shape. cbn [bind].
  change (rows_first_len rows) with (match rows with [] => 0 | r :: _ => zlen r end).
  destruct (Shape_try_to_axis_shape c _ RowMajor) as [s|e]; [|reflexivity].
  rewrite gen_AxisShape_size. destruct (AxisShape_size c s) as [n|w|w]; cbn [bind]; try reflexivity.
  rewrite gen_Matrix_check_size by exact Hc. cbn [bind]. destruct (check_size c es n) as [sz|e]; [|reflexivity].
  cbn [bind]. apply (gen_try_from_loop_a _ s rows (vec_with_capacity sz)).
Qed.
(* END *)
(* BEGIN Matrix_try_from_vec *)
(* the row loop with its early `return Err(LengthInconsistent)` is the model's recursion over the rows *)
Lemma gen_try_from_loop_v {A} (nc : Z) (sh : AxisShape) : forall (rows : list (list A)) (data : list A),
  (let* lr := for_try rows data (fun row st => let data := st in
       if negb (zlen row =? nc) then Val (Err LengthInconsistent) else Val (Ok (vec_extend data row))) in
   match lr with Ok data => Val (Ok (mkMatrix RowMajor sh data)) | Err e => Val (Err e) end)
  = (fix go (rs : list (list A)) (data : list A) : res (result (matrix A)) :=
       match rs with
       | [] => Val (Ok (mkMatrix RowMajor sh data))
       | r :: t => if negb (zlen r =? nc) then Val (Err LengthInconsistent) else go t (data ++ r)
       end) rows data.
Proof.
  induction rows as [|r t IH]; intros data; cbn [for_try bind]; [reflexivity|].
  destruct (negb (zlen r =? nc)); cbn [bind]; [reflexivity|]. apply IH.
Qed.
Lemma gen_Matrix_try_from_vec {A} c es (rows : list (list A)) : 0 <= imax c -> G_Matrix_try_from_vec c es rows = try_from_rows c es rows.
Proof.
  intros Hc. unfold G_Matrix_try_from_vec, try_from_rows, decide_ctor, decide_shape.
  cbv zeta. cbn [G_Shape_new bind]. rewrite gen_Shape_try_to_axis_shape. cbn [bind].
  change (rows_first_len rows) with (match rows with [] => 0 | r :: _ => zlen r end).
  destruct (Shape_try_to_axis_shape c _ RowMajor) as [s|e]; [|reflexivity].
  rewrite gen_AxisShape_size. destruct (AxisShape_size c s) as [n|w|w]; cbn [bind]; try reflexivity.
  rewrite gen_Matrix_check_size by exact Hc. cbn [bind]. destruct (check_size c es n) as [sz|e]; [|reflexivity].
  cbn [bind]. apply (gen_try_from_loop_v _ s rows (vec_with_capacity sz)).
Qed.
(* END *)
(* BEGIN Matrix_try_from_slice *)
(* the row loop with its early `return Err(LengthInconsistent)` is the model's recursion over the rows *)
Lemma gen_try_from_loop_s {A} (nc : Z) (sh : AxisShape) : forall (rows : list (list A)) (data : list A),
  (let* lr := for_try rows data (fun row st => let data := st in
       if negb (zlen row =? nc) then Val (Err LengthInconsistent) else Val (Ok (vec_extend data row))) in
   match lr with Ok data => Val (Ok (mkMatrix RowMajor sh data)) | Err e => Val (Err e) end)
  = (fix go (rs : list (list A)) (data : list A) : res (result (matrix A)) :=
       match rs with
       | [] => Val (Ok (mkMatrix RowMajor sh data))
       | r :: t => if negb (zlen r =? nc) then Val (Err LengthInconsistent) else go t (data ++ r)
       end) rows data.
Proof.
  induction rows as [|r t IH]; intros data; cbn [for_try bind]; [reflexivity|].
  destruct (negb (zlen r =? nc)); cbn [bind]; [reflexivity|]. apply IH.
Qed.
Lemma gen_Matrix_try_from_slice {A} c es (rows : list (list A)) : 0 <= imax c -> G_Matrix_try_from_slice c es rows = try_from_rows c es rows.
Proof.
  intros Hc. unfold G_Matrix_try_from_slice, try_from_rows, decide_ctor, decide_shape.
  cbv zeta. cbn [G_Shape_new bind]. rewrite gen_Shape_try_to_axis_shape. cbn [bind].
  change (rows_first_len rows) with (match rows with [] => 0 | r :: _ => zlen r end).
  destruct (Shape_try_to_axis_shape c _ RowMajor) as [s|e]; [|reflexivity].
  rewrite gen_AxisShape_size. destruct (AxisShape_size c s) as [n|w|w]; cbn [bind]; try reflexivity.
  rewrite gen_Matrix_check_size by exact Hc. cbn [bind]. destruct (check_size c es n) as [sz|e]; [|reflexivity].
  cbn [bind]. apply (gen_try_from_loop_s _ s rows (vec_with_capacity sz)).
Qed.
(* END *)
(* BEGIN Matrix_from_iter *)
Lemma gen_from_iter_loop {A} c (nc : Z) : forall (rows : list (list A)) (nr sz : Z) (data : list A),
  (let* st := for_rows rows (nr, sz, data) (fun row st => let '(nrows, size, data) := st in
       let data := vec_extend data row in
       let* t1 := usub c (zlen data) size in
       if negb (t1 =? nc) then Panic (PanicErr LengthInconsistent)
       else let* t2 := uadd c nrows 1 in Val (t2, zlen data, data)) in
   let '(nrows, size, data) := st in
   Val (mkMatrix RowMajor (Shape_to_axis_shape_unchecked (mkShape nrows nc) RowMajor) data))
  = (fix go (rs : list (list A)) (data : list A) (nr sz : Z) : res (matrix A) :=
       match rs with
       | [] => Val (mkMatrix RowMajor (Shape_to_axis_shape_unchecked (mkShape nr nc) RowMajor) data)
       | r :: t =>
         let data' := data ++ r in
         let* dlt := usub c (zlen data') sz in
         if negb (dlt =? nc) then Panic (PanicErr LengthInconsistent)
         else let* nr' := uadd c nr 1 in go t data' nr' (zlen data')
       end) rows data nr sz.
Proof.
  induction rows as [|r t IH]; intros nr sz data; cbn [for_rows bind]; [reflexivity|].
  unfold vec_extend. cbv zeta.
  destruct (usub c (zlen (data ++ r)) sz) as [d|w|w]; cbn [bind]; try reflexivity.
  destruct (negb (d =? nc)); cbn [bind]; [reflexivity|].
  destruct (uadd c nr 1) as [n'|w|w]; cbn [bind]; try reflexivity.
  apply IH.
Qed.

Lemma gen_Matrix_from_iter {A} c (rows : list (list A)) : G_Matrix_from_iter c rows = from_iter c rows.
Proof.
  unfold G_Matrix_from_iter, from_iter. destruct rows as [|row rest]; [reflexivity|].
  etransitivity; [|apply (gen_from_iter_loop c (zlen row) rest 1 (zlen row) row)].
  cbv zeta. cbn [G_Shape_new G_Shape_to_axis_shape_unchecked bind].
  match goal with |- bind ?x _ = bind ?y _ => change x with y; destruct y as [[[nr sz] d]|w|w] end; cbn [bind]; reflexivity.
Qed.
(* END *)

(* ---------- arithmetic.rs: one major-axis vector as a slice, and the closure-taking product ---------- *)
(* BEGIN Matrix_get_nth_major_axis_vector *)
Lemma gen_Matrix_get_nth_major_axis_vector {A} c (m : matrix A) n : G_Matrix_get_nth_major_axis_vector c m n = get_nth_major_axis_vector c m n.
Proof.
  unfold G_Matrix_get_nth_major_axis_vector, get_nth_major_axis_vector.
  cbn [G_Matrix_major_stride G_AxisShape_major_stride bind mview f_Matrix_shape].
  destruct (umul c n _) as [lo|w|w]; cbn [bind]; try reflexivity.
  destruct (uadd c lo _) as [hi|w|w]; cbn [bind]; try reflexivity.
  destruct (slice_unchecked (m_data m) lo hi); reflexivity.
Qed.
(* END *)
(* BEGIN Matrix_multiplication_like_operation *)
(* the nested loops pushing one element per (row, column) are the model's concat of per-row (per-column) maps; the operands
   are re-ordered by the translated set_order, run with the fuel the model uses *)
Lemma for_push_inner {X} (f : Z -> res X) : forall (l : list Z) (d : list X),
  for_res l d (fun col d => let* e := f col in Val (d ++ [e])) = let* ys := map_res f l in Val (d ++ ys).
Proof.
  induction l as [|i l IH]; intros d; cbn [for_res map_res bind]; [rewrite app_nil_r; reflexivity|].
  destruct (f i) as [e|w|w]; cbn [bind]; try reflexivity. rewrite IH.
  destruct (map_res f l) as [ys|w|w]; cbn [bind]; try reflexivity. rewrite <- app_assoc. reflexivity.
Qed.
Lemma for_push_outer {X} (f : Z -> Z -> res X) (inner : list Z) : forall (l : list Z) (d : list X),
  for_res l d (fun row d => for_res inner d (fun col d => let* e := f row col in Val (d ++ [e])))
  = let* rows := map_res (fun row => map_res (fun col => f row col) inner) l in Val (d ++ concat rows).
Proof.
  induction l as [|i l IH]; intros d; cbn [for_res map_res bind concat]; [rewrite app_nil_r; reflexivity|].
  rewrite (for_push_inner (f i) inner d).
  destruct (map_res (f i) inner) as [ys|w|w]; cbn [bind]; try reflexivity. rewrite IH.
  destruct (map_res _ l) as [rows|w|w]; cbn [bind concat]; try reflexivity. rewrite <- app_assoc. reflexivity.
Qed.

Lemma bind_val_id {X} (r : res X) : (let* x := r in Val x) = r.
Proof. destruct r; reflexivity. Qed.
Lemma for_res_ext_n {S} (l : list Z) (s : S) f g : (forall i s, f i s = g i s) -> for_res l s f = for_res l s g.
Proof. intros E. revert s. induction l as [|i l IH]; intros s; cbn [for_res]; [reflexivity|]. rewrite E. destruct (g i s); cbn [bind]; auto. Qed.

Lemma gen_Matrix_multiplication_like_operation {L R U} c esL esR esU (dflt : U) (a : matrix L) (b : matrix R) (op : list L -> list R -> res U) :
  0 <= imax c ->
  G_Matrix_multiplication_like_operation c esL esR esU (S (length (m_data a))) (S (length (m_data b))) dflt a b op =
    multiplication_like_operation c esL esR esU dflt op a b.
Proof.
  intros Hc. unfold G_Matrix_multiplication_like_operation, multiplication_like_operation, mul_decision, is_mul_conformable, decide_shape.
  rewrite gen_Matrix_ensure_multiplication_like_operation_conformable. cbn [bind mview f_Matrix_order f_Matrix_shape].
  destruct (is_multiplication_conformable (m_order a) (m_shape a) (m_order b) (m_shape b)); cbn [negb bind]; [|reflexivity].
  rewrite !gen_Matrix_nrows, !gen_Matrix_ncols. cbn [bind mview f_Matrix_order f_Matrix_shape G_Shape_new].
  rewrite gen_Shape_try_to_axis_shape. cbn [bind]. unfold nrows, ncols.
  destruct (Shape_try_to_axis_shape c _ (m_order a)) as [s|e]; [|reflexivity].
  rewrite gen_AxisShape_size. destruct (AxisShape_size c s) as [n|w|w]; cbn [bind]; try reflexivity.
  rewrite gen_Matrix_check_size by exact Hc. cbn [bind]. destruct (check_size c esU n) as [sz|e]; [|reflexivity].
  cbv zeta. cbn [bind mview f_Matrix_order f_Matrix_shape].
  destruct (AxisShape_ncols (m_shape a) (m_order a) =? 0).
  - unfold vec_resize_with, vec_with_capacity. cbn [zlen length Z.of_nat app].
    destruct (sz <=? 0) eqn:Lz; [|rewrite Z.sub_0_r; reflexivity].
    unfold zfirstn, zrepeat. replace (Z.to_nat sz) with 0%nat by lia. reflexivity.
  - rewrite gen_Matrix_set_order_model. destruct (set_order c esL a RowMajor) as [a'|w|w]; cbn [bind]; try reflexivity.
    rewrite gen_Matrix_set_order_model. destruct (set_order c esR b ColMajor) as [b'|w|w]; cbn [bind]; try reflexivity.
    unfold vec_with_capacity, vec_push.
    set (cell := fun row col => let* l := get_nth_major_axis_vector c a' row in let* r := get_nth_major_axis_vector c b' col in op l r).
    destruct (m_order a).
    + rewrite (for_res_ext_n _ _ _ (fun row d => for_res (zseq (AxisShape_ncols (m_shape b) (m_order b))) d (fun col d => let* e := cell row col in Val (d ++ [e])))).
      2:{ intros row d. rewrite bind_val_id. apply for_res_ext_n. intros col d'. unfold cell. rewrite !gen_Matrix_get_nth_major_axis_vector.
          destruct (get_nth_major_axis_vector c a' row) as [l|w|w]; cbn [bind]; try reflexivity.
          all: try (destruct (get_nth_major_axis_vector c b' col) as [r|w|w]; cbn [bind]; try reflexivity; destruct (op l r); reflexivity). }
      rewrite (for_push_outer cell). cbn [app]. destruct (map_res _ _) as [rows|w|w]; reflexivity.
    + rewrite (for_res_ext_n _ _ _ (fun col d => for_res (zseq (AxisShape_nrows (m_shape a) ColMajor)) d (fun row d => let* e := cell row col in Val (d ++ [e])))).
      2:{ intros col d. rewrite bind_val_id. apply for_res_ext_n. intros row d'. unfold cell. rewrite !gen_Matrix_get_nth_major_axis_vector.
          destruct (get_nth_major_axis_vector c a' row) as [l|w|w]; cbn [bind]; try reflexivity.
          all: try (destruct (get_nth_major_axis_vector c b' col) as [r|w|w]; cbn [bind]; try reflexivity; destruct (op l r); reflexivity). }
      rewrite (for_push_outer (fun col row => cell row col)). cbn [app]. destruct (map_res _ _) as [cols|w|w]; reflexivity.
Qed.
(* END *)

(* ---------- mul.rs: dot_product and multiply ---------- *)
(* BEGIN Free_dot_product *)
(* followed by unwrap_unchecked, as multiply uses it, it is the model's dot_product (UB on empty slices) *)
Lemma gen_Free_dot_product {L R U} c (mul : L -> R -> U) (add : U -> U -> U) l r :
  (let* o := G_Free_dot_product c mul add l r in unwrap_unchecked o) = dot_product mul add l r.
Proof.
  unfold G_Free_dot_product, dot_product, reduce_opt. cbn [bind].
  replace (map (fun it : L * R => let '(left_, right_) := it in mul left_ right_) (combine l r))
     with (map (fun p : L * R => mul (fst p) (snd p)) (combine l r)) by (apply map_ext; intros [x y]; reflexivity).
  destruct (map _ (combine l r)); reflexivity.
Qed.
(* END *)
(* BEGIN Matrix_multiply *)
Lemma for_push_inner_m {X} (f : Z -> res X) : forall (l : list Z) (d : list X),
  for_res l d (fun col d => let* e := f col in Val (d ++ [e])) = let* ys := map_res f l in Val (d ++ ys).
Proof.
  induction l as [|i l IH]; intros d; cbn [for_res map_res bind]; [rewrite app_nil_r; reflexivity|].
  destruct (f i) as [e|w|w]; cbn [bind]; try reflexivity. rewrite IH.
  destruct (map_res f l) as [ys|w|w]; cbn [bind]; try reflexivity. rewrite <- app_assoc. reflexivity.
Qed.
Lemma for_push_outer_m {X} (f : Z -> Z -> res X) (inner : list Z) : forall (l : list Z) (d : list X),
  for_res l d (fun row d => for_res inner d (fun col d => let* e := f row col in Val (d ++ [e])))
  = let* rows := map_res (fun row => map_res (fun col => f row col) inner) l in Val (d ++ concat rows).
Proof.
  induction l as [|i l IH]; intros d; cbn [for_res map_res bind concat]; [rewrite app_nil_r; reflexivity|].
  rewrite (for_push_inner_m (f i) inner d).
  destruct (map_res (f i) inner) as [ys|w|w]; cbn [bind]; try reflexivity. rewrite IH.
  destruct (map_res _ l) as [rows|w|w]; cbn [bind concat]; try reflexivity. rewrite <- app_assoc. reflexivity.
Qed.

Lemma bind_val_id_m {X} (r : res X) : (let* x := r in Val x) = r.
Proof. destruct r; reflexivity. Qed.
Lemma for_res_ext_n_m {S} (l : list Z) (s : S) f g : (forall i s, f i s = g i s) -> for_res l s f = for_res l s g.
Proof. intros E. revert s. induction l as [|i l IH]; intros s; cbn [for_res]; [reflexivity|]. rewrite E. destruct (g i s); cbn [bind]; auto. Qed.
Lemma gen_Matrix_multiply {L R U} c esL esR esU (dflt : U) (mul : L -> R -> U) (add : U -> U -> U) (a : matrix L) (b : matrix R) :
  0 <= imax c ->
  G_Matrix_multiply c esL esR esU (S (length (m_data a))) (S (length (m_data b))) dflt mul add a b =
    multiply c esL esR esU dflt mul add a b.
Proof.
  intros Hc. unfold G_Matrix_multiply, multiply, multiplication_like_operation, mul_decision, is_mul_conformable, decide_shape.
  rewrite gen_Matrix_ensure_multiplication_like_operation_conformable. cbn [bind mview f_Matrix_order f_Matrix_shape].
  destruct (is_multiplication_conformable (m_order a) (m_shape a) (m_order b) (m_shape b)); cbn [negb bind]; [|reflexivity].
  rewrite !gen_Matrix_nrows, !gen_Matrix_ncols. cbn [bind mview f_Matrix_order f_Matrix_shape G_Shape_new].
  rewrite gen_Shape_try_to_axis_shape. cbn [bind]. unfold nrows, ncols.
  destruct (Shape_try_to_axis_shape c _ (m_order a)) as [s|e]; [|reflexivity].
  rewrite gen_AxisShape_size. destruct (AxisShape_size c s) as [n|w|w]; cbn [bind]; try reflexivity.
  rewrite gen_Matrix_check_size by exact Hc. cbn [bind]. destruct (check_size c esU n) as [sz|e]; [|reflexivity].
  cbv zeta. cbn [bind mview f_Matrix_order f_Matrix_shape].
  destruct (AxisShape_ncols (m_shape a) (m_order a) =? 0).
  - unfold vec_resize_with, vec_with_capacity. cbn [zlen length Z.of_nat app].
    destruct (sz <=? 0) eqn:Lz; [|rewrite Z.sub_0_r; reflexivity].
    unfold zfirstn, zrepeat. replace (Z.to_nat sz) with 0%nat by lia. reflexivity.
  - rewrite gen_Matrix_set_order_model. destruct (set_order c esL a RowMajor) as [a'|w|w]; cbn [bind]; try reflexivity.
    rewrite gen_Matrix_set_order_model. destruct (set_order c esR b ColMajor) as [b'|w|w]; cbn [bind]; try reflexivity.
    unfold vec_with_capacity, vec_push.
    set (cell := fun row col => let* l := get_nth_major_axis_vector c a' row in let* r := get_nth_major_axis_vector c b' col in dot_product mul add l r).
    destruct (m_order a).
    + rewrite (for_res_ext_n_m _ _ _ (fun row d => for_res (zseq (AxisShape_ncols (m_shape b) (m_order b))) d (fun col d => let* e := cell row col in Val (d ++ [e])))).
      2:{ intros row d. rewrite bind_val_id_m. apply for_res_ext_n_m. intros col d'. unfold cell. rewrite !gen_Matrix_get_nth_major_axis_vector.
          destruct (get_nth_major_axis_vector c a' row) as [l|w|w]; cbn [bind]; try reflexivity.
          all: try (destruct (get_nth_major_axis_vector c b' col) as [r|w|w]; cbn [bind]; try reflexivity;
                    rewrite <- (gen_Free_dot_product c mul add l r); destruct (G_Free_dot_product c mul add l r) as [o|w|w]; cbn [bind]; try reflexivity;
                    destruct (unwrap_unchecked o); reflexivity). }
      rewrite (for_push_outer_m cell). cbn [app]. destruct (map_res _ _) as [rows|w|w]; reflexivity.
    + rewrite (for_res_ext_n_m _ _ _ (fun col d => for_res (zseq (AxisShape_nrows (m_shape a) ColMajor)) d (fun row d => let* e := cell row col in Val (d ++ [e])))).
      2:{ intros col d. rewrite bind_val_id_m. apply for_res_ext_n_m. intros row d'. unfold cell. rewrite !gen_Matrix_get_nth_major_axis_vector.
          destruct (get_nth_major_axis_vector c a' row) as [l|w|w]; cbn [bind]; try reflexivity.
          all: try (destruct (get_nth_major_axis_vector c b' col) as [r|w|w]; cbn [bind]; try reflexivity;
                    rewrite <- (gen_Free_dot_product c mul add l r); destruct (G_Free_dot_product c mul add l r) as [o|w|w]; cbn [bind]; try reflexivity;
                    destruct (unwrap_unchecked o); reflexivity). }
      rewrite (for_push_outer_m (fun col row => cell row col)). cbn [app]. destruct (map_res _ _) as [cols|w|w]; reflexivity.
Qed.
(* END *)

(* ---------- iter.rs: the element iterators (the items they hand out, in order) ---------- *)
(* BEGIN Matrix_iter_elements *)
Lemma gen_Matrix_iter_elements {L} c (m : matrix L) : G_Matrix_iter_elements c m = Val (m_data m).
Proof. reflexivity.
Qed.
(* END *)
(* BEGIN Matrix_iter_elements_mut *)
Lemma gen_Matrix_iter_elements_mut {L} c (m : matrix L) : G_Matrix_iter_elements_mut c m = Val (m_data m).
Proof. reflexivity.
Qed.
(* END *)
(* BEGIN Matrix_into_iter_elements *)
Lemma gen_Matrix_into_iter_elements {L} c (m : matrix L) : G_Matrix_into_iter_elements c m = Val (m_data m).
Proof. reflexivity.
Qed.
(* END *)
(* BEGIN Matrix_iter_elements_with_index *)
Lemma map_res_ext_i0 {X Y} (f g : X -> res Y) (l : list X) : (forall x, f x = g x) -> map_res f l = map_res g l.
Proof. intros E. induction l as [|x l IH]; cbn [map_res]; [reflexivity|]. rewrite E, IH. reflexivity. Qed.
Lemma gen_with_index_items0 {L} c (m : matrix L) :
  (let* d := map_res (fun it => let '(index, element) := it in
                let* r := G_Index_from_flattened c index (m_order m) (m_shape m) in Val (r, element)) (zenumerate (m_data m)) in Val d)
  = iter_elements_with_index m.
Proof.
  unfold iter_elements_with_index, zenumerate, size.
  rewrite (map_res_ext_i0 _ (fun ia => let* ix := Index_from_flattened (fst ia) (m_order m) (m_shape m) in Val (ix, snd ia))).
  2:{ intros [i e]. cbn [fst snd]. rewrite gen_Index_from_flattened. reflexivity. }
  destruct (map_res _ _); reflexivity.
Qed.
Lemma gen_Matrix_iter_elements_with_index {L} c (m : matrix L) : G_Matrix_iter_elements_with_index c m = iter_elements_with_index m.
Proof. unfold G_Matrix_iter_elements_with_index. cbv zeta. apply gen_with_index_items0.
Qed.
(* END *)
(* BEGIN Matrix_iter_elements_mut_with_index *)
Lemma map_res_ext_i1 {X Y} (f g : X -> res Y) (l : list X) : (forall x, f x = g x) -> map_res f l = map_res g l.
Proof. intros E. induction l as [|x l IH]; cbn [map_res]; [reflexivity|]. rewrite E, IH. reflexivity. Qed.
Lemma gen_with_index_items1 {L} c (m : matrix L) :
  (let* d := map_res (fun it => let '(index, element) := it in
                let* r := G_Index_from_flattened c index (m_order m) (m_shape m) in Val (r, element)) (zenumerate (m_data m)) in Val d)
  = iter_elements_with_index m.
Proof.
  unfold iter_elements_with_index, zenumerate, size.
  rewrite (map_res_ext_i1 _ (fun ia => let* ix := Index_from_flattened (fst ia) (m_order m) (m_shape m) in Val (ix, snd ia))).
  2:{ intros [i e]. cbn [fst snd]. rewrite gen_Index_from_flattened. reflexivity. }
  destruct (map_res _ _); reflexivity.
Qed.
Lemma gen_Matrix_iter_elements_mut_with_index {L} c (m : matrix L) : G_Matrix_iter_elements_mut_with_index c m = iter_elements_with_index m.
Proof. unfold G_Matrix_iter_elements_mut_with_index. cbv zeta. apply gen_with_index_items1.
Qed.
(* END *)
(* BEGIN Matrix_into_iter_elements_with_index *)
Lemma map_res_ext_i2 {X Y} (f g : X -> res Y) (l : list X) : (forall x, f x = g x) -> map_res f l = map_res g l.
Proof. intros E. induction l as [|x l IH]; cbn [map_res]; [reflexivity|]. rewrite E, IH. reflexivity. Qed.
Lemma gen_with_index_items2 {L} c (m : matrix L) :
  (let* d := map_res (fun it => let '(index, element) := it in
                let* r := G_Index_from_flattened c index (m_order m) (m_shape m) in Val (r, element)) (zenumerate (m_data m)) in Val d)
  = iter_elements_with_index m.
Proof.
  unfold iter_elements_with_index, zenumerate, size.
  rewrite (map_res_ext_i2 _ (fun ia => let* ix := Index_from_flattened (fst ia) (m_order m) (m_shape m) in Val (ix, snd ia))).
  2:{ intros [i e]. cbn [fst snd]. rewrite gen_Index_from_flattened. reflexivity. }
  destruct (map_res _ _); reflexivity.
Qed.
Lemma gen_Matrix_into_iter_elements_with_index {L} c (m : matrix L) : G_Matrix_into_iter_elements_with_index c m = iter_elements_with_index m.
Proof. unfold G_Matrix_into_iter_elements_with_index. cbv zeta. apply gen_with_index_items2.
Qed.
(* END *)
