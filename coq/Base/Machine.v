(* Machine integers, outcomes and the small vocabulary shared by every layer.
   Stdlib only.  Nothing here is specific to one property. *)
From Coq Require Export ZArith List Lia Bool ZifyBool.
Export ListNotations.
Open Scope Z_scope.

(* ---------- outcomes ---------- *)
Inductive error :=
  | SizeOverflow | SizeMismatch | CapacityOverflow | LengthInconsistent
  | IndexOutOfBounds | SquareMatrixRequired | ShapeNotConformable.

Inductive why :=
  | AddOverflow | SubOverflow | MulOverflow | DivByZero | RemByZero      (* arithmetic panics *)
  | PanicErr (e : error)                                                  (* panic!("{error}") *)
  | PanicCaller                                                           (* a panic raised by caller code *)
  | PanicStd                                                              (* a documented std panic (capacity overflow, step_by(0), ...) *)
  | UBIndex | UBPtr | UBNull | UBOverlap | UBUnwrapNone | UBNonZero       (* violated preconditions of unsafe primitives *)
  | OutOfFuel.                                                            (* model artefact; always proved unreachable *)

Inductive res (A : Type) := Val (a : A) | Panic (w : why) | UB (w : why).
Arguments Val {A} a. Arguments Panic {A} w. Arguments UB {A} w.

Definition bind {A B} (x : res A) (k : A -> res B) : res B :=
  match x with Val a => k a | Panic w => Panic w | UB w => UB w end.
Notation "'let*' x ':=' e 'in' k" := (bind e (fun x => k))
  (at level 200, x pattern, e at level 100, k at level 200).

Inductive result (A : Type) := Ok (a : A) | Err (e : error).
Arguments Ok {A} a. Arguments Err {A} e.

Lemma bind_val {A B} (x : res A) (k : A -> res B) b :
  bind x k = Val b -> exists a, x = Val a /\ k a = Val b.
Proof. destruct x; cbn; intros H; try discriminate; eauto. Qed.

(* ---------- machine configuration ---------- *)
(* Theorems are width-parametric: any cfg with imax >= 32767 and umax = 2*imax+1
   (16/32/64-bit usize).  The executable instance used by the correspondence
   check is cfg64. *)
Record cfg := { umax : Z; imax : Z; debug : bool }.
Definition wf (c : cfg) : Prop := imax c >= 32767 /\ umax c = 2 * imax c + 1.
Definition cfg64 (dbg : bool) : cfg :=
  {| umax := 18446744073709551615; imax := 9223372036854775807; debug := dbg |}.
Lemma wf_cfg64 dbg : wf (cfg64 dbg).
Proof. unfold wf; cbn; lia. Qed.

Definition is_usize (c : cfg) (x : Z) : Prop := 0 <= x <= umax c.
Definition is_isize (c : cfg) (x : Z) : Prop := - imax c - 1 <= x <= imax c.

Definition wrapu (c : cfg) (x : Z) : Z := x mod (umax c + 1).

(* `+ - *` on usize: overflow panics in debug builds and wraps in release builds *)
Definition uadd (c : cfg) (a b : Z) : res Z :=
  if a + b <=? umax c then Val (a + b)
  else if debug c then Panic AddOverflow else Val (wrapu c (a + b)).
Definition usub (c : cfg) (a b : Z) : res Z :=
  if b <=? a then Val (a - b)
  else if debug c then Panic SubOverflow else Val (wrapu c (a - b)).
Definition umul (c : cfg) (a b : Z) : res Z :=
  if a * b <=? umax c then Val (a * b)
  else if debug c then Panic MulOverflow else Val (wrapu c (a * b)).
(* `/ %` on usize: a zero divisor panics in every build *)
Definition udiv (a b : Z) : res Z := if b =? 0 then Panic DivByZero else Val (a / b).
Definition urem (a b : Z) : res Z := if b =? 0 then Panic RemByZero else Val (a mod b).

Definition checked_mul (c : cfg) (a b : Z) : option Z :=
  if a * b <=? umax c then Some (a * b) else None.
Definition saturating_mul (c : cfg) (a b : Z) : Z := Z.min (a * b) (umax c).
Definition unsigned_abs (x : Z) : Z := Z.abs x.          (* isize::unsigned_abs: exact for every isize, incl. MIN *)

Lemma uadd_val c a b : 0 <= a + b <= umax c -> uadd c a b = Val (a + b).
Proof. intros H. unfold uadd. destruct (a + b <=? umax c) eqn:E; [reflexivity|lia]. Qed.
Lemma usub_val c a b : b <= a -> usub c a b = Val (a - b).
Proof. intros H. unfold usub. destruct (b <=? a) eqn:E; [reflexivity|lia]. Qed.
Lemma umul_val c a b : 0 <= a * b <= umax c -> umul c a b = Val (a * b).
Proof. intros H. unfold umul. destruct (a * b <=? umax c) eqn:E; [reflexivity|lia]. Qed.
Lemma udiv_val a b : b <> 0 -> udiv a b = Val (a / b).
Proof. intros H. unfold udiv. destruct (b =? 0) eqn:E; [lia|reflexivity]. Qed.
Lemma urem_val a b : b <> 0 -> urem a b = Val (a mod b).
Proof. intros H. unfold urem. destruct (b =? 0) eqn:E; [lia|reflexivity]. Qed.

(* ---------- lists indexed by Z ---------- *)
Definition zlen {A} (l : list A) : Z := Z.of_nat (length l).
Definition znth_opt {A} (i : Z) (l : list A) : option A :=
  if i <? 0 then None else nth_error l (Z.to_nat i).
Definition znth {A} (d : A) (i : Z) (l : list A) : A :=
  match znth_opt i l with Some a => a | None => d end.
(* Vec::get_unchecked: reading outside the vector is undefined behaviour *)
Definition get_unchecked {A} (l : list A) (i : Z) : res A :=
  match znth_opt i l with Some a => Val a | None => UB UBIndex end.

Lemma zlen_nonneg {A} (l : list A) : 0 <= zlen l.
Proof. unfold zlen; lia. Qed.
Lemma znth_opt_some {A} (l : list A) i : 0 <= i < zlen l -> exists a, znth_opt i l = Some a.
Proof.
  unfold znth_opt, zlen; intros H. destruct (i <? 0) eqn:E; [lia|].
  destruct (nth_error l (Z.to_nat i)) eqn:E2; eauto.
  apply nth_error_None in E2. lia.
Qed.
Lemma znth_opt_none {A} (l : list A) i : ~ (0 <= i < zlen l) -> znth_opt i l = None.
Proof.
  unfold znth_opt, zlen; intros H. destruct (i <? 0) eqn:E; [reflexivity|].
  apply nth_error_None. lia.
Qed.
Lemma znth_opt_nth {A} d (l : list A) i : 0 <= i < zlen l -> znth_opt i l = Some (nth (Z.to_nat i) l d).
Proof.
  unfold znth_opt, zlen; intros H. destruct (i <? 0) eqn:E; [lia|].
  apply nth_error_nth'. lia.
Qed.

(* 0, 1, ..., n-1 as Z *)
Definition zseq (n : Z) : list Z := map Z.of_nat (seq 0 (Z.to_nat n)).
Lemma zseq_length n : length (zseq n) = Z.to_nat n.
Proof. unfold zseq. now rewrite map_length, seq_length. Qed.
Lemma in_zseq n x : In x (zseq n) <-> 0 <= x < n.
Proof.
  unfold zseq. rewrite in_map_iff. split.
  - intros (k & <- & Hk). apply in_seq in Hk. lia.
  - intros H. exists (Z.to_nat x). split; [lia|]. apply in_seq. lia.
Qed.
Lemma zseq_nth n i : 0 <= i < n -> znth_opt i (zseq n) = Some i.
Proof.
  intros H. unfold znth_opt, zseq. destruct (i <? 0) eqn:E; [lia|].
  rewrite nth_error_map, nth_error_nth' with (d := 0%nat) by (rewrite seq_length; lia).
  rewrite seq_nth by lia. cbn. f_equal. lia.
Qed.
