(* Feasibility prototype (design round): the two list facts most Layer-M proofs lean on.
   (1) flat layout: element (r,c) of "rows pushed one after the other" sits at r*m + c
       (C11 result vector, C19 conversions, C15 memory order, with_initializer);
   (2) std adaptor chain  iter().skip(a).step_by(s).take(n)  as executed (skipn / take-one-skip-(s-1) /
       firstn) equals the strided index list  [a, a+s, ..., a+(n-1)s]  whenever that fits
       (C06 immutable row/column views, C14 cross-order source walk). *)
From Coq Require Import Arith Lia List.
Import ListNotations.

Section Flat.
Variables (A : Type) (d : A).
Lemma nth_concat_uniform (ls : list (list A)) m : (forall l, In l ls -> length l = m) ->
  forall r c, r < length ls -> c < m -> nth (r * m + c) (concat ls) d = nth c (nth r ls []) d.
Proof.
  induction ls as [|l ls IH]; intros Hm r c Hr Hc; cbn in *; [lia|].
  assert (Hl : length l = m) by (apply Hm; auto).
  destruct r as [|r].
  - cbn. rewrite app_nth1 by lia. reflexivity.
  - rewrite app_nth2 by (cbn; nia). replace (S r * m + c - length l) with (r * m + c) by (cbn; lia).
    apply IH; auto; lia.
Qed.

Theorem nth_flat (f : nat -> nat -> A) n m r c : r < n -> c < m ->
  nth (r * m + c) (concat (map (fun r => map (f r) (seq 0 m)) (seq 0 n))) d = f r c.
Proof.
  intros Hr Hc. rewrite nth_concat_uniform with (m := m); auto.
  - rewrite nth_indep with (d' := map (f 0) (seq 0 m)) by (rewrite map_length, seq_length; lia).
    rewrite map_nth with (d := 0). rewrite seq_nth by lia. cbn.
    rewrite nth_indep with (d' := f r 0) by (rewrite map_length, seq_length; lia).
    rewrite map_nth with (d := 0). rewrite seq_nth by lia. reflexivity.
  - intros l Hl. apply in_map_iff in Hl. destruct Hl as (x & <- & _). now rewrite map_length, seq_length.
  - now rewrite map_length, seq_length.
Qed.

Lemma length_flat (f : nat -> nat -> A) n m : length (concat (map (fun r => map (f r) (seq 0 m)) (seq 0 n))) = n * m.
Proof. induction n as [|n IH] in f |- *; cbn; [reflexivity|]. rewrite app_length, map_length, seq_length.
  rewrite <- seq_shift, map_map. rewrite (IH (fun r => f (S r))). reflexivity. Qed.
End Flat.

Section Adaptors.
Variables (A : Type) (d : A).
(* StepBy as executed: yield the head, then drop s-1 elements, repeat (fuel = length) *)
Fixpoint step_by (fuel s : nat) (l : list A) : list A :=
  match fuel, l with
  | S f, x :: t => x :: step_by f s (skipn (s - 1) t)
  | _, _ => []
  end.
Definition view (a s n : nat) (l : list A) : list A := firstn n (step_by (length l) s (skipn a l)).
Definition strided (a s n : nat) (l : list A) : list A := map (fun k => nth (a + k * s) l d) (seq 0 n).

Lemma nth_skipn k (l : list A) i : nth i (skipn k l) d = nth (k + i) l d.
Proof. revert l; induction k as [|k IH]; intros l; cbn; [reflexivity|]. destruct l; cbn; [now destruct i | apply IH]. Qed.

Lemma step_by_spec s : 0 < s -> forall fuel l n, length l <= fuel -> (n = 0 \/ (n - 1) * s < length l) ->
  firstn n (step_by fuel s l) = map (fun k => nth (k * s) l d) (seq 0 n).
Proof.
  intros Hs. induction fuel as [|fuel IH]; intros l n Hf Hn.
  - destruct l; [|cbn in Hf; lia]. destruct n; cbn; [reflexivity|]. destruct Hn as [|Hn]; [lia|cbn in Hn; lia].
  - destruct n as [|n]; [reflexivity|]. destruct l as [|x t]; [destruct Hn as [|Hn]; [lia|cbn in Hn; lia]|].
    cbn [step_by firstn seq map]. f_equal.
    rewrite IH.
    + rewrite <- seq_shift, map_map. apply map_ext. intros k.
      rewrite nth_skipn. replace (S k * s) with (S (s - 1 + k * s)) by lia. reflexivity.
    + rewrite skipn_length. cbn in Hf. lia.
    + destruct n as [|n]; [left; reflexivity|right]. rewrite skipn_length. destruct Hn as [|Hn]; [lia|]. cbn in Hn. cbn. nia.
Qed.

Theorem view_is_strided a s n l : 0 < s -> (n = 0 \/ a + (n - 1) * s < length l) -> view a s n l = strided a s n l.
Proof.
  intros Hs Hn. unfold view, strided.
  rewrite step_by_spec; auto.
  - apply map_ext. intros k. apply nth_skipn.
  - rewrite skipn_length. lia.
  - destruct Hn as [|Hn]; [left; auto|right]. rewrite skipn_length. lia.
Qed.

(* the two instances used by iter.rs (C06): n-th contiguous vector and n-th strided vector of an M x m buffer *)
Corollary major_axis_view M m k l : length l = M * m -> k < M ->
  view (k * m) 1 m l = map (fun c => nth (k * m + c) l d) (seq 0 m).
Proof. intros Hl Hk. rewrite view_is_strided; [|lia|destruct m; [left; auto|right; nia]].
  unfold strided. apply map_ext. intros c. f_equal. lia. Qed.
Corollary minor_axis_view M m k l : length l = M * m -> k < m ->
  view k m M l = map (fun r => nth (r * m + k) l d) (seq 0 M).
Proof. intros Hl Hk. rewrite view_is_strided; [|lia|destruct M; [left; auto|right; nia]].
  unfold strided. apply map_ext. intros r. f_equal. lia. Qed.
End Adaptors.


