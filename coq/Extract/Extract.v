(* Extraction of the executable model for the correspondence driver.
   Only ExtrOcamlBasic is used: Z, positive, N, nat stay the extracted inductives. *)
From Coq Require Import Extraction ExtrOcamlBasic.
From Matreex Require Import Model.Decode Model.KCases.
Extraction Language OCaml.
Extraction "model.ml" step_wire empty_pool cfg64 nrows ncols kcase kcase_itermut_zst.
