//! C18: every macro-generated scalar operator impl, for the 14 primitive element types, classified by which
//! operand order its result matches: L = element op scalar, R = scalar op element, B = both (commutative
//! witnesses), N = neither, P = the call panicked, X = shape or order not preserved.

use matreex::{Matrix, Order};
use std::panic::{AssertUnwindSafe, catch_unwind};

pub trait Bits: Copy {
    fn bits(self) -> u128;
}
macro_rules! bits_int { ($($t:ty)*) => { $( impl Bits for $t { fn bits(self) -> u128 { self as u128 } } )* } }
bits_int! {u8 u16 u32 u64 u128 usize i8 i16 i32 i64 i128 isize}
impl Bits for f32 {
    fn bits(self) -> u128 {
        self.to_bits() as u128
    }
}
impl Bits for f64 {
    fn bits(self) -> u128 {
        self.to_bits() as u128
    }
}

fn mk<T: Copy>(elems: [T; 6], variant: usize) -> Matrix<T> {
    // alternate shapes and storage orders between forms
    let mut m = Matrix::from_row(elems.to_vec());
    match variant % 4 {
        0 => {
            m.reshape((2, 3)).unwrap();
        }
        1 => {
            m.reshape((3, 2)).unwrap();
            m.switch_order();
        }
        2 => {
            m.reshape((1, 6)).unwrap();
            m.switch_order();
        }
        _ => {
            m.reshape((6, 1)).unwrap();
        }
    }
    m
}

fn classify<T: Bits + PartialEq>(
    src: &Matrix<T>,
    got: std::thread::Result<Matrix<T>>,
    scalar: T,
    l: impl Fn(T, T) -> T,
    r: impl Fn(T, T) -> T,
) -> char {
    let Ok(got) = got else { return 'P' };
    if got.nrows() != src.nrows() || got.ncols() != src.ncols() || got.order() != src.order() {
        return 'X';
    }
    let (mut ml, mut mr) = (true, true);
    for (g, e) in got.iter_elements().zip(src.iter_elements()) {
        let lv = catch_unwind(AssertUnwindSafe(|| l(*e, scalar)));
        let rv = catch_unwind(AssertUnwindSafe(|| r(scalar, *e)));
        ml &= matches!(lv, Ok(v) if v.bits() == g.bits());
        mr &= matches!(rv, Ok(v) if v.bits() == g.bits());
    }
    match (ml, mr) {
        (true, true) => 'B',
        (true, false) => 'L',
        (false, true) => 'R',
        _ => 'N',
    }
}

macro_rules! forms {
    ($t:ty, $op:tt, $opa:tt, $elems:expr, $sl:expr, $sr:expr) => {{
        let elems: [$t; 6] = $elems;
        let (sl, sr): ($t, $t) = ($sl, $sr);
        let mut out = String::new();
        let l = |e: $t, s: $t| e $op s;
        let r = |s: $t, e: $t| s $op e;
        let mut v = 0usize;
        macro_rules! go {
            ($s:expr, $body:expr) => {{
                let src = mk(elems, v);
                v += 1;
                let m = src.clone();
                let refs_src = src.clone();
                let _ = &refs_src;
                let got = catch_unwind(AssertUnwindSafe(|| {
                    let m = m;
                    let f: &dyn Fn(Matrix<$t>) -> Matrix<$t> = &$body;
                    f(m)
                }));
                out.push(classify(&src, got, $s, l, r));
            }};
        }
        // Matrix<t> with scalar t / &t
        go!(sl, |m| m $op sl);
        go!(sl, |m| &m $op sl);
        go!(sr, |m| sr $op m);
        go!(sr, |m| sr $op &m);
        go!(sl, |m| m $op &sl);
        go!(sl, |m| &m $op &sl);
        go!(sr, |m| &sr $op m);
        go!(sr, |m| &sr $op &m);
        // Matrix<&t> with scalar t / &t
        go!(sl, |m| { let refs: Matrix<&$t> = m.map_ref(|x| x).unwrap(); refs $op sl });
        go!(sl, |m| { let refs: Matrix<&$t> = m.map_ref(|x| x).unwrap(); &refs $op sl });
        go!(sr, |m| { let refs: Matrix<&$t> = m.map_ref(|x| x).unwrap(); sr $op refs });
        go!(sr, |m| { let refs: Matrix<&$t> = m.map_ref(|x| x).unwrap(); sr $op &refs });
        go!(sl, |m| { let refs: Matrix<&$t> = m.map_ref(|x| x).unwrap(); refs $op &sl });
        go!(sl, |m| { let refs: Matrix<&$t> = m.map_ref(|x| x).unwrap(); &refs $op &sl });
        go!(sr, |m| { let refs: Matrix<&$t> = m.map_ref(|x| x).unwrap(); &sr $op refs });
        go!(sr, |m| { let refs: Matrix<&$t> = m.map_ref(|x| x).unwrap(); &sr $op &refs });
        // compound assignment
        go!(sl, |mut m| { m $opa sl; m });
        go!(sl, |mut m| { m $opa &sl; m });
        out
    }};
}

macro_rules! all_ops {
    ($t:ty, $op:expr, $c:expr) => {{
        let c = $c;
        match $op {
            0 => forms!($t, +, +=, [c(1), c(2), c(3), c(4), c(5), c(6)], c(10), c(20)),
            1 => forms!($t, -, -=, [c(7), c(9), c(12), c(8), c(11), c(10)], c(3), c(100)),
            2 => forms!($t, *, *=, [c(1), c(2), c(3), c(4), c(5), c(6)], c(3), c(5)),
            3 => forms!($t, /, /=, [c(12), c(24), c(36), c(48), c(60), c(6)], c(6), c(120)),
            _ => forms!($t, %, %=, [c(12), c(24), c(36), c(48), c(60), c(7)], c(5), c(100)),
        }
    }};
}

pub fn scalar_forms(ty: i128, op: i128) -> String {
    match ty {
        0 => all_ops!(u8, op, |x: i32| x as u8),
        1 => all_ops!(u16, op, |x: i32| x as u16),
        2 => all_ops!(u32, op, |x: i32| x as u32),
        3 => all_ops!(u64, op, |x: i32| x as u64),
        4 => all_ops!(u128, op, |x: i32| x as u128),
        5 => all_ops!(usize, op, |x: i32| x as usize),
        6 => all_ops!(i8, op, |x: i32| x as i8),
        7 => all_ops!(i16, op, |x: i32| x as i16),
        8 => all_ops!(i32, op, |x: i32| x),
        9 => all_ops!(i64, op, |x: i32| x as i64),
        10 => all_ops!(i128, op, |x: i32| x as i128),
        11 => all_ops!(isize, op, |x: i32| x as isize),
        12 => all_ops!(f32, op, |x: i32| x as f32 + 0.5),
        13 => all_ops!(f64, op, |x: i32| x as f64 + 0.25),
        _ => "INVALID".to_string(),
    }
}

macro_rules! neg_forms {
    ($t:ty, $c:expr) => {{
        let c = $c;
        let elems: [$t; 6] = [c(1), c(-2), c(3), c(0), c(-5), c(6)];
        let mut out = String::new();
        for variant in 0..2 {
            let src = mk(elems, variant + 1);
            let m = src.clone();
            let got = catch_unwind(AssertUnwindSafe(|| if variant == 0 { -m } else { -&m }));
            out.push(match got {
                Err(_) => 'P',
                Ok(g) => {
                    if g.nrows() != src.nrows() || g.ncols() != src.ncols() || g.order() != src.order() {
                        'X'
                    } else if g.iter_elements().zip(src.iter_elements()).all(|(a, b)| a.bits() == (-*b).bits()) {
                        'L'
                    } else {
                        'N'
                    }
                }
            });
        }
        out
    }};
}

pub fn scalar_neg(ty: i128) -> String {
    match ty {
        6 => neg_forms!(i8, |x: i32| x as i8),
        7 => neg_forms!(i16, |x: i32| x as i16),
        8 => neg_forms!(i32, |x: i32| x),
        9 => neg_forms!(i64, |x: i32| x as i64),
        10 => neg_forms!(i128, |x: i32| x as i128),
        11 => neg_forms!(isize, |x: i32| x as isize),
        12 => neg_forms!(f32, |x: i32| x as f32 * 0.5),
        13 => neg_forms!(f64, |x: i32| x as f64 * 0.25),
        _ => "INVALID".to_string(),
    }
}

#[allow(dead_code)]
fn unused(_: Order) {}
