//! C18: every macro-generated scalar operator impl, for the 14 primitive element types, classified by which
//! operand order its result matches: L = element op scalar, R = scalar op element, B = both (commutative
//! witnesses), N = neither, P = the call panicked, X = shape or order not preserved.

use matreex::{Matrix, Order};
use std::panic::{AssertUnwindSafe, catch_unwind};

pub trait Bits: Copy {
    fn bits(self) -> u128;
}
macro_rules! bits_int { ($($t:ty)*) => { $( impl Bits for $t { fn bits(self) -> u128 { self as u128 } } )* } }
bits_int! {u8 u16 u32 u64 u128 usize i8 i16 i32 i64 i128 isize}
impl Bits for f32 {
    fn bits(self) -> u128 {
        self.to_bits() as u128
    }
}
impl Bits for f64 {
    fn bits(self) -> u128 {
        self.to_bits() as u128
    }
}

fn mk<T: Copy>(elems: [T; 6], variant: usize) -> Matrix<T> {
    // alternate shapes and storage orders between forms
    let mut m = Matrix::from_row(elems.to_vec());
    match variant % 4 {
        0 => {
            m.reshape((2, 3)).unwrap();
        }
        1 => {
            m.reshape((3, 2)).unwrap();
            m.switch_order();
        }
        2 => {
            m.reshape((1, 6)).unwrap();
            m.switch_order();
        }
        _ => {
            m.reshape((6, 1)).unwrap();
        }
    }
    m
}

fn mk_empty<T: Default + Clone>(variant: usize) -> Matrix<T> {
    let (r, c) = [(0usize, 3usize), (0, 3), (3, 0), (0, 0)][variant % 4];
    let mut m = Matrix::<T>::with_default((r, c)).unwrap();
    if variant % 4 != 0 {
        m.switch_order();
    }
    m
}

fn keeps_shape_on_empty<T: Default + Clone>(f: &dyn Fn(Matrix<T>) -> Matrix<T>) -> bool {
    for ev in 0..4 {
        let e = mk_empty::<T>(ev);
        let (enr, enc, eo) = (e.nrows(), e.ncols(), e.order());
        match catch_unwind(AssertUnwindSafe(|| f(e))) {
            Ok(g) if g.nrows() == enr && g.ncols() == enc && g.order() == eo => {}
            _ => return false,
        }
    }
    true
}

fn classify<T: Bits + PartialEq>(
    src: &Matrix<T>,
    got: std::thread::Result<Matrix<T>>,
    scalar: T,
    l: impl Fn(T, T) -> T,
    r: impl Fn(T, T) -> T,
) -> char {
    let Ok(got) = got else { return 'P' };
    if got.nrows() != src.nrows() || got.ncols() != src.ncols() || got.order() != src.order() {
        return 'X';
    }
    let (mut ml, mut mr) = (true, true);
    for (g, e) in got.iter_elements().zip(src.iter_elements()) {
        let lv = catch_unwind(AssertUnwindSafe(|| l(*e, scalar)));
        let rv = catch_unwind(AssertUnwindSafe(|| r(scalar, *e)));
        ml &= matches!(lv, Ok(v) if v.bits() == g.bits());
        mr &= matches!(rv, Ok(v) if v.bits() == g.bits());
    }
    match (ml, mr) {
        (true, true) => 'B',
        (true, false) => 'L',
        (false, true) => 'R',
        _ => 'N',
    }
}

macro_rules! forms {
    ($t:ty, $op:tt, $opa:tt, $elems:expr, $sl:expr, $sr:expr) => {{
        let elems: [$t; 6] = $elems;
        let (sl, sr): ($t, $t) = ($sl, $sr);
        let mut out = String::new();
        let l = |e: $t, s: $t| e $op s;
        let r = |s: $t, e: $t| s $op e;
        let mut v = 0usize;
        macro_rules! go {
            ($s:expr, $body:expr) => {{
                let src = mk(elems, v);
                v += 1;
                let m = src.clone();
                let refs_src = src.clone();
                let _ = &refs_src;
                let f: &dyn Fn(Matrix<$t>) -> Matrix<$t> = &$body;
                let got = catch_unwind(AssertUnwindSafe(|| f(m)));
                let mut cls = classify(&src, got, $s, l, r);
                // the same form on element-less matrices in both orders: shape and order are those of the operand
                if !keeps_shape_on_empty::<$t>(f) {
                    cls = 'X';
                }
                out.push(cls);
            }};
        }
        // Matrix<t> with scalar t / &t
        go!(sl, |m| m $op sl);
        go!(sl, |m| &m $op sl);
        go!(sr, |m| sr $op m);
        go!(sr, |m| sr $op &m);
        go!(sl, |m| m $op &sl);
        go!(sl, |m| &m $op &sl);
        go!(sr, |m| &sr $op m);
        go!(sr, |m| &sr $op &m);
        // Matrix<&t> with scalar t / &t
        go!(sl, |m| { let refs: Matrix<&$t> = m.map_ref(|x| x).unwrap(); refs $op sl });
        go!(sl, |m| { let refs: Matrix<&$t> = m.map_ref(|x| x).unwrap(); &refs $op sl });
        go!(sr, |m| { let refs: Matrix<&$t> = m.map_ref(|x| x).unwrap(); sr $op refs });
        go!(sr, |m| { let refs: Matrix<&$t> = m.map_ref(|x| x).unwrap(); sr $op &refs });
        go!(sl, |m| { let refs: Matrix<&$t> = m.map_ref(|x| x).unwrap(); refs $op &sl });
        go!(sl, |m| { let refs: Matrix<&$t> = m.map_ref(|x| x).unwrap(); &refs $op &sl });
        go!(sr, |m| { let refs: Matrix<&$t> = m.map_ref(|x| x).unwrap(); &sr $op refs });
        go!(sr, |m| { let refs: Matrix<&$t> = m.map_ref(|x| x).unwrap(); &sr $op &refs });
        // compound assignment
        go!(sl, |mut m| { m $opa sl; m });
        go!(sl, |mut m| { m $opa &sl; m });
        out
    }};
}

macro_rules! all_ops {
    ($t:ty, $op:expr, $ws:expr, $c:expr) => {{
        let c = $c;
        let signed = $ws != 0;
        let special = $ws == 2;
        // witness set 0: positive values; witness set 1 (signed and float types only): mixed signs, negative scalars;
        // witness set 2 (float types only): signed zeros and infinities as elements, zeros / infinity as scalars
        // (codes 1000 = -0.0, 1001 = inf, 1002 = -inf, 1003 = +0.0) - a form that treats an "identity" scalar as a no-op
        // differs from the primitive operator there (-0.0 + 0.0 is +0.0).
        // The witnesses are chosen at run time so that each operator form is compiled once per type.
        let pick = |a: [i32; 8], b: [i32; 8], z: [i32; 8]| -> ([$t; 6], $t, $t) {
            let w = if special { z } else if signed { b } else { a };
            ([c(w[0]), c(w[1]), c(w[2]), c(w[3]), c(w[4]), c(w[5])], c(w[6]), c(w[7]))
        };
        match $op {
            0 => {
                let (e, sl, sr) = pick([1, 2, 3, 4, 5, 6, 10, 20], [-1, 2, -3, 4, -5, 0, -10, 20], [1000, 1003, 1, -2, 1000, 5, 1003, 1003]);
                forms!($t, +, +=, e, sl, sr)
            }
            1 => {
                let (e, sl, sr) = pick([7, 9, 12, 8, 11, 10, 3, 100], [-7, 9, -12, 8, 0, -10, -3, -100], [1000, 1003, 1, -2, 1000, 5, 1000, 1003]);
                forms!($t, -, -=, e, sl, sr)
            }
            2 => {
                let (e, sl, sr) = pick([1, 2, 3, 4, 5, 6, 3, 5], [-1, 2, -3, 4, -5, 0, -3, 5], [1000, 1003, 1, -2, 3, -5, 1003, 1000]);
                forms!($t, *, *=, e, sl, sr)
            }
            3 => {
                let (e, sl, sr) = pick([12, 24, 36, 48, 60, 6, 6, 120], [-12, 24, -36, 48, -60, 7, -5, -120], [1000, 1003, 1, -2, 3, -5, 1001, 1003]);
                forms!($t, /, /=, e, sl, sr)
            }
            _ => {
                let (e, sl, sr) = pick([12, 24, 36, 48, 60, 7, 5, 100], [-12, 24, -37, 48, -60, -7, 5, -100], [1000, 1003, 1, -2, 3, -5, 1001, 1]);
                forms!($t, %, %=, e, sl, sr)
            }
        }
    }};
}

pub fn scalar_forms(ty: i128, op: i128, ws: i128) -> String {
    let ws = if ty < 6 { 0 } else if ws == 2 && ty < 12 { 1 } else { ws };
    match ty {
        0 => all_ops!(u8, op, ws, |x: i32| x as u8),
        1 => all_ops!(u16, op, ws, |x: i32| x as u16),
        2 => all_ops!(u32, op, ws, |x: i32| x as u32),
        3 => all_ops!(u64, op, ws, |x: i32| x as u64),
        4 => all_ops!(u128, op, ws, |x: i32| x as u128),
        5 => all_ops!(usize, op, ws, |x: i32| x as usize),
        6 => all_ops!(i8, op, ws, |x: i32| x as i8),
        7 => all_ops!(i16, op, ws, |x: i32| x as i16),
        8 => all_ops!(i32, op, ws, |x: i32| x),
        9 => all_ops!(i64, op, ws, |x: i32| x as i64),
        10 => all_ops!(i128, op, ws, |x: i32| x as i128),
        11 => all_ops!(isize, op, ws, |x: i32| x as isize),
        12 => all_ops!(f32, op, ws, |x: i32| match x {
            1000 => -0.0f32,
            1001 => f32::INFINITY,
            1002 => f32::NEG_INFINITY,
            1003 => 0.0f32,
            _ => x as f32 + 0.5,
        }),
        13 => all_ops!(f64, op, ws, |x: i32| match x {
            1000 => -0.0f64,
            1001 => f64::INFINITY,
            1002 => f64::NEG_INFINITY,
            1003 => 0.0f64,
            _ => x as f64 + 0.25,
        }),
        _ => "INVALID".to_string(),
    }
}

macro_rules! neg_forms {
    ($t:ty, $c:expr) => {{
        let c = $c;
        let elems: [$t; 6] = [c(1), c(-2), c(3), c(0), c(-5), c(6)];
        let mut out = String::new();
        for variant in 0..2 {
            let src = mk(elems, variant + 1);
            let m = src.clone();
            let got = catch_unwind(AssertUnwindSafe(|| if variant == 0 { -m } else { -&m }));
            out.push(match got {
                Err(_) => 'P',
                Ok(g) => {
                    if g.nrows() != src.nrows() || g.ncols() != src.ncols() || g.order() != src.order() {
                        'X'
                    } else if g.iter_elements().zip(src.iter_elements()).all(|(a, b)| a.bits() == (-*b).bits()) {
                        'L'
                    } else {
                        'N'
                    }
                }
            });
        }
        out
    }};
}

pub fn scalar_neg(ty: i128) -> String {
    match ty {
        6 => neg_forms!(i8, |x: i32| x as i8),
        7 => neg_forms!(i16, |x: i32| x as i16),
        8 => neg_forms!(i32, |x: i32| x),
        9 => neg_forms!(i64, |x: i32| x as i64),
        10 => neg_forms!(i128, |x: i32| x as i128),
        11 => neg_forms!(isize, |x: i32| x as isize),
        12 => neg_forms!(f32, |x: i32| x as f32 * 0.5),
        13 => neg_forms!(f64, |x: i32| x as f64 * 0.25),
        _ => "INVALID".to_string(),
    }
}

#[allow(dead_code)]
fn unused(_: Order) {}
