//! C17: which of the mutable row/column iterators are Send / Sync for which element types, decided by rustc
//! (autoref specialisation on the unnameable `impl Trait` types), and rows / columns mutated on several threads.

use matreex::Matrix;
use std::cell::Cell;
use std::marker::PhantomData;
use std::rc::Rc;
use std::sync::MutexGuard;

pub struct Probe<X>(PhantomData<X>);
pub fn probe_of<X>(_: &X) -> Probe<X> {
    Probe(PhantomData)
}
pub trait YesSend {
    fn is_send(&self) -> bool {
        true
    }
}
impl<X: Send> YesSend for Probe<X> {}
pub trait NoSend {
    fn is_send(&self) -> bool {
        false
    }
}
impl<X> NoSend for &Probe<X> {}
pub trait YesSync {
    fn is_sync(&self) -> bool {
        true
    }
}
impl<X: Sync> YesSync for Probe<X> {}
pub trait NoSync {
    fn is_sync(&self) -> bool {
        false
    }
}
impl<X> NoSync for &Probe<X> {}

macro_rules! flags {
    ($e:expr) => {{
        let it = $e;
        let p = probe_of(&it);
        let s = (&p).is_send();
        let y = (&p).is_sync();
        format!("{}{}", if s { 'S' } else { '-' }, if y { 'Y' } else { '-' })
    }};
}

macro_rules! for_type {
    ($t:ty, $mk:expr) => {{
        let mut m: Matrix<$t> = Matrix::from_row(vec![$mk, $mk]);
        let a = flags!(m.iter_rows_mut());
        let b = flags!(m.iter_cols_mut());
        let c = flags!(m.iter_rows_mut().next().unwrap());
        let d = flags!(m.iter_cols_mut().next().unwrap());
        // control: the element type itself and the std slice iterator the nth variants are built from
        let e = flags!(m.iter_elements_mut());
        let f = flags!(m.iter_nth_row_mut(0).unwrap());
        format!("{a}{b}{c}{d}{e}{f}")
    }};
}

/// one string per element class (Send+Sync, Send only, Sync only, neither): flags of
/// iter_rows_mut, iter_cols_mut, a yielded row, a yielded column, iter_elements_mut, iter_nth_row_mut
pub fn autotraits() -> String {
    static LOCK: std::sync::Mutex<i32> = std::sync::Mutex::new(0);
    let both = for_type!(i32, 1i32);
    let send_only = for_type!(Cell<i32>, Cell::new(1));
    let sync_only = {
        // a MutexGuard is Sync but not Send; two guards need two mutexes
        static L2: std::sync::Mutex<i32> = std::sync::Mutex::new(0);
        let g1: MutexGuard<'static, i32> = LOCK.lock().unwrap_or_else(|e| e.into_inner());
        let g2: MutexGuard<'static, i32> = L2.lock().unwrap_or_else(|e| e.into_inner());
        let mut m: Matrix<MutexGuard<'static, i32>> = Matrix::from_row(vec![g1, g2]);
        let a = flags!(m.iter_rows_mut());
        let b = flags!(m.iter_cols_mut());
        let c = flags!(m.iter_rows_mut().next().unwrap());
        let d = flags!(m.iter_cols_mut().next().unwrap());
        let e = flags!(m.iter_elements_mut());
        let f = flags!(m.iter_nth_row_mut(0).unwrap());
        format!("{a}{b}{c}{d}{e}{f}")
    };
    let neither = for_type!(Rc<i32>, Rc::new(1));
    format!("[{both},{send_only},{sync_only},{neither}]")
}
