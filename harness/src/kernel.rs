//! `K` cases: single calls with extreme arguments (size / capacity decisions, index kernel),
//! run against the real crate; the same lines are evaluated by the extracted model.

use crate::hist::{err_name, panic_class};
#[cfg(feature = "parallel")]
use matreex::parallel::*;
use matreex::{Error, Matrix, Order};
use std::alloc::{GlobalAlloc, Layout, System};
use std::panic::{AssertUnwindSafe, catch_unwind};
use std::sync::atomic::{AtomicUsize, Ordering::SeqCst};

/// records the largest single allocation request, so that "a failing call does not attempt the allocation" is observable
pub struct CountingAlloc;
pub static MAX_REQUEST: AtomicUsize = AtomicUsize::new(0);

unsafe impl GlobalAlloc for CountingAlloc {
    unsafe fn alloc(&self, layout: Layout) -> *mut u8 {
        MAX_REQUEST.fetch_max(layout.size(), SeqCst);
        unsafe { System.alloc(layout) }
    }
    unsafe fn dealloc(&self, ptr: *mut u8, layout: Layout) {
        unsafe { System.dealloc(ptr, layout) }
    }
    unsafe fn realloc(&self, ptr: *mut u8, layout: Layout, new_size: usize) -> *mut u8 {
        MAX_REQUEST.fetch_max(new_size, SeqCst);
        unsafe { System.realloc(ptr, layout, new_size) }
    }
    unsafe fn alloc_zeroed(&self, layout: Layout) -> *mut u8 {
        MAX_REQUEST.fetch_max(layout.size(), SeqCst);
        unsafe { System.alloc_zeroed(layout) }
    }
}

fn ord(o: i128) -> Order {
    if o == 0 { Order::RowMajor } else { Order::ColMajor }
}

fn shape_obs<T>(r: Result<Matrix<T>, Error>) -> String {
    match r {
        Ok(m) => {
            let s = format!("Some([{},{},{}])", m.nrows(), m.ncols(), m.size());
            // never run the destructor loop of a huge zero-sized matrix element by element
            std::mem::forget(m);
            s
        }
        Err(e) => format!("Err({})", err_name(e)),
    }
}

/// runs `$body` with `$t` bound to the plain element type of the given size
macro_rules! with_type {
    ($es:expr, $t:ident => $body:expr) => {
        match $es {
            0 => {
                type $t = ();
                $body
            }
            1 => {
                type $t = u8;
                $body
            }
            2 => {
                type $t = u16;
                $body
            }
            4 => {
                type $t = u32;
                $body
            }
            8 => {
                type $t = u64;
                $body
            }
            16 => {
                type $t = u128;
                $body
            }
            24 => {
                type $t = [u64; 3];
                $body
            }
            _ => "INVALID".to_string(),
        }
    };
}

fn ctor<T: Default + Clone>(which: i128, r: usize, c: usize) -> String {
    match which {
        0 => shape_obs(Matrix::<T>::with_default((r, c))),
        1 => shape_obs(Matrix::<T>::with_value((r, c), T::default())),
        2 => shape_obs(Matrix::<T>::with_initializer((r, c), |_| T::default())),
        3 | 4 => {
            let mut m = Matrix::<T>::new();
            if which == 4 {
                m.switch_order();
            }
            let r = m.resize((r, c)).map(|_| ());
            match r {
                Ok(()) => shape_obs(Ok(m)),
                Err(e) => {
                    if m.size() != 0 || m.nrows() != 0 || m.ncols() != 0 {
                        return format!("Err({})+changed", err_name(e));
                    }
                    format!("Err({})", err_name(e))
                }
            }
        }
        5 => {
            // TryFrom<Vec<Vec<T>>>: r rows of c elements (only cheap for zero-sized T or small c)
            let rows: Vec<Vec<T>> = (0..r).map(|_| vec![T::default(); c]).collect();
            shape_obs(Matrix::<T>::try_from(rows))
        }
        6 => {
            let rows: Vec<Vec<T>> = (0..r).map(|_| vec![T::default(); c]).collect();
            shape_obs(Matrix::<T>::try_from(rows.as_slice()))
        }
        _ => "INVALID".to_string(),
    }
}

fn source<T: Default + Clone>(r0: usize, c0: usize, order: i128) -> Matrix<T> {
    let mut m = Matrix::<T>::with_value((r0, c0), T::default()).expect("source matrix");
    if order != 0 {
        m.switch_order();
    }
    m
}

fn reshape<T: Default + Clone>(r0: usize, c0: usize, order: i128, r: usize, c: usize) -> String {
    let mut m = source::<T>(r0, c0, order);
    let res = m.reshape((r, c)).map(|_| ());
    let s = match res {
        Ok(()) => format!("Some([{},{},{}])", m.nrows(), m.ncols(), m.size()),
        Err(e) => {
            if (m.nrows(), m.ncols()) != (r0, c0) {
                format!("Err({})+changed", err_name(e))
            } else {
                format!("Err({})", err_name(e))
            }
        }
    };
    std::mem::forget(m);
    s
}

fn mapfam<S: Default + Clone + Send + Sync, U: Default + Send>(which: i128, size: usize) -> String {
    let m = source::<S>(1, size, 0);
    let r = match which {
        0 => shape_obs(m.map(|_| U::default())),
        1 => {
            let r = shape_obs(m.map_ref(|_| U::default()));
            std::mem::forget(m);
            r
        }
        2 => {
            let r = shape_obs(m.scalar_operation(&0u8, |_, _| U::default()));
            std::mem::forget(m);
            r
        }
        3 => shape_obs(m.scalar_operation_consume_self(&0u8, |_, _| U::default())),
        4 => {
            let r = shape_obs(m.elementwise_operation(&m, |_, _| U::default()));
            std::mem::forget(m);
            r
        }
        5 => {
            let rhs = source::<S>(1, size, 0);
            let r = shape_obs(m.elementwise_operation_consume_self(&rhs, |_, _| U::default()));
            std::mem::forget(rhs);
            r
        }
        #[cfg(feature = "parallel")]
        6 => shape_obs(m.par_map(|_| U::default())),
        #[cfg(feature = "parallel")]
        7 => {
            let r = shape_obs(m.par_map_ref(|_| U::default()));
            std::mem::forget(m);
            r
        }
        _ => "INVALID".to_string(),
    };
    r
}

fn multiply_k0<T>(n: usize, m: usize, o1: i128, o2: i128) -> String
where
    T: Default + Clone + std::ops::Mul<Output = T> + std::ops::Add<Output = T>,
{
    let a = source::<T>(n, 0, o1);
    let b = source::<T>(0, m, o2);
    shape_obs(a.multiply(b))
}

// element types whose product has a different size: B1 * B1 = B8, B8w * B8w = B1w, Z0 * Z0 = B8, B8z * B8z = Z0o
#[derive(Clone, Default)]
struct B1(#[allow(dead_code)] u8);
#[derive(Clone, Default)]
struct B8(u64);
impl std::ops::Mul for B1 {
    type Output = B8;
    fn mul(self, _: B1) -> B8 {
        B8(1)
    }
}
impl std::ops::Add for B8 {
    type Output = B8;
    fn add(self, o: B8) -> B8 {
        B8(self.0 + o.0)
    }
}
#[derive(Clone, Default)]
struct W8(#[allow(dead_code)] u64);
#[derive(Clone, Default)]
struct S1(u8);
impl std::ops::Mul for W8 {
    type Output = S1;
    fn mul(self, _: W8) -> S1 {
        S1(1)
    }
}
impl std::ops::Add for S1 {
    type Output = S1;
    fn add(self, o: S1) -> S1 {
        S1(self.0.wrapping_add(o.0))
    }
}
#[derive(Clone, Default)]
struct Z0;
impl std::ops::Mul for Z0 {
    type Output = B8;
    fn mul(self, _: Z0) -> B8 {
        B8(1)
    }
}
#[derive(Clone, Default)]
struct W8z(#[allow(dead_code)] u64);
#[derive(Clone, Default)]
struct Z0o;
impl std::ops::Mul for W8z {
    type Output = Z0o;
    fn mul(self, _: W8z) -> Z0o {
        Z0o
    }
}
impl std::ops::Add for Z0o {
    type Output = Z0o;
    fn add(self, _: Z0o) -> Z0o {
        Z0o
    }
}

fn multiply_mixed_k0<L, U>(n: usize, m: usize, o1: i128, o2: i128) -> String
where
    L: Default + Clone + std::ops::Mul<Output = U>,
    U: Default + std::ops::Add<Output = U>,
{
    let a = source::<L>(n, 0, o1);
    let b = source::<L>(0, m, o2);
    shape_obs(a.multiply(b))
}

fn mul_like_k0<T: Default + Clone>(n: usize, m: usize, o1: i128, o2: i128) -> String {
    let a = source::<T>(n, 0, o1);
    let b = source::<T>(0, m, o2);
    shape_obs(a.multiplication_like_operation(b, |_: &[T], _: &[T]| T::default()))
}

/// huge zero-sized matrices through the mutable vector iterators: `al` selects the alignment of the element type,
/// the matrix is nrows x ncols (one of them may be up to usize::MAX), `axis` 0 = iter_rows_mut, 1 = iter_cols_mut
fn itermut_zst(al: i128, nrows: usize, ncols: usize, order: i128, axis: i128, script: &[i128]) -> String {
    fn go<T: Clone>(elem: T, nrows: usize, ncols: usize, order: i128, axis: i128, script: &[i128]) -> String {
        let n = nrows.checked_mul(ncols).expect("element count");
        let mut m = Matrix::from_row(vec![elem; n]);
        if m.reshape((nrows, ncols)).is_err() {
            return "INVALID".to_string();
        }
        if order != 0 {
            m.switch_order();
        }
        matreex::verif_hooks::start_ptr_recording();
        let out = if axis == 0 {
            crate::hist::run_nested_pub(m.iter_rows_mut(), script, |_x: &mut T| "()".to_string())
        } else {
            crate::hist::run_nested_pub(m.iter_cols_mut(), script, |_x: &mut T| "()".to_string())
        };
        let events = matreex::verif_hooks::take_ptr_events();
        let null = events.iter().any(|(_, a)| *a == 0);
        std::mem::forget(m);
        format!("{out}{}", if null { "+null-pointer-formed" } else { "" })
    }
    match al {
        1 => go((), nrows, ncols, order, axis, script),
        2 => go([0u16; 0], nrows, ncols, order, axis, script),
        4 => go([0u32; 0], nrows, ncols, order, axis, script),
        8 => go([0u64; 0], nrows, ncols, order, axis, script),
        _ => "INVALID".to_string(),
    }
}

/// the three `*_with_index` parallel iterators over a lane of `n` zero-sized elements (n may exceed 2^32): number of items,
/// number of items whose index lies outside the matrix, and the wrapping sum of row + col over all items
#[cfg(feature = "parallel")]
fn par_idx_zst(n: usize, order: i128, which: i128) -> String {
    use rayon::iter::ParallelIterator;
    let mut m = Matrix::from_row(vec![(); n]);
    if order != 0 {
        m.switch_order_without_rearrangement(); // the same lane as an n x 1 column-major matrix
    }
    let (nr, nc) = (m.nrows(), m.ncols());
    let acc = |ix: matreex::Index| -> (u64, u64, u64) { (1, (ix.row >= nr || ix.col >= nc) as u64, (ix.row as u64).wrapping_add(ix.col as u64)) };
    let add = |a: (u64, u64, u64), b: (u64, u64, u64)| (a.0 + b.0, a.1 + b.1, a.2.wrapping_add(b.2));
    let r = match which {
        0 => m.par_iter_elements_with_index().map(|(ix, _)| acc(ix)).reduce(|| (0, 0, 0), add),
        1 => m.par_iter_elements_mut_with_index().map(|(ix, _)| acc(ix)).reduce(|| (0, 0, 0), add),
        _ => {
            let r = m.into_par_iter_elements_with_index().map(|(ix, _)| acc(ix)).reduce(|| (0, 0, 0), add);
            return format!("[{},{},{}]", r.0, r.1, r.2);
        }
    };
    std::mem::forget(m);
    format!("[{},{},{}]", r.0, r.1, r.2)
}
#[cfg(not(feature = "parallel"))]
fn par_idx_zst(_: usize, _: i128, _: i128) -> String {
    "INVALID".to_string()
}

fn text(s: &str) -> String {
    format!("S:{}", s.chars().map(|c| (c as u32).to_string()).collect::<Vec<_>>().join("."))
}

pub fn run_k(toks: &[&str]) -> String {
    let name = toks[0];
    let a: Vec<i128> = toks[1..].iter().map(|t| t.parse().expect("integer")).collect();
    let u = |i: usize| a[i] as usize;
    MAX_REQUEST.store(0, SeqCst);
    let r = catch_unwind(AssertUnwindSafe(|| match name {
        "check_size" => with_type!(a[0], T => match matreex::verif_hooks::check_size::<T>(u(1)) {
            Ok(n) => format!("Some({n})"),
            Err(e) => format!("Err({})", err_name(e)),
        }),
        "try_to_axis_shape" => match matreex::verif_hooks::try_to_axis_shape(u(0), u(1), ord(a[2])) {
            Ok((mj, mn)) => format!("Some([{mj},{mn}])"),
            Err(e) => format!("Err({})", err_name(e)),
        },
        "ctor" => with_type!(a[1], T => ctor::<T>(a[0], u(2), u(3))),
        "reshape" => with_type!(a[0], T => reshape::<T>(u(1), u(2), a[3], u(4), u(5))),
        "mapfam" => {
            let (which, es_src, es_dst, size) = (a[0], a[1], a[2], u(3));
            with_type!(es_src, S => with_type!(es_dst, U => mapfam::<S, U>(which, size)))
        }
        "multiply" => match a[0] {
            1 => multiply_k0::<u8>(u(1), u(2), a[3], a[4]),
            8 => multiply_k0::<u64>(u(1), u(2), a[3], a[4]),
            16 => multiply_k0::<u128>(u(1), u(2), a[3], a[4]),
            _ => "INVALID".to_string(),
        },
        "multiply_mixed" => match (a[0], a[1]) {
            (1, 8) => multiply_mixed_k0::<B1, B8>(u(2), u(3), a[4], a[5]),
            (8, 1) => multiply_mixed_k0::<W8, S1>(u(2), u(3), a[4], a[5]),
            (0, 8) => multiply_mixed_k0::<Z0, B8>(u(2), u(3), a[4], a[5]),
            (8, 0) => multiply_mixed_k0::<W8z, Z0o>(u(2), u(3), a[4], a[5]),
            _ => "INVALID".to_string(),
        },
        "mul_like" => with_type!(a[0], T => mul_like_k0::<T>(u(1), u(2), a[3], a[4])),
        "zst_swap" => {
            // swap_rows (which = 0) / swap_cols (1) on an nrows x ncols matrix of `()`
            let mut m = Matrix::<()>::with_value((u(1), u(2)), ()).expect("zero-sized matrix");
            if a[3] != 0 {
                m.switch_order();
            }
            let r = if a[0] == 0 { m.swap_rows(u(4), u(5)).map(|_| ()) } else { m.swap_cols(u(4), u(5)).map(|_| ()) };
            match r {
                Ok(()) => "()".to_string(),
                Err(e) => format!("Err({})", err_name(e)),
            }
        }
        "autotraits" => text(&crate::traits::autotraits()),
        "scalar_forms" => text(&crate::scalar::scalar_forms(a[0], a[1], a.get(2).copied().unwrap_or(0))),
        "scalar_neg" => text(&crate::scalar::scalar_neg(a[0])),
        "itermut_zst" => itermut_zst(a[0], u(1), u(2), a[3], a[4], &a[5..]),
        "par_idx_zst" => par_idx_zst(u(0), a[1], a[2]),
        "from_wrapping" => {
            let (mj, mn) = matreex::verif_hooks::from_wrapping_index(a[0] as isize, a[1] as isize, ord(a[2]), u(3), u(4));
            format!("[{mj},{mn}]")
        }
        "index_from_flattened" => {
            let (r, c) = matreex::verif_hooks::index_from_flattened(u(0), ord(a[1]), u(2), u(3));
            format!("[{r},{c}]")
        }
        "index_to_flattened" => format!("{}", matreex::verif_hooks::index_to_flattened(u(0), u(1), ord(a[2]), u(3), u(4))),
        _ => "INVALID".to_string(),
    }));
    let obs = match r {
        Ok(s) => s,
        Err(p) => panic_class(p),
    };
    format!("{obs} maxalloc={}", MAX_REQUEST.load(SeqCst))
}
