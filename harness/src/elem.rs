//! Instrumented element types and the global ledger / fault injector.

use std::collections::HashSet;
use std::fmt;
use std::ops::*;
use std::sync::Mutex;
use std::sync::atomic::{AtomicBool, AtomicI64, AtomicU64, Ordering::SeqCst};

// ---------- ledger ----------
pub static NEXT_ID: AtomicU64 = AtomicU64::new(1);
pub static CREATED: AtomicI64 = AtomicI64::new(0);
pub static CLONED: AtomicI64 = AtomicI64::new(0);
pub static DROPPED: AtomicI64 = AtomicI64::new(0);
pub static ZD_LIVE: AtomicI64 = AtomicI64::new(0);
pub static BAD: Mutex<Vec<String>> = Mutex::new(Vec::new());
static LIVE_IDS: Mutex<Option<HashSet<u64>>> = Mutex::new(None);

const MAGIC: u64 = 0x5EED_C0DE_CAFE_F00D;
const DEAD: u64 = 0xDEAD_DEAD_DEAD_DEAD;

pub fn flag(msg: String) {
    let mut bad = BAD.lock().unwrap_or_else(|e| e.into_inner());
    if bad.len() < 16 {
        bad.push(msg);
    }
}

pub fn take_flags() -> Vec<String> {
    std::mem::take(&mut *BAD.lock().unwrap_or_else(|e| e.into_inner()))
}

pub fn live_count() -> i64 {
    let guard = LIVE_IDS.lock().unwrap_or_else(|e| e.into_inner());
    guard.as_ref().map_or(0, |s| s.len() as i64) + ZD_LIVE.load(SeqCst)
}

pub fn reset_ledger() {
    *LIVE_IDS.lock().unwrap_or_else(|e| e.into_inner()) = Some(HashSet::new());
    ZD_LIVE.store(0, SeqCst);
    CREATED.store(0, SeqCst);
    CLONED.store(0, SeqCst);
    DROPPED.store(0, SeqCst);
    take_flags();
}

fn register(id: u64) {
    let mut guard = LIVE_IDS.lock().unwrap_or_else(|e| e.into_inner());
    if !guard.get_or_insert_with(HashSet::new).insert(id) {
        drop(guard);
        flag(format!("id {id} created twice"));
    }
}

fn unregister(id: u64) -> bool {
    let mut guard = LIVE_IDS.lock().unwrap_or_else(|e| e.into_inner());
    guard.get_or_insert_with(HashSet::new).remove(&id)
}

// ---------- fault injection: the k-th invocation of caller code panics ----------
pub static TICKS: AtomicI64 = AtomicI64::new(0);
pub static FAULT_AT: AtomicI64 = AtomicI64::new(-1);
pub static FAULT_FIRED: AtomicBool = AtomicBool::new(false);
pub static FAULT_KIND: Mutex<String> = Mutex::new(String::new());
/// bit mask of the kinds of caller code that may fault (see KIND_*)
pub static FAULT_MASK: AtomicI64 = AtomicI64::new(!0);

pub const KIND_DEFAULT: i64 = 1;
pub const KIND_CLONE: i64 = 2;
pub const KIND_DROP: i64 = 4;
pub const KIND_EQ: i64 = 8;
pub const KIND_FMT: i64 = 16;
pub const KIND_OP: i64 = 32;
pub const KIND_CLOSURE: i64 = 64;
pub const KIND_ACCESSOR: i64 = 128;

pub fn arm_fault(k: i64, mask: i64) {
    TICKS.store(0, SeqCst);
    FAULT_FIRED.store(false, SeqCst);
    FAULT_MASK.store(mask, SeqCst);
    FAULT_AT.store(k, SeqCst);
}

pub fn disarm_fault() -> (i64, bool) {
    FAULT_AT.store(-1, SeqCst);
    (TICKS.swap(0, SeqCst), FAULT_FIRED.swap(false, SeqCst))
}

pub fn tick(kind: i64, name: &str) {
    let at = FAULT_AT.load(SeqCst);
    if at < 0 || FAULT_MASK.load(SeqCst) & kind == 0 {
        return;
    }
    if kind == KIND_DROP && std::thread::panicking() {
        return;
    }
    let n = TICKS.fetch_add(1, SeqCst) + 1;
    if n == at {
        FAULT_FIRED.store(true, SeqCst);
        *FAULT_KIND.lock().unwrap_or_else(|e| e.into_inner()) = name.to_string();
        panic!("injected fault");
    }
}

// ---------- expressions ----------
#[derive(Clone, PartialEq, Debug)]
pub enum Expr {
    Atom(i64),
    Dflt,
    Bin(i64, Box<Expr>, Box<Expr>),
    Un(i64, Box<Expr>),
}

impl Expr {
    pub fn show(&self) -> String {
        match self {
            Expr::Atom(v) => format!("a{v}"),
            Expr::Dflt => "D".to_string(),
            Expr::Bin(o, l, r) => format!("(B{o} {} {})", l.show(), r.show()),
            Expr::Un(f, e) => format!("(U{f} {})", e.show()),
        }
    }

    /// the Display text of the instrumented element (mirrors Model/Fmt.v `render`)
    pub fn render(&self) -> String {
        const TABLE: [&str; 14] = [
            "",
            "x",
            "ab\ncd",
            "\u{e9}",
            "\u{65e5}\u{672c}",
            "a\n",
            "\n",
            "a\r\nb",
            "wide-wide-wide",
            "  s",
            "\n\nq",
            "a\r",
            "q\nwww\ne",
            "\u{1f600}",
        ];
        match self {
            Expr::Atom(v) if (1000..1000 + TABLE.len() as i64).contains(v) => TABLE[(*v - 1000) as usize].to_string(),
            Expr::Atom(v) => format!("{v}"),
            Expr::Dflt => "D".to_string(),
            Expr::Bin(o, l, r) => format!("(B{o} {} {})", l.render(), r.render()),
            Expr::Un(f, e) => format!("(U{f} {})", e.render()),
        }
    }
}

// ---------- the element trait used by the history interpreter ----------
pub trait Elem:
    Clone
    + Default
    + PartialEq
    + fmt::Display
    + fmt::Debug
    + Send
    + Sync
    + 'static
    + Add<Output = Self>
    + Sub<Output = Self>
    + Mul<Output = Self>
    + Div<Output = Self>
    + Rem<Output = Self>
    + Neg<Output = Self>
    + AddAssign
    + SubAssign
    + MulAssign
    + DivAssign
    + RemAssign
{
    const NAME: &'static str;
    fn atom(v: i64) -> Self;
    fn un(f: i64, e: Self) -> Self;
    fn bin(o: i64, l: Self, r: Self) -> Self;
    fn show(&self) -> String;
}

// ---------- Tr: heap-owning, drop-tracked, symbolic ----------
pub struct Tr {
    pub e: Expr,
    id: u64,
    magic: u64,
}

impl Tr {
    fn make(e: Expr) -> Self {
        let id = NEXT_ID.fetch_add(1, SeqCst);
        register(id);
        CREATED.fetch_add(1, SeqCst);
        Tr { e, id, magic: MAGIC }
    }

    fn check(&self, what: &str) {
        if self.magic != MAGIC {
            flag(format!("{what} of a dead or uninitialised element (magic {:#x})", self.magic));
        }
    }

    /// takes the expression out; the shell is dropped normally
    fn take_expr(mut self) -> Expr {
        self.check("use");
        std::mem::replace(&mut self.e, Expr::Dflt)
    }
}

impl Drop for Tr {
    fn drop(&mut self) {
        if self.magic == DEAD {
            flag(format!("double drop of id {}", self.id));
            return;
        }
        if self.magic != MAGIC {
            flag(format!("drop of an uninitialised element (magic {:#x})", self.magic));
            return;
        }
        if !unregister(self.id) {
            flag(format!("drop of unknown id {}", self.id));
        }
        self.magic = DEAD;
        DROPPED.fetch_add(1, SeqCst);
        tick(KIND_DROP, "Drop");
    }
}

impl Clone for Tr {
    fn clone(&self) -> Self {
        self.check("clone");
        tick(KIND_CLONE, "Clone");
        CLONED.fetch_add(1, SeqCst);
        Tr::make(self.e.clone())
    }
}

impl Default for Tr {
    fn default() -> Self {
        tick(KIND_DEFAULT, "Default");
        Tr::make(Expr::Dflt)
    }
}

impl PartialEq for Tr {
    fn eq(&self, other: &Self) -> bool {
        self.check("eq");
        other.check("eq");
        tick(KIND_EQ, "Eq");
        self.e == other.e
    }
}

impl fmt::Display for Tr {
    fn fmt(&self, f: &mut fmt::Formatter<'_>) -> fmt::Result {
        self.check("fmt");
        tick(KIND_FMT, "Fmt");
        write!(f, "{}", self.e.render())
    }
}

impl fmt::Debug for Tr {
    fn fmt(&self, f: &mut fmt::Formatter<'_>) -> fmt::Result {
        self.check("fmt");
        tick(KIND_FMT, "Fmt");
        write!(f, "#{}", self.e.render())
    }
}

macro_rules! tr_binop {
    ($tr:ident, $m:ident, $tra:ident, $ma:ident, $code:expr) => {
        impl $tr for Tr {
            type Output = Tr;
            fn $m(self, rhs: Tr) -> Tr {
                tick(KIND_OP, "Op");
                let l = self.take_expr();
                let r = rhs.take_expr();
                Tr::make(Expr::Bin($code, Box::new(l), Box::new(r)))
            }
        }
        impl $tra for Tr {
            fn $ma(&mut self, rhs: Tr) {
                self.check("op-assign");
                tick(KIND_OP, "Op");
                let l = std::mem::replace(&mut self.e, Expr::Dflt);
                let r = rhs.take_expr();
                self.e = Expr::Bin($code, Box::new(l), Box::new(r));
            }
        }
    };
}
tr_binop!(Add, add, AddAssign, add_assign, 0);
tr_binop!(Sub, sub, SubAssign, sub_assign, 1);
tr_binop!(Mul, mul, MulAssign, mul_assign, 2);
tr_binop!(Div, div, DivAssign, div_assign, 3);
tr_binop!(Rem, rem, RemAssign, rem_assign, 4);

impl Neg for Tr {
    type Output = Tr;
    fn neg(self) -> Tr {
        tick(KIND_OP, "Op");
        let e = self.take_expr();
        Tr::make(Expr::Un(0, Box::new(e)))
    }
}

impl Elem for Tr {
    const NAME: &'static str = "tr";
    fn atom(v: i64) -> Self {
        Tr::make(Expr::Atom(v))
    }
    fn un(f: i64, e: Self) -> Self {
        let e = e.take_expr();
        Tr::make(Expr::Un(f, Box::new(e)))
    }
    fn bin(o: i64, l: Self, r: Self) -> Self {
        let l = l.take_expr();
        let r = r.take_expr();
        Tr::make(Expr::Bin(o, Box::new(l), Box::new(r)))
    }
    fn show(&self) -> String {
        self.check("show");
        self.e.show()
    }
}

// ---------- Unit: zero-sized, no drop glue ----------
#[derive(Clone, Copy, Default, PartialEq, Debug)]
pub struct Unit;

// ---------- Zd: zero-sized with drop glue (counted) ----------
#[derive(PartialEq, Debug)]
pub struct Zd;
impl Zd {
    fn make() -> Self {
        ZD_LIVE.fetch_add(1, SeqCst);
        CREATED.fetch_add(1, SeqCst);
        Zd
    }
}
impl Default for Zd {
    fn default() -> Self {
        tick(KIND_DEFAULT, "Default");
        Zd::make()
    }
}
impl Clone for Zd {
    fn clone(&self) -> Self {
        tick(KIND_CLONE, "Clone");
        CLONED.fetch_add(1, SeqCst);
        Zd::make()
    }
}
impl Drop for Zd {
    fn drop(&mut self) {
        if ZD_LIVE.fetch_sub(1, SeqCst) <= 0 {
            flag("zero-sized element dropped more often than created".to_string());
        }
        DROPPED.fetch_add(1, SeqCst);
    }
}

// ---------- W24: 24 bytes, align 8, no drop glue, value in the first word ----------
#[derive(Clone, Copy, Default, PartialEq, Debug)]
pub struct W24(pub [u64; 3]);

macro_rules! trivial_elem {
    ($t:ident, $name:expr, $mk:expr, $show:expr, $un:expr) => {
        impl fmt::Display for $t {
            fn fmt(&self, f: &mut fmt::Formatter<'_>) -> fmt::Result {
                write!(f, "{}", self.show())
            }
        }
        impl Neg for $t {
            type Output = $t;
            fn neg(self) -> $t {
                self
            }
        }
        trivial_elem!(@op $t, Add, add, AddAssign, add_assign);
        trivial_elem!(@op $t, Sub, sub, SubAssign, sub_assign);
        trivial_elem!(@op $t, Mul, mul, MulAssign, mul_assign);
        trivial_elem!(@op $t, Div, div, DivAssign, div_assign);
        trivial_elem!(@op $t, Rem, rem, RemAssign, rem_assign);
        impl Elem for $t {
            const NAME: &'static str = $name;
            fn atom(v: i64) -> Self {
                ($mk)(v)
            }
            fn un(f: i64, e: Self) -> Self {
                ($un)(f, e)
            }
            fn bin(_o: i64, l: Self, _r: Self) -> Self {
                l
            }
            fn show(&self) -> String {
                ($show)(self)
            }
        }
    };
    (@op $t:ident, $tr:ident, $m:ident, $tra:ident, $ma:ident) => {
        impl $tr for $t {
            type Output = $t;
            fn $m(self, _rhs: $t) -> $t {
                self
            }
        }
        impl $tra for $t {
            fn $ma(&mut self, _rhs: $t) {}
        }
    };
}
// ---------- B1: one byte, no drop glue (pointer arithmetic in bytes == in elements) ----------
#[derive(Clone, Copy, Default, PartialEq, Debug)]
pub struct B1(pub u8);

// ---------- Pn: 8 bytes, NO drop glue, but Default / Clone / PartialEq are caller code that can fault ----------
#[derive(Debug)]
pub struct Pn(pub i64);
impl Clone for Pn {
    fn clone(&self) -> Self {
        tick(KIND_CLONE, "Clone");
        Pn(self.0)
    }
}
impl Default for Pn {
    fn default() -> Self {
        tick(KIND_DEFAULT, "Default");
        Pn(0)
    }
}
impl PartialEq for Pn {
    fn eq(&self, other: &Self) -> bool {
        tick(KIND_EQ, "Eq");
        self.0 == other.0
    }
}

trivial_elem!(Unit, "unit", |_v: i64| Unit, |_s: &Unit| "_".to_string(), |_f: i64, e: Unit| e);
trivial_elem!(Zd, "zd", |_v: i64| Zd::make(), |_s: &Zd| "_".to_string(), |_f: i64, e: Zd| e);
trivial_elem!(W24, "w24", |v: i64| W24([v as u64, 0x1111, 0x2222]), |s: &W24| {
    if s.0[1] != 0x1111 && s.0 != [0, 0, 0] {
        flag("W24 payload corrupted".to_string());
    }
    format!("a{}", s.0[0] as i64)
}, |f: i64, e: W24| W24([(e.0[0] as i64 + 1_000_000 * (f - 9)) as u64, e.0[1], e.0[2]]));
trivial_elem!(B1, "b1", |v: i64| B1(v as u8), |s: &B1| format!("a{}", s.0), |f: i64, e: B1| B1((e.0 as i64 + 37 * (f - 9)) as u8));
trivial_elem!(Pn, "pn", |v: i64| Pn(v), |s: &Pn| format!("a{}", s.0), |f: i64, e: Pn| Pn(e.0 + 1_000_000 * (f - 9)));
