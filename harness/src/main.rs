//! Correspondence harness for matreex: runs case files against the real crate.
mod elem;
mod hist;
mod kernel;
mod scalar;
mod traits;

#[global_allocator]
static ALLOC: kernel::CountingAlloc = kernel::CountingAlloc;

use elem::*;
use hist::*;
use std::io::{BufRead, Write};

pub static PROGRESS: std::sync::atomic::AtomicU64 = std::sync::atomic::AtomicU64::new(0);

fn main() {
    // panics are part of the observed behaviour; keep stderr quiet
    std::panic::set_hook(Box::new(|_| {}));
    // watchdog: a single case that makes no progress for 20 s (an endless loop in the code under test) ends the process;
    // the orchestrator records the in-flight case as crashed and resumes behind it
    std::thread::spawn(|| {
        let mut last = PROGRESS.load(std::sync::atomic::Ordering::SeqCst);
        let mut stuck = 0;
        loop {
            std::thread::sleep(std::time::Duration::from_secs(1));
            let now = PROGRESS.load(std::sync::atomic::Ordering::SeqCst);
            if now == last {
                stuck += 1;
                if stuck >= 20 {
                    eprintln!("watchdog: no progress for 20 s");
                    std::process::abort();
                }
            } else {
                stuck = 0;
                last = now;
            }
        }
    });
    let args: Vec<String> = std::env::args().collect();
    let path = args.get(1).expect("usage: mxh <cases> [from-case-index]");
    let from: usize = args.get(2).map_or(0, |s| s.parse().unwrap());
    let file = std::fs::File::open(path).expect("case file");
    let stdout = std::io::stdout();
    let mut w = std::io::LineWriter::new(stdout.lock());
    let mut header: Option<Vec<String>> = None;
    let mut ops: Vec<WireOp> = Vec::new();
    let mut case_no = 0usize;
    for line in std::io::BufReader::new(file).lines() {
        let line = line.unwrap();
        PROGRESS.fetch_add(1, std::sync::atomic::Ordering::SeqCst);
        let toks: Vec<&str> = line.split_whitespace().collect();
        match toks.first().copied() {
            Some("H") => {
                header = Some(toks.iter().map(|s| s.to_string()).collect());
                ops.clear();
            }
            Some("O") => ops.push(parse_op(&toks[1..])),
            Some("X") => ops.push(WireOp {
                code: 900,
                name: "fault".to_string(),
                a: toks[1..].iter().map(|t| t.parse().unwrap()).collect(),
                rows: vec![],
            }),
            Some("K") => {
                // K id debug fn args...
                case_no += 1;
                if case_no <= from {
                    continue;
                }
                writeln!(w, "B {}", toks[1]).unwrap();
                writeln!(w, "K {} {}", toks[1], kernel::run_k(&toks[3..])).unwrap();
            }
            Some("E") => {
                let h = header.take().expect("E without H");
                case_no += 1;
                if case_no <= from {
                    continue;
                }
                // H id es debug elem threads delay
                let id = &h[1];
                let elem = h.get(4).map_or("tr", |s| s.as_str());
                let threads: usize = h.get(5).map_or(0, |s| s.parse().unwrap());
                let delay: i64 = h.get(6).map_or(0, |s| s.parse().unwrap());
                #[cfg(feature = "parallel")]
                let ctx = Ctx {
                    threads,
                    delay,
                    tpool: if threads > 0 { Some(rayon::ThreadPoolBuilder::new().num_threads(threads).build().unwrap()) } else { None },
                };
                #[cfg(not(feature = "parallel"))]
                let ctx = Ctx { threads, delay };
                writeln!(w, "B {id}").unwrap();
                match elem {
                    "tr" => run_history::<Tr>(id, &ops, &ctx, &mut w),
                    "unit" => run_history::<Unit>(id, &ops, &ctx, &mut w),
                    "zd" => run_history::<Zd>(id, &ops, &ctx, &mut w),
                    "w24" => run_history::<W24>(id, &ops, &ctx, &mut w),
                    "b1" => run_history::<B1>(id, &ops, &ctx, &mut w),
                    "pn" => run_history::<Pn>(id, &ops, &ctx, &mut w),
                    other => panic!("unknown element type {other}"),
                }
                w.flush().unwrap();
            }
            _ => {}
        }
    }
}
