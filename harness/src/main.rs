//! Correspondence harness for matreex: runs case files against the real crate.
mod elem;
mod hist;
mod kernel;
mod scalar;
mod traits;

#[global_allocator]
static ALLOC: kernel::CountingAlloc = kernel::CountingAlloc;

use elem::*;
use hist::*;
use std::io::{BufRead, Write};

fn main() {
    // panics are part of the observed behaviour; keep stderr quiet
    std::panic::set_hook(Box::new(|_| {}));
    let args: Vec<String> = std::env::args().collect();
    let path = args.get(1).expect("usage: mxh <cases> [from-case-index]");
    let from: usize = args.get(2).map_or(0, |s| s.parse().unwrap());
    let file = std::fs::File::open(path).expect("case file");
    let stdout = std::io::stdout();
    let mut w = std::io::LineWriter::new(stdout.lock());
    let mut header: Option<Vec<String>> = None;
    let mut ops: Vec<WireOp> = Vec::new();
    let mut case_no = 0usize;
    for line in std::io::BufReader::new(file).lines() {
        let line = line.unwrap();
        let toks: Vec<&str> = line.split_whitespace().collect();
        match toks.first().copied() {
            Some("H") => {
                header = Some(toks.iter().map(|s| s.to_string()).collect());
                ops.clear();
            }
            Some("O") => ops.push(parse_op(&toks[1..])),
            Some("X") => ops.push(WireOp {
                code: 900,
                name: "fault".to_string(),
                a: toks[1..].iter().map(|t| t.parse().unwrap()).collect(),
                rows: vec![],
            }),
            Some("K") => {
                // K id debug fn args...
                writeln!(w, "K {} {}", toks[1], kernel::run_k(&toks[3..])).unwrap();
            }
            Some("E") => {
                let h = header.take().expect("E without H");
                case_no += 1;
                if case_no <= from {
                    continue;
                }
                // H id es debug elem threads delay
                let id = &h[1];
                let elem = h.get(4).map_or("tr", |s| s.as_str());
                let threads: usize = h.get(5).map_or(0, |s| s.parse().unwrap());
                let delay: i64 = h.get(6).map_or(0, |s| s.parse().unwrap());
                let tpool = if threads > 0 {
                    Some(rayon::ThreadPoolBuilder::new().num_threads(threads).build().unwrap())
                } else {
                    None
                };
                let ctx = Ctx { threads, delay, tpool };
                writeln!(w, "B {id}").unwrap();
                match elem {
                    "tr" => run_history::<Tr>(id, &ops, &ctx, &mut w),
                    "unit" => run_history::<Unit>(id, &ops, &ctx, &mut w),
                    "zd" => run_history::<Zd>(id, &ops, &ctx, &mut w),
                    "w24" => run_history::<W24>(id, &ops, &ctx, &mut w),
                    other => panic!("unknown element type {other}"),
                }
                w.flush().unwrap();
            }
            _ => {}
        }
    }
}
