//! The operation-history interpreter: runs the wire operations of
//! coq/Model/Decode.v against the real crate and prints canonical observations.

use crate::elem::*;
use matreex::index::AsIndex;
use matreex::iter::ExactSizeDoubleEndedIterator;
#[cfg(feature = "parallel")]
use matreex::parallel::*;
use matreex::{Error, Index, Matrix, Order, WrappingIndex, col_vec, matrix, row_vec};
use std::cell::{Cell, RefCell};
use std::collections::VecDeque;
use std::panic::{AssertUnwindSafe, catch_unwind};
use std::rc::Rc;
use std::sync::atomic::Ordering::SeqCst;

pub type Pool<T> = Vec<Option<Matrix<T>>>;

pub fn err_name(e: Error) -> &'static str {
    match e {
        Error::SizeOverflow => "SizeOverflow",
        Error::SizeMismatch => "SizeMismatch",
        Error::CapacityOverflow => "CapacityOverflow",
        Error::LengthInconsistent => "LengthInconsistent",
        Error::IndexOutOfBounds => "IndexOutOfBounds",
        Error::SquareMatrixRequired => "SquareMatrixRequired",
        Error::ShapeNotConformable => "ShapeNotConformable",
    }
}

pub fn panic_class(payload: Box<dyn std::any::Any + Send>) -> String {
    let msg = if let Some(s) = payload.downcast_ref::<&str>() {
        s.to_string()
    } else if let Some(s) = payload.downcast_ref::<String>() {
        s.clone()
    } else {
        "?".to_string()
    };
    let class = match msg.as_str() {
        "size overflow" => "SizeOverflow",
        "size mismatch" => "SizeMismatch",
        "capacity overflow" if false => "CapacityOverflow",
        "length inconsistent" => "LengthInconsistent",
        "index out of bounds" => "IndexOutOfBounds",
        "square matrix required" => "SquareMatrixRequired",
        "shape not conformable" => "ShapeNotConformable",
        "injected fault" => "caller",
        m if m.starts_with("attempt to") => "arith",
        _ => "std",
    };
    format!("Panic({class})")
}

/// the message of a std "capacity overflow" panic equals the crate's own error text;
/// `errpanic` tells which one an operator is documented to raise
fn res_obs<X>(r: Result<X, Error>, k: impl FnOnce(X) -> String) -> String {
    match r {
        Ok(x) => k(x),
        Err(e) => format!("Err({})", err_name(e)),
    }
}

// ---------- index arguments ----------
#[derive(Clone)]
pub enum Ix {
    Plain(i128, usize, usize),
    Wrap(isize, isize),
    Script(Vec<usize>, Vec<usize>),
}

pub struct ScriptIx {
    rows: RefCell<VecDeque<usize>>,
    cols: RefCell<VecDeque<usize>>,
    calls: Rc<Cell<(usize, usize)>>,
}

fn pop_script(q: &RefCell<VecDeque<usize>>) -> usize {
    let mut q = q.borrow_mut();
    match q.len() {
        0 => 0,
        1 => q[0],
        _ => q.pop_front().unwrap(),
    }
}

impl AsIndex for ScriptIx {
    fn row(&self) -> usize {
        tick(KIND_ACCESSOR, "Row");
        let (r, c) = self.calls.get();
        self.calls.set((r + 1, c));
        pop_script(&self.rows)
    }
    fn col(&self) -> usize {
        tick(KIND_ACCESSOR, "Col");
        let (r, c) = self.calls.get();
        self.calls.set((r, c + 1));
        pop_script(&self.cols)
    }
}

fn script_ix(rows: &[usize], cols: &[usize]) -> (ScriptIx, Rc<Cell<(usize, usize)>>) {
    let calls = Rc::new(Cell::new((0, 0)));
    (
        ScriptIx {
            rows: RefCell::new(rows.iter().copied().collect()),
            cols: RefCell::new(cols.iter().copied().collect()),
            calls: calls.clone(),
        },
        calls,
    )
}

fn calls_obs(c: &Option<Rc<Cell<(usize, usize)>>>) -> String {
    match c {
        None => "()".to_string(),
        Some(c) => format!("[{},{}]", c.get().0, c.get().1),
    }
}

/// runs `$body` with `$name` bound to the concrete index value
macro_rules! with_ix {
    ($ix:expr, $calls:ident, $name:ident => $body:expr) => {
        match $ix {
            Ix::Plain(0, r, c) => {
                let $name = (*r, *c);
                $calls = None;
                $body
            }
            Ix::Plain(1, r, c) => {
                let $name = [*r, *c];
                $calls = None;
                $body
            }
            Ix::Plain(_, r, c) => {
                let $name = Index::new(*r, *c);
                $calls = None;
                $body
            }
            Ix::Wrap(r, c) => {
                let $name = WrappingIndex::new(*r, *c);
                $calls = None;
                $body
            }
            Ix::Script(rows, cols) => {
                let ($name, cc) = script_ix(rows, cols);
                $calls = Some(cc);
                $body
            }
        }
    };
}

// ---------- parsed wire operation ----------
pub struct WireOp {
    pub code: i64,
    pub name: String,
    pub a: Vec<i128>,
    pub rows: Vec<Vec<i128>>,
}

pub fn parse_op(toks: &[&str]) -> WireOp {
    let code: i64 = toks[0].parse().expect("op code");
    let name = toks[1].to_string();
    let mut groups: Vec<Vec<i128>> = vec![vec![]];
    for t in &toks[2..] {
        if *t == "|" {
            groups.push(vec![]);
        } else {
            groups.last_mut().unwrap().push(t.parse().expect("integer argument"));
        }
    }
    let a = groups.remove(0);
    WireOp { code, name, a, rows: groups }
}

fn dec_ix(kind: i128, r: i128, c: i128, rows: &mut std::slice::Iter<'_, Vec<i128>>) -> Option<Ix> {
    if kind < 3 {
        Some(Ix::Plain(kind, r as usize, c as usize))
    } else if kind == 3 {
        Some(Ix::Wrap(r as isize, c as isize))
    } else {
        let rs = rows.next()?;
        let cs = rows.next()?;
        Some(Ix::Script(rs.iter().map(|x| *x as usize).collect(), cs.iter().map(|x| *x as usize).collect()))
    }
}

/// a row iterator whose size_hint is whatever the case says (size hints are advisory: safe code must not trust them)
struct Hinted<T> {
    inner: std::vec::IntoIter<T>,
    hint: i128,
}
impl<T> Iterator for Hinted<T> {
    type Item = T;
    fn next(&mut self) -> Option<T> {
        self.inner.next()
    }
    fn size_hint(&self) -> (usize, Option<usize>) {
        if self.hint < 0 {
            (0, None)
        } else {
            (self.hint as usize, Some(self.hint as usize))
        }
    }
}

fn atoms<T: Elem>(l: &[i128]) -> Vec<T> {
    l.iter().map(|v| T::atom(*v as i64)).collect()
}

fn show_vec<T: Elem>(l: impl Iterator<Item = String>) -> String {
    let v: Vec<String> = l.collect();
    let _ = std::marker::PhantomData::<T>;
    format!("[{}]", v.join(","))
}

pub fn show_matrix<T: Elem>(m: &Matrix<T>) -> String {
    format!(
        "{}:{}x{}:{}",
        match m.order() {
            Order::RowMajor => "R",
            Order::ColMajor => "C",
        },
        m.nrows(),
        m.ncols(),
        show_vec::<T>(m.iter_elements().map(|e| e.show()))
    )
}

pub fn show_pool<T: Elem>(p: &Pool<T>) -> String {
    p.iter()
        .enumerate()
        .map(|(i, s)| match s {
            None => format!("{i}=-"),
            Some(m) => format!("{i}={}", show_matrix(m)),
        })
        .collect::<Vec<_>>()
        .join(" ")
}

fn text_obs(s: &str) -> String {
    format!("S:{}", s.chars().map(|c| (c as u32).to_string()).collect::<Vec<_>>().join("."))
}

fn chain<T: Elem>(l: &[T]) -> T {
    let mut acc = T::atom(0);
    for x in l.iter().rev() {
        acc = T::bin(30, x.clone(), acc);
    }
    acc
}

// ---------- iterator scripts ----------
fn run_single<X, I>(mut it: I, script: &[i128], mut show: impl FnMut(X) -> String) -> String
where
    I: ExactSizeIterator<Item = X> + DoubleEndedIterator,
{
    let mut out = Vec::new();
    for (pos, w) in script.iter().enumerate() {
        // 3 / 4: the rest of the iterator, by value, through fold / rfold (what for_each, sum, rev().for_each .. run on);
        // the script ends there
        if *w == 3 || *w == 4 {
            let _ = pos;
            let items: Vec<String> = if *w == 3 {
                it.fold(Vec::new(), |mut acc, x| {
                    acc.push(format!("Some({})", show(x)));
                    acc
                })
            } else {
                it.rfold(Vec::new(), |mut acc, x| {
                    acc.push(format!("Some({})", show(x)));
                    acc
                })
            };
            out.extend(items);
            return format!("[{}]", out.join(","));
        }
        match w {
            0 => out.push(match it.next() {
                Some(x) => format!("Some({})", show(x)),
                None => "None".to_string(),
            }),
            1 => out.push(match it.next_back() {
                Some(x) => format!("Some({})", show(x)),
                None => "None".to_string(),
            }),
            2 => out.push(format!("{}", it.len())),
            10..=89 => out.push(match it.nth((*w - 10) as usize) {
                Some(x) => format!("Some({})", show(x)),
                None => "None".to_string(),
            }),
            100..=179 => out.push(match it.nth_back((*w - 100) as usize) {
                Some(x) => format!("Some({})", show(x)),
                None => "None".to_string(),
            }),
            _ => {
                out.push("INVALID".to_string());
                break;
            }
        }
    }
    format!("[{}]", out.join(","))
}

pub fn run_nested_pub<X, O, I>(outer: O, script: &[i128], show: impl FnMut(X) -> String) -> String
where
    O: ExactSizeIterator<Item = I> + DoubleEndedIterator,
    I: ExactSizeIterator<Item = X> + DoubleEndedIterator,
{
    run_nested(outer, script, show)
}

fn run_nested<X, O, I>(mut outer: O, script: &[i128], mut show: impl FnMut(X) -> String) -> String
where
    O: ExactSizeIterator<Item = I> + DoubleEndedIterator,
    I: ExactSizeIterator<Item = X> + DoubleEndedIterator,
{
    let mut out = Vec::new();
    let mut inners: Vec<I> = Vec::new();
    let mut i = 0;
    while i + 1 < script.len() {
        let (who, what) = (script[i], script[i + 1]);
        i += 2;
        if who < 0 {
            match what {
                0 | 1 | 10..=89 | 100..=179 => {
                    let item = match what {
                        0 => outer.next(),
                        1 => outer.next_back(),
                        10..=89 => outer.nth((what - 10) as usize),
                        _ => outer.nth_back((what - 100) as usize),
                    };
                    match item {
                        Some(v) => {
                            out.push(format!("Some({})", inners.len()));
                            inners.push(v);
                        }
                        None => out.push("None".to_string()),
                    }
                }
                2 => out.push(format!("{}", outer.len())),
                _ => {
                    out.push("INVALID".to_string());
                    break;
                }
            }
        } else {
            let Some(inner) = inners.get_mut(who as usize) else {
                out.push("INVALID".to_string());
                break;
            };
            match what {
                0 | 1 | 10..=89 | 100..=179 => {
                    let item = match what {
                        0 => inner.next(),
                        1 => inner.next_back(),
                        10..=89 => inner.nth((what - 10) as usize),
                        _ => inner.nth_back((what - 100) as usize),
                    };
                    out.push(match item {
                        Some(x) => format!("Some({})", show(x)),
                        None => "None".to_string(),
                    });
                }
                2 => out.push(format!("{}", inner.len())),
                _ => {
                    out.push("INVALID".to_string());
                    break;
                }
            }
        }
    }
    format!("[{}]", out.join(","))
}

/// C03 direct oracle on the implementation: every pointer the mutable vector iterators form stays on an
/// element of the buffer (zero-sized elements: the counters stay non-null), and no element is handed out twice
fn check_pointers<T: Elem>(base: usize, len: usize, events: &[(u8, usize)], yielded: &[usize]) {
    let es = std::mem::size_of::<T>();
    if es == 0 {
        for (site, addr) in events {
            if *addr == 0 {
                flag(format!("null pointer formed at site {site}"));
            }
        }
        return;
    }
    for (site, addr) in events {
        if *addr < base || (*addr - base) % es != 0 || (*addr - base) / es >= len {
            flag(format!("pointer formed at site {site} is not on an element: offset {} of {len} elements", (*addr as i128 - base as i128) / es as i128));
        }
    }
    let mut seen = std::collections::HashSet::new();
    for addr in yielded {
        if *addr < base || (*addr - base) % es != 0 || (*addr - base) / es >= len {
            flag("a yielded reference points outside the buffer".to_string());
        }
        if !seen.insert(*addr) {
            flag("an element was handed out twice".to_string());
        }
    }
}

fn mutate<T: Elem>(f: i64) -> impl FnMut(&mut T) -> String {
    move |x: &mut T| {
        let shown = x.show();
        let old = x.clone();
        *x = T::un(10 + f, old);
        shown
    }
}

fn idx_item<T: Elem>(ix: Index, e: String) -> String {
    let _ = std::marker::PhantomData::<T>;
    format!("[{},{},{}]", ix.row, ix.col, e)
}

// ---------- coherence probe (the direct oracle of C01 on the implementation) ----------
pub fn coherence<T: Elem>(m: &Matrix<T>) -> Result<(), String> {
    let (nr, nc, size) = (m.nrows(), m.ncols(), m.size());
    match nr.checked_mul(nc) {
        Some(n) if n == size => {}
        other => return Err(format!("nrows*ncols={other:?} size={size}")),
    }
    let shape = m.shape();
    if shape.nrows() != nr || shape.ncols() != nc {
        return Err("shape() disagrees with nrows()/ncols()".to_string());
    }
    if m.is_empty() != (size == 0) {
        return Err("is_empty() disagrees with size()".to_string());
    }
    if m.capacity() < size && std::mem::size_of::<T>() != 0 {
        return Err("capacity() < size()".to_string());
    }
    if size > 4096 || nr > 64 || nc > 64 {
        // huge extents (zero-sized elements, or one extent huge and the other zero): O(1) probes only
        if size > 0 && (m.get((nr - 1, nc - 1)).is_err() || m.get((0, 0)).is_err()) {
            return Err("corner element not reachable".to_string());
        }
        if m.get((nr, 0)).is_ok() || m.get((0, nc)).is_ok() || m.get((nr, nc)).is_ok() {
            return Err("get succeeds out of bounds".to_string());
        }
        return Ok(());
    }
    let n_iter = m.iter_elements().count();
    if n_iter != size {
        return Err(format!("iter_elements yields {n_iter} of {size}"));
    }
    let base = m.iter_elements().next().map_or(0usize, |e| e as *const T as usize);
    let es = std::mem::size_of::<T>();
    let mut seen = std::collections::HashSet::new();
    for r in 0..nr {
        for c in 0..nc {
            match m.get((r, c)) {
                Err(e) => return Err(format!("get({r},{c}) = Err({})", err_name(e))),
                Ok(x) => {
                    let addr = x as *const T as usize;
                    if es != 0 {
                        if addr < base || (addr - base) % es != 0 || (addr - base) / es >= size {
                            return Err(format!("get({r},{c}) points outside the element store"));
                        }
                        if !seen.insert(addr) {
                            return Err(format!("get({r},{c}) aliases another position"));
                        }
                    }
                }
            }
        }
    }
    // the positions just outside the logical shape
    for r in 0..=nr {
        if m.get((r, nc)).is_ok() {
            return Err(format!("get({r},{nc}) succeeds out of bounds"));
        }
    }
    for c in 0..=nc {
        if m.get((nr, c)).is_ok() {
            return Err(format!("get({nr},{c}) succeeds out of bounds"));
        }
    }
    if m.get((usize::MAX, 0)).is_ok() || m.get((0, usize::MAX)).is_ok() {
        return Err("get(usize::MAX, ..) succeeds".to_string());
    }
    Ok(())
}

// ---------- the interpreter ----------
pub struct Ctx {
    pub threads: usize,
    pub delay: i64,
    #[cfg(feature = "parallel")]
    pub tpool: Option<rayon::ThreadPool>,
}

fn spin(ctx_delay: i64, key: usize) {
    // perturbs per-element run time so that rayon splits and steals differently
    let n = match ctx_delay {
        0 => 0,
        1 => {
            if key < 4 {
                20000
            } else {
                0
            }
        }
        2 => {
            if key % 7 == 6 {
                20000
            } else {
                50
            }
        }
        _ => ((key as u64).wrapping_mul(0x9E37_79B9_7F4A_7C15) >> 50) as usize,
    };
    let mut x = 0u64;
    for i in 0..n {
        x = x.wrapping_add(std::hint::black_box(i as u64));
    }
    std::hint::black_box(x);
}

macro_rules! need {
    ($pool:expr, $s:expr) => {
        match $pool.get($s as usize) {
            Some(Some(_)) => {}
            _ => return "INVALID".to_string(),
        }
    };
}

fn us(x: i128) -> usize {
    x as usize
}

/// executes one operation; panics are caught by the caller
fn exec<T: Elem>(pool: &mut Pool<T>, op: &WireOp, ctx: &Ctx) -> String {
    let a = &op.a;
    let rows = &op.rows;
    let script: &[i128] = rows.first().map_or(&[], |r| r.as_slice());
    let ok = "()".to_string();
    macro_rules! dest {
        ($d:expr) => {
            if ($d as usize) >= pool.len() || $d < 0 {
                return "INVALID".to_string();
            }
        };
    }
    macro_rules! store {
        ($d:expr, $r:expr) => {
            match $r {
                Ok(m) => {
                    pool[$d as usize] = Some(m);
                    ok
                }
                Err(e) => format!("Err({})", err_name(e)),
            }
        };
    }
    match (op.code, a.as_slice()) {
        // ----- construct -----
        (1, [d]) => {
            dest!(*d);
            pool[us(*d)] = Some(Matrix::new());
            ok
        }
        (12, [d]) => {
            dest!(*d);
            pool[us(*d)] = Some(Matrix::default());
            ok
        }
        (2, [d, n]) => {
            dest!(*d);
            pool[us(*d)] = Some(Matrix::with_capacity(us(*n)));
            ok
        }
        (3, [d, r, c]) => {
            dest!(*d);
            store!(*d, Matrix::<T>::with_default((us(*r), us(*c))))
        }
        (4, [d, r, c, v]) => {
            dest!(*d);
            store!(*d, Matrix::<T>::with_value([us(*r), us(*c)], T::atom(*v as i64)))
        }
        (5, [d, r, c, f]) => {
            dest!(*d);
            let f = *f as i64;
            store!(
                *d,
                Matrix::<T>::with_initializer((us(*r), us(*c)), |ix| {
                    tick(KIND_CLOSURE, "Closure");
                    T::bin(20 + f, T::atom(ix.row as i64), T::atom(ix.col as i64))
                })
            )
        }
        (6, [d]) => {
            dest!(*d);
            pool[us(*d)] = Some(Matrix::from_row(atoms::<T>(script)));
            ok
        }
        (7, [d]) => {
            dest!(*d);
            pool[us(*d)] = Some(Matrix::from_col(atoms::<T>(script)));
            ok
        }
        (8, [d, kind, nc]) => {
            dest!(*d);
            match from_arrays::<T>(*kind, us(*nc), rows) {
                Some(m) => {
                    pool[us(*d)] = Some(m);
                    ok
                }
                None => "INVALID".to_string(),
            }
        }
        (9, [d, kind]) => {
            dest!(*d);
            let vecs: Vec<Vec<T>> = rows.iter().map(|r| atoms::<T>(r)).collect();
            let r: Result<Matrix<T>, Error> = match kind {
                0 => match vecs.len() {
                    0 => Matrix::try_from(<[Vec<T>; 0]>::try_from(vecs).ok().unwrap()),
                    1 => Matrix::try_from(<[Vec<T>; 1]>::try_from(vecs).ok().unwrap()),
                    2 => Matrix::try_from(<[Vec<T>; 2]>::try_from(vecs).ok().unwrap()),
                    3 => Matrix::try_from(<[Vec<T>; 3]>::try_from(vecs).ok().unwrap()),
                    4 => Matrix::try_from(<[Vec<T>; 4]>::try_from(vecs).ok().unwrap()),
                    _ => return "INVALID".to_string(),
                },
                1 => Matrix::try_from(vecs),
                _ => Matrix::try_from(vecs.as_slice()),
            };
            store!(*d, r)
        }
        (10, [d]) => {
            dest!(*d);
            let vecs: Vec<Vec<T>> = rows.iter().map(|r| atoms::<T>(r)).collect();
            let m: Matrix<T> = vecs.into_iter().collect();
            pool[us(*d)] = Some(m);
            ok
        }
        (13, [d, h]) => {
            dest!(*d);
            let h = *h;
            let its: Vec<Hinted<T>> = rows.iter().map(|r| Hinted { inner: atoms::<T>(r).into_iter(), hint: h }).collect();
            let m: Matrix<T> = its.into_iter().collect();
            pool[us(*d)] = Some(m);
            ok
        }
        (11, [d, arm, x, y]) => {
            dest!(*d);
            let m: Option<Matrix<T>> = macro_arm::<T>(*arm, us(*x), us(*y), rows);
            match m {
                Some(m) => {
                    pool[us(*d)] = Some(m);
                    ok
                }
                None => "INVALID".to_string(),
            }
        }
        // ----- observe -----
        (20, [s]) => {
            need!(pool, *s);
            match pool[us(*s)].as_ref().unwrap().order() {
                Order::RowMajor => "Row".to_string(),
                Order::ColMajor => "Col".to_string(),
            }
        }
        (21, [s]) => {
            need!(pool, *s);
            let sh = pool[us(*s)].as_ref().unwrap().shape();
            format!("[{},{}]", sh.nrows(), sh.ncols())
        }
        (22, [s]) => {
            need!(pool, *s);
            format!("{}", pool[us(*s)].as_ref().unwrap().nrows())
        }
        (23, [s]) => {
            need!(pool, *s);
            format!("{}", pool[us(*s)].as_ref().unwrap().ncols())
        }
        (24, [s]) => {
            need!(pool, *s);
            format!("{}", pool[us(*s)].as_ref().unwrap().size())
        }
        (25, [s]) => {
            need!(pool, *s);
            format!("{}", pool[us(*s)].as_ref().unwrap().is_empty())
        }
        (26, [s]) => {
            need!(pool, *s);
            let m = pool[us(*s)].as_ref().unwrap();
            format!("{}", m.capacity() >= m.size())
        }
        (27, [s, k, r, c]) | (29, [s, k, r, c]) => {
            need!(pool, *s);
            let Some(ix) = dec_ix(*k, *r, *c, &mut rows.iter()) else { return "INVALID".to_string() };
            let m = pool[us(*s)].as_ref().unwrap();
            let calls;
            if op.code == 27 {
                let first = with_ix!(&ix, calls, i => res_obs(m.get(i), |e| e.show()));
                format!("[{},{}]", first, calls_obs(&calls))
            } else {
                let first = with_ix!(&ix, calls, i => match catch_unwind(AssertUnwindSafe(|| m[i].show())) {
                    Ok(v) => v,
                    Err(p) => panic_class(p),
                });
                format!("[{},{}]", first, calls_obs(&calls))
            }
        }
        (31, [s, r, c]) => {
            need!(pool, *s);
            let m = pool[us(*s)].as_ref().unwrap();
            // contract of the unsafe fn: a WrappingIndex is never out of bounds of a non-empty matrix;
            // on an empty matrix the documented outcome is a panic before any access
            let e = unsafe { m.get_unchecked(WrappingIndex::new(*r as isize, *c as isize)) };
            e.show()
        }
        (32, [s, v]) => {
            need!(pool, *s);
            let v = T::atom(*v as i64);
            format!("{}", pool[us(*s)].as_ref().unwrap().contains(&v))
        }
        (33, [s]) => {
            need!(pool, *s);
            format!("{}", pool[us(*s)].as_ref().unwrap().is_square())
        }
        (34, [s, t]) | (35, [s, t]) | (37, [s, t]) | (38, [s, t]) | (39, [s, t]) => {
            need!(pool, *s);
            need!(pool, *t);
            let m = pool[us(*s)].as_ref().unwrap();
            let n = pool[us(*t)].as_ref().unwrap();
            match op.code {
                34 => format!("{}", m.is_elementwise_operation_conformable(n)),
                35 => format!("{}", m.is_multiplication_like_operation_conformable(n)),
                37 => res_obs(m.ensure_elementwise_operation_conformable(n), |_| "()".to_string()),
                38 => res_obs(m.ensure_multiplication_like_operation_conformable(n), |_| "()".to_string()),
                _ => format!("{}", m == n),
            }
        }
        (36, [s]) => {
            need!(pool, *s);
            res_obs(pool[us(*s)].as_ref().unwrap().ensure_square(), |_| "()".to_string())
        }
        (40, [s]) => {
            need!(pool, *s);
            text_obs(&format!("{}", pool[us(*s)].as_ref().unwrap()))
        }
        (41, [s]) => {
            need!(pool, *s);
            text_obs(&format!("{:?}", pool[us(*s)].as_ref().unwrap()))
        }
        // ----- order / shape -----
        (50, [s]) | (51, [s]) | (52, [s]) | (57, [s]) | (59, [s]) => {
            need!(pool, *s);
            let m = pool[us(*s)].as_mut().unwrap();
            match op.code {
                50 => {
                    m.transpose();
                }
                51 => {
                    m.switch_order();
                }
                52 => {
                    m.switch_order_without_rearrangement();
                }
                57 => {
                    m.shrink_to_fit();
                }
                _ => {
                    m.clear();
                }
            }
            ok
        }
        (53, [s, o]) | (54, [s, o]) => {
            need!(pool, *s);
            let m = pool[us(*s)].as_mut().unwrap();
            let o = if *o == 0 { Order::RowMajor } else { Order::ColMajor };
            if op.code == 53 {
                m.set_order(o);
            } else {
                m.set_order_without_rearrangement(o);
            }
            ok
        }
        (55, [s, r, c]) => {
            need!(pool, *s);
            res_obs(pool[us(*s)].as_mut().unwrap().reshape((us(*r), us(*c))), |_| "()".to_string())
        }
        (56, [s, r, c]) => {
            need!(pool, *s);
            res_obs(pool[us(*s)].as_mut().unwrap().resize([us(*r), us(*c)]), |_| "()".to_string())
        }
        (58, [s, n]) => {
            need!(pool, *s);
            pool[us(*s)].as_mut().unwrap().shrink_to(us(*n));
            ok
        }
        // ----- element moves -----
        (60, [s, k, r, c, v]) => {
            need!(pool, *s);
            let Some(ix) = dec_ix(*k, *r, *c, &mut rows.iter()) else { return "INVALID".to_string() };
            let m = pool[us(*s)].as_mut().unwrap();
            let calls;
            let first = with_ix!(&ix, calls, i => match m.get_mut(i) {
                Ok(x) => { *x = T::atom(*v as i64); "()".to_string() }
                Err(e) => format!("Err({})", err_name(e)),
            });
            format!("[{},{}]", first, calls_obs(&calls))
        }
        (61, [s, k, r, c, v]) => {
            need!(pool, *s);
            let Some(ix) = dec_ix(*k, *r, *c, &mut rows.iter()) else { return "INVALID".to_string() };
            let m = pool[us(*s)].as_mut().unwrap();
            let calls;
            let first = with_ix!(&ix, calls, i => match catch_unwind(AssertUnwindSafe(|| { m[i] = T::atom(*v as i64); })) {
                Ok(()) => "()".to_string(),
                Err(p) => panic_class(p),
            });
            format!("[{},{}]", first, calls_obs(&calls))
        }
        (62, [s, k1, r1, c1, k2, r2, c2]) => {
            need!(pool, *s);
            let mut it = rows.iter();
            let Some(i) = dec_ix(*k1, *r1, *c1, &mut it) else { return "INVALID".to_string() };
            let Some(j) = dec_ix(*k2, *r2, *c2, &mut it) else { return "INVALID".to_string() };
            let m = pool[us(*s)].as_mut().unwrap();
            // to tell which of the two get_mut calls failed, the first index is probed on its own
            // with an identical, fresh index value (scripted accessors are re-created from the script)
            let ci;
            let cj;
            let first_fails = with_ix!(&i, ci, x => m.get_mut(x).is_err());
            let _ = &ci;
            let ci2;
            let r = with_ix!(&i, ci2, x => with_ix!(&j, cj, y => m.swap(x, y).map(|_| ())));
            if first_fails {
                format!("[{},{}]", res_obs(r, |_| "()".to_string()), calls_obs(&ci2))
            } else {
                format!("[{},{},{}]", res_obs(r, |_| "()".to_string()), calls_obs(&ci2), calls_obs(&cj))
            }
        }
        (63, [s, x, y]) => {
            need!(pool, *s);
            res_obs(pool[us(*s)].as_mut().unwrap().swap_rows(us(*x), us(*y)), |_| "()".to_string())
        }
        (64, [s, x, y]) => {
            need!(pool, *s);
            res_obs(pool[us(*s)].as_mut().unwrap().swap_cols(us(*x), us(*y)), |_| "()".to_string())
        }
        (65, [d, s]) => {
            if d == s {
                return "INVALID".to_string();
            }
            need!(pool, *d);
            need!(pool, *s);
            let mut md = pool[us(*d)].take().unwrap();
            let r = catch_unwind(AssertUnwindSafe(|| {
                md.overwrite(pool[us(*s)].as_ref().unwrap());
            }));
            pool[us(*d)] = Some(md);
            match r {
                Ok(()) => ok,
                Err(p) => std::panic::resume_unwind(p),
            }
        }
        // ----- maps -----
        (70, [s, f]) => {
            need!(pool, *s);
            let f = *f as i64;
            pool[us(*s)].as_mut().unwrap().apply(|x| {
                tick(KIND_CLOSURE, "Closure");
                let old = x.clone();
                *x = T::un(10 + f, old);
            });
            ok
        }
        (71, [d, s, f]) => {
            dest!(*d);
            need!(pool, *s);
            let f = *f as i64;
            let m = pool[us(*s)].take().unwrap();
            store!(
                *d,
                m.map(|x| {
                    tick(KIND_CLOSURE, "Closure");
                    T::un(10 + f, x)
                })
            )
        }
        (72, [d, s, f]) => {
            dest!(*d);
            need!(pool, *s);
            let f = *f as i64;
            let r = pool[us(*s)].as_ref().unwrap().map_ref(|x| {
                tick(KIND_CLOSURE, "Closure");
                T::un(10 + f, x.clone())
            });
            store!(*d, r)
        }
        (73, [d, s]) => {
            dest!(*d);
            need!(pool, *s);
            let m = pool[us(*s)].as_ref().unwrap().clone();
            pool[us(*d)] = Some(m);
            ok
        }
        (76, [d, s]) => {
            if d == s {
                return "INVALID".to_string();
            }
            need!(pool, *d);
            need!(pool, *s);
            let mut m = pool[us(*d)].take().unwrap();
            let r = catch_unwind(AssertUnwindSafe(|| m.clone_from(pool[us(*s)].as_ref().unwrap())));
            // whatever clone_from left behind stays in the pool (and is probed) even when caller code panicked
            pool[us(*d)] = Some(m);
            match r {
                Ok(()) => ok,
                Err(p) => std::panic::resume_unwind(p),
            }
        }
        (74, [d, s]) => {
            dest!(*d);
            need!(pool, *s);
            let m = pool[us(*s)].take().unwrap();
            pool[us(*d)] = Some(-m);
            ok
        }
        (75, [d, s]) => {
            dest!(*d);
            need!(pool, *s);
            let m = -pool[us(*s)].as_ref().unwrap();
            pool[us(*d)] = Some(m);
            ok
        }
        // ----- elementwise -----
        (80, [d, x, y, f]) => {
            dest!(*d);
            need!(pool, *x);
            need!(pool, *y);
            let f = *f as i64;
            let r = pool[us(*x)].as_ref().unwrap().elementwise_operation(pool[us(*y)].as_ref().unwrap(), |l, r| {
                tick(KIND_CLOSURE, "Closure");
                T::bin(10 + f, l.clone(), r.clone())
            });
            store!(*d, r)
        }
        (81, [d, x, y, f]) => {
            if x == y {
                return "INVALID".to_string();
            }
            dest!(*d);
            need!(pool, *x);
            need!(pool, *y);
            let f = *f as i64;
            let m = pool[us(*x)].take().unwrap();
            let r = m.elementwise_operation_consume_self(pool[us(*y)].as_ref().unwrap(), |l, r| {
                tick(KIND_CLOSURE, "Closure");
                T::bin(10 + f, l, r.clone())
            });
            store!(*d, r)
        }
        (82, [x, y, f]) => {
            if x == y {
                return "INVALID".to_string();
            }
            need!(pool, *x);
            need!(pool, *y);
            let f = *f as i64;
            let mut m = pool[us(*x)].take().unwrap();
            let r = catch_unwind(AssertUnwindSafe(|| {
                m.elementwise_operation_assign(pool[us(*y)].as_ref().unwrap(), |l, r| {
                    tick(KIND_CLOSURE, "Closure");
                    let old = l.clone();
                    *l = T::bin(10 + f, old, r.clone());
                })
                .map(|_| ())
            }));
            pool[us(*x)] = Some(m);
            match r {
                Ok(r) => res_obs(r, |_| "()".to_string()),
                Err(p) => std::panic::resume_unwind(p),
            }
        }
        (83, [opk, variant, d, x, y]) => {
            need!(pool, *x);
            need!(pool, *y);
            match variant {
                0 => {
                    dest!(*d);
                    let (m, n) = (pool[us(*x)].as_ref().unwrap(), pool[us(*y)].as_ref().unwrap());
                    let r = match opk {
                        0 => m.elementwise_add(n),
                        1 => m.elementwise_sub(n),
                        2 => m.elementwise_mul(n),
                        3 => m.elementwise_div(n),
                        _ => m.elementwise_rem(n),
                    };
                    store!(*d, r)
                }
                1 => {
                    if x == y {
                        return "INVALID".to_string();
                    }
                    dest!(*d);
                    let m = pool[us(*x)].take().unwrap();
                    let n = pool[us(*y)].as_ref().unwrap();
                    let r = match opk {
                        0 => m.elementwise_add_consume_self(n),
                        1 => m.elementwise_sub_consume_self(n),
                        2 => m.elementwise_mul_consume_self(n),
                        3 => m.elementwise_div_consume_self(n),
                        _ => m.elementwise_rem_consume_self(n),
                    };
                    store!(*d, r)
                }
                _ => {
                    if x == y {
                        return "INVALID".to_string();
                    }
                    let mut m = pool[us(*x)].take().unwrap();
                    let r = catch_unwind(AssertUnwindSafe(|| {
                        let n = pool[us(*y)].as_ref().unwrap();
                        match opk {
                            0 => m.elementwise_add_assign(n).map(|_| ()),
                            1 => m.elementwise_sub_assign(n).map(|_| ()),
                            2 => m.elementwise_mul_assign(n).map(|_| ()),
                            3 => m.elementwise_div_assign(n).map(|_| ()),
                            _ => m.elementwise_rem_assign(n).map(|_| ()),
                        }
                    }));
                    pool[us(*x)] = Some(m);
                    match r {
                        Ok(r) => res_obs(r, |_| "()".to_string()),
                        Err(p) => std::panic::resume_unwind(p),
                    }
                }
            }
        }
        (84, [opk, form, d, x, y]) => {
            if *form != 3 && x == y {
                return "INVALID".to_string();
            }
            dest!(*d);
            need!(pool, *x);
            need!(pool, *y);
            let r: Matrix<T> = match (form, opk) {
                (0, 0) => pool[us(*x)].take().unwrap() + pool[us(*y)].take().unwrap(),
                (0, _) => pool[us(*x)].take().unwrap() - pool[us(*y)].take().unwrap(),
                (1, 0) => pool[us(*x)].take().unwrap() + pool[us(*y)].as_ref().unwrap(),
                (1, _) => pool[us(*x)].take().unwrap() - pool[us(*y)].as_ref().unwrap(),
                (2, 0) => {
                    let n = pool[us(*y)].take().unwrap();
                    pool[us(*x)].as_ref().unwrap() + n
                }
                (2, _) => {
                    let n = pool[us(*y)].take().unwrap();
                    pool[us(*x)].as_ref().unwrap() - n
                }
                (_, 0) => pool[us(*x)].as_ref().unwrap() + pool[us(*y)].as_ref().unwrap(),
                (_, _) => pool[us(*x)].as_ref().unwrap() - pool[us(*y)].as_ref().unwrap(),
            };
            pool[us(*d)] = Some(r);
            ok
        }
        (85, [opk, form, x, y]) => {
            if x == y {
                return "INVALID".to_string();
            }
            need!(pool, *x);
            need!(pool, *y);
            let mut m = pool[us(*x)].take().unwrap();
            let r = catch_unwind(AssertUnwindSafe(|| match (form, opk) {
                (0, 0) => m += pool[us(*y)].take().unwrap(),
                (0, _) => m -= pool[us(*y)].take().unwrap(),
                (_, 0) => m += pool[us(*y)].as_ref().unwrap(),
                (_, _) => m -= pool[us(*y)].as_ref().unwrap(),
            }));
            pool[us(*x)] = Some(m);
            match r {
                Ok(()) => ok,
                Err(p) => std::panic::resume_unwind(p),
            }
        }
        // ----- scalar -----
        (90, [d, x, v, f]) => {
            dest!(*d);
            need!(pool, *x);
            let f = *f as i64;
            let s = T::atom(*v as i64);
            let r = pool[us(*x)].as_ref().unwrap().scalar_operation(&s, |e, s| {
                tick(KIND_CLOSURE, "Closure");
                T::bin(10 + f, e.clone(), s.clone())
            });
            store!(*d, r)
        }
        (91, [d, x, v, f]) => {
            dest!(*d);
            need!(pool, *x);
            let f = *f as i64;
            let s = T::atom(*v as i64);
            let m = pool[us(*x)].take().unwrap();
            let r = m.scalar_operation_consume_self(&s, |e, s| {
                tick(KIND_CLOSURE, "Closure");
                T::bin(10 + f, e, s.clone())
            });
            store!(*d, r)
        }
        (92, [x, v, f]) => {
            need!(pool, *x);
            let f = *f as i64;
            let s = T::atom(*v as i64);
            pool[us(*x)].as_mut().unwrap().scalar_operation_assign(&s, |e, s| {
                tick(KIND_CLOSURE, "Closure");
                let old = e.clone();
                *e = T::bin(10 + f, old, s.clone());
            });
            ok
        }
        // ----- product -----
        (95, [d, x, y]) => {
            if x == y {
                return "INVALID".to_string();
            }
            dest!(*d);
            need!(pool, *x);
            need!(pool, *y);
            let m = pool[us(*x)].take().unwrap();
            let n = pool[us(*y)].take().unwrap();
            store!(*d, m.multiply(n))
        }
        (96, [form, d, x, y]) => {
            if *form != 3 && x == y {
                return "INVALID".to_string();
            }
            dest!(*d);
            need!(pool, *x);
            need!(pool, *y);
            let r: Matrix<T> = match form {
                0 => pool[us(*x)].take().unwrap() * pool[us(*y)].take().unwrap(),
                1 => pool[us(*x)].take().unwrap() * pool[us(*y)].as_ref().unwrap(),
                2 => {
                    let n = pool[us(*y)].take().unwrap();
                    pool[us(*x)].as_ref().unwrap() * n
                }
                _ => pool[us(*x)].as_ref().unwrap() * pool[us(*y)].as_ref().unwrap(),
            };
            pool[us(*d)] = Some(r);
            ok
        }
        (97, [d, x, y, f]) => {
            if x == y {
                return "INVALID".to_string();
            }
            dest!(*d);
            need!(pool, *x);
            need!(pool, *y);
            let f = *f as i64;
            let m = pool[us(*x)].take().unwrap();
            let n = pool[us(*y)].take().unwrap();
            let r = m.multiplication_like_operation(n, |l: &[T], r: &[T]| {
                tick(KIND_CLOSURE, "Closure");
                T::bin(10 + f, chain(l), chain(r))
            });
            store!(*d, r)
        }
        // ----- iterate -----
        (100, [s]) => {
            need!(pool, *s);
            run_nested(pool[us(*s)].as_ref().unwrap().iter_rows(), script, |e: &T| e.show())
        }
        (101, [s]) => {
            need!(pool, *s);
            run_nested(pool[us(*s)].as_ref().unwrap().iter_cols(), script, |e: &T| e.show())
        }
        (102, [s, f]) | (103, [s, f]) => {
            need!(pool, *s);
            let m = pool[us(*s)].as_mut().unwrap();
            let (_, _, _, base, len) = matreex::verif_hooks::raw_parts(m);
            matreex::verif_hooks::start_ptr_recording();
            let yielded: RefCell<Vec<usize>> = RefCell::new(Vec::new());
            let mut mu = mutate::<T>(*f as i64);
            let show = |x: &mut T| {
                yielded.borrow_mut().push(x as *mut T as usize);
                mu(x)
            };
            let r = if op.code == 102 {
                run_nested(m.iter_rows_mut(), script, show)
            } else {
                run_nested(m.iter_cols_mut(), script, show)
            };
            let events = matreex::verif_hooks::take_ptr_events();
            check_pointers::<T>(base, len, &events, &yielded.borrow());
            r
        }
        (104, [s, n]) => {
            need!(pool, *s);
            res_obs(pool[us(*s)].as_ref().unwrap().iter_nth_row(us(*n)), |it| run_single(it, script, |e: &T| e.show()))
        }
        (105, [s, n]) => {
            need!(pool, *s);
            res_obs(pool[us(*s)].as_ref().unwrap().iter_nth_col(us(*n)), |it| run_single(it, script, |e: &T| e.show()))
        }
        (106, [s, n, f]) => {
            need!(pool, *s);
            res_obs(pool[us(*s)].as_mut().unwrap().iter_nth_row_mut(us(*n)), |it| {
                run_single(it, script, mutate::<T>(*f as i64))
            })
        }
        (107, [s, n, f]) => {
            need!(pool, *s);
            res_obs(pool[us(*s)].as_mut().unwrap().iter_nth_col_mut(us(*n)), |it| {
                run_single(it, script, mutate::<T>(*f as i64))
            })
        }
        (108, [s]) => {
            need!(pool, *s);
            run_single(pool[us(*s)].as_ref().unwrap().iter_elements(), script, |e: &T| e.show())
        }
        (109, [s, f]) => {
            need!(pool, *s);
            run_single(pool[us(*s)].as_mut().unwrap().iter_elements_mut(), script, mutate::<T>(*f as i64))
        }
        (110, [s]) => {
            need!(pool, *s);
            let m = pool[us(*s)].take().unwrap();
            run_single(m.into_iter_elements(), script, |e: T| e.show())
        }
        (111, [s]) => {
            need!(pool, *s);
            run_single(pool[us(*s)].as_ref().unwrap().iter_elements_with_index(), script, |(ix, e): (Index, &T)| {
                idx_item::<T>(ix, e.show())
            })
        }
        (112, [s, f]) => {
            need!(pool, *s);
            let mut mu = mutate::<T>(*f as i64);
            run_single(pool[us(*s)].as_mut().unwrap().iter_elements_mut_with_index(), script, |(ix, e): (Index, &mut T)| {
                let shown = mu(e);
                idx_item::<T>(ix, shown)
            })
        }
        (113, [s]) => {
            need!(pool, *s);
            let m = pool[us(*s)].take().unwrap();
            run_single(m.into_iter_elements_with_index(), script, |(ix, e): (Index, T)| idx_item::<T>(ix, e.show()))
        }
        // ----- parallel -----
        #[cfg(feature = "parallel")]
        (120, [s, f]) => {
            need!(pool, *s);
            let f = *f as i64;
            let delay = ctx.delay & 15;
            let m = pool[us(*s)].as_mut().unwrap();
            par(ctx, || {
                m.par_apply(|x| {
                    spin(delay, x as *const T as usize / std::mem::size_of::<T>().max(1));
                    let old = x.clone();
                    *x = T::un(10 + f, old);
                });
            });
            ok
        }
        #[cfg(feature = "parallel")]
        (121, [d, s, f]) => {
            dest!(*d);
            need!(pool, *s);
            let f = *f as i64;
            let delay = ctx.delay & 15;
            let m = pool[us(*s)].take().unwrap();
            let r = par(ctx, move || {
                m.par_map(|x| {
                    spin(delay, &x as *const T as usize >> 4);
                    T::un(10 + f, x)
                })
            });
            store!(*d, r)
        }
        #[cfg(feature = "parallel")]
        (122, [d, s, f]) => {
            dest!(*d);
            need!(pool, *s);
            let f = *f as i64;
            let delay = ctx.delay & 15;
            let m = pool[us(*s)].as_ref().unwrap();
            let r = par(ctx, || {
                m.par_map_ref(|x| {
                    spin(delay, x as *const T as usize / std::mem::size_of::<T>().max(1));
                    T::un(10 + f, x.clone())
                })
            });
            store!(*d, r)
        }
        #[cfg(feature = "parallel")]
        (123, [s]) => {
            need!(pool, *s);
            let m = pool[us(*s)].as_ref().unwrap();
            let delay = ctx.delay & 15;
            let v: Vec<String> = if split(ctx) {
                let it = m.par_iter_elements();
                par(ctx, move || {
                    it

                    .map(|e| {
                        spin(delay, e as *const T as usize / std::mem::size_of::<T>().max(1));
                        e.show()
                    })
                    .collect()
                })
            } else {
                par(ctx, || {
                    m.par_iter_elements()

                    .map(|e| {
                        spin(delay, e as *const T as usize / std::mem::size_of::<T>().max(1));
                        e.show()
                    })
                    .collect()
                })
            };
            format!("[{}]", v.join(","))
        }
        #[cfg(feature = "parallel")]
        (124, [s, f]) => {
            need!(pool, *s);
            let f = *f as i64;
            let m = pool[us(*s)].as_mut().unwrap();
            let v: Vec<String> = if split(ctx) {
                let it = m.par_iter_elements_mut();
                par(ctx, move || {
                    it

                    .map(|x| {
                        let shown = x.show();
                        let old = x.clone();
                        *x = T::un(10 + f, old);
                        shown
                    })
                    .collect()
                })
            } else {
                par(ctx, || {
                    m.par_iter_elements_mut()

                    .map(|x| {
                        let shown = x.show();
                        let old = x.clone();
                        *x = T::un(10 + f, old);
                        shown
                    })
                    .collect()
                })
            };
            format!("[{}]", v.join(","))
        }
        #[cfg(feature = "parallel")]
        (125, [s]) => {
            need!(pool, *s);
            let m = pool[us(*s)].take().unwrap();
            let v: Vec<String> = if split(ctx) {
                let it = m.into_par_iter_elements();
                par(ctx, move || it.map(|e| e.show()).collect())
            } else {
                par(ctx, move || m.into_par_iter_elements().map(|e| e.show()).collect())
            };
            format!("[{}]", v.join(","))
        }
        #[cfg(feature = "parallel")]
        (126, [s]) => {
            need!(pool, *s);
            let m = pool[us(*s)].as_ref().unwrap();
            let delay = ctx.delay & 15;
            let v: Vec<String> = if split(ctx) {
                let it = m.par_iter_elements_with_index();
                par(ctx, move || {
                    it

                    .map(|(ix, e)| {
                        spin(delay, ix.row * 31 + ix.col);
                        idx_item::<T>(ix, e.show())
                    })
                    .collect()
                })
            } else {
                par(ctx, || {
                    m.par_iter_elements_with_index()

                    .map(|(ix, e)| {
                        spin(delay, ix.row * 31 + ix.col);
                        idx_item::<T>(ix, e.show())
                    })
                    .collect()
                })
            };
            format!("[{}]", v.join(","))
        }
        #[cfg(feature = "parallel")]
        (127, [s, f]) => {
            need!(pool, *s);
            let f = *f as i64;
            let m = pool[us(*s)].as_mut().unwrap();
            let v: Vec<String> = if split(ctx) {
                let it = m.par_iter_elements_mut_with_index();
                par(ctx, move || {
                    it

                    .map(|(ix, x)| {
                        let shown = x.show();
                        let old = x.clone();
                        *x = T::un(10 + f, old);
                        idx_item::<T>(ix, shown)
                    })
                    .collect()
                })
            } else {
                par(ctx, || {
                    m.par_iter_elements_mut_with_index()

                    .map(|(ix, x)| {
                        let shown = x.show();
                        let old = x.clone();
                        *x = T::un(10 + f, old);
                        idx_item::<T>(ix, shown)
                    })
                    .collect()
                })
            };
            format!("[{}]", v.join(","))
        }
        #[cfg(feature = "parallel")]
        (128, [s]) => {
            need!(pool, *s);
            let m = pool[us(*s)].take().unwrap();
            let v: Vec<String> = if split(ctx) {
                let it = m.into_par_iter_elements_with_index();
                par(ctx, move || it.map(|(ix, e)| idx_item::<T>(ix, e.show())).collect())
            } else {
                par(ctx, move || m.into_par_iter_elements_with_index().map(|(ix, e)| idx_item::<T>(ix, e.show())).collect())
            };
            format!("[{}]", v.join(","))
        }
        // ----- rows / columns handed to several threads (C17) -----
        // rows / columns split between the main thread and a worker through iterator adaptors (nth / nth_back / step_by /
        // rev / skip run on the outer iterator itself): the main thread keeps `front` vectors, the rest of the iterator is
        // moved to a worker that consumes it through the adaptor; nothing is mutated, element addresses are collected per
        // thread and must be pairwise distinct and inside the buffer
        (141, [s, front, adaptor, axis]) => {
            need!(pool, *s);
            let m = pool[us(*s)].as_mut().unwrap();
            let (front, adaptor) = (*front as usize, *adaptor);
            let lo = m.iter_elements().next().map_or(0, |x| x as *const T as usize);
            let bytes = m.size() * std::mem::size_of::<T>();
            let mut sets: Vec<Vec<usize>> = Vec::new();
            macro_rules! scan {
                ($it:expr) => {{
                    let mut it = $it;
                    let mut mine = Vec::new();
                    for _ in 0..front {
                        if let Some(v) = it.next() {
                            mine.push(v);
                        }
                    }
                    let rest = it.len();
                    std::thread::scope(|sc| {
                        let h = sc.spawn(move || {
                            let mut addrs = Vec::new();
                            let mut take = |v: &mut dyn Iterator<Item = &mut T>| {
                                for x in v {
                                    addrs.push(x as *mut T as usize);
                                }
                            };
                            match adaptor {
                                0 => it.rev().step_by(2).for_each(|mut v| take(&mut v)),
                                1 => it.rev().skip(1).for_each(|mut v| take(&mut v)),
                                2 => {
                                    // past the front-most remaining vector: must be None, and nothing may follow
                                    if let Some(mut v) = it.nth_back(rest) {
                                        take(&mut v);
                                    }
                                    if let Some(mut v) = it.next_back() {
                                        take(&mut v);
                                    }
                                }
                                3 => it.step_by(2).for_each(|mut v| take(&mut v)),
                                4 => {
                                    if let Some(mut v) = it.nth(rest) {
                                        take(&mut v);
                                    }
                                    if let Some(mut v) = it.next() {
                                        take(&mut v);
                                    }
                                }
                                5 => {
                                    if rest > 0 {
                                        if let Some(mut v) = it.nth_back(rest - 1) {
                                            take(&mut v);
                                        }
                                    }
                                    it.for_each(|mut v| take(&mut v));
                                }
                                _ => it.rev().for_each(|mut v| take(&mut v)),
                            }
                            addrs
                        });
                        let mut main_addrs = Vec::new();
                        for v in mine {
                            for x in v {
                                main_addrs.push(x as *mut T as usize);
                            }
                        }
                        sets.push(main_addrs);
                        sets.push(h.join().expect("worker thread"));
                    });
                }};
            }
            if *axis == 0 {
                scan!(m.iter_rows_mut());
            } else {
                scan!(m.iter_cols_mut());
            }
            let mut verdict = "()".to_string();
            if std::mem::size_of::<T>() != 0 {
                let mut seen = std::collections::HashMap::new();
                for (t, set) in sets.iter().enumerate() {
                    for a in set {
                        if *a < lo || *a >= lo + bytes {
                            verdict = "OUTSIDE".to_string();
                        }
                        if let Some(prev) = seen.insert(*a, t) {
                            verdict = format!("OVERLAP(threads {prev} and {t})");
                        }
                    }
                }
            }
            verdict
        }
        (140, [s, nthreads, f, axis]) => {
            need!(pool, *s);
            let m = pool[us(*s)].as_mut().unwrap();
            let f = *f as i64;
            let nthreads = (*nthreads as usize).max(1);
            let mut sets: Vec<Vec<usize>> = Vec::new();
            macro_rules! deal {
                ($vs:expr) => {{
                    let mut buckets: Vec<Vec<_>> = (0..nthreads).map(|_| Vec::new()).collect();
                    for (i, v) in $vs.into_iter().enumerate() {
                        buckets[i % nthreads].push(v);
                    }
                    std::thread::scope(|sc| {
                        let handles: Vec<_> = buckets
                            .into_iter()
                            .map(|bucket| {
                                sc.spawn(move || {
                                    let mut addrs = Vec::new();
                                    for v in bucket {
                                        for x in v {
                                            addrs.push(x as *mut T as usize);
                                            std::thread::yield_now();
                                            let old = x.clone();
                                            *x = T::un(10 + f, old);
                                        }
                                    }
                                    addrs
                                })
                            })
                            .collect();
                        for h in handles {
                            sets.push(h.join().expect("worker thread"));
                        }
                    });
                }};
            }
            if *axis == 0 {
                deal!(m.iter_rows_mut().collect::<Vec<_>>());
            } else {
                deal!(m.iter_cols_mut().collect::<Vec<_>>());
            }
            // no element may be reachable from two threads
            if std::mem::size_of::<T>() != 0 {
                let mut seen = std::collections::HashMap::new();
                for (t, set) in sets.iter().enumerate() {
                    for a in set {
                        if let Some(prev) = seen.insert(*a, t) {
                            if prev != t {
                                flag(format!("an element was reachable from threads {prev} and {t}"));
                            } else {
                                flag("an element was handed out twice".to_string());
                            }
                        }
                    }
                }
            }
            ok
        }
        // ----- lifetime -----
        (130, [s]) => {
            need!(pool, *s);
            pool[us(*s)] = None;
            ok
        }
        _ => "INVALID".to_string(),
    }
}

/// delay bit 16: a parallel iterator is *built* under the ambient (global) pool and *driven* inside the case's pool
#[cfg(feature = "parallel")]
fn split(ctx: &Ctx) -> bool {
    ctx.delay & 16 != 0
}

#[cfg(feature = "parallel")]
fn par<R: Send>(ctx: &Ctx, f: impl FnOnce() -> R + Send) -> R {
    match &ctx.tpool {
        Some(tp) => tp.install(f),
        None => f(),
    }
}

fn from_arrays<T: Elem>(kind: i128, nc: usize, rows: &[Vec<i128>]) -> Option<Matrix<T>> {
    macro_rules! arrs {
        ($c:literal) => {{
            let v: Vec<[T; $c]> = rows.iter().map(|r| <[T; $c]>::try_from(atoms::<T>(r)).ok().unwrap()).collect();
            match kind {
                0 => match v.len() {
                    0 => Some(Matrix::from(<[[T; $c]; 0]>::try_from(v).ok().unwrap())),
                    1 => Some(Matrix::from(<[[T; $c]; 1]>::try_from(v).ok().unwrap())),
                    2 => Some(Matrix::from(<[[T; $c]; 2]>::try_from(v).ok().unwrap())),
                    3 => Some(Matrix::from(<[[T; $c]; 3]>::try_from(v).ok().unwrap())),
                    4 => Some(Matrix::from(<[[T; $c]; 4]>::try_from(v).ok().unwrap())),
                    _ => None,
                },
                1 => Some(Matrix::from(v)),
                _ => Some(Matrix::from(v.as_slice())),
            }
        }};
    }
    if rows.iter().any(|r| r.len() != nc) {
        return None;
    }
    match nc {
        0 => arrs!(0),
        1 => arrs!(1),
        2 => arrs!(2),
        3 => arrs!(3),
        4 => arrs!(4),
        _ => None,
    }
}

fn macro_arm<T: Elem>(arm: i128, x: usize, y: usize, rows: &[Vec<i128>]) -> Option<Matrix<T>> {
    let first: &[i128] = rows.first().map_or(&[], |r| r.as_slice());
    let at = |r: &[i128], i: usize| T::atom(r[i] as i64);
    Some(match arm {
        0 => matrix![],
        1 => matrix![[T::atom(7); y]; x],
        2 => match first.len() {
            1 => matrix![[at(first, 0)]; x],
            2 => matrix![[at(first, 0), at(first, 1)]; x],
            3 => matrix![[at(first, 0), at(first, 1), at(first, 2)]; x],
            _ => return None,
        },
        3 => {
            let nc = first.len();
            if rows.iter().any(|r| r.len() != nc) {
                return None;
            }
            macro_rules! lit {
                ($c:literal) => {{
                    let mut it = rows.iter().map(|r| <[T; $c]>::try_from(atoms::<T>(r)).ok().unwrap());
                    match rows.len() {
                        1 => matrix![it.next().unwrap()],
                        2 => matrix![it.next().unwrap(), it.next().unwrap()],
                        3 => matrix![it.next().unwrap(), it.next().unwrap(), it.next().unwrap(),],
                        _ => return None,
                    }
                }};
            }
            match nc {
                1 => lit!(1),
                2 => lit!(2),
                3 => lit!(3),
                _ => return None,
            }
        }
        4 => {
            #[allow(redundant_semicolons)]
            let m: Matrix<T> = { row_vec![] };
            m
        }
        5 => row_vec![T::atom(7); x],
        6 => match first.len() {
            1 => row_vec![at(first, 0)],
            2 => row_vec![at(first, 0), at(first, 1)],
            3 => row_vec![at(first, 0), at(first, 1), at(first, 2),],
            _ => return None,
        },
        7 => {
            let m: Matrix<T> = { col_vec![] };
            m
        }
        8 => col_vec![T::atom(7); x],
        9 => match first.len() {
            1 => col_vec![at(first, 0)],
            2 => col_vec![at(first, 0), at(first, 1)],
            3 => col_vec![at(first, 0), at(first, 1), at(first, 2),],
            _ => return None,
        },
        _ => return None,
    })
}

/// runs one history; `lines` are the `O` lines between `H` and `E`
pub fn run_history<T: Elem>(id: &str, ops: &[WireOp], ctx: &Ctx, out: &mut dyn std::io::Write) {
    reset_ledger();
    let mut pool: Pool<T> = (0..4).map(|_| None).collect();
    writeln!(out, "H {id}").unwrap();
    for op in ops {
        if op.code == 900 {
            // X fault k mask : arm the injector for the next operation
            arm_fault(op.a[0] as i64, op.a.get(1).map_or(!0, |m| *m as i64));
            continue;
        }
        crate::PROGRESS.fetch_add(1, SeqCst);
        let r = catch_unwind(AssertUnwindSafe(|| exec(&mut pool, op, ctx)));
        let (ticks, fired) = disarm_fault();
        let obs = match r {
            Ok(s) => s,
            Err(p) => panic_class(p),
        };
        // side oracles: ledger and coherence of every live matrix
        let expected_live: i64 = pool.iter().flatten().map(|m| m.size() as i64).sum();
        let mut side = Vec::new();
        if T::NAME == "tr" || T::NAME == "zd" {
            let live = live_count();
            if live != expected_live {
                side.push(format!("live={live}!={expected_live}"));
            }
        }
        for (i, m) in pool.iter().enumerate() {
            if let Some(m) = m {
                if let Err(e) = coherence(m) {
                    side.push(format!("coh[{i}]:{}", e.replace(' ', "_")));
                }
            }
        }
        for f in take_flags() {
            side.push(format!("flag:{}", f.replace(' ', "_")));
        }
        let side = if side.is_empty() { "ok".to_string() } else { side.join("|") };
        writeln!(
            out,
            "{obs} ;; {} ;; {side} cl={} dr={} ticks={ticks} fired={}",
            show_pool(&pool),
            CLONED.swap(0, SeqCst),
            DROPPED.swap(0, SeqCst),
            fired as u8
        )
        .unwrap();
    }
    // dropping the pool must release every element exactly once
    drop(pool);
    let live = live_count();
    let flags = take_flags();
    if live != 0 || !flags.is_empty() {
        writeln!(out, "E live={live} flags={}", flags.join("|").replace(' ', "_")).unwrap();
    } else {
        writeln!(out, "E").unwrap();
    }
}
