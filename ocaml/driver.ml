(* Correspondence driver: reads cases, evaluates the extracted Coq model, prints
   one canonical observation line per operation.  Everything that decides an
   outcome is extracted code (model.ml); this file only parses and prints. *)
open Model

(* ---------- numbers ---------- *)
let z0 = Z0
let z_of_int (n : int) : z =
  let rec pos n = if n = 1 then XH else if n land 1 = 0 then XO (pos (n lsr 1)) else XI (pos (n lsr 1)) in
  if n = 0 then Z0 else if n > 0 then Zpos (pos n) else Zneg (pos (-n))
let z10 = z_of_int 10
let z_of_string (s : string) : z =
  let neg = String.length s > 0 && s.[0] = '-' in
  let start = if neg then 1 else 0 in
  let acc = ref Z0 in
  for i = start to String.length s - 1 do
    let d = Char.code s.[i] - 48 in
    if d < 0 || d > 9 then failwith ("bad number: " ^ s);
    acc := Z.add (Z.mul !acc z10) (z_of_int d)
  done;
  if neg then Z.opp !acc else !acc
let rec int_of_pos = function XH -> 1 | XO p -> 2 * int_of_pos p | XI p -> 2 * int_of_pos p + 1
let small_int_of_z = function Z0 -> 0 | Zpos p -> int_of_pos p | Zneg p -> - (int_of_pos p)
let string_of_z (n : z) : string =
  let neg, n = match n with Zneg p -> true, Zpos p | _ -> false, n in
  if n = Z0 then "0" else begin
    let b = Buffer.create 24 in
    let digits = ref [] in
    let cur = ref n in
    while !cur <> Z0 do
      let (q, r) = Z.div_eucl !cur z10 in
      digits := small_int_of_z r :: !digits;
      cur := q
    done;
    if neg then Buffer.add_char b '-';
    List.iter (fun d -> Buffer.add_char b (Char.chr (48 + d))) !digits;
    Buffer.contents b
  end

(* ---------- printing ---------- *)
let name_of_error = function
  | SizeOverflow -> "SizeOverflow" | SizeMismatch -> "SizeMismatch" | CapacityOverflow -> "CapacityOverflow"
  | LengthInconsistent -> "LengthInconsistent" | IndexOutOfBounds -> "IndexOutOfBounds"
  | SquareMatrixRequired -> "SquareMatrixRequired" | ShapeNotConformable -> "ShapeNotConformable"
let class_of_why = function
  | AddOverflow | SubOverflow | MulOverflow | DivByZero | RemByZero -> "arith"
  | PanicErr e -> name_of_error e
  | PanicCaller -> "caller"
  | PanicStd -> "std"
  | OutOfFuel -> "fuel"
  | _ -> "ub"
let rec string_of_expr = function
  | Atom v -> "a" ^ string_of_z v
  | Dflt -> "D"
  | Bin (o, l, r) -> "(B" ^ string_of_z o ^ " " ^ string_of_expr l ^ " " ^ string_of_expr r ^ ")"
  | Un (f, e) -> "(U" ^ string_of_z f ^ " " ^ string_of_expr e ^ ")"
let rec string_of_obs = function
  | OUnit -> "()"
  | OBool b -> if b then "true" else "false"
  | OZ z -> string_of_z z
  | OOrd RowMajor -> "Row"
  | OOrd ColMajor -> "Col"
  | OElem e -> string_of_expr e
  | OErr e -> "Err(" ^ name_of_error e ^ ")"
  | OPanic w -> "Panic(" ^ class_of_why w ^ ")"
  | OUB _ -> "UB"
  | OInvalid -> "INVALID"
  | OSome o -> "Some(" ^ string_of_obs o ^ ")"
  | ONone -> "None"
  | OList l -> "[" ^ String.concat "," (List.map string_of_obs l) ^ "]"
  | OStr s -> "S:" ^ String.concat "." (List.map string_of_z s)
let string_of_slot i = function
  | None -> string_of_int i ^ "=-"
  | Some m ->
    string_of_int i ^ "=" ^ (match m.m_order with RowMajor -> "R" | ColMajor -> "C") ^ ":" ^
    string_of_z (nrows m) ^ "x" ^ string_of_z (ncols m) ^ ":[" ^
    String.concat "," (List.map string_of_expr m.m_data) ^ "]"
let string_of_pool p = String.concat " " (List.mapi string_of_slot p)

(* ---------- parsing ---------- *)
let split_ws s = List.filter (fun t -> t <> "") (String.split_on_char ' ' s)

(* "<ints> | <ints> | ..." -> first group, remaining groups *)
let parse_groups (toks : string list) : z list * z list list =
  let groups = ref [] and cur = ref [] in
  List.iter (fun t -> if t = "|" then (groups := List.rev !cur :: !groups; cur := []) else cur := z_of_string t :: !cur) toks;
  groups := List.rev !cur :: !groups;
  match List.rev !groups with
  | [] -> ([], [])
  | a :: rows -> (a, rows)

let () =
  let ic = if Array.length Sys.argv > 1 then open_in Sys.argv.(1) else stdin in
  let out = Buffer.create (1 lsl 16) in
  let flush_out () = print_string (Buffer.contents out); Buffer.clear out in
  let pool = ref empty_pool and cfg = ref (cfg64 true) and es = ref Z0 in
  (try
     while true do
       let line = input_line ic in
       match split_ws line with
       | "H" :: id :: es_s :: dbg :: _ ->
         pool := empty_pool; es := z_of_string es_s; cfg := cfg64 (dbg = "1");
         Buffer.add_string out ("H " ^ id ^ "\n")
       | "O" :: code :: _name :: rest ->
         let (a, rows) = parse_groups rest in
         let (p', ob) = step_wire !cfg !es !pool (z_of_string code) a rows in
         pool := p';
         Buffer.add_string out (string_of_obs ob ^ " ;; " ^ string_of_pool p' ^ "\n")
       | "E" :: _ -> Buffer.add_string out "E\n"; if Buffer.length out > 60000 then flush_out ()
       | "K" :: id :: dbg :: name :: rest ->
         let code = match name with
           | "check_size" -> 1 | "try_to_axis_shape" -> 2 | "ctor" -> 3 | "reshape" -> 4 | "mapfam" -> 5
           | "multiply" | "mul_like" -> 6 | "from_wrapping" -> 7 | "index_from_flattened" -> 8 | "index_to_flattened" -> 9 | "autotraits" -> 10 | "scalar_forms" -> 11 | "scalar_neg" -> 12 | "multiply_mixed" -> 13
           | _ -> 0 in
         let ob = if name = "itermut_zst" then kcase_itermut_zst (cfg64 (dbg = "1")) (List.map z_of_string rest)
                  else kcase (cfg64 (dbg = "1")) (z_of_int code) (List.map z_of_string rest) in
         Buffer.add_string out ("K " ^ id ^ " " ^ string_of_obs ob ^ "\n")
       | [] -> ()
       | "X" :: _ -> ()    (* fault injection directive: the functional model runs the un-faulted history *)
       | _ -> failwith ("bad line: " ^ line)
     done
   with End_of_file -> ());
  flush_out ()
