#!/bin/sh
# usage: tools/try_patch.sh <patch.diff> <ID>...   applies the patch to /repo, runs the checks, and always reverts
patch="$1"; shift
git -C /repo apply "$patch" || { echo "patch does not apply"; exit 2; }
for id in "$@"; do
  /verif/check "$id" --tier quick 2>&1 | grep -E "^(OK|VIOLATION|KNOWN|  )" | cut -c1-260
done
git -C /repo checkout -- . ; git -C /repo status --short | head -3
