#!/usr/bin/env python3
"""Systematic syntactic mutants of /repo/src against the checks.

usage: tools/mutant_sweep.py <N> [seed] [file-filter]

Generates single-token mutants (comparison / arithmetic operator swaps, axis and order swaps, off-by-one constants,
dropped `?` checks ...) of the non-test code of /repo/src, samples N of them, and for each one that still compiles and
passes the crate's own unit tests runs the quick checks of the properties anchored in the mutated file until one
reports a violation.  /repo is restored after every mutant (git checkout).  Results are appended to
/verif/seeded/mutant-sweep.jsonl: one line per mutant with its verdict
  killed-by-tests | does-not-compile | detected:<ID> | undetected (checks run: ...)
Undetected mutants are either equivalent (no property is violated) or gaps in the checks; each is examined by hand and
the conclusion recorded in DESIGN.md."""
import json, os, random, re, subprocess, sys, time
V, R = '/verif', '/repo'
sys.path.insert(0, f'{V}/lib')
import suites as S  # noqa: E402

OPS = [
    (r'(?<![<>=!\-])<(?![<=])', '<='), (r'<=', '<'), (r'(?<![<>=\-])>(?![>=])', '>='), (r'>=', '>'),
    (r'==', '!='), (r'!=', '=='),
    (r'(?<![+\w])\+(?![+=])', '-'), (r'(?<![\-\w>])-(?![-=>])', '+'), (r'(?<![*/])\*(?![*/=])', '+'),
    (r'\bmajor\b', 'minor'), (r'\bminor\b', 'major'), (r'\bnrows\b', 'ncols'), (r'\bncols\b', 'nrows'),
    (r'\brow\b', 'col'), (r'\bcol\b', 'row'), (r'\bRowMajor\b', 'ColMajor'), (r'\bColMajor\b', 'RowMajor'),
    (r'\bmajor_stride\b', 'minor_stride'), (r'\bminor_stride\b', 'major_stride'),
    (r'\b0\b', '1'), (r'\b1\b', '0'), (r'\b1\b', '2'),
    (r'\blower\b', 'upper'), (r'\bupper\b', 'lower'), (r'\bindex\b', 'jndex'),
    (r'\.skip\(', '.skip(1 + '), (r'\.take\(', '.take(1 + '), (r'\.step_by\(', '.step_by(1 + '),
    (r'\|\|', '&&'), (r'&&', '||'), (r'\bself\b', 'rhs'), (r'\brhs\b', 'self'), (r'\bm\b', 'n'), (r'\bn\b', 'm'),
    (r'\.rev\(\)', ''), (r'\bnext_back\b', 'next'), (r'\bsize\b', 'capacity'),
]


def sh(cmd, cwd=None, timeout=1800):
    p = subprocess.run(cmd, shell=True, cwd=cwd, stdout=subprocess.PIPE, stderr=subprocess.STDOUT, timeout=timeout,
                       env=dict(os.environ, CARGO_NET_OFFLINE='true', CARGO_TARGET_DIR='/tmp/mutant-target'))
    return p.returncode, p.stdout.decode('utf-8', 'replace')


def candidates(file_filter):
    out = []
    for root, _, files in os.walk(f'{R}/src'):
        for f in files:
            if not f.endswith('.rs'):
                continue
            path = os.path.join(root, f)
            rel = os.path.relpath(path, R)
            if file_filter and file_filter not in rel:
                continue
            lines = open(path).read().split('\n')
            in_test = False
            for i, line in enumerate(lines):
                if '#[cfg(test)]' in line:
                    in_test = True
                if in_test:
                    continue
                code = line.split('//')[0]
                st = code.strip()
                if not st or st.startswith(('#', 'use ', '///', '//!', 'pub use', 'mod ', 'pub mod')) or 'verif_hooks' in code or 'verif-hooks' in code or rel.endswith('verif_hooks.rs'):
                    continue
                for k, (pat, rep) in enumerate(OPS):
                    for m in re.finditer(pat, code):
                        new = code[:m.start()] + rep + code[m.end():] + line[len(code):]
                        if new != line:
                            out.append((rel, i, k, m.start(), line, new))
    return out


def props_for(rel):
    ids = []
    for pid, su in S.SUITES.items():
        files = S.expand_files(su.get('files', ['src']))
        if rel in files:
            ids.append(pid)
    # cheap and specific checks first; C01/C02/C07 (anchored in all of src) last
    order = ['C04', 'C13', 'C15', 'C09', 'C10', 'C14', 'C12', 'C11', 'C19', 'C18', 'C05', 'C06', 'C20', 'C17', 'C03', 'C16', 'C08', 'C07', 'C02', 'C01']
    return sorted(ids, key=order.index)


def main():
    n = int(sys.argv[1])
    seed = sys.argv[2] if len(sys.argv) > 2 else '0'
    ff = sys.argv[3] if len(sys.argv) > 3 else None
    rc, st = sh(f'git -C {R} status --short')
    if st.strip():
        print('refusing: /repo is not clean')
        return 2
    cands = candidates(ff)
    rng = random.Random(f'mutants-{seed}')
    rng.shuffle(cands)
    log = open(f'{V}/seeded/mutant-sweep.jsonl', 'a')
    done = 0
    for (rel, i, k, pos, old, new) in cands:
        if done >= n:
            break
        path = f'{R}/{rel}'
        lines = open(path).read().split('\n')
        assert lines[i] == old
        lines[i] = new
        verdict, ran = None, []
        t0 = time.time()
        try:
            open(path, 'w').write('\n'.join(lines))
            rc, out = sh('cargo test --offline --lib 2>&1 | tail -5', cwd=R)
            if 'test result: ok' not in out:
                verdict = 'does-not-compile' if ('error' in out and 'test result' not in out) else 'killed-by-tests'
            else:
                for pid in props_for(rel):
                    rc, out = sh(f'{V}/check {pid} --tier quick', cwd=V)
                    ran.append(pid)
                    if rc == 1 and 'VIOLATION' in out:
                        first = [l for l in out.split('\n') if l.startswith('  ')][:1]
                        verdict = f'detected:{pid}' + (' ' + first[0].strip()[:160] if first else '')
                        break
                if verdict is None:
                    verdict = 'undetected'
        finally:
            sh(f'git -C {R} checkout -- .')
        if verdict in ('does-not-compile',):
            continue            # not counted
        done += 1
        rec = dict(file=rel, line=i + 1, old=old.strip(), new=new.strip(), verdict=verdict, checks_run=ran, seconds=round(time.time() - t0), seed=seed)
        log.write(json.dumps(rec) + '\n')
        log.flush()
        print(json.dumps(rec), flush=True)
    return 0


sys.exit(main())
