#!/usr/bin/env python3
"""Refreshes the generated tables of DESIGN.md (between <!-- BEGIN:x --> / <!-- END:x --> markers):
claims (from lib/claims.py + coq/Props/*.v) and seeds (from seeded/*/meta.json)."""
import json, os, re, sys
V = '/verif'
sys.path.insert(0, f'{V}/lib')
import claims  # noqa: E402

def claims_table():
    out = []
    total = 0
    for pid in sorted(claims.CLAIMED):
        tech, what, tb, ref = claims.CLAIMED[pid]
        src = open(f'{V}/coq/Props/{pid}.v').read()
        thms = re.findall(r'\bTheorem\s+(\w+)', src)
        total += len(thms)
        out.append(f'**{pid}** — {tech}.\n\n{what}\n\n*Theorems* (`coq/Props/{pid}.v`): ' + ', '.join(f'`{t}`' for t in thms) +
                   '.\n\n*Limits*: ' + tb.replace(claims.TB, '').strip().lstrip('.').strip() if tb.replace(claims.TB, '').strip() else
                   f'**{pid}** — {tech}.\n\n{what}\n\n*Theorems* (`coq/Props/{pid}.v`): ' + ', '.join(f'`{t}`' for t in thms) + '.')
    hdr = (f'{len(claims.CLAIMED)} properties claimed, {total} property theorems. The common trusted base (§0.9) applies to each; '
           '"Limits" lists what is specific to the property. Properties whose claim starts with PARTIAL are partial in the sense of the task: '
           'the logic part is proved, the named runtime behaviour is only observed.\n')
    return hdr + '\n' + '\n\n'.join(out) + '\n'

def seeds_table():
    rows = ['| seed | property | what the change does (first line of the author\'s note) | detected by | applies to HEAD |', '|---|---|---|---|---|']
    n = det = 0
    for tag in sorted(os.listdir(f'{V}/seeded')):
        mp = f'{V}/seeded/{tag}/meta.json'
        if not os.path.exists(mp):
            continue
        m = json.load(open(mp))
        n += 1
        note = ''
        mm = f'{V}/seeded/{tag}/MUTATION.md'
        if os.path.exists(mm):
            lines = [l.strip() for l in open(mm).read().split('\n') if l.strip() and not l.startswith('#') and not l.startswith('```')]
            note = ' '.join(lines[:2])[:230]
        note = note.replace('|', '\\|')
        d = m.get('detected_by', [])
        det += 1 if d else 0
        extra = ''
        for pid, c in m.get('checks', {}).items():
            if any(l.startswith('KNOWN-FINDING') for l in c.get('output', [])):
                extra = ' (+KNOWN-FINDING F2 line)'
        rows.append(f"| {tag} | {m.get('property')} | {note} | {', '.join(d) if d else '**none**'}{extra} | {'yes' if m.get('applies_to_head', True) else 'no'} @{m.get('repo_head', '?')} |")
    return f'{n} seeded changes, {det} detected by at least one check.\n\n' + '\n'.join(rows) + '\n'

def main():
    p = f'{V}/DESIGN.md'
    s = open(p).read()
    for name, fn in (('claims', claims_table), ('seeds', seeds_table)):
        b, e = f'<!-- BEGIN:{name} -->', f'<!-- END:{name} -->'
        if b in s and e in s:
            i, j = s.index(b) + len(b), s.index(e)
            s = s[:i] + '\n' + fn() + s[j:]
    open(p, 'w').write(s)
    print('DESIGN.md tables refreshed')
main()
