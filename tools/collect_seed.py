#!/usr/bin/env python3
"""tools/collect_seed.py <PROPERTY> [<TAG> [check ids...]]: verifies a sub-agent's seeded change in /tmp/wt-<ID> independently,
stores it under /verif/seeded/<ID>/, runs the named checks against it (applied to /repo, always reverted), records
the outcome in meta.json and removes the worktree."""
import json, os, shutil, subprocess, sys
pid = sys.argv[1]
tag = sys.argv[2] if len(sys.argv) > 2 else pid
checks = sys.argv[3:] or [pid]
wt = f'/tmp/wt-{tag}'
dst = f'/verif/seeded/{tag}'
os.makedirs(dst, exist_ok=True)
env = dict(os.environ, CARGO_NET_OFFLINE='true', CARGO_TARGET_DIR=f'{wt}/target')
def sh(cmd, cwd=None):
    p = subprocess.run(cmd, shell=True, cwd=cwd, env=env, stdout=subprocess.PIPE, stderr=subprocess.STDOUT, text=True)
    return p.returncode, p.stdout
rc, diff = sh('git diff -- src', wt)
open(f'{dst}/patch.diff', 'w').write(diff)
demo = f'tests/demo_{tag}.rs'
if not os.path.exists(f'{wt}/{demo}'):
    cands = [f for f in os.listdir(f'{wt}/tests')] if os.path.isdir(f'{wt}/tests') else []
    demo = 'tests/' + cands[0] if cands else None
ran = {}
# 1. existing suite passes with the change
rc, out = sh('cargo test --offline --lib 2>&1 | tail -3', wt)
ran['unit tests with change'] = out.strip().split('\n')[-1] if out.strip() else '?'
ok_tests = 'test result: ok' in out and '132 passed' in out
# 2. demo fails with the change
name = os.path.basename(demo)[:-3] if demo else None
rc1, out1 = sh(f'cargo test --offline --test {name} 2>&1 | tail -4', wt) if demo else (0, '')
ran['demo with change'] = [l for l in out1.strip().split('\n') if 'test result' in l or 'error' in l][-1:] or out1[-200:]
fails_with = 'FAILED' in out1 or 'failed' in out1
# 3. demo passes without
sh('git diff -- src > target/seed.patch && git checkout -- src', wt)
rc2, out2 = sh(f'cargo test --offline --test {name} 2>&1 | tail -4', wt) if demo else (1, '')
sh('git apply target/seed.patch', wt)
ran['demo without change'] = [l for l in out2.strip().split('\n') if 'test result' in l][-1:] or out2[-200:]
passes_without = 'test result: ok' in out2
if demo:
    shutil.copy(f'{wt}/{demo}', f'{dst}/{os.path.basename(demo)}')
if os.path.exists(f'{wt}/MUTATION.md'):
    shutil.copy(f'{wt}/MUTATION.md', f'{dst}/MUTATION.md')
confirmed = ok_tests and fails_with and passes_without and bool(diff.strip())
# 4. my checks against it
results = {}
if confirmed:
    rc, out = sh(f'git -C /repo apply {dst}/patch.diff')
    if rc != 0:
        results['apply'] = out
    else:
        try:
            for c in checks:
                rc, out = sh(f'/verif/check {c} --tier quick', '/verif')
                lines = [l for l in out.split('\n') if l.startswith(('OK', 'VIOLATION', 'KNOWN', '  '))]
                results[c] = dict(exit=rc, output=lines[:4])
        finally:
            sh('git -C /repo checkout -- .')
meta = dict(property=pid, tag=tag, confirmed=confirmed, needs=open(f'{dst}/MUTATION.md').read()[:1500] if os.path.exists(f'{dst}/MUTATION.md') else '',
            ran=ran, checks=results, detected_by=[c for c, r in results.items() if isinstance(r, dict) and r['exit'] == 1])
json.dump(meta, open(f'{dst}/meta.json', 'w'), indent=1)
print(json.dumps(dict(tag=tag, confirmed=confirmed, ran=ran, checks=results), indent=1)[:3000])
if confirmed:
    sh(f'git -C /repo worktree remove --force {wt}')
    print('worktree removed')
rc, out = sh('git -C /repo status --short')
print('repo status:', out.strip() or 'clean')
