#!/usr/bin/env python3
"""Re-runs every seeded change under /verif/seeded against the current /repo and the current checks.
For each <tag>: git -C /repo apply patch.diff; run ./check <ID> (quick) for the property and for every check already
recorded in meta.json; record exit code and the VIOLATION / KNOWN-FINDING lines; git -C /repo checkout -- . ;
rewrite meta.json (checks, detected_by, repo_head).  Usage: tools/recheck_seeds.py [tag ...]"""
import json, os, subprocess, sys
V = '/verif'
def sh(cmd, **kw):
    p = subprocess.run(cmd, shell=True, stdout=subprocess.PIPE, stderr=subprocess.STDOUT, **kw)
    return p.returncode, p.stdout.decode('utf-8', 'replace')
def main():
    own = '--own' in sys.argv           # only the seed's own property (plus the checks that detected it when its own did not)
    skip_done = '--skip-done' in sys.argv
    args = [a for a in sys.argv[1:] if not a.startswith('--')]
    tags = args or sorted(os.listdir(f'{V}/seeded'))
    rc, st = sh('git -C /repo status --short')
    if st.strip():
        print('refusing: /repo is not clean'); return 2
    head = sh('git -C /repo rev-parse --short HEAD')[1].strip()
    summary = []
    for tag in tags:
        d = f'{V}/seeded/{tag}'
        mp = f'{d}/meta.json'
        if not os.path.exists(mp):
            continue
        meta = json.load(open(mp))
        if skip_done and meta.get('rechecked_at') == head + '+corpus':
            continue
        rc, out = sh(f'git -C /repo apply {d}/patch.diff')
        if rc != 0:
            meta['applies_to_head'] = False
            meta['repo_head'] = head
            json.dump(meta, open(mp, 'w'), indent=1)
            summary.append((tag, 'DOES NOT APPLY', out.strip()[:100]))
            print(summary[-1], flush=True)
            continue
        try:
            ids = [meta['property']] + [k for k in meta.get('checks', {}) if k != meta['property']]
            if own:
                prev = meta.get('detected_by', [])
                ids = [meta['property']] + ([k for k in prev if k != meta['property']] if meta['property'] not in prev else [])
            checks, det = {}, []
            for pid in ids:
                rc, out = sh(f'{V}/check {pid} --tier quick', cwd=V)
                lines = [l[:240] for l in out.split('\n') if l.startswith(('VIOLATION', 'KNOWN-FINDING', 'OK ', '  '))][:6]
                checks[pid] = dict(exit=rc, output=lines)
                if rc == 1 and any(l.startswith('VIOLATION') for l in lines):
                    det.append(pid)
                    # the failing history goes into the regression corpus of the property (run first by every later check)
                    try:
                        rp = [l for l in lines if l.startswith('VIOLATION')][0].split('replay=')[1].split()[0]
                        fi = json.load(open(rp)).get('violation', {}).get('failing_input') or {}
                        if fi.get('history') and len(fi['history']) <= 400:
                            os.makedirs(f'{V}/corpus/{pid}', exist_ok=True)
                            json.dump(dict(history=fi['history'], elem=fi.get('elem', 'tr'), debug=fi.get('debug', 1),
                                           threads=fi.get('threads', 0), delay=fi.get('delay', 0), origin=f'seeded change {tag}'),
                                      open(f'{V}/corpus/{pid}/{tag}.json', 'w'), indent=1)
                    except Exception as e:
                        print('corpus: could not store', tag, pid, e)
        finally:
            sh('git -C /repo checkout -- .')
        if own:
            old = dict(meta.get('checks', {}))
            old.update(checks)
            checks = old
            det = sorted(set(det) | {k for k in meta.get('detected_by', []) if k not in ids})
        meta.update(checks=checks, detected_by=det, repo_head=head, applies_to_head=True, rechecked_at=head + '+corpus')
        json.dump(meta, open(mp, 'w'), indent=1)
        summary.append((tag, 'detected by ' + ','.join(det) if det else 'MISSED', ''))
        print(summary[-1], flush=True)
    missed = [s for s in summary if not s[1].startswith('detected')]
    print(f'{len(summary)} seeds, {len(missed)} not detected / not applicable: {missed}')
    return 0
sys.exit(main())
