"""Shared machinery of ./check: builds, running cases through the harness and the
extracted model, comparison, evidence and violation reporting."""
import fcntl
import hashlib
import json
import os
import re
import subprocess
import sys
import time

VERIF = os.path.dirname(os.path.dirname(os.path.abspath(__file__)))
REPO = '/repo'
BUILD = os.path.join(VERIF, 'build')
COQ = os.path.join(VERIF, 'coq')
ENV = dict(os.environ, CARGO_NET_OFFLINE='true', CARGO_TARGET_DIR=os.path.join(BUILD, 'harness'))
for k in ('FORCE_COLOR', 'CLICOLOR_FORCE', 'RUSTFLAGS'):
    ENV.pop(k, None)

FORBIDDEN = re.compile(r'\b(Admitted|admit|Axiom|Axioms|Parameter|Parameters|Conjecture|Hypothesis|Variable\s+\w+\s*:.*\.\s*$)|Unset Guard|bypass_check|type-in-type|impredicative-set|Admit Obligations')


class Lock:
    def __init__(self, name='build'):
        os.makedirs(BUILD, exist_ok=True)
        self.path = os.path.join(BUILD, name + '.lock')

    def __enter__(self):
        self.f = open(self.path, 'w')
        fcntl.flock(self.f, fcntl.LOCK_EX)
        return self

    def __exit__(self, *a):
        fcntl.flock(self.f, fcntl.LOCK_UN)
        self.f.close()


def sh(cmd, cwd=None, timeout=1800, env=None, check=False):
    p = subprocess.run(cmd, cwd=cwd, shell=isinstance(cmd, str), stdout=subprocess.PIPE, stderr=subprocess.STDOUT,
                       timeout=timeout, env=env or ENV, text=True, errors='replace')
    if check and p.returncode != 0:
        raise RuntimeError(f"command failed ({p.returncode}): {cmd}\n{p.stdout[-4000:]}")
    return p.returncode, p.stdout


# ---------------------------------------------------------------------------------------------
# builds
def coq_make(targets=None):
    """full .vo build through coq_makefile (never -vos); returns (ok, log)"""
    with Lock('coq'):
        if not os.path.exists(os.path.join(COQ, 'Makefile')) or \
                os.path.getmtime(os.path.join(COQ, 'Makefile')) < os.path.getmtime(os.path.join(COQ, '_CoqProject')):
            sh('coq_makefile -f _CoqProject -o Makefile', cwd=COQ, check=True)
        tgt = ' '.join(targets) if targets else ''
        rc, out = sh(f'timeout 1500 make -j16 {tgt}', cwd=COQ, timeout=1600)
        return rc == 0, out


def build_model():
    """extract the model and build the OCaml driver when anything it depends on changed"""
    with Lock('ocaml'):
        exe = os.path.join(BUILD, 'mxmodel')
        srcs = [os.path.join(VERIF, 'ocaml', 'driver.ml'), os.path.join(COQ, 'Extract', 'Extract.v')]
        for root, _, files in os.walk(os.path.join(COQ, 'Model')):
            srcs += [os.path.join(root, f) for f in files if f.endswith('.v')]
        srcs += [os.path.join(COQ, 'Base', f) for f in os.listdir(os.path.join(COQ, 'Base')) if f.endswith('.v')]
        if os.path.exists(exe) and all(os.path.getmtime(s) <= os.path.getmtime(exe) for s in srcs):
            return True, 'up to date'
        oc = os.path.join(VERIF, 'ocaml')
        rc, out = sh(f'coqc -Q {COQ} Matreex {COQ}/Extract/Extract.v -o {BUILD}/Extract.vo', cwd=oc, timeout=600)
        if rc != 0:
            return False, out
        rc, out2 = sh(f'ocamlfind ocamlopt -O2 -w -a model.mli model.ml driver.ml -o {exe}; rc=$?; rm -f *.cmi *.cmx *.o; exit $rc',
                      cwd=oc, timeout=600)
        return rc == 0, out + out2


def build_harness(profile='debug'):
    """rebuilds the harness against /repo's current working tree (cargo tracks the path dependency)"""
    with Lock('cargo'):
        h = os.path.join(VERIF, 'harness')
        lock = os.path.join(h, 'Cargo.lock')
        if not os.path.exists(lock):
            sh(f'cp {REPO}/Cargo.lock {lock}')
        flag = {'release': '--release',
                # the crate's other feature configurations (C20): no default features / full (= parallel + pretty-debug)
                'nodefault': f'--no-default-features --target-dir {BUILD}/harness-nodefault',
                'full': f'--features pretty --target-dir {BUILD}/harness-full'}.get(profile, '')
        rc, out = sh(f'timeout 900 cargo build --offline {flag} 2>&1', cwd=h, timeout=1000)
        return rc == 0, out


def harness_exe(profile='debug'):
    if profile in ('nodefault', 'full'):
        return os.path.join(BUILD, f'harness-{profile}', 'debug', 'mxh')
    return os.path.join(BUILD, 'harness', profile, 'mxh')


# ---------------------------------------------------------------------------------------------
# running cases
def split_blocks(text):
    """{case id: [lines]} from 'H id' ... 'E' output; an unfinished block is marked crashed"""
    blocks, cur, cid = {}, None, None
    for line in text.split('\n'):
        if line.startswith('K '):
            t = line.split(' ', 2)
            blocks[t[1]] = [t[2] if len(t) > 2 else '']
            continue
        if line.startswith('H '):
            cid, cur = line[2:].strip(), []
        elif line == 'E' or line.startswith('E '):
            if cid is not None:
                cur.append(line)
                blocks[cid] = cur
            cid, cur = None, None
        elif cur is not None and line:
            cur.append(line)
    return blocks, (cid, cur)


def run_harness(cases, workdir, profile='debug', timeout=600, tag='cases'):
    """runs the harness; after a crash (abort / signal) resumes behind the crashing case.
    Returns {id: lines}, crashes = {id: description}"""
    os.makedirs(workdir, exist_ok=True)
    path = os.path.join(workdir, f'{tag}.txt')
    with open(path, 'w') as f:
        for c in cases:
            f.write(c.text())
    results, crashes = {}, {}
    start, t0 = 0, time.time()
    order = [c.id for c in cases]
    while start < len(cases):
        try:
            p = subprocess.run([harness_exe(profile), path, str(start)], stdout=subprocess.PIPE, stderr=subprocess.PIPE,
                               timeout=max(10, timeout - (time.time() - t0)), env=ENV)
            out, rc = p.stdout.decode('utf-8', 'replace'), p.returncode
            err = p.stderr.decode('utf-8', 'replace')[-300:]
        except subprocess.TimeoutExpired as e:
            out, rc, err = (e.stdout or b'').decode('utf-8', 'replace'), -999, 'timeout'
        blocks, (open_id, open_lines) = split_blocks(out)
        results.update(blocks)
        begun = [l[2:].strip() for l in out.split('\n') if l.startswith('B ')]
        if rc == 0:
            break
        crashed = open_id if open_id is not None else (begun[-1] if begun and begun[-1] not in blocks else None)
        if crashed is None:
            # crashed before starting any case
            crashed = order[start] if start < len(order) else None
            if crashed is None:
                break
        desc = f'signal {-rc}' if rc < 0 and rc != -999 else ('timeout' if rc == -999 else f'exit {rc}')
        if 'watchdog' in err:
            desc = 'hang (no progress for 20 s)'
        crashes[crashed] = f'Crash({desc}) after {len(open_lines or [])} ops; stderr: {err.strip()[-200:]}'
        results[crashed] = (open_lines or []) + [f'CRASH {desc}']
        start = order.index(crashed) + 1
        if time.time() - t0 > timeout:
            break
    return results, crashes


def run_model(cases, workdir, tag='cases', timeout=900):
    """evaluates the extracted model on the cases; the case list is cut into shards that run as parallel processes
    (the extracted arithmetic on inductive Z is slow, the cases are independent)"""
    todo = [c for c in cases if not c.meta.get('no_model')]
    weight = sum(len(c.text()) for c in todo)
    nshards = max(1, min(16, len(todo) // 8, weight // 40000 + 1))
    shards = [[] for _ in range(nshards)]
    # round-robin by descending size keeps the shards balanced
    for i, c in enumerate(sorted(todo, key=lambda c: -len(c.text()))):
        shards[i % nshards].append(c)
    procs = []
    for k, sh in enumerate(shards):
        path = os.path.join(workdir, f'{tag}-model.txt' if nshards == 1 else f'{tag}-model-{k}.txt')
        with open(path, 'w') as f:
            for c in sh:
                f.write(c.text())
        out = open(path + '.out', 'wb')
        # deep symbolic expressions (long histories of products) need a deep stack in the extracted code
        procs.append((subprocess.Popen(['sh', '-c', 'ulimit -s unlimited 2>/dev/null || ulimit -s 1000000 2>/dev/null; exec "$0" "$1"',
                                        os.path.join(BUILD, 'mxmodel'), path], stdout=out, stderr=subprocess.PIPE), out, path))
    blocks = {}
    t0 = time.time()
    for pr, out, path in procs:
        try:
            _, err = pr.communicate(timeout=max(5, timeout - (time.time() - t0)))
        except subprocess.TimeoutExpired:
            for q, _, _ in procs:
                q.kill()
            raise RuntimeError('model driver timed out')
        out.close()
        if pr.returncode != 0:
            raise RuntimeError('model driver failed: ' + err.decode()[-500:])
        b, _ = split_blocks(open(path + '.out', encoding='utf-8', errors='replace').read())
        blocks.update(b)
        os.remove(path + '.out')
    return blocks


# ---------------------------------------------------------------------------------------------
# canonicalisation and comparison
_EXPR_TOKEN = re.compile(r'a-?\d+|D')


def mask_elems(s):
    """for zero-sized element types: every element prints as `_`"""
    out, i, depth = [], 0, 0
    # replace balanced (B.. ..) / (U.. ..) groups and atoms by `_`
    while i < len(s):
        ch = s[i]
        if ch == '(' and i + 1 < len(s) and s[i + 1] in 'BU':
            d, j = 0, i
            while j < len(s):
                if s[j] == '(':
                    d += 1
                elif s[j] == ')':
                    d -= 1
                    if d == 0:
                        break
                j += 1
            out.append('_')
            i = j + 1
            continue
        m = _EXPR_TOKEN.match(s, i)
        if m and (i == 0 or s[i - 1] in '[,( '):
            # only when the token is a whole element (followed by a delimiter)
            j = m.end()
            if j == len(s) or s[j] in '],) ':
                out.append('_')
                i = j
                continue
        out.append(ch)
        i += 1
    return ''.join(out)




_CHAIN = re.compile(r'((?:\(U\d+ )+)a(-?\d+)')
_CHAIN_F = re.compile(r'\(U(\d+) ')


def chain_values(s, fn):
    """evaluates every chain (U f1 (U f2 ... a<v>)) of closure applications on a plain value in one pass"""
    if '(U' not in s:
        return s
    out, last = [], 0
    for m in _CHAIN.finditer(s):
        fs = [int(x) for x in _CHAIN_F.findall(m.group(1))]
        v = int(m.group(2))
        for f in reversed(fs):
            v = fn(f, v)
        out.append(s[last:m.start()])
        out.append('a' + str(v))
        last = m.end() + len(fs)          # the closing parentheses of the chain
    out.append(s[last:])
    return ''.join(out)


def w24_values(s):
    """the 24-byte plain element type has no symbolic payload: closure f maps value v to v + 1000000*(f-9)"""
    return chain_values(s, lambda f, v: v + 1000000 * (f - 9))


_B1_ATOM = re.compile(r'\ba(-?\d+)\b')
_B1_BIG = re.compile(r'\ba(-|\d{3,})')


def b1_values(s):
    """the one-byte element type: atoms are reduced mod 256, closure f maps value v to (v + 37*(f-9)) mod 256"""
    s = chain_values(s, lambda f, v: (v + 37 * (f - 9)) % 256)
    if not _B1_BIG.search(s):
        return s
    return _B1_ATOM.sub(lambda m: 'a' + str(int(m.group(1)) % 256), s)


def split_top(s):
    """split '[a,b,(c d),[e,f]]' contents at top-level commas"""
    parts, depth, cur = [], 0, ''
    for ch in s:
        if ch in '([':
            depth += 1
        elif ch in ')]':
            depth -= 1
        if ch == ',' and depth == 0:
            parts.append(cur)
            cur = ''
        else:
            cur += ch
    if cur:
        parts.append(cur)
    return parts


def canon_line(line, case, op, side_of_model=False):
    """returns (obs, pool) canonicalised"""
    parts = line.split(' ;; ')
    obs = parts[0]
    pool = parts[1] if len(parts) > 1 else ''
    if case.elem in ('unit', 'zd'):
        if not obs.startswith('S:'):
            obs = mask_elems(obs)
        pool = mask_elems(pool)
    elif case.elem in ('w24', 'pn'):
        obs = w24_values(re.sub(r'\bD\b', 'a0', obs))
        pool = w24_values(re.sub(r'\bD\b', 'a0', pool))
    elif case.elem == 'b1':
        obs = b1_values(re.sub(r'\bD\b', 'a0', obs)) if not obs.startswith('S:') else obs
        pool = b1_values(re.sub(r'\bD\b', 'a0', pool))
    if op is not None and op[0] in (123, 124, 125, 126, 127, 128) and obs.startswith('['):
        obs = '[' + ','.join(sorted(split_top(obs[1:-1]))) + ']'
    return obs, pool


def side_of(line):
    parts = line.split(' ;; ')
    return parts[2] if len(parts) > 2 else ''


def compare_case(case, hlines, mlines):
    """returns list of findings: dicts {kind: 'oracle'|'model', op_index, op, observed, expected, detail}"""
    findings = []
    ops = [o for o in case.ops if o[1] != 'fault']
    n = len(ops)
    faulted = False
    for i in range(n):
        o = ops[i]
        if i >= len(hlines):
            findings.append(dict(kind='oracle', op_index=i, op=o[1], detail='no observation (harness stopped early)'))
            break
        hl = hlines[i]
        if hl.startswith('CRASH'):
            findings.append(dict(kind='oracle', op_index=i, op=o[1], detail=f'process died: {hl}', observed=hl,
                                 expected=(mlines[i] if mlines and i < len(mlines) else '?')))
            break
        side = side_of(hl)
        if ' fired=1' in side:
            faulted = True
        if side and not side.startswith('ok '):
            problems = [x for x in side.split(' cl=')[0].split('|') if not (faulted and leak_only(x))]
            if problems:
                findings.append(dict(kind='oracle', op_index=i, op=o[1], detail='direct oracle: ' + '|'.join(problems),
                                     observed=hl))
        if mlines is None or faulted:
            # after an injected panic the functional model no longer describes the state; the direct oracles go on
            continue
        if i >= len(mlines):
            findings.append(dict(kind='model', op_index=i, op=o[1], detail='model produced no line'))
            break
        ho, hp = canon_line(hl, case, o)
        mo, mp = canon_line(mlines[i], case, o)
        if ho != mo or hp != mp:
            findings.append(dict(kind='model', op_index=i, op=o[1], observed=f'{ho} ;; {hp}', expected=f'{mo} ;; {mp}',
                                 detail='implementation and proved model disagree'))
            break
    if len(hlines) > n:
        last = hlines[n]
        if last.startswith('E ') and 'live=' in last and not (faulted and last.endswith('flags=') and int(last.split('live=')[1].split()[0]) > 0):
            findings.append(dict(kind='oracle', op_index=n, op='<drop pool>', detail='ledger after dropping every matrix: ' + last,
                                 observed=last))
        elif last.startswith('CRASH'):
            findings.append(dict(kind='oracle', op_index=n, op='<drop pool>', detail='process died while dropping: ' + last,
                                 observed=last))
    return findings


def leak_only(item):
    """after a caught panic elements may at worst be leaked: more live elements than the matrices hold is allowed"""
    if item.startswith('live='):
        a, b = item[5:].split('!=')
        return int(a) > int(b)
    return False


# ---------------------------------------------------------------------------------------------
# source fingerprints
def fingerprint(files):
    """hash of the non-test source text of the given files, insensitive to comments and white space"""
    h = hashlib.sha256()
    for f in sorted(files):
        p = os.path.join(REPO, f)
        try:
            with open(p, 'r', encoding='utf-8', errors='replace') as fh:
                src = fh.read()
        except OSError:
            h.update(f.encode() + b'\0<missing>')
            continue
        cut = src.find('#[cfg(test)]')
        if cut >= 0:
            src = src[:cut]
        src = re.sub(r'//[^\n]*', '', src)
        src = re.sub(r'\s+', '', src)
        h.update(f.encode() + b'\0' + src.encode())
    return h.hexdigest()[:16]
