"""Wire operations (mirrors coq/Model/Decode.v) and a shape-only shadow of the pool
used by the generators to produce mostly-valid histories."""

CODES = {
    'new': 1, 'with_capacity': 2, 'with_default': 3, 'with_value': 4, 'with_init': 5, 'from_row': 6, 'from_col': 7,
    'from_arrays': 8, 'try_from': 9, 'from_iter': 10, 'macro': 11, 'default': 12, 'from_iter_hint': 13,
    'order': 20, 'shape': 21, 'nrows': 22, 'ncols': 23, 'size': 24, 'is_empty': 25, 'capacity_ge': 26,
    'get': 27, 'index': 29, 'get_unchecked_w': 31, 'contains': 32, 'is_square': 33, 'conform_ew': 34,
    'conform_mul': 35, 'ensure_square': 36, 'ensure_ew': 37, 'ensure_mul': 38, 'eq': 39, 'display': 40, 'debug': 41,
    'transpose': 50, 'switch_order': 51, 'switch_order_wr': 52, 'set_order': 53, 'set_order_wr': 54,
    'reshape': 55, 'resize': 56, 'shrink_to_fit': 57, 'shrink_to': 58, 'clear': 59,
    'set': 60, 'set_index_mut': 61, 'swap': 62, 'swap_rows': 63, 'swap_cols': 64, 'overwrite': 65,
    'apply': 70, 'map': 71, 'map_ref': 72, 'clone': 73, 'neg': 74, 'neg_ref': 75, 'clone_from': 76,
    'ew': 80, 'ew_consume': 81, 'ew_assign': 82, 'ew_named': 83, 'op_ew': 84, 'op_ew_assign': 85,
    'sc': 90, 'sc_consume': 91, 'sc_assign': 92,
    'multiply': 95, 'op_mul': 96, 'mul_like': 97,
    'iter_rows': 100, 'iter_cols': 101, 'iter_rows_mut': 102, 'iter_cols_mut': 103,
    'iter_nth_row': 104, 'iter_nth_col': 105, 'iter_nth_row_mut': 106, 'iter_nth_col_mut': 107,
    'iter_elements': 108, 'iter_elements_mut': 109, 'into_iter_elements': 110,
    'iter_elements_idx': 111, 'iter_elements_mut_idx': 112, 'into_iter_elements_idx': 113,
    'par_apply': 120, 'par_map': 121, 'par_map_ref': 122, 'par_iter_elements': 123, 'par_iter_elements_mut': 124,
    'into_par_iter_elements': 125, 'par_iter_elements_idx': 126, 'par_iter_elements_mut_idx': 127,
    'into_par_iter_elements_idx': 128,
    'drop': 130, 'threaded_vectors_mut': 140, 'threaded_scan': 141,
}
PAR_ITEM_OPS = {123, 124, 125, 126, 127, 128}

UMAX = 2**64 - 1
IMAX = 2**63 - 1


def op(name, *ints, rows=()):
    return (CODES[name], name, [int(x) for x in ints], [list(map(int, r)) for r in rows])


def op_line(o):
    code, name, ints, rows = o
    s = f"O {code} {name}" + ''.join(f" {x}" for x in ints)
    for r in rows:
        s += " |" + ''.join(f" {x}" for x in r)
    return s


class Case:
    def __init__(self, cid, ops, elem='tr', debug=1, threads=0, delay=0, meta=None):
        self.id = cid
        self.ops = ops
        self.elem = elem
        self.debug = debug
        self.threads = threads
        self.delay = delay
        self.meta = meta or {}

    @property
    def es(self):
        return {'tr': 40, 'unit': 0, 'zd': 0, 'w24': 24, 'b1': 1, 'pn': 8}[self.elem]

    def text(self):
        lines = [f"H {self.id} {self.es} {self.debug} {self.elem} {self.threads} {self.delay}"]
        for o in self.ops:
            if o[1] == 'fault':
                lines.append("X " + ' '.join(str(x) for x in o[2]))
            else:
                lines.append(op_line(o))
        lines.append("E")
        return '\n'.join(lines) + '\n'


class Shadow:
    """shape/order bookkeeping of the 4 pool slots: None or [nrows, ncols, order(0 row,1 col)]"""

    def __init__(self):
        self.s = [None, None, None, None]
        self.counter = 1

    def live(self):
        return [i for i, x in enumerate(self.s) if x is not None]

    def fresh_vals(self, n):
        v = list(range(self.counter, self.counter + n))
        self.counter += n
        return v

    def apply(self, o):
        """update the shadow for operation o (as the real crate would behave)"""
        code, name, a, rows = o
        s = self.s
        def dims(i): return s[i][0], s[i][1]
        if name in ('new', 'default', 'with_capacity'):
            s[a[0]] = [0, 0, 0]
        elif name in ('with_default', 'with_value', 'with_init'):
            if a[1] * a[2] <= 4096:
                s[a[0]] = [a[1], a[2], 0]
        elif name == 'from_row':
            s[a[0]] = [1, len(rows[0]) if rows else 0, 0]
        elif name == 'from_col':
            s[a[0]] = [len(rows[0]) if rows else 0, 1, 0]
        elif name == 'from_arrays':
            s[a[0]] = [len(rows), a[2], 0]
        elif name == 'try_from':
            nc = len(rows[0]) if rows else 0
            if all(len(r) == nc for r in rows):
                s[a[0]] = [len(rows), nc, 0]
        elif name in ('from_iter', 'from_iter_hint'):
            if rows:
                nc = len(rows[0])
                if all(len(r) == nc for r in rows):
                    s[a[0]] = [len(rows), nc, 0]
            else:
                s[a[0]] = [0, 0, 0]
        elif name == 'macro':
            d, arm, x, y = a
            first = rows[0] if rows else []
            s[d] = {0: [0, 0, 0], 1: [x, y, 0], 2: [x, len(first), 0], 3: [len(rows), len(first), 0],
                    4: [1, 0, 0], 5: [1, x, 0], 6: [1, len(first), 0], 7: [0, 1, 0], 8: [x, 1, 0],
                    9: [len(first), 1, 0]}[arm]
        elif name == 'transpose':
            s[a[0]] = [s[a[0]][1], s[a[0]][0], s[a[0]][2]]
        elif name == 'switch_order':
            s[a[0]][2] ^= 1
        elif name == 'switch_order_wr':
            s[a[0]] = [s[a[0]][1], s[a[0]][0], s[a[0]][2] ^ 1]
        elif name == 'set_order':
            s[a[0]][2] = a[1]
        elif name == 'set_order_wr':
            if s[a[0]][2] != a[1]:
                s[a[0]] = [s[a[0]][1], s[a[0]][0], a[1]]
        elif name == 'reshape':
            r, c = dims(a[0])
            if a[1] * a[2] == r * c and a[1] <= UMAX and a[2] <= UMAX:
                s[a[0]][0], s[a[0]][1] = a[1], a[2]
        elif name == 'resize':
            if a[1] * a[2] <= 4096:
                s[a[0]][0], s[a[0]][1] = a[1], a[2]
        elif name == 'clear':
            s[a[0]][0], s[a[0]][1] = 0, 0
        elif name in ('map', 'par_map'):
            src = s[a[1]]; s[a[1]] = None; s[a[0]] = list(src)
        elif name in ('map_ref', 'par_map_ref', 'clone', 'neg_ref'):
            s[a[0]] = list(s[a[1]])
        elif name == 'clone_from':
            if s[a[0]] is not None and s[a[1]] is not None and a[0] != a[1]:
                s[a[0]] = list(s[a[1]])
        elif name == 'neg':
            src = s[a[1]]; s[a[1]] = None; s[a[0]] = list(src)
        elif name in ('ew', 'ew_consume'):
            d, x, y = a[0], a[1], a[2]
            okc = dims(x) == dims(y)
            src = list(s[x])
            if name == 'ew_consume':
                s[x] = None
            if okc:
                s[d] = src
        elif name == 'ew_named':
            opk, variant, d, x, y = a
            okc = dims(x) == dims(y)
            src = list(s[x])
            if variant == 1:
                s[x] = None
            if okc and variant in (0, 1):
                s[d] = src
        elif name == 'op_ew':
            opk, form, d, x, y = a
            okc = dims(x) == dims(y)
            src = list(s[x])
            if form in (0, 1):
                s[x] = None
            if form in (0, 2):
                s[y] = None
            if okc:
                s[d] = src
        elif name == 'op_ew_assign':
            opk, form, x, y = a
            if form == 0:
                s[y] = None
        elif name in ('sc',):
            s[a[0]] = list(s[a[1]])
        elif name == 'sc_consume':
            src = s[a[1]]; s[a[1]] = None; s[a[0]] = list(src)
        elif name in ('multiply', 'mul_like'):
            d, x, y = a[0], a[1], a[2]
            okc = s[x][1] == s[y][0]
            res = [s[x][0], s[y][1], s[x][2]]
            s[x] = None; s[y] = None
            if okc:
                s[d] = res
        elif name == 'op_mul':
            form, d, x, y = a
            okc = s[x][1] == s[y][0]
            res = [s[x][0], s[y][1], s[x][2]]
            if form in (0, 1):
                s[x] = None
            if form in (0, 2):
                s[y] = None
            if okc:
                s[d] = res
        elif name in ('into_iter_elements', 'into_iter_elements_idx', 'into_par_iter_elements',
                      'into_par_iter_elements_idx', 'drop'):
            s[a[0]] = None


class KCase:
    """a single call with extreme arguments (no history): `K id debug fn args...`"""
    def __init__(self, cid, fn, args, meta=None):
        self.id = cid
        self.fn = fn
        self.args = [int(a) for a in args]
        self.debug = 1
        self.elem = 'k'
        self.threads = 0
        self.delay = 0
        self.ops = []
        self.meta = meta or {}

    def text(self):
        return f"K {self.id} {self.debug} {self.fn} " + ' '.join(str(a) for a in self.args) + "\n"
