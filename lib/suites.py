"""Per-property case generators, direct oracles and the suite runner."""
import hashlib
import itertools
import json
import os
import random

import common as C
from ops import Case, Shadow, op, UMAX, IMAX, CODES

ISIZE_MIN = -IMAX - 1
SMALL_SHAPES = [(r, c) for r in range(0, 4) for c in range(0, 4)]
DEGENERATE = [(0, 0), (0, 1), (1, 0), (0, 3), (3, 0), (2, 0), (0, 2)]


# ---------------------------------------------------------------------------------------------
# building blocks
def build(sh, d, r, c, order=0, how=None, rng=None):
    """operations that put an r x c matrix with fresh distinct atoms into slot d, stored in `order`"""
    vals = sh.fresh_vals(r * c)
    ops = []
    how = how if how is not None else (rng.choice(['arrays', 'rowreshape', 'try_from', 'from_iter']) if rng else 'rowreshape')
    rows = [vals[i * c:(i + 1) * c] for i in range(r)]
    if how == 'arrays' and r <= 4 and c <= 4:
        ops.append(op('from_arrays', d, (rng.randrange(3) if rng else 0), c, rows=rows))
    elif how == 'try_from' and r >= 1 and r <= 4:
        ops.append(op('try_from', d, (rng.randrange(3) if rng else 1), rows=rows))
    elif how == 'from_iter' and r >= 1:
        ops.append(op('from_iter', d, rows=rows))
    else:
        ops.append(op('from_row', d, rows=[vals]))
        ops.append(op('reshape', d, r, c))
    if order == 1:
        ops.append(op('switch_order', d))
    for o in ops:
        sh.apply(o)
    return ops


def observe_all(s, r, c):
    """get on every in-bounds coordinate and the surrounding out-of-bounds ones"""
    ops = [op('shape', s), op('order', s), op('size', s)]
    for i in range(r + 1):
        for j in range(c + 1):
            ops.append(op('get', s, 0, i, j))
    return ops


def item_word(rng, p_nth=0.2):
    """a command that yields an item: next, next_back, or (with probability p_nth) nth(k) / nth_back(k) for a small k"""
    if rng.random() < p_nth:
        return rng.choice([10, 100]) + rng.choice([0, 0, 1, 1, 2, 3])
    return rng.choice([0, 1])


def rand_script(rng, n):
    s = [rng.choice([0, 0, 1, 1, 2, item_word(rng, 1.0)]) for _ in range(n)]
    if rng.random() < 0.4:
        # the rest through fold / rfold (for_each, sum, rev().for_each ...): ends the script
        s = s[:rng.randint(0, len(s))] + [rng.choice([3, 4])]
    return s


def rand_nested_script(rng, n, max_inner):
    out, inners = [], 0
    for _ in range(n):
        if inners == 0 or rng.random() < 0.35:
            w = rng.choice([0, 0, 1, 2])
            out += [-1, w]
            if w != 2:
                inners += 1   # may be None, then the inner index is invalid only if never produced; keep conservative below
        else:
            out += [rng.randrange(max(1, inners)), rng.choice([0, 0, 1, 1, 2])]
    return out


def safe_nested_script(rng, n, nvec):
    """nested script that never refers to an inner iterator that was not produced"""
    out, produced, remaining = [], 0, nvec
    for _ in range(n):
        if produced == 0 or rng.random() < 0.3:
            w = rng.choice([0, 1, 2, 0, item_word(rng, 0.5)])
            out += [-1, w]
            if w != 2:
                skip = (w - 10 if w < 100 else w - 100) if w >= 10 else 0
                if remaining > skip:
                    produced += 1
                remaining = max(0, remaining - skip - 1)
        else:
            out += [rng.randrange(produced), rng.choice([0, 0, 1, 1, 2, item_word(rng, 1.0)])]
    return out


# ---------------------------------------------------------------------------------------------
# random histories over the whole alphabet (C01, C07, C15 prefixes ...)
def random_history(rng, length, elem='tr', weights=None, max_dim=3, arith=True, allow_par=False):
    sh = Shadow()
    ops = []
    W = dict(construct=6, observe=6, order=6, shape=3, moves=5, maps=3, ew=4, sc=2, mul=3, iters=4, drop=1, fmt=1, par=0)
    if weights:
        W.update(weights)
    structural = elem == 'w24'          # values only: no closures, arithmetic or formatting
    masked = elem in ('unit', 'zd')     # elements are indistinguishable: no equality or formatting observations
    if not arith or structural:
        W.update(ew=0, sc=0, mul=0, maps=0)
    if structural or masked:
        W.update(fmt=0)
    if allow_par:
        W['par'] = 2
    cats = list(W.keys())

    def dim():
        return rng.choice([0, 1, 1, 2, 2, 3, 3, max_dim])

    def idx_for(slot, oob=0.2):
        r, c = sh.s[slot][0], sh.s[slot][1]
        k = rng.choice([0, 1, 2, 0, 3, 4])
        if k == 3:
            return (3, rng.randint(-2 * r - 2, 2 * r + 2), rng.randint(-2 * c - 2, 2 * c + 2)), []
        if rng.random() < oob or r == 0 or c == 0:
            i, j = rng.randint(0, r + 1), rng.randint(0, c + 1)
        else:
            i, j = rng.randrange(r), rng.randrange(c)
        if k == 4:
            rs = [i] + [rng.choice([i, 0, r, UMAX]) for _ in range(rng.randrange(3))]
            cs = [j] + [rng.choice([j, 0, c, UMAX]) for _ in range(rng.randrange(3))]
            return (4, 0, 0), [rs, cs]
        return (k, i, j), []

    for _ in range(length):
        live = sh.live()
        cat = rng.choices(cats, [W[k] for k in cats])[0]
        if not live or (cat == 'construct' and len(live) < 4) or (len(live) < 2 and cat in ('ew', 'mul')):
            free = [i for i in range(4) if sh.s[i] is None] or [rng.randrange(4)]
            d = rng.choice(free)
            kind = rng.randrange(12)
            r, c = dim(), dim()
            if kind <= 5:
                new = build(sh, d, r, c, rng.randrange(2), rng=rng)
                ops += new
                continue
            elif kind == 6:
                o = op('with_default', d, r, c)
            elif kind == 7:
                o = op('with_value', d, r, c, sh.fresh_vals(1)[0])
            elif kind == 8 and not structural:
                o = op('with_init', d, r, c, rng.randrange(3))
            elif kind == 8:
                o = op('with_default', d, r, c)
            elif kind == 9:
                o = op(rng.choice(['new', 'default']), d)
            elif kind == 10:
                o = op('from_col', d, rows=[sh.fresh_vals(r)])
            else:
                # ragged / uniform rows through the fallible conversion
                rows = [sh.fresh_vals(c if rng.random() < 0.8 else rng.randrange(4)) for _ in range(max(1, r))]
                o = op('try_from', d, rng.randrange(3), rows=rows)
        else:
            s = rng.choice(live)
            r, c, _ord = sh.s[s]
            others = [x for x in live if x != s]
            d = rng.randrange(4)
            if cat == 'construct':
                o = op('clone', d, s)
                if others and rng.random() < 0.4:
                    o = op('clone_from', rng.choice(others), s)
            elif cat == 'observe':
                which = rng.randrange(12)
                if which <= 3:
                    (k, i, j), rows = idx_for(s)
                    o = op(rng.choice(['get', 'get', 'index']), s, k, i, j, rows=rows)
                elif which == 4 and others:
                    o = op(rng.choice((['eq'] if not masked else []) + ['conform_ew', 'conform_mul', 'ensure_ew', 'ensure_mul']), s, rng.choice(others))
                elif which == 5:
                    o = op(rng.choice(['shape', 'order', 'nrows', 'ncols', 'size', 'is_empty', 'capacity_ge', 'is_square', 'ensure_square']), s)
                elif which == 6 and not masked:
                    o = op('contains', s, rng.randint(0, sh.counter))
                elif which == 7 and r * c > 0:
                    o = op('get_unchecked_w', s, rng.randint(-7, 7), rng.randint(-7, 7))
                elif not masked:
                    o = op('eq', s, s)
                else:
                    o = op('shape', s)
            elif cat == 'order':
                nm = rng.choice(['transpose', 'switch_order', 'switch_order_wr', 'set_order', 'set_order_wr'])
                o = op(nm, s, rng.randrange(2)) if nm.startswith('set_') else op(nm, s)
            elif cat == 'shape':
                which = rng.randrange(6)
                if which == 0 and r * c > 0:
                    divs = [k for k in range(1, min(r * c, 4096) + 1) if (r * c) % k == 0]
                    k = rng.choice(divs)
                    o = op('reshape', s, k, r * c // k)
                elif which == 1:
                    o = op('reshape', s, dim(), dim())
                elif which == 2:
                    o = op('resize', s, dim(), dim())
                elif which == 3:
                    o = op(rng.choice(['shrink_to_fit', 'clear']), s)
                elif which == 4:
                    o = op('shrink_to', s, rng.randrange(10))
                else:
                    o = op('reshape', s, rng.choice([UMAX, 2**32, 2**63]), rng.choice([UMAX, 2**32, 2, 0]))
            elif cat == 'moves':
                which = rng.randrange(6)
                if which == 0:
                    (k, i, j), rows = idx_for(s)
                    o = op(rng.choice(['set', 'set_index_mut']), s, k, i, j, sh.fresh_vals(1)[0], rows=rows)
                elif which == 1:
                    (k1, i1, j1), rows1 = idx_for(s, 0.1)
                    (k2, i2, j2), rows2 = idx_for(s, 0.1)
                    o = op('swap', s, k1, i1, j1, k2, i2, j2, rows=rows1 + rows2)
                elif which == 2:
                    o = op('swap_rows', s, rng.randint(0, r + (rng.random() < 0.2)), rng.randint(0, max(0, r - 1)))
                elif which == 3:
                    o = op('swap_cols', s, rng.randint(0, max(0, c - 1)), rng.randint(0, c + (rng.random() < 0.2)))
                elif others:
                    o = op('overwrite', s, rng.choice(others))
                else:
                    o = op('swap_rows', s, 0, 0)
            elif cat == 'maps':
                nm = rng.choice(['apply', 'map', 'map_ref', 'neg', 'neg_ref'])
                if nm == 'apply':
                    o = op('apply', s, rng.randrange(3))
                elif nm in ('neg', 'neg_ref'):
                    o = op(nm, d, s)
                else:
                    o = op(nm, d, s, rng.randrange(3))
            elif cat == 'ew':
                # mostly conformable partners: clone first when none exists
                t = rng.choice(others) if others else s
                which = rng.randrange(6)
                if which == 0:
                    o = op('ew', d, s, t, rng.randrange(3))
                elif which == 1 and t != s:
                    o = op('ew_consume', d, s, t, rng.randrange(3))
                elif which == 2 and t != s:
                    o = op('ew_assign', s, t, rng.randrange(3))
                elif which == 3:
                    variant = rng.randrange(3)
                    if t == s and variant != 0:
                        variant = 0
                    o = op('ew_named', rng.randrange(5), variant, d, s, t)
                elif which == 4:
                    form = rng.randrange(4)
                    if t == s:
                        form = 3
                    o = op('op_ew', rng.randrange(2), form, d, s, t)
                elif t != s:
                    o = op('op_ew_assign', rng.randrange(2), rng.randrange(2), s, t)
                else:
                    o = op('ew', d, s, s, 0)
            elif cat == 'sc':
                nm = rng.choice(['sc', 'sc_consume', 'sc_assign'])
                v = sh.fresh_vals(1)[0]
                o = op(nm, s, v, rng.randrange(3)) if nm == 'sc_assign' else op(nm, d, s, v, rng.randrange(3))
            elif cat == 'mul':
                if not others:
                    o = op('op_mul', 3, d, s, s)
                else:
                    t = rng.choice(others)
                    which = rng.randrange(3)
                    if which == 0:
                        o = op('multiply', d, s, t)
                    elif which == 1:
                        o = op('op_mul', rng.randrange(4), d, s, t)
                    else:
                        o = op('mul_like', d, s, t, rng.randrange(3))
            elif cat == 'iters':
                which = rng.choice([0, 2, 4, 6, 7, 9]) if structural else rng.randrange(10)
                f = rng.randrange(3)
                if which == 0:
                    o = op(rng.choice(['iter_rows', 'iter_cols']), s, rows=[safe_nested_script(rng, rng.randrange(12), 4)])
                elif which == 1:
                    nm = rng.choice(['iter_rows_mut', 'iter_cols_mut'])
                    nvec = 0 if r * c == 0 else (r if nm == 'iter_rows_mut' else c)
                    o = op(nm, s, f, rows=[safe_nested_script(rng, rng.randrange(12), nvec)])
                elif which == 2:
                    o = op(rng.choice(['iter_nth_row', 'iter_nth_col']), s, rng.randint(0, max(r, c) + 1), rows=[rand_script(rng, rng.randrange(8))])
                elif which == 3:
                    o = op(rng.choice(['iter_nth_row_mut', 'iter_nth_col_mut']), s, rng.randint(0, max(r, c) + 1), f, rows=[rand_script(rng, rng.randrange(8))])
                elif which == 4:
                    o = op('iter_elements', s, rows=[rand_script(rng, rng.randrange(10))])
                elif which == 5:
                    o = op('iter_elements_mut', s, f, rows=[rand_script(rng, rng.randrange(10))])
                elif which == 6:
                    o = op(rng.choice(['into_iter_elements', 'into_iter_elements_idx']), s, rows=[rand_script(rng, rng.randrange(10))])
                elif which == 7:
                    o = op('iter_elements_idx', s, rows=[rand_script(rng, rng.randrange(10))])
                elif which == 8:
                    o = op('iter_elements_mut_idx', s, f, rows=[rand_script(rng, rng.randrange(10))])
                else:
                    o = op('iter_elements', s, rows=[[2, 0, 1, 2]])
            elif cat == 'fmt':
                o = op(rng.choice(['display', 'debug']), s)
            elif cat == 'par':
                nm = rng.choice(['par_apply', 'par_map', 'par_map_ref', 'par_iter_elements', 'par_iter_elements_mut',
                                 'into_par_iter_elements', 'par_iter_elements_idx', 'par_iter_elements_mut_idx',
                                 'into_par_iter_elements_idx'])
                f = rng.randrange(3)
                if nm in ('par_map', 'par_map_ref'):
                    o = op(nm, d, s, f)
                elif nm in ('par_apply', 'par_iter_elements_mut', 'par_iter_elements_mut_idx'):
                    o = op(nm, s, f)
                else:
                    o = op(nm, s)
            else:
                o = op('drop', s)
        # element-less matrices with an astronomically large extent (reshape of an empty matrix to 2^63 x 0) are kept -
        # their coherence is part of C01 - but operations whose running time is proportional to an extent
        # (`for i in 0..major` in overwrite and the strided swaps, the products' result size) are not run on them:
        # they would run for years in the crate as well, which no property speaks about
        if o[1] in ('overwrite', 'swap_rows', 'swap_cols', 'multiply', 'op_mul', 'mul_like') and \
                any(x is not None and max(x[0], x[1]) > 2**20 for x in sh.s):
            o = op('shape', s)
        ops.append(o)
        sh.apply(o)
    return ops


# ---------------------------------------------------------------------------------------------
# suites
def gen_C01(rng, tier, changed):
    n = 220 if tier == 'quick' else 2500
    if changed:
        n *= 2
    L = 35 if tier == 'quick' else 80
    cases = []
    for i in range(n):
        elem = rng.choices(['tr', 'unit', 'zd', 'w24'], [8, 1, 1, 1])[0]
        ops = random_history(rng, rng.randint(5, L), elem, arith=(elem != 'w24'))
        cases.append(Case(f'C01-r{i}', ops, elem))
    return cases


def gen_C05(rng, tier, changed):
    B = 8 if tier == 'quick' else 20
    if changed:
        B = max(B, 12)
    cases = []
    for r in range(0, B + 1):
        for c in range(0, B + 1):
            for order in (0, 1):
                sh = Shadow()
                ops = build(sh, 0, r, c, order, how='rowreshape')
                ops += [op('transpose', 0), op('shape', 0), op('order', 0)]
                if r * c <= 12:
                    ops += [op('get', 0, 0, i, j) for i in range(c) for j in range(r)]
                ops += [op('transpose', 0), op('switch_order', 0), op('set_order', 0, order), op('switch_order_wr', 0),
                        op('set_order_wr', 0, order ^ 1), op('set_order_wr', 0, order)]
                elem = 'tr' if (r + c) % 3 else rng.choice(['tr', 'w24', 'unit', 'zd', 'b1'])
                cases.append(Case(f'C05-{r}x{c}o{order}', ops, elem))
                # the same on a vector with spare capacity (at least three times the size, after growing and shrinking back;
                # the memory-order prefix survives both resizes): gap found with seeded change C05e
                if r * c > 0 and r <= 6 and c <= 6:
                    sh2 = Shadow()
                    ops2 = build(sh2, 0, r, c, order, how='rowreshape')
                    ops2 += [op('resize', 0, 4 * r, c) if order == 0 else op('resize', 0, r, 4 * c), op('resize', 0, r, c), op('capacity_ge', 0)]
                    ops2 += [op('transpose', 0), op('shape', 0)]
                    if r * c <= 12:
                        ops2 += [op('get', 0, 0, i, j) for i in range(c) for j in range(r)]
                    ops2 += [op('switch_order', 0), op('transpose', 0), op('set_order', 0, order)]
                    cases.append(Case(f'C05-{r}x{c}o{order}cap', ops2, 'tr' if (r + c) % 2 else rng.choice(['w24', 'b1', 'pn'])))
    nrand = 150 if tier == 'quick' else 1500
    for i in range(nrand):
        sh = Shadow()
        r, c = rng.randint(0, 6), rng.randint(0, 6)
        ops = build(sh, 0, r, c, rng.randrange(2), rng=rng)
        for _ in range(rng.randint(1, 12)):
            nm = rng.choice(['transpose', 'switch_order', 'switch_order_wr', 'set_order', 'set_order_wr'])
            ops.append(op(nm, 0, rng.randrange(2)) if nm.startswith('set_') else op(nm, 0))
            if rng.random() < 0.3 and sh.s[0][0] * sh.s[0][1] > 0:
                sh.apply(ops[-1])
                ops.append(op('get', 0, 0, rng.randrange(sh.s[0][0]), rng.randrange(sh.s[0][1])))
            else:
                sh.apply(ops[-1])
        cases.append(Case(f'C05-r{i}', ops, rng.choice(['tr', 'tr', 'w24', 'zd'])))
    return cases


def oracle_C05(case, hlines):
    """direct oracle: after `transpose` the logical content is the transpose of what it was"""
    out = []
    prev = None
    ops = [o for o in case.ops if o[1] != 'fault']
    for i, (o, line) in enumerate(zip(ops, hlines)):
        cur = parse_slot(line, 0)
        if o[1] == 'transpose' and prev and cur and case.elem in ('tr', 'w24', 'pn'):
            if logical(cur) != transpose_rows(logical(prev), prev[2]) or cur[0] != prev[0] or (cur[1], cur[2]) != (prev[2], prev[1]):
                out.append(dict(kind='oracle', op_index=i, op='transpose', detail='result is not the transpose of the operand (or order changed)',
                                observed=line.split(' ;; ')[1], expected='transpose of ' + str(logical(prev))))
        if o[1] in ('switch_order', 'set_order') and prev and cur and case.elem in ('tr', 'w24', 'pn'):
            if logical(cur) != logical(prev):
                out.append(dict(kind='oracle', op_index=i, op=o[1], detail='order change altered the logical contents',
                                observed=line.split(' ;; ')[1], expected=str(logical(prev))))
        if o[1] in ('switch_order_wr', 'set_order_wr') and prev and cur:
            if cur[3] != prev[3]:
                out.append(dict(kind='oracle', op_index=i, op=o[1], detail='memory-order sequence changed', observed=line.split(' ;; ')[1]))
        prev = cur
    return out


def parse_slot(line, k):
    """(order, nrows, ncols, [elements]) of slot k from a harness line"""
    parts = line.split(' ;; ')
    if len(parts) < 2:
        return None
    for tok in split_slots(parts[1]):
        if tok.startswith(f'{k}='):
            body = tok[len(f'{k}='):]
            if body == '-':
                return None
            o, shape, data = body.split(':', 2)
            r, c = shape.split('x')
            elems = C.split_top(data[1:-1]) if len(data) > 2 else []
            return (o, int(r), int(c), elems)
    return None


def split_slots(pool):
    toks, cur, depth = [], '', 0
    for ch in pool:
        if ch in '([':
            depth += 1
        elif ch in ')]':
            depth -= 1
        if ch == ' ' and depth == 0:
            toks.append(cur)
            cur = ''
        else:
            cur += ch
    if cur:
        toks.append(cur)
    return toks


def logical(slot):
    """row-of-rows from (order, r, c, elems)"""
    o, r, c, e = slot
    if len(e) != r * c:
        return None
    if o == 'R':
        return [[e[i * c + j] for j in range(c)] for i in range(r)]
    return [[e[j * r + i] for j in range(c)] for i in range(r)]


def transpose_rows(rows, ncols):
    """transpose of a row-of-rows with `ncols` columns (needed when there are no rows)"""
    if rows is None:
        return None
    return [[rows[i][j] for i in range(len(rows))] for j in range(ncols)]


def gen_C13(rng, tier, changed):
    cases = []
    B = 4
    ext = [ISIZE_MIN, ISIZE_MIN + 1, -1, 0, 1, IMAX - 1, IMAX]
    shapes = [(r, c) for r in range(1, B + 1) for c in range(1, B + 1)] + [(1, 7), (7, 1), (1, 13), (13, 1)]
    for (r, c) in shapes:
        for order in (0, 1):
            sh = Shadow()
            ops = build(sh, 0, r, c, order, how='rowreshape')
            win = 3 if tier == 'quick' else 4
            for i in range(-win * r, win * r + 1):
                for j in (range(-win * c, win * c + 1) if tier != 'quick' or r * c <= 6 else [rng.randint(-win * c, win * c) for _ in range(4)]):
                    ops.append(op('get', 0, 3, i, j))
            for i in ext:
                for j in ext:
                    if (i + j) % 3 == 0:
                        ops.append(op('get', 0, 3, i, j))
                    elif (i + j) % 3 == 1:
                        ops.append(op('index', 0, 3, i, j))
                    else:
                        ops.append(op('get_unchecked_w', 0, i, j))
            ops.append(op('set', 0, 3, -1, -1, 777))
            ops.append(op('swap', 0, 3, -1, 0, 3, 0, -1))
            cases.append(Case(f'C13-{r}x{c}o{order}', ops, 'tr'))
    # empty shapes: checked forms fail, unchecked forms panic, nothing is read
    for (r, c) in DEGENERATE + [(0, 9), (9, 0)]:
        for order in (0, 1):
            sh = Shadow()
            ops = build(sh, 0, r, c, order, how='rowreshape')
            for (i, j) in [(0, 0), (-1, -1), (1, 5), (ISIZE_MIN, IMAX), (IMAX, ISIZE_MIN)]:
                ops += [op('get', 0, 3, i, j), op('index', 0, 3, i, j), op('get_unchecked_w', 0, i, j),
                        op('set', 0, 3, i, j, 5), op('set_index_mut', 0, 3, i, j, 5)]
            cases.append(Case(f'C13-e{r}x{c}o{order}', ops, rng.choice(['tr', 'unit'])))
    # AxisIndex::from_wrapping_index itself on extents up to usize::MAX (matrices of zero-sized elements have them; the
    # public API cannot tell their elements apart, the hook returns the position): every extreme isize against every
    # extreme extent, against exact integer arithmetic and the model (gap found with seeded change C13d)
    exts = [1, 2, 3, 7, 2**31, 2**32 + 1, IMAX - 1, IMAX, IMAX + 1, IMAX + 2, IMAX + 6, 2**63 + 2**62, UMAX - 1, UMAX]
    idxs = ext + [2, -2, 5, -7, IMAX // 2, ISIZE_MIN // 2, -(2**32), 2**32 + 3]
    kk = 0
    pairs = [(i, e) for i in idxs for e in exts]
    if tier == 'quick':
        pairs = [p for p in pairs if p[1] > IMAX or rng.random() < 0.35]
    for (i, e) in pairs:
        j, e2 = rng.choice(idxs), rng.choice(exts)
        for o in (0, 1):
            for (row, col, mj, mn) in ((i, j, e, e2), (j, i, e2, e)):
                (a, b) = (row, col) if o == 0 else (col, row)
                cases.append(KCase(f'C13-k{kk}', 'from_wrapping', [row, col, o, mj, mn], meta=dict(want=f'[{a % mj},{b % mn}]')))
                kk += 1
    return cases


def oracle_C13(case, hlines):
    """direct oracle: wrapping get returns the element at (row mod nrows, col mod ncols)"""
    out = []
    ops = [o for o in case.ops if o[1] != 'fault']
    for i, (o, line) in enumerate(zip(ops, hlines)):
        if o[1] in ('get', 'index') and o[2][1] == 3 or o[1] == 'get_unchecked_w':
            slot = parse_slot(line, o[2][0])
            if slot is None or case.elem != 'tr':
                continue
            rows = logical(slot)
            row, col = (o[2][2], o[2][3]) if o[1] != 'get_unchecked_w' else (o[2][1], o[2][2])
            obs = line.split(' ;; ')[0]
            if slot[1] * slot[2] > 0:
                want = rows[row % slot[1]][col % slot[2]]
                got = obs[1:-1].rsplit(',', 1)[0] if o[1] != 'get_unchecked_w' else obs
                if got != want:
                    out.append(dict(kind='oracle', op_index=i, op=o[1], detail=f'wrapping index ({row},{col}) on {slot[1]}x{slot[2]}',
                                    observed=got, expected=want))
            else:
                if 'Err(IndexOutOfBounds)' not in obs and 'Panic(' not in obs:
                    out.append(dict(kind='oracle', op_index=i, op=o[1], detail='wrapping index on an element-less matrix did not fail',
                                    observed=obs))
    return out


def gen_C04(rng, tier, changed):
    cases = []
    ext = [2**16, 2**32 - 1, 2**32, 2**32 + 1, IMAX, IMAX + 1, UMAX - 1, UMAX]
    shapes = [(r, c) for r in range(0, 4) for c in range(0, 4)] + [(1, 6), (6, 1)]
    for (r, c) in shapes:
        for order in (0, 1):
            sh = Shadow()
            ops = build(sh, 0, r, c, order, how='rowreshape')
            for kind in (0, 1, 2):
                for i in range(r + 2):
                    for j in range(c + 2):
                        ops.append(op('get' if (i + j + kind) % 2 else 'index', 0, kind, i, j))
            for i in ext + [0, max(0, r - 1)]:
                for j in ext + [0, max(0, c - 1)]:
                    if i in ext or j in ext:
                        ops.append(op(rng.choice(['get', 'index']), 0, rng.randrange(3), i, j))
            # stateful accessors: the first values decide; later values must never be consulted
            for _ in range(10 if tier == 'quick' else 40):
                i, j = rng.randint(0, r + 1), rng.randint(0, c + 1)
                rs = [i] + [rng.choice([0, r, UMAX, max(0, r - 1)]) for _ in range(2)]
                cs = [j] + [rng.choice([0, c, UMAX, max(0, c - 1)]) for _ in range(2)]
                nm = rng.choice(['get', 'index', 'set', 'set_index_mut'])
                if nm in ('set', 'set_index_mut'):
                    ops.append(op(nm, 0, 4, 0, 0, sh.fresh_vals(1)[0], rows=[rs, cs]))
                else:
                    ops.append(op(nm, 0, 4, 0, 0, rows=[rs, cs]))
            # in bounds first, far out of bounds afterwards (a check-then-access implementation would read out of bounds)
            if r * c > 0:
                ops.append(op('get', 0, 4, 0, 0, rows=[[0, UMAX], [0, UMAX]]))
                ops.append(op('get', 0, 4, 0, 0, rows=[[r - 1, r + 5], [c - 1, c + 5]]))
                ops.append(op('set', 0, 4, 0, 0, 4242, rows=[[r - 1, r * c + 7], [c - 1, r * c + 7]]))
            cases.append(Case(f'C04-{r}x{c}o{order}', ops, rng.choice(['tr', 'tr', 'w24'])))
            # the same accesses on zero-sized (and, thorough, 1-byte / drop-free) elements: bounds are decided by the shape,
            # not by the buffer (gap found with seeded change C04d)
            cases.append(Case(f'C04-{r}x{c}o{order}z', ops, rng.choice(['unit', 'zd'])))
            if tier != 'quick':
                cases.append(Case(f'C04-{r}x{c}o{order}b', ops, rng.choice(['b1', 'pn'])))
    return cases


def gen_C09(rng, tier, changed):
    cases = []
    shapes = [(r, c) for r in range(0, 4) for c in range(0, 5)]
    targets = [(0, 0), (1, 1), (2, 3), (3, 2), (6, 1), (1, 6), (4, 3), (2, 2), (0, 5), (5, 0), (1, 12), (12, 1),
               (UMAX, 2), (2**32, 2**32), (UMAX, UMAX), (2**63, 2), (UMAX, 0), (0, UMAX), (IMAX, 1), (1, IMAX + 1)]
    for (r, c) in shapes:
        for order in (0, 1):
            for k, (tr_, tc) in enumerate(targets):
                sh = Shadow()
                ops = build(sh, 0, r, c, order, how='rowreshape')
                if k % 3 == 0:
                    ops.append(op(rng.choice(['transpose', 'switch_order_wr', 'switch_order']), 0))
                # reshape and resize act on separate copies of the same matrix
                ops.append(op('clone', 1, 0))
                ops.append(op('reshape', 0, tr_, tc))
                if tr_ * tc <= 64 or tr_ * tc > UMAX or 40 * tr_ * tc > IMAX:
                    ops.append(op('resize', 1, tr_, tc))
                    ops.append(op('shape', 1))
                    ops.append(op('resize', 1, r, c))
                ops.append(op('size', 0))
                cases.append(Case(f'C09-{r}x{c}o{order}t{k}', ops, 'tr'))
                # the same on zero-sized elements with a destructor: what resize drops and creates is counted by the
                # ledger (gap found with seeded change C09f)
                if k % 2 == 0 and tr_ * tc <= 64:
                    cases.append(Case(f'C09-{r}x{c}o{order}t{k}z', ops, 'zd'))
    # failed in-place operations leave everything untouched
    n = 150 if tier == 'quick' else 1200
    for i in range(n):
        sh = Shadow()
        r, c = rng.randint(0, 3), rng.randint(0, 4)
        ops = build(sh, 0, r, c, rng.randrange(2), rng=rng)
        r2, c2 = rng.randint(0, 3), rng.randint(0, 4)
        ops += build(sh, 1, r2, c2, rng.randrange(2), rng=rng)
        for _ in range(rng.randint(2, 8)):
            which = rng.randrange(8)
            if which == 0:
                ops.append(op('swap_rows', 0, rng.randint(0, r + 1), rng.randint(0, r + 1)))
            elif which == 1:
                ops.append(op('swap_cols', 0, rng.randint(0, c + 1), rng.randint(0, c + 1)))
            elif which == 2:
                ops.append(op('swap', 0, rng.randrange(3), rng.randint(0, r + 1), rng.randint(0, c + 1), rng.randrange(3), rng.randint(0, r + 1), rng.randint(0, c + 1)))
            elif which == 3:
                ops.append(op('ew_named', rng.randrange(5), 2, 0, 0, 1))
            elif which == 4:
                ops.append(op('ew_assign', 0, 1, rng.randrange(3)))
            elif which == 5:
                ops.append(op('op_ew_assign', rng.randrange(2), 1, 0, 1))
            elif which == 6:
                ops.append(op('reshape', 0, rng.randint(0, 5), rng.randint(0, 5)))
            else:
                ops.append(op('resize', 0, rng.choice([UMAX, 2**62]), rng.choice([UMAX, 2**33, 2])))
            sh.apply(ops[-1])
            r, c = sh.s[0][0], sh.s[0][1]
        cases.append(Case(f'C09-r{i}', ops, 'tr'))
    # reshape on matrices of zero-sized elements with up to usize::MAX elements: only shapes of exactly the same size succeed,
    # shapes whose product overflows or saturates never do (gap found with seeded change C09e)
    kk = 0
    big = [UMAX, UMAX - 1, IMAX + 1, 2**32, 2**32 + 1, 2**63 + 3]
    for (r0, c0) in [(1, UMAX), (UMAX, 1), (1, UMAX - 1), (3, UMAX // 3), (2**32 - 1, 2**32 + 1), (IMAX + 1, 1), (1, 2**63 + 3)]:
        n0 = r0 * c0
        targets = [(r0, c0), (c0, r0), (1, n0), (n0, 1), (UMAX, 2), (2, UMAX), (2**32, 2**32), (UMAX, UMAX), (2**33, 2**31), (0, 0), (n0, 0), (0, n0),
                   (n0 - 1, 1), (IMAX + 1, 2), (3, n0 // 3), (n0 // 3, 3)] + [(a, b) for a in big for b in (1, 2, 3)]
        for (r, c) in targets:
            for o in (0, 1):
                want = f'Some([{r},{c},{n0}])' if r * c == n0 else 'Err(SizeMismatch)'
                cases.append(KCase(f'C09-k{kk}', 'reshape', [0, r0, c0, o, r, c], meta=dict(want=want)))
                kk += 1
    return cases


def oracle_C09(case, hlines):
    out = oracle_unchanged_on_error(case, hlines)
    ops = [o for o in case.ops if o[1] != 'fault']
    prev = None
    for i, (o, line) in enumerate(zip(ops, hlines)):
        if prev is not None and o[1] in ('reshape', 'resize') and obs_of(line) == '()':
            a, b = parse_slot(prev, o[2][0]), parse_slot(line, o[2][0])
            r, c = o[2][1], o[2][2]
            if a and b:
                n = min(len(a[3]), r * c)
                want = a[3][:n] + (['D'] * (r * c - n) if case.elem == 'tr' else b[3][n:])
                if (b[1], b[2]) != (r, c) or b[0] != a[0] or b[3] != want or (o[1] == 'reshape' and len(a[3]) != r * c):
                    out.append(dict(kind='oracle', op_index=i, op=o[1], observed=line.split(' ;; ')[1][:300],
                                    expected=f'{a[0]}:{r}x{c}:{want}'[:300],
                                    detail=f'{o[1]}({r},{c}) did not set the requested shape over the first min(old,new) elements of the memory-order sequence'))
        prev = line
    return out


def oracle_unchanged_on_error(case, hlines):
    """direct oracle (C09/C10): an in-place operation that reports Err or panics on non-conformable shapes leaves the pool as it was"""
    out = []
    prev_pool = None
    ops = [o for o in case.ops if o[1] != 'fault']
    inplace = {'reshape', 'resize', 'swap', 'swap_rows', 'swap_cols', 'ew_assign', 'op_ew_assign', 'set', 'set_index_mut'}
    for i, (o, line) in enumerate(zip(ops, hlines)):
        parts = line.split(' ;; ')
        if len(parts) < 2:
            break
        obs, pool = parts[0], parts[1]
        named_assign = o[1] == 'ew_named' and o[2][1] == 2
        if (o[1] in inplace or named_assign) and prev_pool is not None:
            if 'Err(' in obs or 'Panic(ShapeNotConformable)' in obs or 'Panic(IndexOutOfBounds)' in obs:
                # op_ew_assign form 0 consumes its right operand by contract
                a, b = prev_pool, pool
                if o[1] == 'op_ew_assign' and o[2][1] == 0:
                    k = o[2][3]
                    a = ' '.join(t for t in split_slots(a) if not t.startswith(f'{k}='))
                    b = ' '.join(t for t in split_slots(b) if not t.startswith(f'{k}='))
                if a != b:
                    out.append(dict(kind='oracle', op_index=i, op=o[1], detail='failed in-place operation changed the matrix',
                                    observed=pool, expected=prev_pool))
        prev_pool = pool
    return out


def gen_C10(rng, tier, changed):
    cases = []
    shapes = [(r, c) for r in range(0, 5) for c in range(0, 5)]
    for (r, c) in shapes:
        for order in (0, 1):
            for elem in (['tr'] if tier == 'quick' and (r + c) % 2 else ['tr', 'w24', 'zd', 'b1']):
                sh = Shadow()
                ops = build(sh, 0, r, c, order, how='rowreshape')
                for m in range(r + 2):
                    for n in range(r + 2):
                        ops.append(op('swap_rows', 0, m, n))
                for m in range(c + 2):
                    for n in range(c + 2):
                        ops.append(op('swap_cols', 0, m, n))
                ops += [op('swap_rows', 0, UMAX, 0), op('swap_cols', 0, 0, UMAX), op('swap_rows', 0, UMAX, UMAX)]
                cases.append(Case(f'C10-v{r}x{c}o{order}{elem}', ops, elem))
    for (r, c) in [(r, c) for r in range(0, 4) for c in range(0, 4)]:
        for order in (0, 1):
            sh = Shadow()
            ops = build(sh, 0, r, c, order, how='rowreshape')
            coords = [(i, j) for i in range(r + 1) for j in range(c + 1)]
            pairs = list(itertools.product(coords, coords))
            if tier == 'quick' and len(pairs) > 60:
                pairs = rng.sample(pairs, 60)
            for (p, q) in pairs:
                k1, k2 = rng.randrange(3), rng.randrange(3)
                ops.append(op('swap', 0, k1, p[0], p[1], k2, q[0], q[1]))
            for _ in range(12):
                ops.append(op('swap', 0, 3, rng.randint(-9, 9), rng.randint(-9, 9), rng.choice([0, 3]), rng.randint(-3, 3) % max(1, r + 1), rng.randint(0, c)))
            ops.append(op('swap', 0, 4, 0, 0, 4, 0, 0, rows=[[0, UMAX], [0, UMAX], [max(0, r - 1), UMAX], [max(0, c - 1), UMAX]]))
            cases.append(Case(f'C10-e{r}x{c}o{order}', ops, 'tr'))
    # zero-sized elements, up to usize::MAX of them: every valid pair succeeds (finding F5: the strided loop used to overflow)
    kk = 0
    for (r, c) in [(1, UMAX), (UMAX, 1), (2, IMAX), (IMAX, 2), (3, UMAX // 3), (UMAX // 3, 3), (1, IMAX + 2), (2**32, 2**32 - 1), (5, 7)]:
        for order in (0, 1):
            for which in (0, 1):
                ext = r if which == 0 else c
                for (a, b) in [(0, 0), (0, ext - 1), (ext - 1, 0), (ext - 1, ext - 1), (0, 1 % ext), (ext // 2, ext - 1), (0, ext), (ext, 0), (UMAX, UMAX)]:
                    want = '()' if a < ext and b < ext else 'Err(IndexOutOfBounds)'
                    # work done by a successful call: the strided loop runs `major` times, the contiguous swap covers `minor` elements
                    major, minor = (r, c) if order == 0 else (c, r)
                    strided = (which == 1) == (order == 0)
                    work = major if strided else (0 if a == b else minor)
                    if want == '()' and work > 4096:
                        continue
                    cases.append(KCase(f'C10-z{kk}', 'zst_swap', [which, r, c, order, a, b], meta=dict(want=want, no_model=True)))
                    kk += 1
    return cases


def oracle_C10(case, hlines):
    out = oracle_unchanged_on_error(case, hlines)
    prev = None
    ops = [o for o in case.ops if o[1] != 'fault']
    for i, (o, line) in enumerate(zip(ops, hlines)):
        cur = parse_slot(line, 0)
        obs = line.split(' ;; ')[0]
        if prev and cur and o[1] in ('swap_rows', 'swap_cols') and obs == '()' and case.elem in ('tr', 'w24', 'pn'):
            a, b = o[2][1], o[2][2]
            ext = prev[1] if o[1] == 'swap_rows' else prev[2]
            if a < ext and b < ext:
                want = [list(r) for r in logical(prev)]
                if o[1] == 'swap_rows':
                    want[a], want[b] = want[b], want[a]
                else:
                    for row in want:
                        row[a], row[b] = row[b], row[a]
                if logical(cur) != want:
                    out.append(dict(kind='oracle', op_index=i, op=o[1], detail=f'{o[1]}({a},{b}) did not exchange exactly the named vectors',
                                    observed=str(logical(cur)), expected=str(want)))
        if o[1] in ('swap_rows', 'swap_cols') and prev:
            ext = prev[1] if o[1] == 'swap_rows' else prev[2]
            valid = o[2][1] < ext and o[2][2] < ext
            if valid != (obs == '()'):
                out.append(dict(kind='oracle', op_index=i, op=o[1], detail='wrong success/failure for these indices', observed=obs,
                                expected='()' if valid else 'Err(IndexOutOfBounds)'))
        prev = cur
    return out


def gen_C14(rng, tier, changed):
    cases = []
    shapes = [(r, c) for r in range(0, 4) for c in range(0, 4)]
    for (r1, c1) in shapes:
        for (r2, c2) in shapes:
            for o1 in (0, 1):
                for o2 in (0, 1):
                    if tier == 'quick' and (r1, c1) != (r2, c2) and (r1, c1) != (c2, r2) and rng.random() < 0.5:
                        continue
                    sh = Shadow()
                    ops = build(sh, 0, r1, c1, o1, how='rowreshape') + build(sh, 1, r2, c2, o2, how='rowreshape')
                    ops.append(op('overwrite', 0, 1))
                    cases.append(Case(f'C14-{r1}x{c1}o{o1}-{r2}x{c2}o{o2}', ops, 'tr'))
    for i in range(40 if tier == 'quick' else 400):
        sh = Shadow()
        r1, c1, r2, c2 = (rng.randint(0, 6) for _ in range(4))
        ops = build(sh, 0, r1, c1, rng.randrange(2), rng=rng) + build(sh, 1, r2, c2, rng.randrange(2), rng=rng)
        ops += [op('overwrite', 0, 1), op('overwrite', 1, 0)]
        cases.append(Case(f'C14-r{i}', ops, rng.choice(['tr', 'w24', 'zd', 'b1'])))
    return cases


def oracle_C14(case, hlines):
    out = []
    ops = [o for o in case.ops if o[1] != 'fault']
    prev = None
    for i, (o, line) in enumerate(zip(ops, hlines)):
        if o[1] == 'overwrite' and prev is not None and case.elem in ('tr', 'w24', 'pn'):
            d, s = o[2]
            pd, ps = parse_slot(prev, d), parse_slot(prev, s)
            cd, cs = parse_slot(line, d), parse_slot(line, s)
            if pd and ps and cd and cs:
                want = [list(r) for r in logical(pd)]
                src = logical(ps)
                for a in range(min(pd[1], ps[1])):
                    for b in range(min(pd[2], ps[2])):
                        want[a][b] = src[a][b]
                if logical(cd) != want or cd[:3] != pd[:3] or cs != ps:
                    out.append(dict(kind='oracle', op_index=i, op='overwrite', detail='not exactly the overlapping top-left block (or source/shape/order changed)',
                                    observed=line.split(' ;; ')[1], expected=str(want)))
                side = C.side_of(line)
                ncl = int(side.split('cl=')[1].split()[0]) if 'cl=' in side else None
                if case.elem == 'tr' and ncl is not None and ncl != min(pd[1], ps[1]) * min(pd[2], ps[2]):
                    out.append(dict(kind='oracle', op_index=i, op='overwrite', detail=f'{ncl} clones for an overlap of {min(pd[1], ps[1])}x{min(pd[2], ps[2])}',
                                    observed=side))
        prev = line
    return out


SUITES = {
    'C01': dict(gen=gen_C01, files=['src'], rule='random operation histories over the whole public alphabet (mostly valid arguments, 20% invalid), four element types; non-trivial = history with at least one state-changing operation; distinct by operation text',
                assumptions=['clone counts and capacity are not compared with the model']),
    'C04': dict(gen=gen_C04, files=['src/index.rs'], rule='every shape <= 3x3 plus degenerate and 1x6/6x1, both orders, all (r,c) in 0..=extent+1 for three index types, extreme usize values, stateful accessor scripts'),
    'C05': dict(gen=gen_C05, oracle=oracle_C05, files=['src/lib.rs', 'src/index.rs', 'src/shape.rs', 'src/order.rs'],
                rule='every shape r,c <= bound in both orders through transpose and the five order operations, plus random compositions'),
    'C09': dict(gen=gen_C09, oracle=oracle_C09, files=['src/lib.rs', 'src/swap.rs', 'src/arithmetic.rs', 'src/shape.rs'],
                rule='source shapes <= 3x4 x both orders x valid / mismatching / overflowing targets for reshape and resize; random failing in-place operations'),
    'C10': dict(gen=gen_C10, oracle=oracle_C10, files=['src/swap.rs', 'src/index.rs'],
                rule='all (m,n) in 0..=extent+1 for swap_rows/swap_cols on every shape <= 4x4 in both orders; coordinate pairs incl. equal and out of range, three index kinds, wrapping and stateful indices'),
    'C13': dict(gen=gen_C13, oracle=oracle_C13, files=['src/index.rs'],
                rule='non-empty shapes <= 4x4 and 1xn/nx1, both orders, window of several periods around zero, all 49 pairs of extreme isize values; every empty shape'),
    'C14': dict(gen=gen_C14, oracle=oracle_C14, files=['src/lib.rs'],
                rule='all shape pairs <= 3x3 incl. degenerate x four order combinations, clone-counting elements; random larger pairs'),
}


# ---------------------------------------------------------------------------------------------
def source_changed(pid):
    """has the source the property is anchored in changed since the model was validated against it?"""
    p = os.path.join(C.VERIF, 'model-fingerprints.json')
    if not os.path.exists(p):
        return False
    pinned = json.load(open(p))
    files = expand_files(SUITES[pid].get('files', ['src']))
    return pinned.get(pid) != C.fingerprint(files)


def expand_files(files):
    out = []
    for f in files:
        p = os.path.join(C.REPO, f)
        if os.path.isdir(p):
            for root, _, fs in os.walk(p):
                out += [os.path.relpath(os.path.join(root, x), C.REPO) for x in fs if x.endswith('.rs')]
        else:
            out.append(f)
    return out


def case_key(case):
    if case.elem == 'k':
        return hashlib.sha1(case.text().split(' ', 2)[2].encode()).hexdigest()
    return hashlib.sha1('\n'.join(case.text().split('\n')[1:]).encode() + case.elem.encode()).hexdigest()


def run_suite(pid, suite, rng, tier, profiles, workdir, changed):
    cases = suite['gen'](rng, tier, changed)
    if tier != 'quick':
        # thorough: the generator is run again with further seeds derived from the first; exhaustive parts repeat and
        # are dropped as duplicates, random parts (histories, scripts, samples, element-type choices) are new
        seen = {case_key(c) for c in cases}
        for rnd in range(1, suite.get('thorough_rounds', 6)):
            sub = random.Random(f'{rng.random()}-{rnd}')
            for c in suite['gen'](sub, tier, changed):
                k = case_key(c)
                # suites that compare cases pairwise (C07: the same program with and without order switches) keep
                # every case of a round, with the references between them renamed consistently
                if k not in seen or suite.get('post'):
                    seen.add(k)
                    c.id = f'{c.id}~{rnd}'
                    if 'pair' in c.meta:
                        c.meta['pair'] = f"{c.meta['pair']}~{rnd}"
                    cases.append(c)
    corpus = load_corpus(pid)
    cases = corpus + cases
    violations, samples = [], []
    evaluations, nontrivial_keys = 0, set()
    dist = {}
    all_cases = cases
    for prof in profiles:
        # cases marked for one build profile run only there; when the release build was added to a quick run only for
        # such cases (suite flag release_too), nothing else runs in it
        only_marked = prof == 'release' and tier == 'quick' and suite.get('release_too') and not suite.get('both_profiles')
        cases = [c for c in all_cases if c.meta.get('only_profile') in (None, prof) and not (only_marked and c.meta.get('only_profile') != 'release')]
        if not cases:
            continue
        for c in cases:
            c.debug = 0 if prof == 'release' else 1
        t_budget = 240 if tier == 'quick' else 1800
        hres, crashes = C.run_harness(cases, workdir, prof, timeout=t_budget, tag=f'cases-{prof}')
        mres = C.run_model(cases, workdir, tag=f'cases-{prof}') if not suite.get('no_model') else {}
        for c in cases:
            hl = hres.get(c.id)
            ml = mres.get(c.id) if not (suite.get('no_model') or c.meta.get('no_model')) else None
            if hl is None:
                violations.append(mk_violation(pid, c, dict(kind='oracle', op_index=0, op='?', detail='case produced no output'), prof))
                continue
            evaluations += 1
            for o in c.ops:
                dist[o[1]] = dist.get(o[1], 0) + 1
            hl_ops = [l for l in hl if not (l == 'E' or l.startswith('E '))]
            if c.elem == 'k':
                findings = compare_K(c, hl, ml)
            else:
                findings = C.compare_case(c, hl if hl else [], ml[:-1] if ml else ml)
                if suite.get('oracle'):
                    try:
                        findings += suite['oracle'](c, hl_ops)
                    except Exception as e:      # output the oracle cannot read (a crash line, a truncated transcript) is a finding
                        bad = next((i for i, l in enumerate(hl_ops) if ' ;; ' not in l), max(0, len(hl_ops) - 1))
                        findings.append(dict(kind='oracle', op_index=bad, op=(c.ops[bad][1] if bad < len(c.ops) else '?'),
                                             observed=(hl_ops[bad] if bad < len(hl_ops) else '')[:300],
                                             detail=f'the implementation transcript cannot be interpreted by the direct oracle ({e!r})'))
            if any(' ;; ' in l and not l.startswith('INVALID') for l in hl):
                nontrivial_keys.add(case_key(c))
            for f in findings[:3]:
                violations.append(mk_violation(pid, c, f, prof))
            if c.elem == 'k':
                if len(samples) < 6 and evaluations % 97 == 1:
                    samples.append(dict(case=c.id, call=c.text().strip(), observed=hl[:1]))
                nontrivial_keys.add(c.text().split(' ', 2)[2])
                dist[c.fn] = dist.get(c.fn, 0) + 1
                continue
            if len(samples) < 6 and (len(c.ops) <= 12 or evaluations % 37 == 1):
                samples.append(dict(case=c.id, elem=c.elem, ops=[C_line(o) for o in c.ops][:10], observed=[x[:200] for x in (hl or [''])[:10]]))
        if suite.get('post'):
            for (c, f) in suite['post'](cases, hres):
                violations.append(mk_violation(pid, c, f, prof))
    errs = sum(1 for v in violations)
    return dict(evaluations=evaluations, distinct_nontrivial=len(nontrivial_keys), samples=samples, rule=suite.get('rule', ''),
                violations=dedup(violations), notes=[f'source fingerprint changed: {changed}'],
                extra=dict(op_distribution=dict(sorted(dist.items(), key=lambda kv: -kv[1])[:40]), profiles=profiles,
                           corpus_cases=len(corpus), findings_before_dedup=errs))


def C_line(o):
    from ops import op_line
    return op_line(o) if o[1] != 'fault' else 'X ' + ' '.join(map(str, o[2]))


def dedup(vs):
    seen, out = set(), []
    for v in vs:
        k = (v.get('kind'), v.get('what'))
        if k in seen:
            continue
        seen.add(k)
        out.append(v)
    return out


def mk_violation(pid, case, f, prof):
    """a finding with its concrete failing input"""
    kind = f.get('kind')
    what = f"{f.get('op')}: {f.get('detail')}"
    upto = f.get('op_index', len(case.ops))
    if case.elem == 'k':
        return dict(kind=kind, what=what, profile=prof, failing_input=dict(case=case.id, call=case.text().strip(), debug=case.debug),
                    observed=f.get('observed'), expected=f.get('expected'), known_key=f.get('known_key'))
    # the failing input: the history up to and including the failing operation
    ops_txt = []
    k = -1
    for o in case.ops:
        if o[1] != 'fault':
            k += 1
        ops_txt.append(C_line(o))
        if k >= upto:
            break
    return dict(kind=kind, what=what, profile=prof,
                failing_input=dict(case=case.id, elem=case.elem, threads=case.threads, delay=case.delay, debug=case.debug, history=ops_txt),
                observed=f.get('observed'), expected=f.get('expected'), known_key=f.get('known_key'))


def load_corpus(pid):
    d = os.path.join(C.VERIF, 'corpus', pid)
    out = []
    if os.path.isdir(d):
        for fn in sorted(os.listdir(d)):
            if fn.endswith('.json'):
                j = json.load(open(os.path.join(d, fn)))
                out.append(case_from_replay(j, f'{pid}-corpus-{fn[:-5]}'))
    return out


def parse_history_lines(lines):
    ops = []
    for l in lines:
        t = l.split()
        if t[0] == 'X':
            ops.append((900, 'fault', [int(x) for x in t[1:]], []))
            continue
        code, name = int(t[1]), t[2]
        groups, cur = [], []
        for x in t[3:]:
            if x == '|':
                groups.append(cur)
                cur = []
            else:
                cur.append(int(x))
        groups.append(cur)
        ops.append((code, name, groups[0], groups[1:]))
    return ops


def case_from_replay(fi, cid):
    return Case(cid, parse_history_lines(fi['history']), fi.get('elem', 'tr'), fi.get('debug', 1), fi.get('threads', 0), fi.get('delay', 0))


def replay(path):
    j = json.load(open(path))
    v = j['violation']
    fi = v.get('failing_input')
    if not fi:
        print('replay file names broken obligations only (no failing input):', v.get('what'))
        return 1
    if 'history' not in fi and str(fi.get('call', '')).startswith('K '):
        # a single kernel call: `K id debug fn args...`
        t = fi['call'].split()
        case = KCase('replay', t[3], [int(x) for x in t[4:]], meta=(dict(want=v.get('expected')) if v.get('kind') == 'oracle' and v.get('expected') else {}))
        case.debug = int(t[2])
        prof = v.get('profile', 'debug')
        C.build_harness(prof)
        C.build_model()
        wd = os.path.join(C.BUILD, 'run', 'replay')
        hres, _ = C.run_harness([case], wd, prof)
        mres = C.run_model([case], wd)
        hl, ml = hres.get('replay', []), mres.get('replay', [])
        print(case.text().strip())
        print('   impl :', hl[0] if hl else '-')
        print('   model:', ml[0] if ml else '-')
        findings = compare_K(case, hl, ml)
        for f in findings:
            print('FINDING', f)
        return 1 if findings else 0
    if 'history' not in fi:
        print(json.dumps(fi, indent=1))
        return 1
    case = case_from_replay(fi, 'replay')
    prof = v.get('profile', 'debug')
    ok, log = C.build_harness(prof)
    okm, _ = C.build_model()
    wd = os.path.join(C.BUILD, 'run', 'replay')
    hres, crashes = C.run_harness([case], wd, prof)
    mres = C.run_model([case], wd)
    hl, ml = hres.get('replay', []), mres.get('replay', [])
    for i, o in enumerate([o for o in case.ops if o[1] != 'fault']):
        print(C_line(o))
        print('   impl :', hl[i] if i < len(hl) else '-')
        print('   model:', ml[i] if i < len(ml) else '-')
    findings = C.compare_case(case, hl, ml[:-1] if ml else ml)
    pid = j['property']
    if SUITES.get(pid, {}).get('oracle'):
        findings += SUITES[pid]['oracle'](case, [l for l in hl if not (l == 'E' or l.startswith('E '))])
    for f in findings:
        print('FINDING', f)
    return 1 if findings else 0


# =============================================================================================
# second batch of suites: C06 C07 C11 C12 C15 C16 C19 C20
def obs_of(line):
    return line.split(' ;; ')[0]


def deque_nth(items, w):
    """nth(k) (w = 10 + k) / nth_back(k) (w = 100 + k) on a list: ([item] or [], remaining items)"""
    if w < 100:
        k = w - 10
        rest = items[k:]
        return (rest[:1], rest[1:])
    k = w - 100
    rest = items[:max(0, len(items) - k)]
    return (rest[-1:], rest[:-1])


def sim_deque(items, script, show=lambda x: x):
    """expected observation of a next/next_back/len script on a sequence"""
    items = list(items)
    out = []
    for w in script:
        if w in (3, 4):
            out += [f'Some({show(x)})' for x in (items if w == 3 else items[::-1])]
            break
        if w == 0:
            out.append(f'Some({show(items.pop(0))})' if items else 'None')
        elif w == 1:
            out.append(f'Some({show(items.pop())})' if items else 'None')
        elif w >= 10:
            x, items = deque_nth(items, w)
            out.append(f'Some({show(x[0])})' if x else 'None')
        else:
            out.append(str(len(items)))
    return '[' + ','.join(out) + ']'


def sim_nested(vectors, script):
    outer = list(vectors)
    inners, out = [], []
    for k in range(0, len(script) - 1, 2):
        who, what = script[k], script[k + 1]
        if who < 0:
            if what == 2:
                out.append(str(len(outer)))
                continue
            x, outer = deque_nth(outer, {0: 10, 1: 100}.get(what, what))
            if x:
                out.append(f'Some({len(inners)})')
                inners.append(list(x[0]))
            else:
                out.append('None')
        else:
            if who >= len(inners):
                out.append('INVALID')
                break
            if what == 2:
                out.append(str(len(inners[who])))
                continue
            x, inners[who] = deque_nth(inners[who], {0: 10, 1: 100}.get(what, what))
            out.append(f'Some({x[0]})' if x else 'None')
    return '[' + ','.join(out) + ']'


def gen_C06(rng, tier, changed):
    cases = []
    shapes = [(r, c) for r in range(0, 5) for c in range(0, 5)] + [(0, 7), (7, 0), (1, 9), (9, 1)]
    for (r, c) in shapes:
        for order in (0, 1):
            sh = Shadow()
            ops = build(sh, 0, r, c, order, how='rowreshape')
            full_front = lambda n, m: [-1, 2] + sum(([-1, 0] for _ in range(n + 1)), []) + [-1, 2] + sum(([i, w] for i in range(n) for w in [2] + [0] * (m + 1) + [2]), [])
            full_back = lambda n, m: sum(([-1, 1] for _ in range(n + 1)), []) + sum(([i, w] for i in range(n) for w in [1] * (m + 1) + [2]), [])
            for nm, n, m in (('iter_rows', r, c), ('iter_cols', c, r)):
                ops.append(op(nm, 0, rows=[full_front(n, m)]))
                ops.append(op(nm, 0, rows=[full_back(n, m)]))
                for _ in range(2 if tier == 'quick' else 6):
                    ops.append(op(nm, 0, rows=[safe_nested_script(rng, 14, n)]))
            for nm, n, m in (('iter_rows_mut', r, c), ('iter_cols_mut', c, r)):
                nvec = n if r * c > 0 else 0
                ops.append(op(nm, 0, 1, rows=[[-1, 2]]))
                ops.append(op(nm, 0, 1, rows=[full_front(nvec, m)]))
                ops.append(op(nm, 0, 2, rows=[full_back(nvec, m)]))
                for _ in range(2 if tier == 'quick' else 6):
                    ops.append(op(nm, 0, 0, rows=[safe_nested_script(rng, 14, nvec)]))
            for nm, ext, ln in (('iter_nth_row', r, c), ('iter_nth_col', c, r)):
                for n in list(range(ext + 2)) + [UMAX]:
                    ops.append(op(nm, 0, n, rows=[[2] + [0] * (ln + 1) + [2]]))
                    ops.append(op(nm, 0, n, rows=[[1] * (ln + 1) + [2]]))
                    ops.append(op(nm, 0, n, rows=[rand_script(rng, ln + 3)]))
                    ops.append(op(nm + '_mut', 0, n, 1, rows=[rand_script(rng, ln + 3)]))
            cases.append(Case(f'C06-{r}x{c}o{order}', ops, 'tr'))
            if (r + c + order) % 2 == 0 or tier != 'quick':
                cases.append(Case(f'C06-{r}x{c}o{order}b', ops, 'b1'))
            # zero-sized elements: the mutable views count instead of pointing (lengths and item counts from either end;
            # gap found with seeded change C06f)
            if (r + c + order) % 2 == 1 or tier != 'quick':
                cases.append(Case(f'C06-{r}x{c}o{order}z', ops, rng.choice(['unit', 'zd'])))
    return cases


def oracle_C06(case, hlines):
    """direct oracle: every row/column view yields exactly the logical row/column, from either end, with exact lengths"""
    out = []
    ops = [o for o in case.ops if o[1] != 'fault']
    prev = None
    for i, (o, line) in enumerate(zip(ops, hlines)):
        name = o[1]
        if prev is not None and name.startswith('iter_') and ('row' in name or 'col' in name):
            slot = parse_slot(prev, o[2][0])
            if slot is not None:
                rows = logical(slot)
                cols = transpose_rows(rows, slot[2])
                is_row = 'row' in name
                vecs = rows if is_row else cols
                obs = obs_of(line)
                script = o[3][0] if o[3] else []
                if name in ('iter_rows', 'iter_cols', 'iter_rows_mut', 'iter_cols_mut'):
                    want = sim_nested(vecs, script)
                    if obs != want:
                        f = dict(kind='oracle', op_index=i, op=name, observed=obs, expected=want,
                                 detail=f'{name} on {slot[1]}x{slot[2]} does not present the logical {"rows" if is_row else "columns"}')
                        if name.endswith('_mut') and slot[1] * slot[2] == 0 and len(vecs) > 0 and obs == sim_nested([], script):
                            f['known_key'] = 'mut-vector-iter-elementless'
                        out.append(f)
                else:
                    n = o[2][1]
                    want = sim_deque(vecs[n], script) if n < len(vecs) else 'Err(IndexOutOfBounds)'
                    if obs != want:
                        out.append(dict(kind='oracle', op_index=i, op=name, observed=obs, expected=want,
                                        detail=f'{name}({n}) on {slot[1]}x{slot[2]}'))
        prev = line
    return out


# ---------------------------------------------------------------------------------------------
def gen_C11(rng, tier, changed):
    cases = []
    for n in range(0, 4):
        for k in range(0, 4):
            for m in range(0, 4):
                for o1 in (0, 1):
                    for o2 in (0, 1):
                        sh = Shadow()
                        base = build(sh, 0, n, k, o1, how='rowreshape') + build(sh, 1, k, m, o2, how='rowreshape')
                        ops = list(base)
                        ops += [op('clone', 2, 0), op('clone', 3, 1), op('multiply', 2, 2, 3)]
                        ops += [op('op_mul', 3, 3, 0, 1), op('clone', 2, 0), op('op_mul', 1, 2, 2, 1)]
                        ops += [op('clone', 3, 1), op('op_mul', 2, 3, 0, 3), op('clone', 2, 0), op('clone', 3, 1), op('mul_like', 2, 2, 3, 1)]
                        ops += [op('op_mul', 0, 2, 0, 1)]
                        cases.append(Case(f'C11-{n}.{k}.{m}o{o1}{o2}', ops, 'tr'))
    # non-conformable operands
    for i in range(30 if tier == 'quick' else 200):
        sh = Shadow()
        n, k, k2, m = (rng.randint(0, 3) for _ in range(4))
        ops = build(sh, 0, n, k, rng.randrange(2), rng=rng) + build(sh, 1, k2, m, rng.randrange(2), rng=rng)
        ops += [op('conform_mul', 0, 1), op('ensure_mul', 0, 1), op('op_mul', 3, 2, 0, 1), op('clone', 2, 0), op('clone', 3, 1), op('multiply', 2, 2, 3)]
        cases.append(Case(f'C11-nc{i}', ops, 'tr'))
    for i in range(10 if tier == 'quick' else 60):
        sh = Shadow()
        n, k, m = rng.randint(1, 6), rng.randint(1, 6), rng.randint(1, 6)
        ops = build(sh, 0, n, k, rng.randrange(2), rng=rng) + build(sh, 1, k, m, rng.randrange(2), rng=rng)
        ops += [op('op_mul', 3, 2, 0, 1), op('multiply', 3, 0, 1)]
        cases.append(Case(f'C11-big{i}', ops, rng.choice(['tr', 'tr', 'zd'])))
    return cases


def dot_expr(lrow, rcol):
    acc = None
    for l, r in zip(lrow, rcol):
        p = f'(B2 {l} {r})'
        acc = p if acc is None else f'(B0 {acc} {p})'
    return acc if acc is not None else 'D'


def chain_expr(v):
    acc = 'a0'
    for x in reversed(v):
        acc = f'(B30 {x} {acc})'
    return acc


def oracle_C11(case, hlines):
    out = []
    if case.elem != 'tr':
        return out
    ops = [o for o in case.ops if o[1] != 'fault']
    prev = None
    for i, (o, line) in enumerate(zip(ops, hlines)):
        if prev is not None and o[1] in ('multiply', 'op_mul', 'mul_like'):
            if o[1] == 'op_mul':
                d, x, y = o[2][1], o[2][2], o[2][3]
            else:
                d, x, y = o[2][0], o[2][1], o[2][2]
            a, b = parse_slot(prev, x), parse_slot(prev, y)
            obs = obs_of(line)
            if a and b:
                if a[2] != b[1]:
                    want_obs = 'Panic(ShapeNotConformable)' if o[1] == 'op_mul' else 'Err(ShapeNotConformable)'
                    if obs != want_obs:
                        out.append(dict(kind='oracle', op_index=i, op=o[1], observed=obs, expected=want_obs, detail='non-conformable operands'))
                else:
                    res = parse_slot(line, d)
                    la, lb = logical(a), logical(b)
                    colsb = transpose_rows(lb, b[2])
                    if o[1] == 'mul_like':
                        f = o[2][3]
                        cellf = (lambda r, c: f'(B{10 + f} {chain_expr(r)} {chain_expr(c)})') if a[2] > 0 else (lambda r, c: 'D')
                    else:
                        cellf = dot_expr
                    want = [[cellf(la[r], colsb[c]) for c in range(b[2])] for r in range(a[1])]
                    if obs != '()' or res is None or logical(res) != want or res[0] != a[0]:
                        out.append(dict(kind='oracle', op_index=i, op=o[1], detail=f'product of {a[1]}x{a[2]} and {b[1]}x{b[2]} is not the textbook product in lhs order',
                                        observed=line.split(' ;; ')[1][:600], expected=str(want)[:600]))
                    # operands passed by reference are unchanged
                    if o[1] == 'op_mul':
                        form = o[2][0]
                        if form in (2, 3) and parse_slot(line, x) != a and d != x:
                            out.append(dict(kind='oracle', op_index=i, op=o[1], detail='borrowed lhs changed', observed=line.split(' ;; ')[1][:300]))
                        if form in (1, 3) and parse_slot(line, y) != b and d != y:
                            out.append(dict(kind='oracle', op_index=i, op=o[1], detail='borrowed rhs changed', observed=line.split(' ;; ')[1][:300]))
        prev = line
    return out


# ---------------------------------------------------------------------------------------------
def gen_C12(rng, tier, changed):
    cases = []
    shapes = [(r, c) for r in range(0, 4) for c in range(0, 4)]
    pairs = []
    for (r, c) in shapes:
        for (r2, c2) in {(r, c), (c, r), (r + 1, c), (r, c + 1), (max(0, r - 1), c), (0, 0), (r * c, 1)}:
            pairs.append(((r, c), (r2, c2)))
    for idx, ((r, c), (r2, c2)) in enumerate(pairs):
        for o1 in (0, 1):
            for o2 in (0, 1):
                sh = Shadow()
                ops = build(sh, 0, r, c, o1, how='rowreshape') + build(sh, 1, r2, c2, o2, how='rowreshape')
                ops += [op('conform_ew', 0, 1), op('ensure_ew', 0, 1), op('ew', 2, 0, 1, 1)]
                ops += [op('clone', 2, 0), op('ew_consume', 3, 2, 1, 2), op('clone', 2, 0), op('ew_assign', 2, 1, 0)]
                for opk in range(5):
                    if tier == 'quick' and (idx + opk) % 2:
                        continue
                    ops += [op('ew_named', opk, 0, 3, 0, 1), op('clone', 2, 0), op('ew_named', opk, 1, 3, 2, 1), op('clone', 2, 0), op('ew_named', opk, 2, 0, 2, 1)]
                for opk in range(2):
                    ops += [op('op_ew', opk, 3, 2, 0, 1)]
                    ops += [op('clone', 2, 0), op('op_ew', opk, 1, 3, 2, 1)]
                    ops += [op('clone', 3, 1), op('op_ew', opk, 2, 2, 0, 3)]
                    ops += [op('clone', 2, 0), op('clone', 3, 1), op('op_ew', opk, 0, 2, 2, 3)]
                    ops += [op('clone', 2, 0), op('op_ew_assign', opk, 1, 2, 1), op('clone', 3, 1), op('clone', 2, 0), op('op_ew_assign', opk, 0, 2, 3)]
                cases.append(Case(f'C12-{r}x{c}o{o1}-{r2}x{c2}o{o2}', ops, 'tr'))
    # larger operands (blocked / tiled rewrites of the loops only differ there): extents around 16 and 32, unequal on the
    # two axes, every order combination; the three drivers and the assigning operators (gap found with seeded change C12e)
    big = [(16, 32), (32, 16), (20, 2), (2, 20), (17, 33), (40, 20), (16, 16), (1, 48)]
    if tier == 'quick':
        big = rng.sample(big[:6], 3) + [big[6]]
    for (r, c) in big:
        for o1 in (0, 1):
            for o2 in (0, 1):
                sh = Shadow()
                ops = build(sh, 0, r, c, o1, how='rowreshape') + build(sh, 1, r, c, o2, how='rowreshape')
                ops += [op('ew', 2, 0, 1, 1), op('clone', 2, 0), op('ew_consume', 3, 2, 1, 2), op('clone', 2, 0), op('ew_assign', 2, 1, 0)]
                ops += [op('clone', 2, 0), op('op_ew_assign', 0, 1, 2, 1), op('clone', 2, 0), op('ew_named', 1, 2, 0, 2, 1)]
                cases.append(Case(f'C12-big{r}x{c}o{o1}o{o2}', ops, 'tr'))
    return cases


def oracle_C12(case, hlines):
    out = oracle_unchanged_on_error(case, hlines)
    if case.elem != 'tr':
        return out
    ops = [o for o in case.ops if o[1] != 'fault']
    prev = None
    for i, (o, line) in enumerate(zip(ops, hlines)):
        name = o[1]
        if prev is not None and name in ('ew', 'ew_consume', 'ew_assign', 'ew_named', 'op_ew', 'op_ew_assign', 'conform_ew', 'ensure_ew'):
            a_ = o[2]
            if name in ('ew', 'ew_consume'):
                d, x, y, code, panics = a_[0], a_[1], a_[2], 10 + a_[3], False
            elif name == 'ew_assign':
                d, x, y, code, panics = a_[0], a_[0], a_[1], 10 + a_[2], False
            elif name == 'ew_named':
                d, x, y, code, panics = (a_[2] if a_[1] != 2 else a_[3]), a_[3], a_[4], a_[0], False
            elif name == 'op_ew':
                d, x, y, code, panics = a_[2], a_[3], a_[4], a_[0], True
            elif name == 'op_ew_assign':
                d, x, y, code, panics = a_[2], a_[2], a_[3], a_[0], True
            else:
                d, x, y, code, panics = None, a_[0], a_[1], None, False
            a, b = parse_slot(prev, x), parse_slot(prev, y)
            obs = obs_of(line)
            if not (a and b):
                prev = line
                continue
            conf = (a[1], a[2]) == (b[1], b[2])
            if name == 'conform_ew':
                if obs != ('true' if conf else 'false'):
                    out.append(dict(kind='oracle', op_index=i, op=name, observed=obs, expected=str(conf).lower(),
                                    detail=f'conformability of {a[1]}x{a[2]} ({a[0]}) and {b[1]}x{b[2]} ({b[0]})'))
            elif name == 'ensure_ew':
                want = '()' if conf else 'Err(ShapeNotConformable)'
                if obs != want:
                    out.append(dict(kind='oracle', op_index=i, op=name, observed=obs, expected=want, detail='ensure conformable'))
            elif not conf:
                want = 'Panic(ShapeNotConformable)' if panics else 'Err(ShapeNotConformable)'
                if obs != want:
                    out.append(dict(kind='oracle', op_index=i, op=name, observed=obs, expected=want, detail='non-conformable shapes'))
            else:
                la, lb = logical(a), logical(b)
                want = [[f'(B{code} {la[r][c]} {lb[r][c]})' for c in range(a[2])] for r in range(a[1])]
                res = parse_slot(line, d)
                if obs != '()' or res is None or logical(res) != want or res[0] != a[0]:
                    out.append(dict(kind='oracle', op_index=i, op=name, detail='elementwise result is not op(lhs[r][c], rhs[r][c]) in lhs order',
                                    observed=line.split(' ;; ')[1][:500], expected=str(want)[:500]))
        prev = line
    return out


# ---------------------------------------------------------------------------------------------
def gen_C15(rng, tier, changed):
    cases = []
    n = 160 if tier == 'quick' else 1500
    for i in range(n):
        sh = Shadow()
        r, c = rng.randint(0, 4), rng.randint(0, 4)
        ops = build(sh, 0, r, c, rng.randrange(2), rng=rng)
        for _ in range(rng.randrange(4)):
            nm = rng.choice(['transpose', 'switch_order', 'switch_order_wr', 'reshape'])
            if nm == 'reshape':
                size = sh.s[0][0] * sh.s[0][1]
                divs = [k for k in range(1, size + 1) if size % k == 0] or [0]
                k = rng.choice(divs)
                o = op('reshape', 0, k, size // k if k else rng.randint(0, 3))
            else:
                o = op(nm, 0)
            ops.append(o)
            sh.apply(o)
        size = sh.s[0][0] * sh.s[0][1]
        scripts = [[0] * (size + 1) + [2], [1] * (size + 1), rand_script(rng, size + 2), [2, 0, 1, 2] * (size // 2 + 1)]
        ops.append(op('iter_elements', 0, rows=[rng.choice(scripts)]))
        ops.append(op('iter_elements_idx', 0, rows=[rng.choice(scripts)]))
        ops.append(op('iter_elements_mut', 0, 1, rows=[rng.choice(scripts)]))
        ops.append(op('iter_elements_mut_idx', 0, 2, rows=[rng.choice(scripts)]))
        ops.append(op('par_iter_elements_idx', 0))
        ops.append(op('par_iter_elements_mut_idx', 0, 1))
        ops.append(op('clone', 1, 0))
        ops.append(op('clone', 2, 0))
        ops.append(op('clone', 3, 0))
        ops.append(op('into_iter_elements', 1, rows=[rng.choice(scripts)]))
        ops.append(op('into_iter_elements_idx', 2, rows=[rng.choice(scripts)]))
        ops.append(op('into_par_iter_elements_idx', 3))
        cases.append(Case(f'C15-{i}', ops, 'tr', threads=rng.choice([0, 2, 4])))
    return cases


def oracle_C15(case, hlines):
    """direct oracle: element iterators follow memory order (= the dump, whose layout the harness's coherence
    probe pins to row-by-row / column-by-column through get()), and every reported index addresses that very element"""
    out = []
    ops = [o for o in case.ops if o[1] != 'fault']
    prev = None
    for i, (o, line) in enumerate(zip(ops, hlines)):
        name = o[1]
        if prev is not None and 'iter_elements' in name:
            slot = parse_slot(prev, o[2][0])
            if slot:
                obs = obs_of(line)
                rows = logical(slot)
                data = slot[3]
                script = o[3][0] if o[3] else None
                if name.endswith('_idx'):
                    if slot[0] == 'R':
                        items = [f'[{k // slot[2]},{k % slot[2]},{e}]' for k, e in enumerate(data)]
                    else:
                        items = [f'[{k % slot[1]},{k // slot[1]},{e}]' for k, e in enumerate(data)]
                    for it in items:
                        rr, cc, e = it[1:-1].split(',', 2)
                        if rows[int(rr)][int(cc)] != e:
                            out.append(dict(kind='oracle', op_index=i, op=name, detail='index does not address the element', observed=it))
                else:
                    items = list(data)
                if name.startswith('par_') or name.startswith('into_par_'):
                    want = '[' + ','.join(sorted(items)) + ']'
                    got = '[' + ','.join(sorted(C.split_top(obs[1:-1]))) + ']'
                else:
                    want = sim_deque(items, script)
                    got = obs
                if got != want:
                    out.append(dict(kind='oracle', op_index=i, op=name, observed=got[:400], expected=want[:400],
                                    detail='element iteration is not memory order with matching indices'))
        prev = line
    return out


# ---------------------------------------------------------------------------------------------
def gen_C16(rng, tier, changed):
    cases = []
    sizes = [0, 1, 2, 3, 7, 16, 33, 100, 257, 1000, 4000] + ([20000, 50000] if tier != 'quick' else [9000])
    threads = [1, 2, 3, 4, 8, 16, 32]
    k = 0
    for n in sizes:
        for t in (threads if tier != 'quick' else rng.sample(threads, 3)):
            # delay + 16: the parallel iterators are built under the ambient pool and driven inside the case's pool
            for delay in ((0, 1, 2, 3, 16 + rng.randrange(4)) if tier != 'quick' else (rng.randrange(4), 16 + rng.randrange(4))):
                order = rng.randrange(2)
                sh = Shadow()
                if n <= 16:
                    r = rng.choice([d for d in range(1, n + 1) if n % d == 0] or [0])
                    c = n // r if r else rng.randint(0, 3)
                else:
                    r = rng.choice([d for d in (1, 2, 4, 8, 16, 3, 5, 10) if n % d == 0] or [1])
                    c = n // r
                ops = build(sh, 0, r, c, order, how='rowreshape')
                ops += [op('clone', 1, 0), op('par_apply', 0, 1), op('apply', 1, 1), op('eq', 0, 1)]
                ops += [op('par_map_ref', 2, 0, 2), op('map_ref', 3, 1, 2), op('eq', 2, 3)]
                ops += [op('par_iter_elements', 0), op('par_iter_elements_idx', 0), op('par_iter_elements_mut', 0, 0), op('par_iter_elements_mut_idx', 1, 0), op('eq', 0, 1)]
                ops += [op('par_map', 2, 2, 0), op('map', 3, 3, 0), op('eq', 2, 3), op('into_par_iter_elements', 2), op('into_par_iter_elements_idx', 3)]
                cases.append(Case(f'C16-{k}', ops, 'tr' if (k % 5 or n > 300) else rng.choice(['zd', 'unit', 'w24']), threads=t, delay=delay,
                                  meta=dict(no_model=(n > 1200))))
                k += 1
    # CapacityOverflow in the same cases as the sequential forms: zero-sized and sized sources, every target size
    kk = 0
    for es_src in (0, 1, 8, 24):
        for es_dst in ES:
            for size in ([0, 1, 6, 64] + ([IMAX // max(1, es_dst) + 1, UMAX, 2**63] if es_src == 0 else [])):
                want = f'Some([1,{size},{size}])' if es_dst * size <= IMAX else 'Err(CapacityOverflow)'
                if want.startswith('Some') and size > 2048:
                    continue    # a successful huge map would loop over every (zero-sized) element
                for which in (0, 1, 6, 7):
                    cases.append(KCase(f'C16-k{kk}', 'mapfam', [which, es_src, es_dst, size], meta=dict(want=want)))
                    kk += 1
    # lanes of more than 2^32 zero-sized elements through the three *_with_index parallel iterators (index arithmetic that is
    # only exact below 2^32 or 2^64 / stride): release build only (four thousand million items), gap found with seeded change C16f
    for n in ((2**32 + 1, 2**32 + 12345) if tier != 'quick' else (2**32 + 1,)):
        for order in (0, 1):
            for which in (0, 1, 2):
                want = f'[{n},0,{(n * (n - 1) // 2) % 2**64}]'
                cases.append(KCase(f'C16-z{kk}', 'par_idx_zst', [n, order, which], meta=dict(want=want, no_model=True, only_profile='release')))
                kk += 1
    return cases


def oracle_C16(case, hlines):
    out = oracle_C15(case, hlines)
    ops = [o for o in case.ops if o[1] != 'fault']
    for i, (o, line) in enumerate(zip(ops, hlines)):
        if o[1] == 'eq' and obs_of(line) != 'true':
            out.append(dict(kind='oracle', op_index=i, op='eq', detail=f'parallel result differs from the sequential one (threads={case.threads}, delay={case.delay})',
                            observed=obs_of(line), expected='true'))
    return out


# ---------------------------------------------------------------------------------------------
def gen_C19(rng, tier, changed):
    cases = []
    k = 0
    for nr in range(0, 5):
        for nc in range(0, 5):
            variants = [None]
            for pos in range(nr):
                for ln in (nc - 1, nc + 1, 0, nc + 2):
                    if ln >= 0 and ln != nc:
                        variants.append((pos, ln))
            for var in variants:
                sh = Shadow()
                lens = [nc] * nr
                if var:
                    lens[var[0]] = var[1]
                rows = [sh.fresh_vals(l) for l in lens]
                ops = []
                for kind in (0, 1, 2):
                    ops.append(op('try_from', kind, kind, rows=rows))
                ops.append(op('from_iter', 3, rows=rows))
                # the same rows as iterators with untruthful / absent size hints: the hint of the first row for every row, 0, none
                for h in sorted({lens[0] if lens else 0, nc, 0, -1}):
                    ops.append(op('from_iter_hint', 3, h, rows=rows))
                if var is None and nc <= 4:
                    for kind in (0, 1, 2):
                        ops.append(op('from_arrays', kind, kind, nc, rows=rows))
                    if 1 <= nr <= 3 and 1 <= nc <= 3:
                        ops.append(op('macro', 3, 3, 0, 0, rows=rows))
                cases.append(Case(f'C19-{k}', ops, rng.choice(['tr', 'tr', 'zd'])))
                k += 1
    # total-length coincidences: ragged rows whose lengths add up to nrows * ncols
    for rows_l in ([2, 1, 3], [3, 1, 2, 2], [1, 2], [2, 2, 1, 3], [0, 1], [1, 0], [2, 3, 1], [1, 1, 0, 2]):
        sh = Shadow()
        rows = [sh.fresh_vals(l) for l in rows_l]
        ops = [op('try_from', 0, 1, rows=rows), op('try_from', 1, 2, rows=rows), op('try_from', 2, 0, rows=rows), op('from_iter', 3, rows=rows),
               op('from_iter_hint', 3, rows_l[0], rows=rows), op('from_iter_hint', 3, -1, rows=rows)]
        cases.append(Case(f'C19-co{k}', ops, 'tr'))
        k += 1
    for r in range(0, 4):
        for c in range(0, 4):
            sh = Shadow()
            v = sh.fresh_vals(3)
            ops = [op('with_value', 0, r, c, v[0]), op('with_default', 1, r, c), op('with_init', 2, r, c, 1), op('macro', 3, 1, r, c),
                   op('from_row', 0, rows=[sh.fresh_vals(c)]), op('from_col', 1, rows=[sh.fresh_vals(r)]),
                   op('macro', 2, 5, c, 0), op('macro', 3, 8, r, 0), op('macro', 0, 0, 0, 0), op('macro', 1, 4, 0, 0), op('macro', 2, 7, 0, 0),
                   op('new', 0), op('default', 1), op('with_capacity', 2, r * c)]
            if 1 <= c <= 3:
                vals = sh.fresh_vals(c)
                ops += [op('macro', 0, 2, r, 0, rows=[vals]), op('macro', 1, 6, 0, 0, rows=[vals]), op('macro', 2, 9, 0, 0, rows=[vals])]
            cases.append(Case(f'C19-w{r}x{c}', ops, rng.choice(['tr', 'tr', 'zd'])))
    return cases


def oracle_C19(case, hlines):
    out = []
    if case.elem != 'tr':
        return out
    ops = [o for o in case.ops if o[1] != 'fault']
    for i, (o, line) in enumerate(zip(ops, hlines)):
        name, a_, rows = o[1], o[2], o[3]
        obs = obs_of(line)
        want_rows, want_obs = None, '()'
        if name in ('try_from', 'from_iter', 'from_arrays', 'from_iter_hint'):
            nc = len(rows[0]) if rows else 0
            if name == 'from_arrays':
                nc = a_[2]
            ragged = any(len(r) != nc for r in rows)
            if ragged:
                want_obs = 'Err(LengthInconsistent)' if name == 'try_from' else 'Panic(LengthInconsistent)'
            else:
                want_rows = [[f'a{v}' for v in r] for r in rows]
                if name in ('from_iter', 'from_iter_hint') and not rows:
                    nc = 0
                want_shape = (len(rows), nc)
        elif name == 'with_value':
            want_rows, want_shape = [[f'a{a_[3]}'] * a_[2] for _ in range(a_[1])], (a_[1], a_[2])
        elif name == 'with_default':
            want_rows, want_shape = [['D'] * a_[2] for _ in range(a_[1])], (a_[1], a_[2])
        elif name == 'with_init':
            want_rows, want_shape = [[f'(B{20 + a_[3]} a{r} a{c})' for c in range(a_[2])] for r in range(a_[1])], (a_[1], a_[2])
        elif name == 'from_row':
            want_rows, want_shape = [[f'a{v}' for v in (rows[0] if rows else [])]], (1, len(rows[0]) if rows else 0)
        elif name == 'from_col':
            want_rows, want_shape = [[f'a{v}'] for v in (rows[0] if rows else [])], (len(rows[0]) if rows else 0, 1)
        else:
            continue
        if obs != want_obs:
            out.append(dict(kind='oracle', op_index=i, op=name, observed=obs, expected=want_obs, detail='constructor outcome'))
        elif want_rows is not None:
            res = parse_slot(line, a_[0])
            if res is None or logical(res) != want_rows or (res[1], res[2]) != want_shape:
                out.append(dict(kind='oracle', op_index=i, op=name, observed=line.split(' ;; ')[1][:300], expected=str(want_rows)[:300],
                                detail='constructed matrix is not the described one'))
    return out


# ---------------------------------------------------------------------------------------------
RENDER_ATOMS = list(range(1000, 1014))


def gen_C20(rng, tier, changed):
    cases = []
    shapes = [(r, c) for r in range(0, 4) for c in range(0, 4)] + [(1, 5), (5, 1)]
    k = 0
    for (r, c) in shapes:
        pools = [RENDER_ATOMS, [1001, 1003, 1004, 1008, 1009, 1013, 5, 123456], [7, 42, 100000, 0, -3], [1000, 1001], [1000], [1002, 1012, 1010, 5]]
        for pool_ in (pools if tier != 'quick' else rng.sample(pools, 3) + [pools[1]]):
            vals = [rng.choice(pool_) for _ in range(r * c)]
            rows = [vals[i * c:(i + 1) * c] for i in range(r)]
            ops = [op('from_row', 0, rows=[vals]), op('reshape', 0, r, c), op('display', 0), op('debug', 0),
                   op('switch_order', 0), op('display', 0), op('debug', 0), op('transpose', 0), op('display', 0), op('debug', 0)]
            cases.append(Case(f'C20-{k}', ops, 'tr', meta=dict(rows=rows)))
            k += 1
    # element counts around the powers of ten: the width of Debug's index labels changes there
    big = [(2, 5), (11, 1), (9, 11), (10, 10), (3, 35), (2, 51), (8, 125), (7, 143)]
    for (r, c) in (big if tier != 'quick' else [(2, 5), (10, 10), (3, 35), (7, 143)]):
        vals = [rng.choice([7, 42, 1001, 100000, 1003, 5]) for _ in range(r * c)]
        ops = [op('from_row', 0, rows=[vals]), op('reshape', 0, r, c), op('display', 0), op('debug', 0),
               op('switch_order', 0), op('display', 0), op('debug', 0)]
        cases.append(Case(f'C20-big{r}x{c}', ops, 'tr', meta=dict(rows=[vals[i * c:(i + 1) * c] for i in range(r)])))
    # a vector with spare capacity: the label width must follow the number of elements, not the capacity
    for (r, c, r2, c2) in [(3, 4, 3, 3), (2, 6, 1, 5), (10, 11, 9, 11), (4, 3, 0, 3)]:
        vals = [rng.choice([7, 42, 1001, 5]) for _ in range(r * c)]
        ops = [op('from_row', 0, rows=[vals]), op('reshape', 0, r, c), op('resize', 0, r2, c2), op('display', 0), op('debug', 0),
               op('switch_order', 0), op('debug', 0), op('resize', 0, r, c), op('debug', 0)]
        cases.append(Case(f'C20-cap{r}x{c}', ops, 'tr'))
    # formatting is a pure function of the matrix: a format call cut short by a panicking element (caught by the caller)
    # must not influence later calls on the same thread (state kept between calls; gap found with seeded change C20f)
    for (r, c, k) in [(1, 3, 2), (2, 2, 1), (2, 3, 4), (3, 2, 6)]:
        for which in ('display', 'debug'):
            v0 = [rng.choice([7, 42, 1001, 5, 123456]) for _ in range(r * c)]
            v1 = [rng.choice([3, 88, 2, 54321]) for _ in range(4)]
            ops = [op('from_row', 0, rows=[v0]), op('reshape', 0, r, c), op('from_row', 1, rows=[v1]), op('reshape', 1, 2, 2),
                   fault(k, 16), op(which, 0), op('display', 1), op('debug', 1), op('switch_order', 1), op('display', 1), op('debug', 0), op('display', 0)]
            cases.append(Case(f'C20-cut{r}x{c}{which[1]}{k}', ops, 'tr'))
    return cases


def render_py(tok):
    table = ["", "x", "ab\ncd", "é", "日本", "a\n", "\n", "a\r\nb", "wide-wide-wide", "  s", "\n\nq", "a\r", "q\nwww\ne", "\U0001f600"]
    if not (tok[:1] == 'a' and tok[1:].lstrip('-').isdigit()):
        return tok                      # D (a default value) and compound expressions render as themselves
    v = int(tok[1:])
    return table[v - 1000] if 1000 <= v < 1000 + len(table) else str(v)


def oracle_C20(case, hlines):
    """direct oracle: for newline-free renderings one bracketed line per logical row, elements in column order,
    all row lines equally wide; Display identical across storage orders"""
    out = []
    ops = [o for o in case.ops if o[1] != 'fault']
    last_display = {}
    prev = None
    for i, (o, line) in enumerate(zip(ops, hlines)):
        if o[1] in ('display', 'debug'):
            obs = obs_of(line)
            slot = parse_slot(line, o[2][0])
            if not obs.startswith('S:'):
                # the injected panic of a faulted case propagating out of the format call is what is asked for
                if not (' fired=1' in C.side_of(line) and 'Panic(caller)' in obs):
                    out.append(dict(kind='oracle', op_index=i, op=o[1], observed=obs, detail='formatting did not produce text (panic?)'))
                prev = line
                continue
            text = ''.join(chr(int(x)) for x in obs[2:].split('.')) if len(obs) > 2 else ''
            rows = logical(slot)
            rend = [[render_py(e) for e in row] for row in rows]
            key = (o[1], str(rows))
            if o[1] == 'display':
                if key in last_display and last_display[key] != text:
                    out.append(dict(kind='oracle', op_index=i, op='display', detail='Display differs between storage orders for equal matrices',
                                    observed=text, expected=last_display[key]))
                last_display[key] = text
            if slot[1] * slot[2] == 0:
                if text != '[]':
                    out.append(dict(kind='oracle', op_index=i, op=o[1], observed=text, expected='[]', detail='element-less matrix'))
            elif all('\n' not in x and '\r' not in x for row in rend for x in row):
                lines = text.split('\n')
                body = lines[1:-1] if o[1] == 'display' else lines[2:-1]
                ok = lines[0] == '[' and lines[-1] == ']' and len(body) == slot[1]
                widths = set(len(l) for l in body)
                ok = ok and len(widths) <= 1
                for r_i, l in enumerate(body):
                    if not ok:
                        break
                    if o[1] == 'display':
                        ok = l.startswith('    [') and l.endswith(']')
                        inner = l[5:-1]
                    else:
                        st = l.lstrip(' ')
                        ok = l.startswith('    ') and st.startswith(str(r_i)) and l.endswith(']') and '[' in l
                        inner = l[l.index('[') + 1:-1]
                    # elements in column order: every rendering appears, in order
                    pos = 0
                    for c_i, x in enumerate(rend[r_i]):
                        if o[1] == 'debug':
                            label = str(flat_index(slot, r_i, c_i))
                            j = inner.find(label + ' ', pos)
                            ok = ok and j >= 0
                            pos = j + len(label) + 1 if j >= 0 else pos
                            x = '#' + x
                        j = inner.find(x, pos) if x else pos
                        ok = ok and j >= 0
                        pos = j + len(x) if j >= 0 else pos
                if not ok:
                    out.append(dict(kind='oracle', op_index=i, op=o[1], observed=text, detail=f'row-line structure violated for {slot[1]}x{slot[2]} with single-line renderings'))
        prev = line
    return out


def flat_index(slot, r, c):
    return r * slot[2] + c if slot[0] == 'R' else c * slot[1] + r


# ---------------------------------------------------------------------------------------------
AGNOSTIC = ['get', 'index', 'iter_rows', 'iter_cols', 'iter_nth_row', 'iter_nth_col', 'swap', 'swap_rows', 'swap_cols', 'overwrite',
            'transpose', 'ew', 'ew_named', 'op_ew', 'sc', 'multiply', 'op_mul', 'apply', 'map_ref', 'eq', 'display', 'clone', 'contains',
            'conform_ew', 'conform_mul', 'neg_ref']


def gen_C07(rng, tier, changed):
    """metamorphic pairs: the same program of order-agnostic operations, once all row-major and once with arbitrary orders"""
    cases = []
    n = 120 if tier == 'quick' else 1200
    for i in range(n):
        sh = Shadow()
        opsA, marks = [], []
        for d in range(3):
            r, c = rng.choice([(2, 3), (3, 2), (2, 2), (1, 3), (3, 1), (0, 2), (2, 0), (3, 3), (1, 1)])
            if d == 1 and rng.random() < 0.6:
                r, c = sh.s[0][0], sh.s[0][1]
            if d == 2 and rng.random() < 0.5:
                r, c = sh.s[0][1], rng.randint(0, 3)
            opsA += build(sh, d, r, c, 0, how='arrays' if r <= 4 and c <= 4 else 'rowreshape')
        for _ in range(rng.randint(4, 25)):
            live = sh.live()
            if not live:
                break
            s = rng.choice(live)
            r, c, _o = sh.s[s]
            others = [x for x in live if x != s]
            nm = rng.choice(AGNOSTIC)
            d = 3 if rng.random() < 0.5 else rng.randrange(4)
            o = None
            if nm in ('get', 'index'):
                o = op(nm, s, rng.randrange(4), rng.randint(0, r), rng.randint(0, c))
            elif nm in ('iter_rows', 'iter_cols'):
                o = op(nm, s, rows=[safe_nested_script(rng, 10, 4)])
            elif nm in ('iter_nth_row', 'iter_nth_col'):
                o = op(nm, s, rng.randint(0, max(r, c)), rows=[rand_script(rng, 6)])
            elif nm == 'swap':
                o = op(nm, s, 0, rng.randint(0, r), rng.randint(0, c), 2, rng.randint(0, max(0, r - 1)), rng.randint(0, max(0, c - 1)))
            elif nm in ('swap_rows', 'swap_cols'):
                ext = r if nm == 'swap_rows' else c
                o = op(nm, s, rng.randint(0, ext), rng.randint(0, max(0, ext - 1)))
            elif nm == 'overwrite' and others:
                o = op(nm, s, rng.choice(others))
            elif nm in ('transpose',):
                o = op(nm, s)
            elif nm == 'ew' and others:
                o = op(nm, d, s, rng.choice(others), rng.randrange(3))
            elif nm == 'ew_named' and others:
                o = op(nm, rng.randrange(5), 0, d, s, rng.choice(others))
            elif nm == 'op_ew' and others:
                o = op(nm, rng.randrange(2), 3, d, s, rng.choice(others))
            elif nm == 'sc':
                o = op(nm, d, s, sh.fresh_vals(1)[0], rng.randrange(3))
            elif nm == 'multiply' and others:
                t = rng.choice(others)
                o = op('op_mul', 3, d, s, t)
            elif nm == 'op_mul' and others:
                o = op(nm, rng.randrange(4), d, s, rng.choice(others))
            elif nm == 'apply':
                o = op(nm, s, rng.randrange(3))
            elif nm in ('map_ref', 'clone', 'neg_ref'):
                o = op(nm, d, s, rng.randrange(3)) if nm == 'map_ref' else op(nm, d, s)
            elif nm in ('eq', 'conform_ew', 'conform_mul') and others:
                o = op(nm, s, rng.choice(others))
            elif nm == 'display':
                o = op(nm, s)
            elif nm == 'contains':
                o = op(nm, s, rng.randint(0, sh.counter))
            if o is None:
                continue
            opsA.append(o)
            sh.apply(o)
        # variant B: switch_order inserted at arbitrary points on arbitrary live slots
        shB = Shadow()
        opsB, mapping = [], []
        for idx, o in enumerate(opsA):
            opsB.append(o)
            shB.apply(o)
            mapping.append(len(opsB) - 1)
            for s in shB.live():
                if rng.random() < 0.25:
                    w = op('switch_order', s)
                    opsB.append(w)
                    shB.apply(w)
        cases.append(Case(f'C07-{i}A', opsA, 'tr'))
        cases.append(Case(f'C07-{i}B', opsB, 'tr', meta=dict(pair=f'C07-{i}A', mapping=mapping)))
    # equality proper: equal / unequal-in-one-element / transposed / differently shaped operands in all order combinations
    k = 0
    for (r, c) in [(r, c) for r in range(0, 4) for c in range(0, 4)] + [(1, 5), (4, 2)]:
        for o1 in (0, 1):
            for o2 in (0, 1):
                sh = Shadow()
                ops = build(sh, 0, r, c, 0, how='rowreshape')
                ops += [op('clone', 1, 0), op('clone', 2, 0), op('clone', 3, 0)]
                if o1:
                    ops.append(op('switch_order', 0))
                if o2:
                    ops += [op('switch_order', 1), op('switch_order', 3)]
                ops += [op('eq', 0, 1), op('eq', 1, 0), op('eq', 0, 0), op('eq', 1, 2), op('eq', 0, 2)]
                if r * c > 0:
                    i, j = rng.randrange(r), rng.randrange(c)
                    ops += [op('set', 3, 0, i, j, 99999), op('eq', 0, 3), op('eq', 3, 0), op('eq', 3, 3)]
                    # same multiset of values, different positions
                    if r * c > 1:
                        ops += [op('clone', 3, 1), op('swap', 3, 0, 0, 0, 0, r - 1, c - 1), op('eq', 0, 3), op('eq', 3, 1)]
                ops += [op('transpose', 2), op('eq', 0, 2), op('eq', 2, 1), op('switch_order_wr', 2), op('eq', 0, 2), op('eq', 2, 0)]
                ops += [op('reshape', 1, c, r), op('eq', 0, 1), op('eq', 1, 0)]
                cases.append(Case(f'C07-eq{k}', ops, 'tr'))
                k += 1
    # == between every pair of small shapes (degenerate ones included) in all four order combinations, equal values where positions coincide
    small = [(r, c) for r in range(0, 4) for c in range(0, 4)] + [(0, 5), (5, 0)]
    for (r1, c1) in small:
        for o1 in (0, 1):
            ops = []
            sh = Shadow()
            ops += build(sh, 0, r1, c1, o1, how='rowreshape')
            for (r2, c2) in small:
                if tier == 'quick' and r1 * c1 > 0 and r2 * c2 > 0 and (r1, c1) != (r2, c2) and (r1, c1) != (c2, r2) and rng.random() < 0.6:
                    continue
                for o2 in (0, 1):
                    sh.counter = 1
                    ops += build(sh, 1, r2, c2, o2, how='rowreshape')
                    ops += [op('eq', 0, 1), op('eq', 1, 0)]
            cases.append(Case(f'C07-pairs{r1}x{c1}o{o1}', ops, 'tr'))
    return cases


def oracle_C07(case, hlines):
    """direct oracle for ==: true exactly when the logical shapes agree and all logical elements are pairwise equal"""
    out = []
    ops = [o for o in case.ops if o[1] != 'fault']
    for i, (o, line) in enumerate(zip(ops, hlines)):
        if o[1] == 'eq':
            a, b = parse_slot(line, o[2][0]), parse_slot(line, o[2][1])
            if a and b:
                want = (a[1], a[2]) == (b[1], b[2]) and logical(a) == logical(b)
                if obs_of(line) != str(want).lower():
                    out.append(dict(kind='oracle', op_index=i, op='eq', observed=obs_of(line), expected=str(want).lower(),
                                    detail=f'== of {a[1]}x{a[2]} ({a[0]}) and {b[1]}x{b[2]} ({b[0]})'))
    return out


def post_C07(cases, hres):
    """pairwise comparison of the two runs: same observations, same logical contents, result order = lhs order"""
    out = []
    byid = {c.id: c for c in cases}
    for c in cases:
        if 'pair' not in c.meta:
            continue
        A = byid[c.meta['pair']]
        la = [l for l in hres.get(A.id, []) if not (l == 'E' or l.startswith('E '))]
        lb = [l for l in hres.get(c.id, []) if not (l == 'E' or l.startswith('E '))]
        for ia, ib in enumerate(c.meta['mapping']):
            if ia >= len(la) or ib >= len(lb):
                break
            oa, ob = obs_of(la[ia]), obs_of(lb[ib])
            name = A.ops[ia][1]
            f = None
            if oa != ob:
                f = dict(kind='oracle', op_index=ib, op=name, observed=ob[:400], expected=oa[:400],
                         detail='observation depends on the storage order of the operands')
            else:
                for k in range(4):
                    sa, sb = parse_slot(la[ia], k), parse_slot(lb[ib], k)
                    if (sa is None) != (sb is None) or (sa and (logical(sa) != logical(sb) or (sa[1], sa[2]) != (sb[1], sb[2]))):
                        f = dict(kind='oracle', op_index=ib, op=name, observed=lb[ib].split(' ;; ')[1][:400], expected=la[ia].split(' ;; ')[1][:400],
                                 detail=f'logical contents of slot {k} depend on the storage order of the operands')
                        break
            if f is None and name in ('ew', 'ew_named', 'op_ew', 'sc', 'op_mul', 'map_ref', 'neg_ref', 'clone') and ob == '()' and ib > 0:
                o = c.ops[ib]
                a_ = o[2]
                d, x = {'ew': (a_[0], a_[1]), 'sc': (a_[0], a_[1]), 'map_ref': (a_[0], a_[1]), 'neg_ref': (a_[0], a_[1]), 'clone': (a_[0], a_[1]),
                        'ew_named': (a_[2], a_[3]) if name == 'ew_named' else None, 'op_ew': (a_[2], a_[3]) if name == 'op_ew' else None,
                        'op_mul': (a_[1], a_[2]) if name == 'op_mul' else None}[name]
                lhs_before = parse_slot(lb[ib - 1], x)
                res = parse_slot(lb[ib], d)
                if lhs_before and res and res[0] != lhs_before[0]:
                    f = dict(kind='oracle', op_index=ib, op=name, observed=res[0], expected=lhs_before[0], detail='result does not take the storage order of the left operand')
            if f:
                out.append((c, f))
                break
    return out


SUITES.update({
    'C06': dict(gen=gen_C06, oracle=oracle_C06, files=['src/iter.rs', 'src/iter/iter_mut.rs'],
                rule='every shape <= 4x4 plus shapes with exactly one zero dimension, both orders; outer and inner iterators drained from the front, from the back and mixed; every n in 0..=extent+1 and usize::MAX'),
    'C07': dict(gen=gen_C07, post=post_C07, oracle=oracle_C07, files=['src'],
                rule='random programs of order-agnostic operations run twice: all row-major, and with switch_order inserted at arbitrary points; pairwise comparison of observations and logical contents'),
    'C11': dict(gen=gen_C11, oracle=oracle_C11, files=['src/arithmetic/mul.rs', 'src/arithmetic.rs'],
                rule='all (n,k,m) in 0..3 cubed x four order combinations x multiply, four operator forms and multiplication_like_operation, symbolic elements (factor order and association observable)'),
    'C12': dict(gen=gen_C12, oracle=oracle_C12, files=['src/arithmetic.rs', 'src/arithmetic/add.rs', 'src/arithmetic/sub.rs', 'src/arithmetic/mul.rs', 'src/arithmetic/div.rs', 'src/arithmetic/rem.rs'],
                rule='shape pairs (equal, transposed, one dimension off, degenerate) <= 3x3 x four order combinations x three ownership variants x named methods and operator forms'),
    'C15': dict(gen=gen_C15, oracle=oracle_C15, files=['src/iter.rs', 'src/index.rs', 'src/parallel.rs'],
                rule='shapes <= 4x4 after random transpose / reshape / switch-without-rearrangement prefixes; the six sequential element iterators from front, back and mixed, and the parallel with_index variants'),
    'C16': dict(gen=gen_C16, oracle=oracle_C16, files=['src/parallel.rs'], release_too=True,
                rule='thread pools of 1..32 threads x sizes 0..50000 x per-element delay patterns; every parallel helper against its sequential counterpart on a clone'),
    'C19': dict(gen=gen_C19, oracle=oracle_C19, files=['src/convert.rs', 'src/construct.rs', 'src/macros.rs'],
                rule='row counts 0..4 x row lengths 0..4 with one odd row at every position (shorter, longer, empty), length-coincidence cases, all conversions, constructors and macro arms'),
    'C20': dict(gen=gen_C20, oracle=oracle_C20, files=['src/fmt.rs'], feature_profiles=['nodefault', 'full'],
                rule='shapes <= 3x3 plus degenerate and 1x5/5x1 and element counts around 10, 100 and 1000, both orders, renderings from a pool (empty, ASCII, multi-byte, multi-line, CRLF, trailing newline)'),
})


# =============================================================================================
# C03: mutable row/column iterators, every interleaving of next / next_back / len
def all_nested_scripts(nvec, length, words=(0, 1, 2, 11, 101)):
    """every command sequence of the given length over the outer iterator and the inner iterators produced so far
    (next, next_back, len, nth(1), nth_back(1) by default)"""
    out = []

    def rec(prefix, produced, remaining, k):
        if k == 0:
            out.append(prefix)
            return
        for w in words:
            np, nr = produced, remaining
            if w != 2:
                skip = (w - 10 if w < 100 else w - 100) if w >= 10 else 0
                if remaining > skip:
                    np = produced + 1
                nr = max(0, remaining - skip - 1)
            rec(prefix + [-1, w], np, nr, k - 1)
        for i in range(produced):
            for w in words:
                rec(prefix + [i, w], produced, remaining, k - 1)
    rec([], 0, nvec, length)
    return out


def gen_C03(rng, tier, changed):
    cases = []
    shapes = [(r, c) for r in range(1, 5) for c in range(1, 5)] + [(1, 7), (7, 1), (2, 9)]
    k = 0
    for (r, c) in shapes:
        for order in (0, 1):
            for elem in ('tr', 'w24', 'b1', 'unit', 'zd'):
                if tier == 'quick' and elem in ('unit', 'zd') and (r + c + order) % 2:
                    continue
                sh = Shadow()
                ops = build(sh, 0, r, c, order, how='rowreshape')
                for nm, nvec, vlen in (('iter_rows_mut', r, c), ('iter_cols_mut', c, r)):
                    # exhaust everything front to back, back to front, and interleaved
                    drain = sum(([-1, 0] for _ in range(nvec + 1)), []) + sum(([i, w] for i in range(nvec) for w in [2] + [0] * (vlen + 1) + [2]), [])
                    ops.append(op(nm, 0, 1, rows=[drain]))
                    drain_b = sum(([-1, 1, -1, 2] for _ in range(nvec + 1)), []) + sum(([i, 1, i, 2] for _ in range(vlen + 1) for i in range(nvec)), [])
                    ops.append(op(nm, 0, 2, rows=[drain_b]))
                    for _ in range(3 if tier == 'quick' else 12):
                        ops.append(op(nm, 0, rng.randrange(3), rows=[safe_nested_script(rng, rng.randint(5, 60), nvec)]))
                cases.append(Case(f'C03-{k}', ops, elem))
                k += 1
    # every command sequence up to a length on the smallest shapes
    L = 4 if tier == 'quick' else 5
    for (r, c) in [(1, 1), (1, 2), (2, 1), (2, 2)]:
        for order in (0, 1):
            for nm, nvec in (('iter_rows_mut', r), ('iter_cols_mut', c)):
                sh = Shadow()
                ops = build(sh, 0, r, c, order, how='rowreshape')
                # every script of next / next_back / len up to length L (thorough: length L - 1 in full and a fixed sample of
                # length L when there are too many); with nth(1) / nth_back(1) as further commands every script of length 3
                # and (thorough) a fixed sample of those of length 4.  The samples are drawn with a fixed seed so that the
                # rounds of a thorough run repeat them (and drop them as duplicates) instead of multiplying them.
                fixed = random.Random(f'C03-exhaustive-{r}-{c}-{order}-{nm}')
                base_scripts = all_nested_scripts(nvec, L, (0, 1, 2))
                if tier != 'quick' and len(base_scripts) > 2500:
                    base_scripts = all_nested_scripts(nvec, L - 1, (0, 1, 2)) + fixed.sample(base_scripts, 2500)
                extra = all_nested_scripts(nvec, 3)
                if tier != 'quick':
                    longer = all_nested_scripts(nvec, 4)
                    extra += fixed.sample(longer, min(len(longer), 600))
                for scr in base_scripts + extra:
                    ops.append(op(nm, 0, 0, rows=[scr]))
                cases.append(Case(f'C03-x{r}x{c}o{order}{nm[5]}', ops, ('w24' if order else 'tr') if nm[5] == 'r' else ('b1' if order else 'tr')))
    # zero-sized elements, up to usize::MAX of them, every alignment: the address counters must neither wrap nor reach null
    kk = 0
    huge = [(1, UMAX), (UMAX, 1), (1, UMAX - 1), (UMAX - 7, 1), (2**32, 2**32 - 1), (2**32 - 1, 2**32), (3, (UMAX // 3)), (UMAX // 2, 2), (1, IMAX + 1), (5, 7)]
    for al in (1, 2, 4, 8):
        for (r, c) in huge:
            for order in (0, 1):
                for axis in (0, 1):
                    nvec = r if axis == 0 else c
                    for _ in range(1 if tier == 'quick' else 4):
                        scr = [-1, 2] + safe_nested_script(rng, rng.randint(6, 30), nvec)
                        cases.append(KCase(f'C03-z{kk}', 'itermut_zst', [al, r, c, order, axis] + scr,
                                           meta=dict(want=sim_nested_huge(r, c, axis, scr))))
                        kk += 1
    return cases


def range_nth(lo, hi, what):
    """next / next_back / nth(k) / nth_back(k) on the index range [lo, hi): ((lo', hi'), yielded?)"""
    back = what == 1 or what >= 100
    k = 0 if what < 10 else (what - 100 if back else what - 10)
    if hi - lo <= k:
        return ((hi, hi) if not back else (lo, lo)), False
    return ((lo + k + 1, hi) if not back else (lo, hi - k - 1)), True


def sim_nested_huge(r, c, axis, script):
    """expected observation of a nested script on an r x c matrix of zero-sized elements (ranges instead of lists)"""
    nvec, vlen = (r, c) if axis == 0 else (c, r)
    lo, hi = 0, nvec
    inners, out = [], []
    for k in range(0, len(script) - 1, 2):
        who, what = script[k], script[k + 1]
        if who < 0:
            if what == 2:
                out.append(str(hi - lo))
                continue
            (lo, hi), got = range_nth(lo, hi, what)
            if got:
                out.append(f'Some({len(inners)})')
                inners.append([0, vlen])
            else:
                out.append('None')
        else:
            v = inners[who]
            if what == 2:
                out.append(str(v[1] - v[0]))
                continue
            (v[0], v[1]), got = range_nth(v[0], v[1], what)
            out.append('Some(())' if got else 'None')
    return '[' + ','.join(out) + ']'


def oracle_C03(case, hlines):
    out = oracle_C06(case, hlines) if case.elem in ('tr', 'w24', 'pn') else []
    # zero-sized elements: counts and lengths only
    if case.elem in ('unit', 'zd'):
        ops = [o for o in case.ops if o[1] != 'fault']
        prev = None
        for i, (o, line) in enumerate(zip(ops, hlines)):
            if prev is not None and o[1] in ('iter_rows_mut', 'iter_cols_mut'):
                slot = parse_slot(prev, o[2][0])
                if slot:
                    rows = [['_'] * slot[2] for _ in range(slot[1])]
                    vecs = rows if o[1] == 'iter_rows_mut' else transpose_rows(rows, slot[2])
                    want = sim_nested(vecs, o[3][0])
                    if obs_of(line) != want:
                        out.append(dict(kind='oracle', op_index=i, op=o[1], observed=obs_of(line)[:300], expected=want[:300],
                                        detail='zero-sized elements: wrong number of items or wrong len()'))
            prev = line
    return out


SUITES['C03'] = dict(thorough_rounds=2, gen=gen_C03, oracle=oracle_C03, files=['src/iter/iter_mut.rs', 'src/iter.rs'],
                     rule='shapes <= 4x4 and 1x7, 7x1, 2x9, both orders, both axes, element types of size 40/24/1/0/0 (with and without drop glue); '
                          'every command sequence up to length 4-5 on shapes <= 2x2 and random sequences up to length 60 with all inner iterators alive; '
                          'pointer events from the verif-hooks recorder range-checked inside the harness')


# =============================================================================================
# C08: size / capacity decisions on extreme arguments (K cases)
from ops import KCase  # noqa: E402

ES = [0, 1, 2, 4, 8, 16, 24]


def boundary_values(es=None):
    b = {0, 1, 2, 3, 2**16 - 1, 2**16, 2**16 + 1, 2**31 - 1, 2**31, 2**32 - 1, 2**32, 2**32 + 1, 2**33 - 1, 2**33, 2**33 + 1,
         2**62, 2**63 - 2, IMAX - 1, IMAX, IMAX + 1, UMAX - 1, UMAX, 3037000499, 3037000500, 4294967295 * 2}
    for e in ([es] if es else [1, 2, 4, 8, 16, 24]):
        if e:
            b |= {IMAX // e - 1, IMAX // e, IMAX // e + 1}
    return sorted(b)


def expect_decision(es, r, c):
    if r * c > UMAX:
        return 'Err(SizeOverflow)'
    if es * r * c > IMAX:
        return 'Err(CapacityOverflow)'
    return f'Some([{r},{c},{r * c}])'


def gen_C08(rng, tier, changed):
    cases = []
    k = 0

    def add(fn, args, want, **meta):
        nonlocal k
        cases.append(KCase(f'C08-{k}', fn, args, meta=dict(want=want, **meta)))
        k += 1
    B = boundary_values()
    for es in ES:
        for size in boundary_values(es or None):
            add('check_size', [es, size], f'Some({size})' if es * size <= IMAX else 'Err(CapacityOverflow)')
    pairs = [(r, c) for r in B for c in B]
    if tier == 'quick':
        pairs = [p for p in pairs if p[0] * p[1] > IMAX // 24 or p[0] <= 3 or p[1] <= 3 or rng.random() < 0.15]
    for (r, c) in pairs:
        for o in (0, 1):
            want = 'Err(SizeOverflow)' if r * c > UMAX else (f'Some([{r},{c}])' if o == 0 else f'Some([{c},{r}])')
            add('try_to_axis_shape', [r, c, o], want)
    # constructors and resize: every failing pair through the real entry points; successes only where the call is cheap
    for es in ES:
        for (r, c) in pairs:
            want = expect_decision(es, r, c)
            ok = want.startswith('Some')
            for which in (0, 1, 2, 3, 4):
                if ok and not (r * c <= 2048 or (which == 1 and es == 0)):
                    continue
                if tier == 'quick' and not ok and rng.random() < 0.6:
                    continue
                add('ctor', [which, es, r, c], want)
    for es in ES:
        for r in (0, 1, 2, 3, 5):
            for c in ([0, 1, 2, 7] + ([2**62, 2**63, UMAX, UMAX // 2 + 1, 2**64 // 3 + 1, IMAX] if es == 0 else [])):
                want = expect_decision(es, r, c) if r > 0 else 'Some([0,0,0])'
                if want.startswith('Some') and r * c > 2048:
                    continue
                for which in (5, 6):
                    add('ctor', [which, es, r, c], want)
    # reshape: any size that differs from the current one, including overflowing ones, is SizeMismatch
    for (r0, c0) in [(0, 0), (1, 1), (2, 3), (1, UMAX), (UMAX, 1), (2**32, 2**31), (2**32, 2**32 - 1), (3, 0), (0, UMAX), (1, IMAX + 1)]:
        for (r, c) in pairs if tier != 'quick' else rng.sample(pairs, 300) + [(c0, r0), (r0, c0), (1, r0 * c0), (r0 * c0, 1), (0, 0), (UMAX, 0), (0, UMAX), (2, 2**63), (2**32, 2**32)]:
            if r0 * c0 > 64 and not (r0 * c0 <= UMAX):
                continue
            es = 0 if r0 * c0 > 64 else rng.choice([0, 1, 8])
            for o in (0, 1):
                if r > UMAX or c > UMAX:
                    continue
                want = f'Some([{r},{c},{r0 * c0}])' if (r * c <= UMAX and r * c == r0 * c0) else 'Err(SizeMismatch)'
                add('reshape', [es, r0, c0, o, r, c], want)
    # mapping-style operations: CapacityOverflow exactly when the OUTPUT byte size exceeds isize::MAX
    for which in range(8):
        for es_dst in ES:
            for size in boundary_values(es_dst or None):
                want = f'Some([1,{size},{size}])' if es_dst * size <= IMAX else 'Err(CapacityOverflow)'
                if want.startswith('Some') and size > 2048:
                    continue
                add('mapfam', [which, 0, es_dst, size], want)
        for es_src in (1, 8, 24):
            for es_dst in ES:
                add('mapfam', [which, es_src, es_dst, rng.choice([0, 1, 5, 64])], None)
    # products of element-less operands n x 0 . 0 x m: the overflowing result shape is cheap to ask for
    for es in (1, 8, 16):
        for (n, m) in (pairs if tier != 'quick' else rng.sample(pairs, 250) + [(2**40, 2**40), (2**32, 2**32), (2**31, 2**31), (1, IMAX), (IMAX // 8 + 1, 1)]):
            want = expect_decision(es, n, m)
            if want.startswith('Some') and n * m > 2048:
                continue
            for (o1, o2) in ((0, 0), (0, 1), (1, 0), (1, 1)):
                add('multiply', [es, n, m, o1, o2], want)
                if es == 8:
                    add('mul_like', [es, n, m, o1, o2], want)
    # operand and output element types of different sizes (the decision must use the OUTPUT size)
    for (esl, esu) in ((1, 8), (8, 1), (0, 8), (8, 0)):
        for (n, m) in [(2**60, 1), (1, 2**60), (2**61, 2), (IMAX // 8 + 1, 1), (IMAX // 8, 1), (IMAX, 1), (IMAX + 1, 1), (2**32, 2**32), (3, 5), (0, 7), (2**62, 3), (UMAX, 1), (1, UMAX)]:
            want = expect_decision(esu, n, m)
            if want.startswith('Some') and n * m > 2048:
                continue
            for (o1, o2) in ((0, 0), (0, 1), (1, 0), (1, 1)):
                add('multiply_mixed', [esl, esu, n, m, o1, o2], want)
    for c_ in cases:
        if c_.meta.get('want') is None:
            fn, a = c_.fn, c_.args
            c_.meta['want'] = f'Some([1,{a[3]},{a[3]}])'
    return cases


def oracle_K(case, hlines):
    """direct oracle: 128-bit reference arithmetic; a failing call must not request the result buffer"""
    out = []
    if not hlines:
        return [dict(kind='oracle', op_index=0, op=case.fn, detail='no output')]
    line = hlines[0]
    if line.startswith('CRASH'):
        return [dict(kind='oracle', op_index=0, op=case.fn, detail=f'process died: {line}', observed=line, expected=case.meta.get('want'))]
    obs, _, alloc = line.partition(' maxalloc=')
    want = case.meta.get('want')
    if want is not None and obs != want:
        out.append(dict(kind='oracle', op_index=0, op=case.fn, observed=obs, expected=want,
                        detail=f'{case.fn}({", ".join(map(str, case.args))}) decided differently from exact arithmetic'))
    if obs.startswith('Err(') and alloc and int(alloc) > (1 << 20):
        out.append(dict(kind='oracle', op_index=0, op=case.fn, observed=line, detail='a failing call requested a large allocation'))
    return out


def compare_K(case, hlines, mlines):
    f = oracle_K(case, hlines)
    if hlines and mlines and not hlines[0].startswith('CRASH'):
        obs = hlines[0].partition(' maxalloc=')[0]
        if obs != mlines[0]:
            f.append(dict(kind='model', op_index=0, op=case.fn, observed=obs, expected=mlines[0],
                          detail=f'{case.fn}({", ".join(map(str, case.args))}): implementation and proved model disagree'))
    return f


SUITES['C08'] = dict(thorough_rounds=1, gen=gen_C08, files=['src/shape.rs', 'src/lib.rs', 'src/construct.rs', 'src/convert.rs', 'src/arithmetic.rs', 'src/arithmetic/mul.rs', 'src/parallel.rs'],
                     both_profiles=True,
                     rule='all pairs of boundary values (0..3, 2^16, 2^31..2^33, isize::MAX/size_of::<T>() +-1, isize::MAX +-1, usize::MAX) x element sizes 0,1,2,4,8,16,24 '
                          'through check_size, try_to_axis_shape, the five shape-taking entry points, TryFrom, reshape, the eight mapping-style operations and the two products; '
                          'non-trivial = distinct (function, arguments); successes only where the call is O(1) or small')


# =============================================================================================
# C02: one injected panic in caller code per run (the k-th invocation), caught, then the survivors are used and dropped
def fault(k, mask=-1):
    return (900, 'fault', [k, mask], [])


def gen_C02(rng, tier, changed):
    cases = []
    shapes = [(0, 0), (1, 1), (1, 3), (3, 1), (2, 3), (3, 0), (0, 3), (2, 2)]
    n = 0

    def followups(sh):
        out = []
        for s in range(4):
            out += [op('size', s), op('shape', s), op('get', s, 0, 0, 0), op('iter_elements', s, rows=[[2, 0, 1]])]
        out += [op('clone', 3, 0), op('transpose', 0), op('resize', 0, 2, 2), op('drop', 1), op('eq', 0, 0)]
        return out

    def emit(setup_ops, target, kmax, elem='tr', threads=0, mask=-1):
        nonlocal n
        ks = list(range(1, kmax + 1))
        if tier == 'quick' and len(ks) > 5:
            ks = sorted(set([1, 2, kmax] + rng.sample(ks, 2)))
        for k in ks:
            cases.append(Case(f'C02-{n}', list(setup_ops) + [fault(k, mask), target] + followups(None), elem, threads=threads))
            n += 1

    for (r, c) in shapes:
        for order in (0, 1):
            size = r * c
            sh = Shadow()
            base = build(sh, 0, r, c, order, how='rowreshape')
            sh2 = Shadow()
            sh2.counter = 100
            other_same = build(sh2, 1, r, c, order ^ (rng.random() < 0.5), how='rowreshape')
            # constructing / consuming family (the result is assembled after the last caller-code call)
            emit([], op('with_default', 0, r, c), size + 1)
            emit([], op('with_value', 0, r, c, 5), size + 1)
            emit([], op('with_init', 0, r, c, 1), size + 1)
            vals = list(range(1, size + 1))
            rows = [vals[i * c:(i + 1) * c] for i in range(r)]
            if c <= 4:
                emit([], op('from_arrays', 0, 2, c, rows=rows), size + 1)
            emit([], op('try_from', 0, 2, rows=rows), size + 1)
            emit(base, op('clone', 1, 0), size + 1)
            # clone_from into receivers that are smaller, larger and equally large (Clone faults, then Drop faults of the old contents)
            for (dr, dc) in [(0, 0), (1, 1), (r + 1, c + 1), (r, c)]:
                sh3 = Shadow()
                sh3.counter = 200
                recv = build(sh3, 1, dr, dc, order ^ (rng.random() < 0.5), how='rowreshape')
                emit(base + recv, op('clone_from', 1, 0), size + dr * dc + 1)
                emit(base + recv, op('clone_from', 1, 0), size + 1, elem='pn')
            emit(base, op('map', 1, 0, 1), size + 1)
            emit(base, op('map_ref', 1, 0, 1), 2 * size + 1)
            emit(base, op('neg', 1, 0), size + 1)
            emit(base, op('neg_ref', 1, 0), 2 * size + 1)
            emit(base, op('sc', 1, 0, 9, 1), 3 * size + 1)
            emit(base, op('sc_consume', 1, 0, 9, 1), 2 * size + 1)
            emit(base + other_same, op('ew', 2, 0, 1, 1), 3 * size + 1)
            emit(base + other_same, op('ew_consume', 2, 0, 1, 1), 2 * size + 1)
            emit(base + other_same, op('ew_named', rng.randrange(5), 0, 2, 0, 1), 3 * size + 1)
            emit(base + other_same, op('ew_named', rng.randrange(5), 1, 2, 0, 1), 2 * size + 1)
            emit(base + other_same, op('op_ew', rng.randrange(2), rng.randrange(4), 2, 0, 1), 3 * size + 1)
            # in-place family
            for (tr_, tc) in [(r + 1, c + 1), (max(0, r - 1), c), (3, 3), (0, 0)]:
                emit(base, op('resize', 0, tr_, tc), max(size, tr_ * tc) + 1)
            for (tr_, tc) in [(r + 1, c + 1), (r, c + 2), (r + 2, c)]:
                emit(base, op('resize', 0, tr_, tc), tr_ * tc - size + 1, elem='pn')
            emit(base + other_same, op('overwrite', 0, 1), size + 1, elem='pn')
            emit(base, op('clone', 1, 0), size + 1, elem='pn')
            emit(base, op('clear', 0), size + 1)
            emit(base, op('apply', 0, 1), 2 * size + 1)
            emit(base, op('sc_assign', 0, 9, 1), 3 * size + 1)
            emit(base + other_same, op('overwrite', 0, 1), 2 * size + 1)
            emit(base + other_same, op('ew_assign', 0, 1, 1), 3 * size + 1)
            emit(base + other_same, op('ew_named', rng.randrange(5), 2, 0, 0, 1), 2 * size + 1)
            emit(base + other_same, op('op_ew_assign', rng.randrange(2), rng.randrange(2), 0, 1), 2 * size + 1)
            emit(base, op('drop', 0), size + 1)
            emit(base, op('into_iter_elements', 0, rows=[[0, 1]]), size + 1)
            # read-only family
            emit(base + other_same, op('eq', 0, 1), size + 1)
            emit(base, op('contains', 0, 99999), size + 1)
            emit(base, op('display', 0), size + 1)
            emit(base, op('debug', 0), size + 1)
            # accessors of a caller-defined index type
            if size:
                emit(base, op('get', 0, 4, 0, 0, rows=[[r - 1], [c - 1]]), 3)
                emit(base, op('set', 0, 4, 0, 0, 7, rows=[[r - 1], [c - 1]]), 3)
                emit(base, op('set_index_mut', 0, 4, 0, 0, 7, rows=[[0], [0]]), 3)
                emit(base, op('swap', 0, 4, 0, 0, 4, 0, 0, rows=[[0], [0], [r - 1], [c - 1]]), 5)
            # parallel helpers: the panic crosses rayon
            emit(base, op('par_apply', 0, 1), 2 * size + 1, threads=2)
            emit(base, op('par_map', 1, 0, 1), size + 1, threads=3)
    # products
    for (a, k_, b) in [(1, 1, 1), (2, 2, 2), (2, 3, 1), (1, 2, 3), (2, 0, 2), (0, 2, 2)]:
        for (o1, o2) in ((0, 0), (0, 1), (1, 0), (1, 1)):
            sh = Shadow()
            base = build(sh, 0, a, k_, o1, how='rowreshape') + build(sh, 1, k_, b, o2, how='rowreshape')
            calls = a * b * (3 * k_ + max(0, k_ - 1)) + a * b + 2
            emit(base, op('multiply', 2, 0, 1), min(calls, 40))
            emit(base, op('op_mul', 3, 2, 0, 1), min(calls + a * k_ + k_ * b, 40))
            emit(base, op('mul_like', 2, 0, 1, 1), a * b + 1)
    return cases


def oracle_C02(case, hlines):
    """direct oracle: whatever was reachable before the injected panic and is still reachable after it must be coherent
    (checked in the harness on every line), nothing is dropped twice, and a faulted in-place operation on a matrix that
    fails before touching it leaves it as it was where the crate documents that (resize)"""
    out = []
    ops = [o for o in case.ops if o[1] != 'fault']
    prev = None
    for i, (o, line) in enumerate(zip(ops, hlines)):
        side = C.side_of(line)
        if ' fired=1' in side and prev is not None:
            if 'Panic(caller)' not in obs_of(line) and not obs_of(line).startswith('[Panic(caller)'):
                out.append(dict(kind='oracle', op_index=i, op=o[1], observed=obs_of(line)[:200], detail='an injected panic in caller code did not propagate as that panic'))
            if o[1] == 'resize':
                # the fault model of Proofs/Faults.v (resize_fixed): growing -> exactly as before the call;
                # shrinking with a panicking Drop -> the new shape over the kept prefix
                a, b = parse_slot(prev, o[2][0]), parse_slot(line, o[2][0])
                r, cl = o[2][1], o[2][2]
                if a and b:
                    if r * cl > len(a[3]):
                        want = a
                    else:
                        want = (a[0], r, cl, a[3][:r * cl])
                    if b != want:
                        out.append(dict(kind='oracle', op_index=i, op='resize', observed=line.split(' ;; ')[1][:200], expected=str(want)[:200],
                                        detail='state after a panic inside resize differs from the proved fault model'))
            if o[1] in ('apply', 'sc_assign', 'ew_assign', 'overwrite', 'clear') or (o[1] == 'ew_named' and o[2][1] == 2):
                k = o[2][0] if o[1] != 'ew_named' else o[2][3]
                a, b = parse_slot(prev, k), parse_slot(line, k)
                if a and b:
                    ok = (b[1] * b[2] == len(b[3])) and (o[1] == 'clear' or (b[:3] == a[:3]))
                    if o[1] == 'clear':
                        ok = ok and (b[1], b[2], len(b[3])) == (0, 0, 0)
                    if not ok:
                        out.append(dict(kind='oracle', op_index=i, op=o[1], observed=line.split(' ;; ')[1][:200],
                                        detail='state after a panic inside an in-place operation differs from the proved fault model (shape/length must be unchanged; clear: 0x0)'))
        prev = line
    return out


SUITES['C02'] = dict(gen=gen_C02, oracle=oracle_C02, files=['src'],
                     rule='every operation family that calls caller code x shapes {0x0,1x1,1x3,3x1,2x3,3x0,0x3,2x2} x both orders x every k up to the number of '
                          'caller-code invocations (quick: a sample of k incl. first and last): the k-th invocation of Default/Clone/Drop/PartialEq/Display/Debug/operator/closure/accessor '
                          'panics, the unwind is caught, every surviving matrix is probed (coherence, ledger, double drops) and then used and dropped; non-trivial = the fault fired',
                     assumptions=['std unwinding behaviour (SetLenOnDrop, in-place collect, slice drop continuing after a panicking drop) and rayon panic propagation are observed, not proved'])


# =============================================================================================
# C17: Send / Sync of the mutable vector iterators (decided by rustc inside the harness build) and
#      rows / columns mutated concurrently on different threads
def gen_C17(rng, tier, changed):
    cases = [KCase('C17-traits', 'autotraits', [], meta=dict(want=None))]
    k = 0
    shapes = [(1, 1), (2, 3), (3, 2), (5, 4), (4, 16), (16, 3), (1, 9), (9, 1), (0, 3), (3, 0), (24, 24)] + ([(40, 50)] if tier != 'quick' else [])
    for (r, c) in shapes:
        for order in (0, 1):
            for axis in (0, 1):
                for nthreads in ((1, 2, 3, 4, 8, 16) if tier != 'quick' else rng.sample([1, 2, 3, 4, 8, 16], 2)):
                    sh = Shadow()
                    ops = build(sh, 0, r, c, order, how='rowreshape')
                    ops += [op('clone', 1, 0), op('threaded_vectors_mut', 0, nthreads, 1, axis), op('apply', 1, 1), op('eq', 0, 1),
                            op('threaded_vectors_mut', 0, nthreads, 2, 1 - axis)]
                    cases.append(Case(f'C17-{k}', ops, rng.choice(['tr', 'tr', 'w24', 'zd'])))
                    k += 1
    # the outer iterator split between the main thread (which keeps `front` vectors) and a worker that consumes the rest
    # through rev / step_by / skip / nth / nth_back: no element may be reachable from both (gap found with seeded change C17d)
    for (r, c) in [(1, 1), (2, 3), (3, 2), (5, 4), (4, 5), (6, 2), (2, 6), (7, 3)]:
        for order in (0, 1):
            sh = Shadow()
            ops = build(sh, 0, r, c, order, how='rowreshape')
            for axis in (0, 1):
                for front in (0, 1, 2, 3):
                    for adaptor in range(7):
                        ops.append(op('threaded_scan', 0, front, adaptor, axis))
            cases.append(Case(f'C17-s{r}x{c}o{order}', ops, rng.choice(['tr', 'w24', 'b1'])))
    return cases


def oracle_C17(case, hlines):
    out = []
    ops = [o for o in case.ops if o[1] != 'fault']
    for i, (o, line) in enumerate(zip(ops, hlines)):
        if o[1] == 'threaded_scan' and obs_of(line) != '()':
            out.append(dict(kind='oracle', op_index=i, op='threaded_scan', observed=obs_of(line), expected='()',
                            detail='rows/columns split between two threads through iterator adaptors: an element was reachable twice or outside the buffer'))
        if o[1] == 'eq' and obs_of(line) != 'true' and case.elem in ('tr', 'w24', 'pn'):
            out.append(dict(kind='oracle', op_index=i, op='threaded_vectors_mut', observed=obs_of(line), expected='true',
                            detail='mutating distinct rows/columns on several threads differs from doing the same sequentially'))
    return out


SUITES['C17'] = dict(gen=gen_C17, oracle=oracle_C17, files=['src/iter/iter_mut.rs', 'src/iter.rs'],
                     rule='rustc decides Send/Sync for 6 iterator types x 4 element classes (i32, Cell<i32>, MutexGuard<i32>, Rc<i32>) while compiling the harness against the current tree; '
                          'rows and columns of shapes with more vectors than threads and fewer dealt to 1..16 threads, per-thread address sets checked disjoint, result compared with the sequential run',
                     assumptions=['rustc\'s trait solver and the hardware memory model are outside the model; a data race is only observable through its effect on the final contents or the address sets'])


# =============================================================================================
# C18: scalar operators of the 14 primitive element types, and the generic scalar_operation family
PRIMS = ['u8', 'u16', 'u32', 'u64', 'u128', 'usize', 'i8', 'i16', 'i32', 'i64', 'i128', 'isize', 'f32', 'f64']


def gen_C18(rng, tier, changed):
    cases = []
    for t in range(14):
        for o in range(5):
            want = 'S:' + '.'.join(str(ord(ch)) for ch in ('B' * 18 if o in (0, 2) else 'LLRRLLRRLLRRLLRRLL'))
            cases.append(KCase(f'C18-{PRIMS[t]}-{o}', 'scalar_forms', [t, o], meta=dict(want=want)))
            if t >= 6:
                cases.append(KCase(f'C18-{PRIMS[t]}-{o}-signed', 'scalar_forms', [t, o, 1], meta=dict(want=want)))
            if t >= 12:
                # signed zeros and infinities (gap found with seeded change C18d)
                cases.append(KCase(f'C18-{PRIMS[t]}-{o}-special', 'scalar_forms', [t, o, 2], meta=dict(want=want)))
        if t >= 6:
            cases.append(KCase(f'C18-{PRIMS[t]}-neg', 'scalar_neg', [t], meta=dict(want='S:76.76')))
    k = 0
    for (r, c) in [(0, 0), (1, 1), (2, 3), (3, 2), (0, 2), (2, 0), (1, 4), (4, 1)]:
        for order in (0, 1):
            sh = Shadow()
            ops = build(sh, 0, r, c, order, how='rowreshape')
            for f in range(3):
                ops += [op('sc', 1, 0, 500 + f, f), op('clone', 2, 0), op('sc_consume', 3, 2, 600 + f, f), op('clone', 2, 0), op('sc_assign', 2, 700 + f, f)]
            ops += [op('neg_ref', 1, 0), op('clone', 2, 0), op('neg', 3, 2)]
            cases.append(Case(f'C18-g{k}', ops, rng.choice(['tr', 'tr', 'zd'])))
            k += 1
    return cases


def oracle_C18(case, hlines):
    out = []
    if case.elem != 'tr':
        return out
    ops = [o for o in case.ops if o[1] != 'fault']
    prev = None
    for i, (o, line) in enumerate(zip(ops, hlines)):
        if prev is not None and o[1] in ('sc', 'sc_consume', 'sc_assign', 'neg', 'neg_ref'):
            a_ = o[2]
            if o[1] == 'sc_assign':
                d, x, v, f = a_[0], a_[0], a_[1], a_[2]
            elif o[1] in ('neg', 'neg_ref'):
                d, x, v, f = a_[0], a_[1], None, None
            else:
                d, x, v, f = a_
            src, res = parse_slot(prev, x), parse_slot(line, d)
            if src and res:
                want = [f'(U0 {e})' if v is None else f'(B{10 + f} {e} a{v})' for e in src[3]]
                if res[:3] != src[:3] or res[3] != want:
                    out.append(dict(kind='oracle', op_index=i, op=o[1], observed=str(res)[:300], expected=str(want)[:300],
                                    detail='not (element op scalar) per element in the same shape and order'))
        prev = line
    return out


SUITES['C18'] = dict(gen=gen_C18, oracle=oracle_C18, files=['src/arithmetic/add.rs', 'src/arithmetic/sub.rs', 'src/arithmetic/mul.rs', 'src/arithmetic/div.rs', 'src/arithmetic/rem.rs', 'src/arithmetic/neg.rs', 'src/arithmetic.rs'],
                     rule='14 primitive types x 5 operators x 18 operand forms (1260 impls) + negation, each instantiated in the harness and classified by the operand order its result matches '
                          '(witness operands chosen per operator so that the orders differ for - / %), on four shapes and both orders; the generic scalar_operation family with recording closures')
