"""Per-property case generators, direct oracles and the suite runner."""
import hashlib
import itertools
import json
import os
import random

import common as C
from ops import Case, Shadow, op, UMAX, IMAX, CODES

ISIZE_MIN = -IMAX - 1
SMALL_SHAPES = [(r, c) for r in range(0, 4) for c in range(0, 4)]
DEGENERATE = [(0, 0), (0, 1), (1, 0), (0, 3), (3, 0), (2, 0), (0, 2)]


# ---------------------------------------------------------------------------------------------
# building blocks
def build(sh, d, r, c, order=0, how=None, rng=None):
    """operations that put an r x c matrix with fresh distinct atoms into slot d, stored in `order`"""
    vals = sh.fresh_vals(r * c)
    ops = []
    how = how if how is not None else (rng.choice(['arrays', 'rowreshape', 'try_from', 'from_iter']) if rng else 'rowreshape')
    rows = [vals[i * c:(i + 1) * c] for i in range(r)]
    if how == 'arrays' and r <= 4 and c <= 4:
        ops.append(op('from_arrays', d, (rng.randrange(3) if rng else 0), c, rows=rows))
    elif how == 'try_from' and r >= 1 and r <= 4:
        ops.append(op('try_from', d, (rng.randrange(3) if rng else 1), rows=rows))
    elif how == 'from_iter' and r >= 1:
        ops.append(op('from_iter', d, rows=rows))
    else:
        ops.append(op('from_row', d, rows=[vals]))
        ops.append(op('reshape', d, r, c))
    if order == 1:
        ops.append(op('switch_order', d))
    for o in ops:
        sh.apply(o)
    return ops


def observe_all(s, r, c):
    """get on every in-bounds coordinate and the surrounding out-of-bounds ones"""
    ops = [op('shape', s), op('order', s), op('size', s)]
    for i in range(r + 1):
        for j in range(c + 1):
            ops.append(op('get', s, 0, i, j))
    return ops


def rand_script(rng, n):
    return [rng.choice([0, 0, 1, 1, 2]) for _ in range(n)]


def rand_nested_script(rng, n, max_inner):
    out, inners = [], 0
    for _ in range(n):
        if inners == 0 or rng.random() < 0.35:
            w = rng.choice([0, 0, 1, 2])
            out += [-1, w]
            if w != 2:
                inners += 1   # may be None, then the inner index is invalid only if never produced; keep conservative below
        else:
            out += [rng.randrange(max(1, inners)), rng.choice([0, 0, 1, 1, 2])]
    return out


def safe_nested_script(rng, n, nvec):
    """nested script that never refers to an inner iterator that was not produced"""
    out, produced, remaining = [], 0, nvec
    for _ in range(n):
        if produced == 0 or rng.random() < 0.3:
            w = rng.choice([0, 1, 2, 0])
            out += [-1, w]
            if w != 2 and remaining > 0:
                produced += 1
                remaining -= 1
        else:
            out += [rng.randrange(produced), rng.choice([0, 0, 1, 1, 2])]
    return out


# ---------------------------------------------------------------------------------------------
# random histories over the whole alphabet (C01, C07, C15 prefixes ...)
def random_history(rng, length, elem='tr', weights=None, max_dim=3, arith=True, allow_par=False):
    sh = Shadow()
    ops = []
    W = dict(construct=6, observe=6, order=6, shape=3, moves=5, maps=3, ew=4, sc=2, mul=3, iters=4, drop=1, fmt=1, par=0)
    if weights:
        W.update(weights)
    structural = elem == 'w24'          # values only: no closures, arithmetic or formatting
    masked = elem in ('unit', 'zd')     # elements are indistinguishable: no equality or formatting observations
    if not arith or structural:
        W.update(ew=0, sc=0, mul=0, maps=0)
    if structural or masked:
        W.update(fmt=0)
    if allow_par:
        W['par'] = 2
    cats = list(W.keys())

    def dim():
        return rng.choice([0, 1, 1, 2, 2, 3, 3, max_dim])

    def idx_for(slot, oob=0.2):
        r, c = sh.s[slot][0], sh.s[slot][1]
        k = rng.choice([0, 1, 2, 0, 3, 4])
        if k == 3:
            return (3, rng.randint(-2 * r - 2, 2 * r + 2), rng.randint(-2 * c - 2, 2 * c + 2)), []
        if rng.random() < oob or r == 0 or c == 0:
            i, j = rng.randint(0, r + 1), rng.randint(0, c + 1)
        else:
            i, j = rng.randrange(r), rng.randrange(c)
        if k == 4:
            rs = [i] + [rng.choice([i, 0, r, UMAX]) for _ in range(rng.randrange(3))]
            cs = [j] + [rng.choice([j, 0, c, UMAX]) for _ in range(rng.randrange(3))]
            return (4, 0, 0), [rs, cs]
        return (k, i, j), []

    for _ in range(length):
        live = sh.live()
        cat = rng.choices(cats, [W[k] for k in cats])[0]
        if not live or (cat == 'construct' and len(live) < 4) or (len(live) < 2 and cat in ('ew', 'mul')):
            free = [i for i in range(4) if sh.s[i] is None] or [rng.randrange(4)]
            d = rng.choice(free)
            kind = rng.randrange(12)
            r, c = dim(), dim()
            if kind <= 5:
                new = build(sh, d, r, c, rng.randrange(2), rng=rng)
                ops += new
                continue
            elif kind == 6:
                o = op('with_default', d, r, c)
            elif kind == 7:
                o = op('with_value', d, r, c, sh.fresh_vals(1)[0])
            elif kind == 8 and not structural:
                o = op('with_init', d, r, c, rng.randrange(3))
            elif kind == 8:
                o = op('with_default', d, r, c)
            elif kind == 9:
                o = op(rng.choice(['new', 'default']), d)
            elif kind == 10:
                o = op('from_col', d, rows=[sh.fresh_vals(r)])
            else:
                # ragged / uniform rows through the fallible conversion
                rows = [sh.fresh_vals(c if rng.random() < 0.8 else rng.randrange(4)) for _ in range(max(1, r))]
                o = op('try_from', d, rng.randrange(3), rows=rows)
        else:
            s = rng.choice(live)
            r, c, _ord = sh.s[s]
            others = [x for x in live if x != s]
            d = rng.randrange(4)
            if cat == 'construct':
                o = op('clone', d, s)
            elif cat == 'observe':
                which = rng.randrange(12)
                if which <= 3:
                    (k, i, j), rows = idx_for(s)
                    o = op(rng.choice(['get', 'get', 'index']), s, k, i, j, rows=rows)
                elif which == 4 and others:
                    o = op(rng.choice((['eq'] if not masked else []) + ['conform_ew', 'conform_mul', 'ensure_ew', 'ensure_mul']), s, rng.choice(others))
                elif which == 5:
                    o = op(rng.choice(['shape', 'order', 'nrows', 'ncols', 'size', 'is_empty', 'capacity_ge', 'is_square', 'ensure_square']), s)
                elif which == 6 and not masked:
                    o = op('contains', s, rng.randint(0, sh.counter))
                elif which == 7 and r * c > 0:
                    o = op('get_unchecked_w', s, rng.randint(-7, 7), rng.randint(-7, 7))
                elif not masked:
                    o = op('eq', s, s)
                else:
                    o = op('shape', s)
            elif cat == 'order':
                nm = rng.choice(['transpose', 'switch_order', 'switch_order_wr', 'set_order', 'set_order_wr'])
                o = op(nm, s, rng.randrange(2)) if nm.startswith('set_') else op(nm, s)
            elif cat == 'shape':
                which = rng.randrange(6)
                if which == 0 and r * c > 0:
                    divs = [k for k in range(1, r * c + 1) if (r * c) % k == 0]
                    k = rng.choice(divs)
                    o = op('reshape', s, k, r * c // k)
                elif which == 1:
                    o = op('reshape', s, dim(), dim())
                elif which == 2:
                    o = op('resize', s, dim(), dim())
                elif which == 3:
                    o = op(rng.choice(['shrink_to_fit', 'clear']), s)
                elif which == 4:
                    o = op('shrink_to', s, rng.randrange(10))
                else:
                    o = op('reshape', s, rng.choice([UMAX, 2**32, 2**63]), rng.choice([UMAX, 2**32, 2, 0]))
            elif cat == 'moves':
                which = rng.randrange(6)
                if which == 0:
                    (k, i, j), rows = idx_for(s)
                    o = op(rng.choice(['set', 'set_index_mut']), s, k, i, j, sh.fresh_vals(1)[0], rows=rows)
                elif which == 1:
                    (k1, i1, j1), rows1 = idx_for(s, 0.1)
                    (k2, i2, j2), rows2 = idx_for(s, 0.1)
                    o = op('swap', s, k1, i1, j1, k2, i2, j2, rows=rows1 + rows2)
                elif which == 2:
                    o = op('swap_rows', s, rng.randint(0, r + (rng.random() < 0.2)), rng.randint(0, max(0, r - 1)))
                elif which == 3:
                    o = op('swap_cols', s, rng.randint(0, max(0, c - 1)), rng.randint(0, c + (rng.random() < 0.2)))
                elif others:
                    o = op('overwrite', s, rng.choice(others))
                else:
                    o = op('swap_rows', s, 0, 0)
            elif cat == 'maps':
                nm = rng.choice(['apply', 'map', 'map_ref', 'neg', 'neg_ref'])
                if nm == 'apply':
                    o = op('apply', s, rng.randrange(3))
                elif nm in ('neg', 'neg_ref'):
                    o = op(nm, d, s)
                else:
                    o = op(nm, d, s, rng.randrange(3))
            elif cat == 'ew':
                # mostly conformable partners: clone first when none exists
                t = rng.choice(others) if others else s
                which = rng.randrange(6)
                if which == 0:
                    o = op('ew', d, s, t, rng.randrange(3))
                elif which == 1 and t != s:
                    o = op('ew_consume', d, s, t, rng.randrange(3))
                elif which == 2 and t != s:
                    o = op('ew_assign', s, t, rng.randrange(3))
                elif which == 3:
                    variant = rng.randrange(3)
                    if t == s and variant != 0:
                        variant = 0
                    o = op('ew_named', rng.randrange(5), variant, d, s, t)
                elif which == 4:
                    form = rng.randrange(4)
                    if t == s:
                        form = 3
                    o = op('op_ew', rng.randrange(2), form, d, s, t)
                elif t != s:
                    o = op('op_ew_assign', rng.randrange(2), rng.randrange(2), s, t)
                else:
                    o = op('ew', d, s, s, 0)
            elif cat == 'sc':
                nm = rng.choice(['sc', 'sc_consume', 'sc_assign'])
                v = sh.fresh_vals(1)[0]
                o = op(nm, s, v, rng.randrange(3)) if nm == 'sc_assign' else op(nm, d, s, v, rng.randrange(3))
            elif cat == 'mul':
                if not others:
                    o = op('op_mul', 3, d, s, s)
                else:
                    t = rng.choice(others)
                    which = rng.randrange(3)
                    if which == 0:
                        o = op('multiply', d, s, t)
                    elif which == 1:
                        o = op('op_mul', rng.randrange(4), d, s, t)
                    else:
                        o = op('mul_like', d, s, t, rng.randrange(3))
            elif cat == 'iters':
                which = rng.choice([0, 2, 4, 6, 7, 9]) if structural else rng.randrange(10)
                f = rng.randrange(3)
                if which == 0:
                    o = op(rng.choice(['iter_rows', 'iter_cols']), s, rows=[safe_nested_script(rng, rng.randrange(12), 4)])
                elif which == 1:
                    nm = rng.choice(['iter_rows_mut', 'iter_cols_mut'])
                    nvec = 0 if r * c == 0 else (r if nm == 'iter_rows_mut' else c)
                    o = op(nm, s, f, rows=[safe_nested_script(rng, rng.randrange(12), nvec)])
                elif which == 2:
                    o = op(rng.choice(['iter_nth_row', 'iter_nth_col']), s, rng.randint(0, max(r, c) + 1), rows=[rand_script(rng, rng.randrange(8))])
                elif which == 3:
                    o = op(rng.choice(['iter_nth_row_mut', 'iter_nth_col_mut']), s, rng.randint(0, max(r, c) + 1), f, rows=[rand_script(rng, rng.randrange(8))])
                elif which == 4:
                    o = op('iter_elements', s, rows=[rand_script(rng, rng.randrange(10))])
                elif which == 5:
                    o = op('iter_elements_mut', s, f, rows=[rand_script(rng, rng.randrange(10))])
                elif which == 6:
                    o = op(rng.choice(['into_iter_elements', 'into_iter_elements_idx']), s, rows=[rand_script(rng, rng.randrange(10))])
                elif which == 7:
                    o = op('iter_elements_idx', s, rows=[rand_script(rng, rng.randrange(10))])
                elif which == 8:
                    o = op('iter_elements_mut_idx', s, f, rows=[rand_script(rng, rng.randrange(10))])
                else:
                    o = op('iter_elements', s, rows=[[2, 0, 1, 2]])
            elif cat == 'fmt':
                o = op(rng.choice(['display', 'debug']), s)
            elif cat == 'par':
                nm = rng.choice(['par_apply', 'par_map', 'par_map_ref', 'par_iter_elements', 'par_iter_elements_mut',
                                 'into_par_iter_elements', 'par_iter_elements_idx', 'par_iter_elements_mut_idx',
                                 'into_par_iter_elements_idx'])
                f = rng.randrange(3)
                if nm in ('par_map', 'par_map_ref'):
                    o = op(nm, d, s, f)
                elif nm in ('par_apply', 'par_iter_elements_mut', 'par_iter_elements_mut_idx'):
                    o = op(nm, s, f)
                else:
                    o = op(nm, s)
            else:
                o = op('drop', s)
        ops.append(o)
        sh.apply(o)
    return ops


# ---------------------------------------------------------------------------------------------
# suites
def gen_C01(rng, tier, changed):
    n = 220 if tier == 'quick' else 2500
    if changed:
        n *= 2
    L = 35 if tier == 'quick' else 120
    cases = []
    for i in range(n):
        elem = rng.choices(['tr', 'unit', 'zd', 'w24'], [8, 1, 1, 1])[0]
        ops = random_history(rng, rng.randint(5, L), elem, arith=(elem != 'w24'))
        cases.append(Case(f'C01-r{i}', ops, elem))
    return cases


def gen_C05(rng, tier, changed):
    B = 8 if tier == 'quick' else 20
    if changed:
        B = max(B, 12)
    cases = []
    for r in range(0, B + 1):
        for c in range(0, B + 1):
            for order in (0, 1):
                sh = Shadow()
                ops = build(sh, 0, r, c, order, how='rowreshape')
                ops += [op('transpose', 0), op('shape', 0), op('order', 0)]
                if r * c <= 12:
                    ops += [op('get', 0, 0, i, j) for i in range(c) for j in range(r)]
                ops += [op('transpose', 0), op('switch_order', 0), op('set_order', 0, order), op('switch_order_wr', 0),
                        op('set_order_wr', 0, order ^ 1), op('set_order_wr', 0, order)]
                elem = 'tr' if (r + c) % 3 else rng.choice(['tr', 'w24', 'unit', 'zd'])
                cases.append(Case(f'C05-{r}x{c}o{order}', ops, elem))
    nrand = 150 if tier == 'quick' else 1500
    for i in range(nrand):
        sh = Shadow()
        r, c = rng.randint(0, 6), rng.randint(0, 6)
        ops = build(sh, 0, r, c, rng.randrange(2), rng=rng)
        for _ in range(rng.randint(1, 12)):
            nm = rng.choice(['transpose', 'switch_order', 'switch_order_wr', 'set_order', 'set_order_wr'])
            ops.append(op(nm, 0, rng.randrange(2)) if nm.startswith('set_') else op(nm, 0))
            if rng.random() < 0.3 and sh.s[0][0] * sh.s[0][1] > 0:
                sh.apply(ops[-1])
                ops.append(op('get', 0, 0, rng.randrange(sh.s[0][0]), rng.randrange(sh.s[0][1])))
            else:
                sh.apply(ops[-1])
        cases.append(Case(f'C05-r{i}', ops, rng.choice(['tr', 'tr', 'w24', 'zd'])))
    return cases


def oracle_C05(case, hlines):
    """direct oracle: after `transpose` the logical content is the transpose of what it was"""
    out = []
    prev = None
    ops = [o for o in case.ops if o[1] != 'fault']
    for i, (o, line) in enumerate(zip(ops, hlines)):
        cur = parse_slot(line, 0)
        if o[1] == 'transpose' and prev and cur and case.elem in ('tr', 'w24'):
            if logical(cur) != transpose_rows(logical(prev), prev[2]) or cur[0] != prev[0] or (cur[1], cur[2]) != (prev[2], prev[1]):
                out.append(dict(kind='oracle', op_index=i, op='transpose', detail='result is not the transpose of the operand (or order changed)',
                                observed=line.split(' ;; ')[1], expected='transpose of ' + str(logical(prev))))
        if o[1] in ('switch_order', 'set_order') and prev and cur and case.elem in ('tr', 'w24'):
            if logical(cur) != logical(prev):
                out.append(dict(kind='oracle', op_index=i, op=o[1], detail='order change altered the logical contents',
                                observed=line.split(' ;; ')[1], expected=str(logical(prev))))
        if o[1] in ('switch_order_wr', 'set_order_wr') and prev and cur:
            if cur[3] != prev[3]:
                out.append(dict(kind='oracle', op_index=i, op=o[1], detail='memory-order sequence changed', observed=line.split(' ;; ')[1]))
        prev = cur
    return out


def parse_slot(line, k):
    """(order, nrows, ncols, [elements]) of slot k from a harness line"""
    parts = line.split(' ;; ')
    if len(parts) < 2:
        return None
    for tok in split_slots(parts[1]):
        if tok.startswith(f'{k}='):
            body = tok[len(f'{k}='):]
            if body == '-':
                return None
            o, shape, data = body.split(':', 2)
            r, c = shape.split('x')
            elems = C.split_top(data[1:-1]) if len(data) > 2 else []
            return (o, int(r), int(c), elems)
    return None


def split_slots(pool):
    toks, cur, depth = [], '', 0
    for ch in pool:
        if ch in '([':
            depth += 1
        elif ch in ')]':
            depth -= 1
        if ch == ' ' and depth == 0:
            toks.append(cur)
            cur = ''
        else:
            cur += ch
    if cur:
        toks.append(cur)
    return toks


def logical(slot):
    """row-of-rows from (order, r, c, elems)"""
    o, r, c, e = slot
    if len(e) != r * c:
        return None
    if o == 'R':
        return [[e[i * c + j] for j in range(c)] for i in range(r)]
    return [[e[j * r + i] for j in range(c)] for i in range(r)]


def transpose_rows(rows, ncols):
    """transpose of a row-of-rows with `ncols` columns (needed when there are no rows)"""
    if rows is None:
        return None
    return [[rows[i][j] for i in range(len(rows))] for j in range(ncols)]


def gen_C13(rng, tier, changed):
    cases = []
    B = 4
    ext = [ISIZE_MIN, ISIZE_MIN + 1, -1, 0, 1, IMAX - 1, IMAX]
    shapes = [(r, c) for r in range(1, B + 1) for c in range(1, B + 1)] + [(1, 7), (7, 1), (1, 13), (13, 1)]
    for (r, c) in shapes:
        for order in (0, 1):
            sh = Shadow()
            ops = build(sh, 0, r, c, order, how='rowreshape')
            win = 3 if tier == 'quick' else 4
            for i in range(-win * r, win * r + 1):
                for j in (range(-win * c, win * c + 1) if tier != 'quick' or r * c <= 6 else [rng.randint(-win * c, win * c) for _ in range(4)]):
                    ops.append(op('get', 0, 3, i, j))
            for i in ext:
                for j in ext:
                    if (i + j) % 3 == 0:
                        ops.append(op('get', 0, 3, i, j))
                    elif (i + j) % 3 == 1:
                        ops.append(op('index', 0, 3, i, j))
                    else:
                        ops.append(op('get_unchecked_w', 0, i, j))
            ops.append(op('set', 0, 3, -1, -1, 777))
            ops.append(op('swap', 0, 3, -1, 0, 3, 0, -1))
            cases.append(Case(f'C13-{r}x{c}o{order}', ops, 'tr'))
    # empty shapes: checked forms fail, unchecked forms panic, nothing is read
    for (r, c) in DEGENERATE + [(0, 9), (9, 0)]:
        for order in (0, 1):
            sh = Shadow()
            ops = build(sh, 0, r, c, order, how='rowreshape')
            for (i, j) in [(0, 0), (-1, -1), (1, 5), (ISIZE_MIN, IMAX), (IMAX, ISIZE_MIN)]:
                ops += [op('get', 0, 3, i, j), op('index', 0, 3, i, j), op('get_unchecked_w', 0, i, j),
                        op('set', 0, 3, i, j, 5), op('set_index_mut', 0, 3, i, j, 5)]
            cases.append(Case(f'C13-e{r}x{c}o{order}', ops, rng.choice(['tr', 'unit'])))
    return cases


def oracle_C13(case, hlines):
    """direct oracle: wrapping get returns the element at (row mod nrows, col mod ncols)"""
    out = []
    ops = [o for o in case.ops if o[1] != 'fault']
    for i, (o, line) in enumerate(zip(ops, hlines)):
        if o[1] in ('get', 'index') and o[2][1] == 3 or o[1] == 'get_unchecked_w':
            slot = parse_slot(line, o[2][0])
            if slot is None or case.elem != 'tr':
                continue
            rows = logical(slot)
            row, col = (o[2][2], o[2][3]) if o[1] != 'get_unchecked_w' else (o[2][1], o[2][2])
            obs = line.split(' ;; ')[0]
            if slot[1] * slot[2] > 0:
                want = rows[row % slot[1]][col % slot[2]]
                got = obs[1:-1].rsplit(',', 1)[0] if o[1] != 'get_unchecked_w' else obs
                if got != want:
                    out.append(dict(kind='oracle', op_index=i, op=o[1], detail=f'wrapping index ({row},{col}) on {slot[1]}x{slot[2]}',
                                    observed=got, expected=want))
            else:
                if 'Err(IndexOutOfBounds)' not in obs and 'Panic(' not in obs:
                    out.append(dict(kind='oracle', op_index=i, op=o[1], detail='wrapping index on an element-less matrix did not fail',
                                    observed=obs))
    return out


def gen_C04(rng, tier, changed):
    cases = []
    ext = [2**16, 2**32 - 1, 2**32, 2**32 + 1, IMAX, IMAX + 1, UMAX - 1, UMAX]
    shapes = [(r, c) for r in range(0, 4) for c in range(0, 4)] + [(1, 6), (6, 1)]
    for (r, c) in shapes:
        for order in (0, 1):
            sh = Shadow()
            ops = build(sh, 0, r, c, order, how='rowreshape')
            for kind in (0, 1, 2):
                for i in range(r + 2):
                    for j in range(c + 2):
                        ops.append(op('get' if (i + j + kind) % 2 else 'index', 0, kind, i, j))
            for i in ext + [0, max(0, r - 1)]:
                for j in ext + [0, max(0, c - 1)]:
                    if i in ext or j in ext:
                        ops.append(op(rng.choice(['get', 'index']), 0, rng.randrange(3), i, j))
            # stateful accessors: the first values decide; later values must never be consulted
            for _ in range(10 if tier == 'quick' else 40):
                i, j = rng.randint(0, r + 1), rng.randint(0, c + 1)
                rs = [i] + [rng.choice([0, r, UMAX, max(0, r - 1)]) for _ in range(2)]
                cs = [j] + [rng.choice([0, c, UMAX, max(0, c - 1)]) for _ in range(2)]
                nm = rng.choice(['get', 'index', 'set', 'set_index_mut'])
                if nm in ('set', 'set_index_mut'):
                    ops.append(op(nm, 0, 4, 0, 0, sh.fresh_vals(1)[0], rows=[rs, cs]))
                else:
                    ops.append(op(nm, 0, 4, 0, 0, rows=[rs, cs]))
            # in bounds first, far out of bounds afterwards (a check-then-access implementation would read out of bounds)
            if r * c > 0:
                ops.append(op('get', 0, 4, 0, 0, rows=[[0, UMAX], [0, UMAX]]))
                ops.append(op('get', 0, 4, 0, 0, rows=[[r - 1, r + 5], [c - 1, c + 5]]))
                ops.append(op('set', 0, 4, 0, 0, 4242, rows=[[r - 1, r * c + 7], [c - 1, r * c + 7]]))
            cases.append(Case(f'C04-{r}x{c}o{order}', ops, rng.choice(['tr', 'tr', 'w24'])))
    return cases


def gen_C09(rng, tier, changed):
    cases = []
    shapes = [(r, c) for r in range(0, 4) for c in range(0, 5)]
    targets = [(0, 0), (1, 1), (2, 3), (3, 2), (6, 1), (1, 6), (4, 3), (2, 2), (0, 5), (5, 0), (1, 12), (12, 1),
               (UMAX, 2), (2**32, 2**32), (UMAX, UMAX), (2**63, 2), (UMAX, 0), (0, UMAX), (IMAX, 1), (1, IMAX + 1)]
    for (r, c) in shapes:
        for order in (0, 1):
            for k, (tr_, tc) in enumerate(targets):
                sh = Shadow()
                ops = build(sh, 0, r, c, order, how='rowreshape')
                if k % 3 == 0:
                    ops.append(op(rng.choice(['transpose', 'switch_order_wr', 'switch_order']), 0))
                ops.append(op('reshape', 0, tr_, tc))
                if tr_ * tc <= 64 or tr_ * tc > UMAX or 40 * tr_ * tc > IMAX:
                    ops.append(op('resize', 0, tr_, tc))
                ops.append(op('size', 0))
                cases.append(Case(f'C09-{r}x{c}o{order}t{k}', ops, 'tr'))
    # failed in-place operations leave everything untouched
    n = 150 if tier == 'quick' else 1200
    for i in range(n):
        sh = Shadow()
        r, c = rng.randint(0, 3), rng.randint(0, 4)
        ops = build(sh, 0, r, c, rng.randrange(2), rng=rng)
        r2, c2 = rng.randint(0, 3), rng.randint(0, 4)
        ops += build(sh, 1, r2, c2, rng.randrange(2), rng=rng)
        for _ in range(rng.randint(2, 8)):
            which = rng.randrange(8)
            if which == 0:
                ops.append(op('swap_rows', 0, rng.randint(0, r + 1), rng.randint(0, r + 1)))
            elif which == 1:
                ops.append(op('swap_cols', 0, rng.randint(0, c + 1), rng.randint(0, c + 1)))
            elif which == 2:
                ops.append(op('swap', 0, rng.randrange(3), rng.randint(0, r + 1), rng.randint(0, c + 1), rng.randrange(3), rng.randint(0, r + 1), rng.randint(0, c + 1)))
            elif which == 3:
                ops.append(op('ew_named', rng.randrange(5), 2, 0, 0, 1))
            elif which == 4:
                ops.append(op('ew_assign', 0, 1, rng.randrange(3)))
            elif which == 5:
                ops.append(op('op_ew_assign', rng.randrange(2), 1, 0, 1))
            elif which == 6:
                ops.append(op('reshape', 0, rng.randint(0, 5), rng.randint(0, 5)))
            else:
                ops.append(op('resize', 0, rng.choice([UMAX, 2**62]), rng.choice([UMAX, 2**33, 2])))
            sh.apply(ops[-1])
            r, c = sh.s[0][0], sh.s[0][1]
        cases.append(Case(f'C09-r{i}', ops, 'tr'))
    return cases


def oracle_unchanged_on_error(case, hlines):
    """direct oracle (C09/C10): an in-place operation that reports Err or panics on non-conformable shapes leaves the pool as it was"""
    out = []
    prev_pool = None
    ops = [o for o in case.ops if o[1] != 'fault']
    inplace = {'reshape', 'resize', 'swap', 'swap_rows', 'swap_cols', 'ew_assign', 'op_ew_assign', 'set', 'set_index_mut'}
    for i, (o, line) in enumerate(zip(ops, hlines)):
        parts = line.split(' ;; ')
        if len(parts) < 2:
            break
        obs, pool = parts[0], parts[1]
        named_assign = o[1] == 'ew_named' and o[2][1] == 2
        if (o[1] in inplace or named_assign) and prev_pool is not None:
            if 'Err(' in obs or 'Panic(ShapeNotConformable)' in obs or 'Panic(IndexOutOfBounds)' in obs:
                # op_ew_assign form 0 consumes its right operand by contract
                a, b = prev_pool, pool
                if o[1] == 'op_ew_assign' and o[2][1] == 0:
                    k = o[2][3]
                    a = ' '.join(t for t in split_slots(a) if not t.startswith(f'{k}='))
                    b = ' '.join(t for t in split_slots(b) if not t.startswith(f'{k}='))
                if a != b:
                    out.append(dict(kind='oracle', op_index=i, op=o[1], detail='failed in-place operation changed the matrix',
                                    observed=pool, expected=prev_pool))
        prev_pool = pool
    return out


def gen_C10(rng, tier, changed):
    cases = []
    shapes = [(r, c) for r in range(0, 5) for c in range(0, 5)]
    for (r, c) in shapes:
        for order in (0, 1):
            for elem in (['tr'] if tier == 'quick' and (r + c) % 2 else ['tr', 'w24', 'zd']):
                sh = Shadow()
                ops = build(sh, 0, r, c, order, how='rowreshape')
                for m in range(r + 2):
                    for n in range(r + 2):
                        ops.append(op('swap_rows', 0, m, n))
                for m in range(c + 2):
                    for n in range(c + 2):
                        ops.append(op('swap_cols', 0, m, n))
                ops += [op('swap_rows', 0, UMAX, 0), op('swap_cols', 0, 0, UMAX), op('swap_rows', 0, UMAX, UMAX)]
                cases.append(Case(f'C10-v{r}x{c}o{order}{elem}', ops, elem))
    for (r, c) in [(r, c) for r in range(0, 4) for c in range(0, 4)]:
        for order in (0, 1):
            sh = Shadow()
            ops = build(sh, 0, r, c, order, how='rowreshape')
            coords = [(i, j) for i in range(r + 1) for j in range(c + 1)]
            pairs = list(itertools.product(coords, coords))
            if tier == 'quick' and len(pairs) > 60:
                pairs = rng.sample(pairs, 60)
            for (p, q) in pairs:
                k1, k2 = rng.randrange(3), rng.randrange(3)
                ops.append(op('swap', 0, k1, p[0], p[1], k2, q[0], q[1]))
            for _ in range(12):
                ops.append(op('swap', 0, 3, rng.randint(-9, 9), rng.randint(-9, 9), rng.choice([0, 3]), rng.randint(-3, 3) % max(1, r + 1), rng.randint(0, c)))
            ops.append(op('swap', 0, 4, 0, 0, 4, 0, 0, rows=[[0, UMAX], [0, UMAX], [max(0, r - 1), UMAX], [max(0, c - 1), UMAX]]))
            cases.append(Case(f'C10-e{r}x{c}o{order}', ops, 'tr'))
    return cases


def oracle_C10(case, hlines):
    out = oracle_unchanged_on_error(case, hlines)
    prev = None
    ops = [o for o in case.ops if o[1] != 'fault']
    for i, (o, line) in enumerate(zip(ops, hlines)):
        cur = parse_slot(line, 0)
        obs = line.split(' ;; ')[0]
        if prev and cur and o[1] in ('swap_rows', 'swap_cols') and obs == '()' and case.elem in ('tr', 'w24'):
            a, b = o[2][1], o[2][2]
            ext = prev[1] if o[1] == 'swap_rows' else prev[2]
            if a < ext and b < ext:
                want = [list(r) for r in logical(prev)]
                if o[1] == 'swap_rows':
                    want[a], want[b] = want[b], want[a]
                else:
                    for row in want:
                        row[a], row[b] = row[b], row[a]
                if logical(cur) != want:
                    out.append(dict(kind='oracle', op_index=i, op=o[1], detail=f'{o[1]}({a},{b}) did not exchange exactly the named vectors',
                                    observed=str(logical(cur)), expected=str(want)))
        if o[1] in ('swap_rows', 'swap_cols') and prev:
            ext = prev[1] if o[1] == 'swap_rows' else prev[2]
            valid = o[2][1] < ext and o[2][2] < ext
            if valid != (obs == '()'):
                out.append(dict(kind='oracle', op_index=i, op=o[1], detail='wrong success/failure for these indices', observed=obs,
                                expected='()' if valid else 'Err(IndexOutOfBounds)'))
        prev = cur
    return out


def gen_C14(rng, tier, changed):
    cases = []
    shapes = [(r, c) for r in range(0, 4) for c in range(0, 4)]
    for (r1, c1) in shapes:
        for (r2, c2) in shapes:
            for o1 in (0, 1):
                for o2 in (0, 1):
                    if tier == 'quick' and (r1 * 7 + c1 * 5 + r2 * 3 + c2 + o1 + o2) % 2:
                        continue
                    sh = Shadow()
                    ops = build(sh, 0, r1, c1, o1, how='rowreshape') + build(sh, 1, r2, c2, o2, how='rowreshape')
                    ops.append(op('overwrite', 0, 1))
                    cases.append(Case(f'C14-{r1}x{c1}o{o1}-{r2}x{c2}o{o2}', ops, 'tr'))
    for i in range(40 if tier == 'quick' else 400):
        sh = Shadow()
        r1, c1, r2, c2 = (rng.randint(0, 6) for _ in range(4))
        ops = build(sh, 0, r1, c1, rng.randrange(2), rng=rng) + build(sh, 1, r2, c2, rng.randrange(2), rng=rng)
        ops += [op('overwrite', 0, 1), op('overwrite', 1, 0)]
        cases.append(Case(f'C14-r{i}', ops, rng.choice(['tr', 'w24', 'zd'])))
    return cases


def oracle_C14(case, hlines):
    out = []
    ops = [o for o in case.ops if o[1] != 'fault']
    prev = None
    for i, (o, line) in enumerate(zip(ops, hlines)):
        if o[1] == 'overwrite' and prev is not None and case.elem in ('tr', 'w24'):
            d, s = o[2]
            pd, ps = parse_slot(prev, d), parse_slot(prev, s)
            cd, cs = parse_slot(line, d), parse_slot(line, s)
            if pd and ps and cd and cs:
                want = [list(r) for r in logical(pd)]
                src = logical(ps)
                for a in range(min(pd[1], ps[1])):
                    for b in range(min(pd[2], ps[2])):
                        want[a][b] = src[a][b]
                if logical(cd) != want or cd[:3] != pd[:3] or cs != ps:
                    out.append(dict(kind='oracle', op_index=i, op='overwrite', detail='not exactly the overlapping top-left block (or source/shape/order changed)',
                                    observed=line.split(' ;; ')[1], expected=str(want)))
                side = C.side_of(line)
                ncl = int(side.split('cl=')[1].split()[0]) if 'cl=' in side else None
                if case.elem == 'tr' and ncl is not None and ncl != min(pd[1], ps[1]) * min(pd[2], ps[2]):
                    out.append(dict(kind='oracle', op_index=i, op='overwrite', detail=f'{ncl} clones for an overlap of {min(pd[1], ps[1])}x{min(pd[2], ps[2])}',
                                    observed=side))
        prev = line
    return out


SUITES = {
    'C01': dict(gen=gen_C01, files=['src'], rule='random operation histories over the whole public alphabet (mostly valid arguments, 20% invalid), four element types; non-trivial = history with at least one state-changing operation; distinct by operation text',
                assumptions=['clone counts and capacity are not compared with the model']),
    'C04': dict(gen=gen_C04, files=['src/index.rs'], rule='every shape <= 3x3 plus degenerate and 1x6/6x1, both orders, all (r,c) in 0..=extent+1 for three index types, extreme usize values, stateful accessor scripts'),
    'C05': dict(gen=gen_C05, oracle=oracle_C05, files=['src/lib.rs', 'src/index.rs', 'src/shape.rs', 'src/order.rs'],
                rule='every shape r,c <= bound in both orders through transpose and the five order operations, plus random compositions'),
    'C09': dict(gen=gen_C09, oracle=oracle_unchanged_on_error, files=['src/lib.rs', 'src/swap.rs', 'src/arithmetic.rs', 'src/shape.rs'],
                rule='source shapes <= 3x4 x both orders x valid / mismatching / overflowing targets for reshape and resize; random failing in-place operations'),
    'C10': dict(gen=gen_C10, oracle=oracle_C10, files=['src/swap.rs', 'src/index.rs'],
                rule='all (m,n) in 0..=extent+1 for swap_rows/swap_cols on every shape <= 4x4 in both orders; coordinate pairs incl. equal and out of range, three index kinds, wrapping and stateful indices'),
    'C13': dict(gen=gen_C13, oracle=oracle_C13, files=['src/index.rs'],
                rule='non-empty shapes <= 4x4 and 1xn/nx1, both orders, window of several periods around zero, all 49 pairs of extreme isize values; every empty shape'),
    'C14': dict(gen=gen_C14, oracle=oracle_C14, files=['src/lib.rs'],
                rule='all shape pairs <= 3x3 incl. degenerate x four order combinations, clone-counting elements; random larger pairs'),
}


# ---------------------------------------------------------------------------------------------
def source_changed(pid):
    """has the source the property is anchored in changed since the model was validated against it?"""
    p = os.path.join(C.VERIF, 'model-fingerprints.json')
    if not os.path.exists(p):
        return False
    pinned = json.load(open(p))
    files = expand_files(SUITES[pid].get('files', ['src']))
    return pinned.get(pid) != C.fingerprint(files)


def expand_files(files):
    out = []
    for f in files:
        p = os.path.join(C.REPO, f)
        if os.path.isdir(p):
            for root, _, fs in os.walk(p):
                out += [os.path.relpath(os.path.join(root, x), C.REPO) for x in fs if x.endswith('.rs')]
        else:
            out.append(f)
    return out


def case_key(case):
    return hashlib.sha1('\n'.join(case.text().split('\n')[1:]).encode() + case.elem.encode()).hexdigest()


def run_suite(pid, suite, rng, tier, profiles, workdir, changed):
    cases = suite['gen'](rng, tier, changed)
    corpus = load_corpus(pid)
    cases = corpus + cases
    violations, samples = [], []
    evaluations, nontrivial_keys = 0, set()
    dist = {}
    for prof in profiles:
        for c in cases:
            c.debug = 1 if prof == 'debug' else 0
        t_budget = 900 if tier == 'quick' else 3000
        hres, crashes = C.run_harness(cases, workdir, prof, timeout=t_budget, tag=f'cases-{prof}')
        mres = C.run_model(cases, workdir, tag=f'cases-{prof}') if not suite.get('no_model') else {}
        for c in cases:
            hl = hres.get(c.id)
            ml = mres.get(c.id) if not (suite.get('no_model') or c.meta.get('no_model')) else None
            if hl is None:
                violations.append(mk_violation(pid, c, dict(kind='oracle', op_index=0, op='?', detail='case produced no output'), prof))
                continue
            evaluations += 1
            for o in c.ops:
                dist[o[1]] = dist.get(o[1], 0) + 1
            hl_ops = [l for l in hl if not (l == 'E' or l.startswith('E '))]
            findings = C.compare_case(c, hl if hl else [], ml[:-1] if ml else ml)
            if suite.get('oracle'):
                findings += suite['oracle'](c, hl_ops)
            if any(' ;; ' in l and not l.startswith('INVALID') for l in hl):
                nontrivial_keys.add(case_key(c))
            for f in findings[:3]:
                violations.append(mk_violation(pid, c, f, prof))
            if len(samples) < 6 and (len(c.ops) <= 12 or evaluations % 37 == 1):
                samples.append(dict(case=c.id, elem=c.elem, ops=[C_line(o) for o in c.ops][:10], observed=[x[:200] for x in (hl or [''])[:10]]))
    errs = sum(1 for v in violations)
    return dict(evaluations=evaluations, distinct_nontrivial=len(nontrivial_keys), samples=samples, rule=suite.get('rule', ''),
                violations=dedup(violations), notes=[f'source fingerprint changed: {changed}'],
                extra=dict(op_distribution=dict(sorted(dist.items(), key=lambda kv: -kv[1])[:40]), profiles=profiles,
                           corpus_cases=len(corpus), findings_before_dedup=errs))


def C_line(o):
    from ops import op_line
    return op_line(o) if o[1] != 'fault' else 'X ' + ' '.join(map(str, o[2]))


def dedup(vs):
    seen, out = set(), []
    for v in vs:
        k = (v.get('kind'), v.get('what'))
        if k in seen:
            continue
        seen.add(k)
        out.append(v)
    return out


def mk_violation(pid, case, f, prof):
    """a finding with its concrete failing input"""
    kind = f.get('kind')
    what = f"{f.get('op')}: {f.get('detail')}"
    upto = f.get('op_index', len(case.ops))
    # the failing input: the history up to and including the failing operation
    ops_txt = []
    k = -1
    for o in case.ops:
        if o[1] != 'fault':
            k += 1
        ops_txt.append(C_line(o))
        if k >= upto:
            break
    return dict(kind=kind, what=what, profile=prof,
                failing_input=dict(case=case.id, elem=case.elem, threads=case.threads, delay=case.delay, debug=case.debug, history=ops_txt),
                observed=f.get('observed'), expected=f.get('expected'), known_key=f.get('known_key'))


def load_corpus(pid):
    d = os.path.join(C.VERIF, 'corpus', pid)
    out = []
    if os.path.isdir(d):
        for fn in sorted(os.listdir(d)):
            if fn.endswith('.json'):
                j = json.load(open(os.path.join(d, fn)))
                out.append(case_from_replay(j, f'{pid}-corpus-{fn[:-5]}'))
    return out


def parse_history_lines(lines):
    ops = []
    for l in lines:
        t = l.split()
        if t[0] == 'X':
            ops.append((900, 'fault', [int(x) for x in t[1:]], []))
            continue
        code, name = int(t[1]), t[2]
        groups, cur = [], []
        for x in t[3:]:
            if x == '|':
                groups.append(cur)
                cur = []
            else:
                cur.append(int(x))
        groups.append(cur)
        ops.append((code, name, groups[0], groups[1:]))
    return ops


def case_from_replay(fi, cid):
    return Case(cid, parse_history_lines(fi['history']), fi.get('elem', 'tr'), fi.get('debug', 1), fi.get('threads', 0), fi.get('delay', 0))


def replay(path):
    j = json.load(open(path))
    v = j['violation']
    fi = v.get('failing_input')
    if not fi:
        print('replay file names broken obligations only (no failing input):', v.get('what'))
        return 1
    if 'history' not in fi:
        print(json.dumps(fi, indent=1))
        return 1
    case = case_from_replay(fi, 'replay')
    prof = v.get('profile', 'debug')
    ok, log = C.build_harness(prof)
    okm, _ = C.build_model()
    wd = os.path.join(C.BUILD, 'run', 'replay')
    hres, crashes = C.run_harness([case], wd, prof)
    mres = C.run_model([case], wd)
    hl, ml = hres.get('replay', []), mres.get('replay', [])
    for i, o in enumerate([o for o in case.ops if o[1] != 'fault']):
        print(C_line(o))
        print('   impl :', hl[i] if i < len(hl) else '-')
        print('   model:', ml[i] if i < len(ml) else '-')
    findings = C.compare_case(case, hl, ml[:-1] if ml else ml)
    pid = j['property']
    if SUITES.get(pid, {}).get('oracle'):
        findings += SUITES[pid]['oracle'](case, [l for l in hl if not (l == 'E' or l.startswith('E '))])
    for f in findings:
        print('FINDING', f)
    return 1 if findings else 0
