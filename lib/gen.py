"""The translator tie for the integer / decision kernel (Layer K).

On every run rs2v translates the kernel functions of /repo's *current* source into Gallina
(build/gen/KernelGen.v); coq/Gen/Equiv.v then proves, function by function, that the generated definition computes
what the hand-written kernel of the model (coq/Model/Kernel.v, the one every property theorem is about) computes.
A definition that no longer translates or an equivalence that no longer checks is a broken proof obligation of the
properties that rest on that function."""
import hashlib
import json
import os
import re

import common as C

SRC_FILES = ['src/order.rs', 'src/shape.rs', 'src/index.rs', 'src/lib.rs', 'src/arithmetic.rs', 'src/iter/iter_mut.rs', 'src/swap.rs', 'src/iter.rs', 'src/construct.rs', 'src/eq.rs', 'src/convert.rs', 'src/arithmetic/mul.rs']
GEN_DIR = os.path.join(C.BUILD, 'gen')

# which kernel functions each property's theorems rest on
ITER_MACHINES = ['IterNthVectorMut_assemble', 'IterNthVectorMut_next', 'IterNthVectorMut_next_back', 'IterNthVectorMut_size_hint',
                 'IterVectorsMut_assemble', 'IterVectorsMut_next', 'IterVectorsMut_next_back', 'IterVectorsMut_size_hint',
                 'IterVectorsMut_empty', 'IterVectorsMut_over_major_axis', 'IterVectorsMut_over_minor_axis', 'Matrix_iter_rows_mut', 'Matrix_iter_cols_mut']
VIEWS = ['Matrix_iter_nth_major_axis_vector_unchecked', 'Matrix_iter_nth_minor_axis_vector_unchecked',
         'Matrix_iter_nth_major_axis_vector', 'Matrix_iter_nth_minor_axis_vector',
         'Matrix_iter_nth_major_axis_vector_unchecked_mut', 'Matrix_iter_nth_minor_axis_vector_unchecked_mut',
         'Matrix_iter_nth_major_axis_vector_mut', 'Matrix_iter_nth_minor_axis_vector_mut',
         'Matrix_iter_nth_row', 'Matrix_iter_nth_col', 'Matrix_iter_nth_row_mut', 'Matrix_iter_nth_col_mut']

CTORS = ['Matrix_new', 'Matrix_with_capacity', 'Matrix_with_default', 'Matrix_with_value', 'Matrix_with_initializer']
CONVS = ['Matrix_try_from_array', 'Matrix_try_from_vec', 'Matrix_try_from_slice', 'Matrix_from_iter']

OBLIGATIONS = {
    'C03': ITER_MACHINES,
    'C17': ITER_MACHINES,
    'C01': ['AxisShape_size', 'AxisShape_nrows', 'AxisShape_ncols', 'AxisShape_to_shape', 'Matrix_size', 'Matrix_is_empty', 'Matrix_nrows', 'Matrix_ncols',
            'Matrix_shape', 'Matrix_reshape', 'Shape_new', 'Shape_nrows', 'Shape_ncols', 'Matrix_is_square', 'Matrix_ensure_square',
            'Matrix_apply', 'Matrix_map', 'Matrix_map_ref', 'Matrix_clear', 'Matrix_contains', 'Matrix_resize', 'Matrix_overwrite'] + CTORS + CONVS,
    'C04': ['AxisIndex_from_index', 'AxisIndex_is_out_of_bounds', 'AxisIndex_to_flattened', 'Matrix_major', 'Matrix_minor',
            'AxisShape_major', 'AxisShape_minor', 'AxisShape_major_stride', 'AxisShape_minor_stride'],
    'C05': ['Order_switch', 'Shape_transpose', 'AxisShape_transpose', 'AxisIndex_swap', 'AxisIndex_from_flattened', 'AxisIndex_to_flattened',
            'Matrix_transpose', 'Matrix_switch_order', 'Matrix_switch_order_without_rearrangement', 'Matrix_set_order', 'Matrix_set_order_without_rearrangement'],
    'C06': ['AxisShape_major_stride', 'AxisShape_minor_stride', 'Matrix_major_stride', 'Matrix_minor_stride', 'Matrix_major', 'Matrix_minor',
            ] + VIEWS + ITER_MACHINES,
    'C07': ['AxisIndex_swap', 'AxisIndex_from_flattened', 'AxisIndex_to_flattened', 'Matrix_eq'],
    'C08': ['Shape_size', 'Shape_try_to_axis_shape', 'Shape_to_axis_shape_unchecked', 'Matrix_check_size', 'AxisShape_size'] + CTORS,
    'C09': ['Shape_size', 'Shape_try_to_axis_shape', 'Shape_to_axis_shape_unchecked', 'Matrix_reshape', 'Matrix_size', 'AxisShape_size', 'Matrix_resize'],
    'C10': ['AxisIndex_from_index', 'AxisIndex_is_out_of_bounds', 'Matrix_major_stride', 'Matrix_minor_stride', 'Matrix_major', 'Matrix_minor',
            'Matrix_swap_major_axis_vectors', 'Matrix_swap_minor_axis_vectors', 'Matrix_swap_rows', 'Matrix_swap_cols'],
    'C11': ['Matrix_is_multiplication_like_operation_conformable', 'Matrix_ensure_multiplication_like_operation_conformable', 'Matrix_nrows', 'Matrix_ncols', 'AxisShape_nrows', 'AxisShape_ncols',
            'Matrix_get_nth_major_axis_vector', 'Matrix_multiplication_like_operation', 'Matrix_set_order', 'Matrix_check_size', 'Shape_try_to_axis_shape',
            'Free_dot_product', 'Matrix_multiply'],
    'C12': ['Matrix_is_elementwise_operation_conformable', 'Matrix_ensure_elementwise_operation_conformable', 'AxisIndex_swap', 'AxisIndex_from_flattened', 'AxisIndex_to_flattened',
            'Matrix_elementwise_operation', 'Matrix_elementwise_operation_consume_self', 'Matrix_elementwise_operation_assign'],
    'C18': ['Matrix_scalar_operation', 'Matrix_scalar_operation_consume_self', 'Matrix_scalar_operation_assign', 'Matrix_check_size'],
    'C13': ['AxisIndex_from_wrapping_index', 'AxisIndex_to_flattened', 'Matrix_is_empty', 'AxisShape_major', 'AxisShape_minor'],
    'C14': ['Matrix_major', 'Matrix_minor', 'Matrix_major_stride', 'Matrix_overwrite'],
    'C15': ['Index_from_flattened', 'Index_to_flattened', 'AxisIndex_to_index', 'AxisIndex_from_flattened', 'AxisIndex_from_index',
            'Matrix_iter_elements', 'Matrix_iter_elements_mut', 'Matrix_into_iter_elements',
            'Matrix_iter_elements_with_index', 'Matrix_iter_elements_mut_with_index', 'Matrix_into_iter_elements_with_index'],
    'C19': ['Shape_size', 'Shape_try_to_axis_shape', 'Shape_to_axis_shape_unchecked', 'Matrix_check_size', 'Index_from_flattened'] + CTORS + CONVS,
}


def rs2v_exe():
    return os.path.join(C.BUILD, 'rs2v', 'release', 'rs2v')


def build_rs2v():
    with C.Lock('rs2v'):
        rc, out = C.sh(f'CARGO_TARGET_DIR={C.BUILD}/rs2v timeout 900 cargo build --offline --release 2>&1', cwd=os.path.join(C.VERIF, 'rs2v'), timeout=1000)
        return rc == 0, out


def _coqc(path, out):
    cmd = (f'timeout 300 coqc -q -Q {C.COQ} Matreex -Q {GEN_DIR} Matreex.Gen -w -notation-overridden {path} -o {out} 2>&1')
    return C.sh(cmd, cwd=GEN_DIR, timeout=330)


def _error_line(log, fname):
    m = re.search(r'File "[^"]*' + re.escape(fname) + r'", line (\d+)', log)
    return int(m.group(1)) if m else None


def _compile_removing(chunks, header, fname, out):
    """chunks: [(name, text)].  Compiles header + all chunks; while coqc fails inside a chunk, drops that chunk and retries.
    Returns (broken names, last log)."""
    broken, log = [], ''
    live = list(chunks)
    for _ in range(len(chunks) + 1):
        text, starts, line = header, [], header.count('\n') + 1
        for name, body in live:
            starts.append((line, name))
            text += body + '\n'
            line += body.count('\n') + 1
        path = os.path.join(GEN_DIR, fname)
        with open(path, 'w') as f:
            f.write(text)
        rc, log = _coqc(path, out)
        if rc == 0:
            return broken, log
        el = _error_line(log, fname)
        if el is None:
            return broken + [n for n, _ in live], log       # cannot attribute: everything is unproved
        culprit = None
        for (ln, name) in starts:
            if ln <= el:
                culprit = name
        if culprit is None:
            return broken + [n for n, _ in live], log
        broken.append((culprit, log.strip()[-600:]))
        live = [(n, b) for (n, b) in live if n != culprit]
    return broken, log


def gen_check(src_root=None):
    """-> dict(ok, broken={name: why}, n_defs, n_lemmas, log)"""
    src_root = src_root or C.REPO
    os.makedirs(GEN_DIR, exist_ok=True)
    okb, logb = build_rs2v()
    if not okb:
        return dict(ok=False, broken={'*': 'translator does not build: ' + logb[-500:]}, n_defs=0, n_lemmas=0, log=logb[-1500:])
    files = ' '.join(os.path.join(src_root, f) for f in SRC_FILES)
    rc, gen = C.sh(f'{rs2v_exe()} {files}', timeout=60)
    if rc != 0:
        return dict(ok=False, broken={'*': 'translator failed on the source: ' + gen[-500:]}, n_defs=0, n_lemmas=0, log=gen[-1500:])
    if C.FORBIDDEN.search(gen):
        return dict(ok=False, broken={'*': 'generated text contains a forbidden vernacular'}, n_defs=0, n_lemmas=0, log='')
    equiv = open(os.path.join(C.COQ, 'Gen', 'Equiv.v')).read()
    prelude = open(os.path.join(C.COQ, 'Gen', 'Prelude.v')).read()
    kernel = (open(os.path.join(C.COQ, 'Model', 'Kernel.v')).read() + open(os.path.join(C.COQ, 'Base', 'Machine.v')).read()
              + open(os.path.join(C.COQ, 'Model', 'IterMut.v')).read() + open(os.path.join(C.COQ, 'Model', 'Ops.v')).read())
    key = hashlib.sha256((gen + '\0' + equiv + '\0' + prelude + '\0' + kernel).encode()).hexdigest()
    cache = os.path.join(GEN_DIR, 'result.json')
    with C.Lock('gen'):
        if os.path.exists(cache):
            try:
                r = json.load(open(cache))
                if r.get('key') == key:
                    return r
            except ValueError:
                pass
        # generated definitions, one chunk per Definition
        parts = re.split(r'\n(?=Definition |\(\*UNSUPPORTED missing)', gen)
        header, defs = parts[0] + '\n', []
        for p in parts[1:]:
            m = re.search(r'Definition G_(\w+)', p)
            defs.append((m.group(1) if m else 'unknown', p))
        broken = {}
        for name, body in defs:
            if 'UNSUPPORTED' in body:
                um = re.search(r'\(\*UNSUPPORTED ([^*]*)\*\)', body)
                broken[name] = 'outside the translated fragment: ' + (um.group(1) if um else '')
        b1, log1 = _compile_removing([(n, b) for n, b in defs if n not in broken], header, 'KernelGen.v', os.path.join(GEN_DIR, 'KernelGen.vo'))
        for name, why in b1:
            broken.setdefault(name, 'generated definition does not type-check: ' + why)
        # equivalence lemmas, one chunk per BEGIN/END block
        eparts = re.split(r'\(\* BEGIN (\w+) \*\)', equiv)
        eheader, lemmas = eparts[0], []
        for i in range(1, len(eparts), 2):
            lemmas.append((eparts[i], eparts[i + 1].split('(* END *)')[0]))
        b2, log2 = _compile_removing(lemmas, eheader, 'Equiv.v', os.path.join(GEN_DIR, 'Equiv.vo'))
        for name, why in b2:
            broken.setdefault(name, 'equivalence with Model/Kernel.v no longer proved: ' + why)
        missing = [n for n, _ in defs if n not in [l for l, _ in lemmas]]
        for n in missing:
            broken.setdefault(n, 'no equivalence lemma')
        r = dict(key=key, ok=not broken, broken=broken, n_defs=len(defs), n_lemmas=len(lemmas), log=(log1 + log2)[-1500:])
        if r['ok']:          # only successes are cached: a failure is re-examined on every run
            json.dump(r, open(cache, 'w'), indent=1)
        elif os.path.exists(cache):
            os.remove(cache)
        return r
