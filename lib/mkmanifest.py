#!/usr/bin/env python3
"""Writes /verif/MANIFEST.json from the table below (claimed properties and the ones not yet claimed)."""
import json, os, sys
VERIF = os.path.dirname(os.path.dirname(os.path.abspath(__file__)))

CLAIMED = {
    # id: (technique, level text, level note, design ref)
}
NOT_YET = {}

def load():
    sys.path.insert(0, os.path.join(VERIF, 'lib'))
    import claims
    return claims.CLAIMED, claims.NOT_APPLICABLE

def main():
    claimed, na = load()
    checks = []
    for pid in sorted(claimed):
        tech, text, note, ref = claimed[pid]
        checks.append(dict(
            property_id=pid,
            quick_cmd=f"./check {pid} --tier quick",
            thorough_cmd=f"./check {pid} --tier thorough",
            evidence_file=f"/verif/evidence/{pid}.json",
            replay_cmd_template="./check replay {path}",
            engine="rocq-model+correspondence",
            level_claimed=dict(category="proof", text=text, design_ref=ref),
            level_note=note,
            technique=tech))
    man = dict(
        version=1,
        setup_cmd="./setup.sh",
        hooks=dict(
            guard="cargo feature `verif-hooks`",
            enable="the harness depends on matreex with features = [\"verif-hooks\"] (path dependency on /repo)",
            baseline_off_cmd="cd /repo && cargo test --workspace --no-fail-fast --offline",
            source_commits=["71bce4f"],
            add_only=True),
        engines=[dict(name="rocq-model+correspondence", path="/verif/check",
                      serves_properties=sorted(claimed),
                      kind_free_text="Rocq (Coq 8.16.1) theorems about a hand-written executable model of the crate (coq/Model), "
                                     "extracted to OCaml and run side by side with the real crate (Rust harness built against /repo's "
                                     "working tree) on generated histories; per-property direct oracles decide whether a divergence is a failing input")],
        checks=checks,
        not_applicable=[dict(property_id=p, reason=r) for p, r in sorted(na.items())],
        notes="Proof technique: machine-checked proof in Rocq; the tie to the source is a correspondence check (see DESIGN.md, section 'Build-round status').")
    with open(os.path.join(VERIF, 'MANIFEST.json'), 'w') as f:
        json.dump(man, f, indent=1)
    print('MANIFEST.json:', len(checks), 'checks,', len(na), 'not claimed')

if __name__ == '__main__':
    main()
