"""Which properties are claimed in MANIFEST.json, with the words that go there."""
TB = ("Trusted: Coq kernel (coqc, full .vo), no axioms (Print Assumptions = closed for every theorem); the hand-written model "
      "is tied to the code by the correspondence check (harness + extracted model on the same cases), so assurance is "
      "bounded by that check's generators, and - for 111 functions: the loop-free integer/decision kernel, the pointer-level iterator state machines of iter_mut.rs with their constructors and public entry points, the raw-pointer swaps, the row/column view helpers, transpose with its loop and the order changes, and the constructors of construct.rs - by the rs2v translator "
      "(regenerated from the source on every run, each proved equal to the model's kernel function; translator trusted); "
      "extraction with ExtrOcamlBasic; std/Vec/ptr semantics are modelled, not verified.")
CLAIMED = {
    'C04': ("Rocq theorems on the index kernel model + differential correspondence",
            "For all coherent matrices, all usize pairs and all accessor streams (stateful index types): get/get_mut/[] are exact, "
            "read nothing on failure and call each accessor once; proved in Rocq on the model, model validated against the crate on every shape <= 3x3, extreme values and scripted accessors.",
            TB, "DESIGN §7 C04"),
    'C13': ("Rocq theorems on the wrapping-index kernel model + differential correspondence",
            "For every isize pair (incl. isize::MIN/MAX) and every coherent non-empty matrix the wrapping forms address (row mod nrows, col mod ncols); "
            "empty matrices fail/panic before any access; proved for any pointer width, model validated on windows of several periods and all extreme pairs.",
            TB, "DESIGN §7 C13"),
}
CLAIMED.update({
    'C05': ("Rocq proof of cycle-following transpose on the list model + differential correspondence",
            "transpose of the executable model (the cycle-following loop with visited bitmap and fuel, statement for statement; since this round the model is also proved equal to the translation of lib.rs's transpose / switch_order / set_order by rs2v, loop included) is proved to be the exact transpose for every coherent shape and both orders: "
            "terminates, never leaves the buffer, moves elements (Permutation), is an involution; switch_order/set_order preserve logical contents, the _without_rearrangement variants the memory sequence. "
            "Model validated against the crate on every shape up to 8x8 (thorough 20x20) and random compositions of the five operations.",
            TB, "DESIGN §7 C05"),
    'C08': ("Rocq theorems on the size/capacity decision kernel + differential correspondence on boundary grids",
            "Exact decision laws (SizeOverflow, then CapacityOverflow on the output byte size, else the requested shape; reshape: any differing or overflowing size is SizeMismatch) proved for all usize pairs, "
            "all element sizes, any pointer width and both build profiles; the real entry points (constructors, resize, reshape, TryFrom, eight mapping operations, both products incl. mixed element sizes) "
            "are run on all pairs of boundary values against the model and against exact arithmetic, with an allocation counter for failing calls.",
            TB + " 'Succeeds whenever the allocation is possible' is shown as 'passes both checks and reaches the allocation with exactly r*c elements'; huge successes are only exercised where O(1).", "DESIGN §7 C08"),
    'C09': ("Rocq theorems on reshape/resize and on the history machine + differential correspondence",
            "reshape succeeds exactly when the size is unchanged and then only the shape changes; resize keeps the first min(old,new) elements of the memory-order sequence and appends defaults; "
            "every fallible in-place operation of the history machine that reports an error leaves the whole pool unchanged (proved for any pool, hence at any point of any history).",
            TB, "DESIGN §7 C09"),
})
CLAIMED.update({
    'C10': ("Rocq proofs of the three swaps on the list model + differential correspondence (incl. huge zero-sized matrices)",
            "swap_rows/swap_cols on the executable model (contiguous swap_nonoverlapping path with its disjointness precondition, strided ptr::swap loop) exchange exactly the named vectors for every "
            "pair of usize values, both orders, equal indices included, never UB, IndexOutOfBounds otherwise; element swap on resolved positions. Proving 'no addition overflows' exposed finding F5 "
            "(fixed in /repo); the old loop is kept in the model and refuted by a witness. The element store after a vector swap is a permutation of the one before.",
            TB + " That the swaps only move elements is proved as Permutation of the element store (C10_swaps_move_only; transpose: C05_moves_only); ownership itself (no clone/drop calls) is observed by the harness ledger.", "DESIGN §7 C10"),
    'C14': ("Rocq proof of both overwrite paths on the list model + differential correspondence",
            "overwrite of the executable model (unchecked sub-slices and clone_from_slice for equal orders; zip with skip/step_by for different orders) is proved to copy exactly the overlapping "
            "top-left block for every pair of coherent shapes and all four order combinations, leaving the rest of dest, its shape and order unchanged, with every unchecked range inside both buffers.",
            TB + " Clone counts (each overlap element cloned once, nothing moved out of src) are checked by the harness ledger, not proved.", "DESIGN §7 C14"),
})
CLAIMED.update({
    'C06': ("Rocq proofs about the skip/step_by/take views and the mutable vector offsets + differential correspondence; one known finding",
            "The k-th row/column view of the executable model (the std adaptor chain as executed) is proved to be exactly the logical row/column with exact length for every coherent shape and both orders; "
            "the nth variants fail exactly for n >= extent; the mutable outer iterators hand out nrows/ncols vectors at the same positions whenever the matrix has elements. "
            "For element-less matrices with a non-zero extent the mutable outer iterators yield nothing (known finding F2, refuted by witness in Props/C06.v and reproduced on the crate every run).",
            TB + " Consumption from either end is the deque semantics of Model/Views.v, validated by scripts, not a theorem about std's DoubleEndedIterator impls.", "DESIGN §7 C06"),
    'C07': ("Rocq proof of == (both branches incl. the short-circuiting cross-order loop) and order-transparency corollaries for the main operations + metamorphic differential correspondence",
            "== of the executable model is proved true exactly when logical shapes agree and elements at equal logical positions are equal, for any orders, never reading out of range; re-storing an operand "
            "in the other order cannot change the outcome. For transpose, switch_order, swap_rows/swap_cols, overwrite, the elementwise operations and the matrix product it is proved that operands with the same logical grid "
            "(same shape, same element at every logical position, any storage orders) give the same error or results with the same logical grid; Display: C20_display_order_transparent; views: C06 (stated through the logical accessor). "
            "Exercised by running random programs twice with switch_order inserted at arbitrary points.",
            TB + " Reflexivity/symmetry/transitivity follow from C07_eq_iff for element relations that have them.", "DESIGN §7 C07"),
    'C12': ("Rocq proofs of conformability and of the three elementwise drivers (same-order zip, cross-order remap) + differential correspondence",
            "is_elementwise_operation_conformable <-> equal logical shapes; for conformable operands the drivers produce op(lhs[r][c], rhs[r][c]) at every position in lhs's shape and order, the cross-order "
            "unchecked read proved in range; otherwise ShapeNotConformable. Named methods and operators are the same drivers with the primitive operator (model Step.binop), validated on symbolic elements.",
            TB, "DESIGN §7 C12"),
    'C15': ("Rocq proofs of the flat-index/(row,col) bijection and of iter_elements_with_index + differential correspondence",
            "Index::from_flattened is proved to be the inverse of the position function on 0..size (no division by zero / overflow), unique; every with_index item pairs element k with an index for which get returns it; "
            "memory order is row-by-row / column-by-column by definition of the position function. Validated after random order/shape-changing prefixes, from both ends, sequential and parallel.",
            TB, "DESIGN §7 C15"),
})
CLAIMED.update({
    'C11': ("Rocq proof of multiply / multiplication_like_operation on the list model + differential correspondence on symbolic elements",
            "For arbitrary (non-commutative, non-associative) mul/add the executable model of the product (checks, zero-inner path, set_order of both operands, get_nth_major_axis_vector slices, double loop "
            "in result order, dot_product with unwrap_unchecked) is proved to return the nrows(lhs) x ncols(rhs) matrix in lhs's order whose (i,j) element is ((l0*r0 + l1*r1) + ...) over row i and column j; "
            "the closure of multiplication_like_operation receives exactly row i and column j; None is never unwrapped; error decisions in the documented order.",
            TB + " Stated for element types that occupy memory (esL, esR > 0). Operands passed by reference are unchanged because the operator forms clone them (observed by the harness).", "DESIGN §7 C11"),
})
CLAIMED.update({
    'C16': ("Rocq theorems over an abstract schedule (split tree) model of rayon's indexed producers + differential correspondence under real thread pools",
            "PARTIAL. Proved: under every binary split tree of the index range and every execution order of its pieces, map/enumerate/collect yield the sequential result and the closure is invoked exactly once per "
            "element; the history machine therefore gives the parallel helpers the meaning (and the same check_size decision) of their sequential counterparts. Validated with real pools of 1..32 threads, sizes 0..50000, "
            "delay patterns perturbing splitting/stealing, and zero-sized/sized source-target size grids for CapacityOverflow.",
            TB + " That rayon implements the split-tree contract, its memory ordering and its panic propagation cannot be exhibited by the model.", "DESIGN §7 C16"),
    'C17': ("Rocq theorems over a modelled auto-trait table and a disjoint-update store + rustc's own verdicts and multi-threaded runs",
            "PARTIAL. Proved: with the explicit bounded impls of iter_mut.rs the two iterators are Send iff T: Send and Sync iff T: Sync (and neither without them); positions of distinct logical coordinates are distinct; "
            "for any number of threads updating pairwise disjoint address sets every global execution order gives the sequential store. Each run lets rustc decide Send/Sync for 6 iterator types x 4 element classes "
            "while compiling the harness against the current tree and compares with the model's table, and deals rows/columns to 1..16 threads checking per-thread address sets.",
            TB + " rustc's trait solver and the hardware memory model are outside the model; the table in Model/Traits.v is hand-mirrored from the source (fields and unsafe impls).", "DESIGN §7 C17"),
    'C18': ("Rocq theorems on the scalar_operation family and the operand-side table + all 1260 compiled impls classified by operand order",
            "Proved: scalar_operation/_consume_self/_assign keep shape and order and apply the closure once per element with the scalar second; a form computes (element op scalar) when the matrix is on the left and "
            "(scalar op element) when on the right, according to the side table. Each run instantiates 14 types x 5 operators x 18 forms + negation in the harness and classifies every impl by the operand order "
            "its result matches (witnesses chosen per operator so that - / % distinguish the orders), on several shapes and both orders, against the model's table.",
            TB + " The side table is hand-mirrored from the macro-generated impl headers, not generated.", "DESIGN §7 C18"),
    'C19': ("Rocq proofs of the conversion loops and constructors on the list model + differential correspondence",
            "TryFrom (three impls) returns LengthInconsistent exactly when some row differs in length from the first (after the size/capacity errors), FromIterator panics in the same cases, otherwise the rows in order; "
            "from arrays/rows: logical row i is the i-th given row; with_value fills the shape; with_initializer calls its closure once per position and stores each value where it was called. "
            "Validated on row counts 0..4 x lengths 0..4 with the odd row at every position, length-coincidence cases, every macro arm.",
            TB, "DESIGN §7 C19"),
})
CLAIMED.update({
    'C01': ("Rocq invariant by induction over operation histories of the executable pool machine + differential correspondence on random histories",
            "PARTIAL w.r.t. drop accounting. Proved: every operation of the ~90-operation history machine (constructors, conversions, every macro arm, order/shape changes, swaps, overwrite, maps, elementwise/scalar/product "
            "families, all iterators, parallel helpers) keeps every matrix coherent (major*minor = stored elements within usize/isize bounds), hence every reachable state of any history is coherent; "
            "in a coherent matrix every in-bounds (row,col) resolves to its own distinct live element. The machine is run operation by operation against the crate on random histories over the whole public "
            "alphabet with four element types (heap-owning symbolic, 24-byte plain, two zero-sized), with an independent coherence probe and a drop/clone ledger inside the harness.",
            TB + " Drop/clone accounting is observed (ledger: live elements = sum of sizes after every operation, no double drop, nothing live at the end), not proved; "
            "stated for every element size incl. zero-sized types (es >= 0); for zero-sized types inputs with more than usize::MAX elements in total are excluded (Vec::extend panics there, which the model does not reproduce).", "DESIGN §7 C01"),
})
CLAIMED.update({
    'C02': ("Rocq theorems over a free-monad fault model (snapshots at every caller-code call) + exhaustive fault enumeration against the crate",
            "PARTIAL. Proved: for resize (repaired code, every k, every shape pair), clear and the class of element-by-element in-place updates, the state a catch_unwind finds behind the receiver is coherent "
            "whichever call to caller code panics; the pre-repair resize is refuted by a witness (finding F1). Enumerated against the crate: every operation family that calls caller code x 8 shapes x both orders x "
            "every k (Default/Clone/Drop/PartialEq/Display/Debug/operators/closures/accessors, rayon included): after the caught panic every surviving matrix is probed (coherence, ledger, double drops, "
            "agreement with the fault model for resize / in-place updates / clear), then used and dropped.",
            TB + " std's unwinding behaviour, rayon's panic propagation and the 'assembled after the last caller call' classification of the consuming operations are observed, not proved.", "DESIGN §7 C02"),
})
CLAIMED.update({
    'C03': ("Rocq proofs about the two pointer-level state machines of iter_mut.rs (both arms) under every interleaving + differential correspondence with pointer-event hooks",
            "The machines IterVectorsMut / IterNthVectorMut are modelled statement for statement on pointer values (NonNull::add/sub = UB outside the allocation, new_unchecked(null) = UB, machine-integer "
            "arithmetic) for every element size incl. zero and every alignment. Proved for every layout satisfying the two matrix layouts' arithmetic and EVERY finite program of next/next_back calls on the "
            "outer iterator and all inner iterators kept alive: no UB and no panic, each position handed out at most once, exactly once when exhausted, at the address base + index*size of its element "
            "(zero-sized: a counter in 1..=len, never null or wrapped), len() exact at every step. The public entry points are part of the proof: iter_rows_mut / iter_cols_mut of a coherent matrix "
            "(through over_major_axis / over_minor_axis, the unchecked NonNull / NonZero conversions and assemble, all translated from the source) build exactly that machine in the layout of the storage order, "
            "an element-less matrix gets the detached empty iterator (C03_entry_*). Proving the counters never overflow exposed finding F4 (fixed in /repo; old constructor refuted by witness). "
            "Correspondence: nested scripts of next / next_back / len / nth(k) / nth_back(k) on all shapes <= 4x4, both orders/axes, five element types (40, 24, 1, 0, 0 bytes; with and without drop glue), exhaustive short scripts, pointer events range-checked via verif-hooks, "
            "and zero-sized matrices with up to usize::MAX elements of alignment 1..8 run against the extracted pointer-level model.",
            TB + " Provenance and aliasing are represented by addresses and allocation bounds only.", "DESIGN §7 C03"),
})
CLAIMED.update({
    'C20': ("Rocq theorems on a character-level model of src/fmt.rs (cache abstraction: lines consumed per logical position) + differential correspondence on the formatted strings in three feature builds",
            "Proved on the model (every coherent matrix, every shape incl. degenerate ones, both orders, every rendering function: any width, any number of lines): Display and Debug never panic - the per-element "
            "line cache is only indexed inside its bounds; element-less matrices print \"[]\"; otherwise the text equals display_text / debug_text, a pure fold over rows, lines and columns of the k-th line of the element "
            "at each logical position (each element's k-th line printed exactly once, in row then column order), so Display is identical for equal matrices in different storage orders; for single-line renderings Display is "
            "one bracketed line per logical row, cells in column order, all lines equally wide (also proved for Debug's row lines); Debug labels each cell with flat(row, col) = its position in the element store and numbers rows and columns. "
            "Correspondence + direct oracles: the exact strings of Display and Debug equal the model's for every shape <= 4x4 in both orders over a table of renderings (empty, multi-byte, multi-line, CRLF, trailing newline, wide) "
            "in the crate's three feature configurations (default, no default features, full with the colour feature writing to a pipe).",
            TB + " str::lines, `{:w$}` padding (one column per char) and usize printing are modelled std behaviour; owo-colors/supports-color on a non-terminal is observed, not proved; colours-supported output is out of scope of the property.", "DESIGN §7 C20"),
})
NOT_APPLICABLE = {}
