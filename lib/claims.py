"""Which properties are claimed in MANIFEST.json, with the words that go there."""
TB = ("Trusted: Coq kernel (coqc, full .vo), no axioms (Print Assumptions = closed for every theorem); the hand-written model "
      "is tied to the code only by the correspondence check (harness + extracted model on the same cases), so assurance is "
      "bounded by that check's generators; extraction with ExtrOcamlBasic; std/Vec/ptr semantics are modelled, not verified.")
CLAIMED = {
    'C04': ("Rocq theorems on the index kernel model + differential correspondence",
            "For all coherent matrices, all usize pairs and all accessor streams (stateful index types): get/get_mut/[] are exact, "
            "read nothing on failure and call each accessor once; proved in Rocq on the model, model validated against the crate on every shape <= 3x3, extreme values and scripted accessors.",
            TB, "DESIGN §7 C04"),
    'C13': ("Rocq theorems on the wrapping-index kernel model + differential correspondence",
            "For every isize pair (incl. isize::MIN/MAX) and every coherent non-empty matrix the wrapping forms address (row mod nrows, col mod ncols); "
            "empty matrices fail/panic before any access; proved for any pointer width, model validated on windows of several periods and all extreme pairs.",
            TB, "DESIGN §7 C13"),
}
NOT_APPLICABLE = {}
for _p in ['C01', 'C02', 'C03', 'C05', 'C06', 'C07', 'C08', 'C09', 'C10', 'C11', 'C12', 'C14', 'C15', 'C16', 'C17', 'C18', 'C19', 'C20']:
    NOT_APPLICABLE[_p] = "not claimed yet: the check for this property is still being built in this round (the technique applies; see DESIGN.md §7)"
